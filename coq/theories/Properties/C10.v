(* C10 — recovering a signer from arbitrary raw transaction bytes is total and sound.
   Statements only; proofs live in Tx/RecoverProofs.v (totality), Tx/RecoverProofs2.v (soundness) and
   Tx/RecoverProofs3.v (input elements = specification elements of the returned fields).

   The model (Tx/RecoverModel.v) takes the hash function [H] and the secp256k1 library call
   [RD = (s *SignatureData).RecoverDirect] as parameters; every theorem quantifies over them and
   states the one law of [RD] it needs as a hypothesis (both laws are C05's subject).
   Specification side: Tx/Spec.v (transaction preimages written from the Yellow Paper, EIP-155,
   EIP-2718, EIP-1559 over the Yellow-Paper RLP of Rlp/Spec.v) and Tx/Norm.v (Go struct -> fields). *)
From Coq Require Import List NArith ZArith Lia Bool.
From Coq Require Import Init.Byte.
From FFS Require Import Base.Res Base.Bytes Rlp.Model Rlp.Spec Rlp.Proofs Tx.Model Tx.Spec Tx.Norm
  Tx.RecoverModel Tx.RecoverProofs Tx.RecoverProofs2 Tx.RecoverProofs3 Tx.RecoverSecp.
From FFS Require Crypto.Ecdsa Secp.Model Secp.Proofs.
Import ListNotations.

(* 1. Totality: for every byte string and every chain id, none of the four entry points panics
      (provided RecoverDirect itself does not panic on non-negative R and S — property C05). *)
Theorem C10_total :
  forall (H : bytes -> bytes) (RD : sigdata -> bytes -> Z -> res bytes),
    (forall v r s d c, (0 <= r)%Z -> (0 <= s)%Z -> RD (v, r, s) d c <> Panic) ->
    forall (bs : bytes) (chain : Z),
      RecoverRawTransaction H RD bs chain <> Panic /\
      RecoverLegacyRawTransaction H RD bs chain <> Panic /\
      RecoverEIP1559Transaction H RD bs chain <> Panic /\
      DecodeEIP1559SignaturePayload bs chain <> Panic.
Proof. exact C10_total_all. Qed.
Print Assumptions C10_total.

(* 2. Soundness.  Whenever RecoverRawTransaction returns (address, transaction, payload), for a
      chain id in the int64 range of non-negative values:
      - legacy input: the input decodes to a list; the integers (r,s) at positions 7,8 verify over
        H(payload) for a key with the returned address; the payload is the *original-format* preimage
        of the returned fields when the V element is 27/28 and the *EIP-155* preimage for the supplied
        chain otherwise (V then being 35/36 + 2*chain in int64 arithmetic);
      - type-0x02 input: the embedded chain id equals the supplied one; (r,s) at positions 10,11
        verify over H(payload) for a key with the returned address; the payload is 0x02 || RLP of the
        EIP-1559 list of the returned fields *with the access list found in the input*.
      [_partial]: the specification (Tx/Spec.v) and the returned Transaction have no access list, so
      "the payload is the specification preimage of the returned fields" holds exactly when the
      input's access list is empty (theorem 3); for a non-empty one it fails (theorem 4, known
      finding C10/eip1559-access-list-dropped). *)
Theorem C10_sound_partial :
  forall (H : bytes -> bytes) (RD : sigdata -> bytes -> Z -> res bytes)
         (PubKey : Type) (addr_of : PubKey -> bytes) (verify : PubKey -> bytes -> Z -> Z -> Prop),
    (forall v r s d c a, RD (v, r, s) d c = Ok a -> exists q, a = addr_of q /\ verify q d r s) ->
    forall bs chain a t p, (0 <= chain < 2 ^ 63)%Z ->
      RecoverRawTransaction H RD bs chain = Ok (a, t, p) ->
      (exists l pos e6 e7 e8 q,
        Decode bs = Ok (Some (Lst l), pos) /\
        nth_error l 6 = Some e6 /\ nth_error l 7 = Some e7 /\ nth_error l 8 = Some e8 /\
        a = addr_of q /\ verify q (H p) (Z.of_N (elem_int e7)) (Z.of_N (elem_int e8)) /\
        ( (v_is_legacy (legacy_v e6) /\ p = spec_preimage Original (norm t) 0) \/
          (~ v_is_legacy (legacy_v e6) /\ v_is_eip155 (legacy_v e6) chain /\
           p = spec_preimage Eip155 (norm t) (Z.to_N chain)) ))
      \/
      (exists rest l pos c0 al e10 e11 q,
        bs = x02 :: rest /\ Decode rest = Ok (Some (Lst l), pos) /\
        nth_error l 0 = Some (Str c0) /\ Z.of_N (of_be c0) = chain /\
        nth_error l 8 = Some (Lst al) /\ nth_error l 10 = Some e10 /\ nth_error l 11 = Some e11 /\
        a = addr_of q /\ verify q (H p) (Z.of_N (elem_int e10)) (Z.of_N (elem_int e11)) /\
        p = x02 :: RLP (L (eip1559_body_al (norm t) (Z.to_N chain) (L (map to_tree al))))).
Proof. exact RecoverRaw_sound. Qed.
Print Assumptions C10_sound_partial.

(* 3. With the empty access list the EIP-1559 payload above is the preimage of Tx/Spec.v. *)
Theorem C10_sound_empty_access_list :
  forall f c, x02 :: RLP (L (eip1559_body_al f c (L (map to_tree [])))) = spec_preimage Eip1559 f c.
Proof. exact eip1559_al_empty_preimage. Qed.
Print Assumptions C10_sound_empty_access_list.

(* 4. The unguarded clause is false of the faithful model: a type-0x02 transaction with a non-empty
      access list is accepted and the payload is not the specification preimage of the returned
      fields. *)
Theorem C10_sound_refuted :
  exists H RD bs chain a t p,
    RecoverRawTransaction H RD bs chain = Ok (a, t, p) /\
    p <> spec_preimage Eip1559 (norm t) (Z.to_N chain).
Proof. exact sound_access_list_refuted. Qed.
Print Assumptions C10_sound_refuted.

(* 5. The entry points called directly. *)
Theorem C10_sound_legacy_entry :
  forall (H : bytes -> bytes) (RD : sigdata -> bytes -> Z -> res bytes)
         (PubKey : Type) (addr_of : PubKey -> bytes) (verify : PubKey -> bytes -> Z -> Z -> Prop),
    (forall v r s d c a, RD (v, r, s) d c = Ok a -> exists q, a = addr_of q /\ verify q d r s) ->
    forall bs chain a t p, (0 <= chain < 2 ^ 63)%Z ->
      RecoverLegacyRawTransaction H RD bs chain = Ok (a, t, p) ->
      exists l pos e6 e7 e8 q,
        Decode bs = Ok (Some (Lst l), pos) /\
        nth_error l 6 = Some e6 /\ nth_error l 7 = Some e7 /\ nth_error l 8 = Some e8 /\
        a = addr_of q /\ verify q (H p) (Z.of_N (elem_int e7)) (Z.of_N (elem_int e8)) /\
        ( (v_is_legacy (legacy_v e6) /\ p = spec_preimage Original (norm t) 0) \/
          (~ v_is_legacy (legacy_v e6) /\ v_is_eip155 (legacy_v e6) chain /\
           p = spec_preimage Eip155 (norm t) (Z.to_N chain)) ).
Proof. exact RecoverLegacy_sound. Qed.
Print Assumptions C10_sound_legacy_entry.

Theorem C10_sound_eip1559_entry_partial :
  forall (H : bytes -> bytes) (RD : sigdata -> bytes -> Z -> res bytes)
         (PubKey : Type) (addr_of : PubKey -> bytes) (verify : PubKey -> bytes -> Z -> Z -> Prop),
    (forall v r s d c a, RD (v, r, s) d c = Ok a -> exists q, a = addr_of q /\ verify q d r s) ->
    forall bs chain a t p,
      RecoverEIP1559Transaction H RD bs chain = Ok (a, t, p) ->
      exists rest l pos c0 al e10 e11 q,
        bs = x02 :: rest /\ Decode rest = Ok (Some (Lst l), pos) /\
        nth_error l 0 = Some (Str c0) /\ Z.of_N (of_be c0) = chain /\
        nth_error l 8 = Some (Lst al) /\ nth_error l 10 = Some e10 /\ nth_error l 11 = Some e11 /\
        a = addr_of q /\ verify q (H p) (Z.of_N (elem_int e10)) (Z.of_N (elem_int e11)) /\
        p = x02 :: RLP (L (eip1559_body_al (norm t) (Z.to_N chain) (L (map to_tree al)))).
Proof. exact Recover1559_sound. Qed.
Print Assumptions C10_sound_eip1559_entry_partial.

(* DecodeEIP1559SignaturePayload returns only the transaction: the first nine elements of its input,
   re-encoded, are the EIP-1559 preimage of the returned fields (with the input's access list). *)
Theorem C10_decode_payload_partial :
  forall bs chain t,
    DecodeEIP1559SignaturePayload bs chain = Ok t ->
    exists rest l pos c0 al,
      bs = x02 :: rest /\ Decode rest = Ok (Some (Lst l), pos) /\
      nth_error l 0 = Some (Str c0) /\ Z.of_N (of_be c0) = chain /\ nth_error l 8 = Some (Lst al) /\
      x02 :: encode (Lst (firstn 9 l)) =
        x02 :: RLP (L (eip1559_body_al (norm t) (Z.to_N chain) (L (map to_tree al)))).
Proof. exact Decode1559_sound. Qed.
Print Assumptions C10_decode_payload_partial.

(* 6. Chain id: a type-0x02 input whose embedded chain id (the integer value of the first list
      element, of any width; a list counts as 0) differs from the supplied chain id is refused by
      every entry point that accepts type 0x02 — for every chain id, hash and RecoverDirect. *)
Theorem C10_chain_id :
  forall (H : bytes -> bytes) (RD : sigdata -> bytes -> Z -> res bytes)
         rest l pos e0 chain,
    Decode rest = Ok (Some (Lst l), pos) -> nth_error l 0 = Some e0 ->
    Z.of_N (elem_int e0) <> chain ->
    (exists e, RecoverRawTransaction H RD (x02 :: rest) chain = Err e) /\
    (exists e, RecoverEIP1559Transaction H RD (x02 :: rest) chain = Err e) /\
    (exists e, DecodeEIP1559SignaturePayload (x02 :: rest) chain = Err e).
Proof. exact chain_id_mismatch_refused. Qed.
Print Assumptions C10_chain_id.

(* 7. The same with the secp256k1 layer of property C05 plugged in for [RD]: for every group
      satisfying the ECDSA laws of Crypto/Ecdsa.v (secp256k1 being the intended instance — that it
      satisfies them is the trusted mathematical fact of DESIGN §5) and every 32-byte hash, no
      hypothesis about RecoverDirect is left: it is C05's model (Secp/Model.v: getVNormalized, range
      checks, FillBytes, RecoverCompact, PublicKeyToAddress), and "verifies" is textbook ECDSA
      verification [ecdsa_verify] of (r,s) over the first 32 bytes of H(payload). *)
Theorem C10_total_secp256k1 :
  forall (o : Crypto.Ecdsa.group_ops) (H : bytes -> bytes), (forall x, length (H x) = 32%nat) ->
    forall (bs : bytes) (chain : Z),
      RecoverRawTransaction H (RD_secp o H) bs chain <> Panic /\
      RecoverLegacyRawTransaction H (RD_secp o H) bs chain <> Panic /\
      RecoverEIP1559Transaction H (RD_secp o H) bs chain <> Panic /\
      DecodeEIP1559SignaturePayload bs chain <> Panic.
Proof. exact total_secp. Qed.
Print Assumptions C10_total_secp256k1.

Theorem C10_sound_secp256k1_partial :
  forall (o : Crypto.Ecdsa.group_ops), Crypto.Ecdsa.laws o ->
  forall (H : bytes -> bytes), (forall x, length (H x) = 32%nat) ->
    forall bs chain a t p, (0 <= chain < 2 ^ 63)%Z ->
      RecoverRawTransaction H (RD_secp o H) bs chain = Ok (a, t, p) ->
      (exists l pos e6 e7 e8 q,
        Decode bs = Ok (Some (Lst l), pos) /\
        nth_error l 6 = Some e6 /\ nth_error l 7 = Some e7 /\ nth_error l 8 = Some e8 /\
        a = secp_addr_of o H q /\
        secp_verify o q (H p) (Z.of_N (elem_int e7)) (Z.of_N (elem_int e8)) /\
        ( (v_is_legacy (legacy_v e6) /\ p = spec_preimage Original (norm t) 0) \/
          (~ v_is_legacy (legacy_v e6) /\ v_is_eip155 (legacy_v e6) chain /\
           p = spec_preimage Eip155 (norm t) (Z.to_N chain)) ))
      \/
      (exists rest l pos c0 al e10 e11 q,
        bs = x02 :: rest /\ Decode rest = Ok (Some (Lst l), pos) /\
        nth_error l 0 = Some (Str c0) /\ Z.of_N (of_be c0) = chain /\
        nth_error l 8 = Some (Lst al) /\ nth_error l 10 = Some e10 /\ nth_error l 11 = Some e11 /\
        a = secp_addr_of o H q /\
        secp_verify o q (H p) (Z.of_N (elem_int e10)) (Z.of_N (elem_int e11)) /\
        p = x02 :: RLP (L (eip1559_body_al (norm t) (Z.to_N chain) (L (map to_tree al))))).
Proof. exact sound_secp. Qed.
Print Assumptions C10_sound_secp256k1_partial.

(* 8. What "the format the V element selects" means in terms of the integer V written in the input
      (the code reduces V to int64 first): original format iff V = 27/28 modulo 2^64, EIP-155 iff
      V = 35 + 2*chain + parity modulo 2^64. *)
Theorem C10_legacy_v_meaning :
  forall vb chain,
    let V := Z.of_N (of_be vb) in
    (v_is_legacy (legacy_v (Str vb)) <-> exists p k, (p = 0 \/ p = 1)%Z /\ V = (27 + p + k * 2 ^ 64)%Z) /\
    (v_is_eip155 (legacy_v (Str vb)) chain <->
       exists p k, (p = 0 \/ p = 1)%Z /\ V = (35 + 2 * chain + p + k * 2 ^ 64)%Z).
Proof. exact legacy_v_meaning. Qed.
Print Assumptions C10_legacy_v_meaning.

(* 9. (round 3) The elements of an accepted input ARE the specification's elements of the returned fields -
      with NO hypothesis about the hash function or RecoverDirect and for EVERY chain id (negative ones
      included; compare the bound of theorem 2): whenever an entry point returns a transaction, the input
      decodes to a list of at least 9 / 12 / 9 elements whose first six (legacy) or nine (type 0x02)
      elements, read as Yellow-Paper trees, are exactly the list Tx/Spec.v builds from the returned fields
      (type 0x02: with the access list found in the input).  Hence no accepted input writes a field in a
      second way (leading zero byte, 19-byte destination, a list for a string): the repaired defect D10f. *)
Theorem C10_elements_are_fields :
  forall (H : bytes -> bytes) (RD : sigdata -> bytes -> Z -> res bytes) (bs : bytes) (chain : Z),
    (forall a t p, RecoverRawTransaction H RD bs chain = Ok (a, t, p) ->
       (exists l pos,
          Decode bs = Ok (Some (Lst l), pos) /\ (9 <= length l)%nat /\
          map to_tree (firstn 6 l) = legacy_body (norm t))
       \/
       (exists rest l pos al,
          bs = x02 :: rest /\ Decode rest = Ok (Some (Lst l), pos) /\ (12 <= length l)%nat /\
          nth_error l 8 = Some (Lst al) /\
          map to_tree (firstn 9 l) = eip1559_body_al (norm t) (Z.to_N chain) (L (map to_tree al)))) /\
    (forall a t p, RecoverLegacyRawTransaction H RD bs chain = Ok (a, t, p) ->
       exists l pos,
         Decode bs = Ok (Some (Lst l), pos) /\ (9 <= length l)%nat /\
         map to_tree (firstn 6 l) = legacy_body (norm t)) /\
    (forall a t p, RecoverEIP1559Transaction H RD bs chain = Ok (a, t, p) ->
       exists rest l pos al,
         bs = x02 :: rest /\ Decode rest = Ok (Some (Lst l), pos) /\ (12 <= length l)%nat /\
         nth_error l 8 = Some (Lst al) /\
         map to_tree (firstn 9 l) = eip1559_body_al (norm t) (Z.to_N chain) (L (map to_tree al))) /\
    (forall t, DecodeEIP1559SignaturePayload bs chain = Ok t ->
       exists rest l pos al,
         bs = x02 :: rest /\ Decode rest = Ok (Some (Lst l), pos) /\ (9 <= length l)%nat /\
         nth_error l 8 = Some (Lst al) /\
         map to_tree (firstn 9 l) = eip1559_body_al (norm t) (Z.to_N chain) (L (map to_tree al))).
Proof. exact elements_are_fields_all. Qed.
Print Assumptions C10_elements_are_fields.

(* ---------- non-vacuity ---------- *)
(* a legacy EIP-155 transaction (chain 1, V = 37) and a type-0x02 transaction are accepted by the
   model under the trivial parameters (which satisfy both hypotheses used above), so the premises of
   theorems 2 and 5 are satisfiable; 0x02 alone, 0x02 0x05 and a list in the V position — inputs on
   which the unrepaired code panicked — are errors. *)
Example C10_nonvacuous_legacy :
  let bs := [xc9; x01; x02; x03; x80; x04; x80; x25; x01; x01] in
  exists a t p, RecoverRawTransaction H_triv RD_triv bs 1 = Ok (a, t, p) /\
    p = spec_preimage Eip155 (norm t) 1 /\ tx_nonce t = Some 1%Z /\ tx_to t = None.
Proof. cbv zeta. eexists. eexists. eexists. split; [vm_compute; reflexivity|]. vm_compute. auto. Qed.

Example C10_nonvacuous_eip1559 :
  let bs := [x02; xcc; x01; x05; x02; x03; x04; x80; x06; x80; xc0; x01; x07; x08] in
  exists a t p, RecoverRawTransaction H_triv RD_triv bs 1 = Ok (a, t, p) /\
    p = spec_preimage Eip1559 (norm t) 1 /\ tx_nonce t = Some 5%Z.
Proof. cbv zeta. eexists. eexists. eexists. split; [vm_compute; reflexivity|]. vm_compute. auto. Qed.

Example C10_nonvacuous_laws :
  (forall v r s d c, (0 <= r)%Z -> (0 <= s)%Z -> RD_triv (v, r, s) d c <> Panic) /\
  (forall v r s d c a, RD_triv (v, r, s) d c = Ok a ->
     exists q : unit, a = (fun _ => repeat x01 20) q /\ (fun _ _ _ _ => True) q d r s).
Proof. split; [discriminate|]. intros v r s d c a X. injection X as <-. exists tt. auto. Qed.

Example C10_repaired_witnesses :
  is_err (RecoverRawTransaction H_triv RD_triv [x02] 1) = true /\
  is_err (RecoverRawTransaction H_triv RD_triv [x02; x05] 1) = true /\
  is_err (RecoverRawTransaction H_triv RD_triv [xc9; x80; x80; x80; x80; x80; x80; xc0; x80; x80] 1) = true /\
  is_err (RecoverLegacyRawTransaction H_triv RD_triv [x05] 1) = true /\
  is_err (RecoverRawTransaction H_triv RD_triv
            [x02; xd4; x89; x01; x00; x00; x00; x00; x00; x00; x00; x01; x05; x02; x03; x04; x80; x06; x80; xc0; x01; x07; x08] 1) = true.
Proof. vm_compute. auto. Qed.

(* theorem 9 is not vacuous for a negative chain id either: a legacy transaction in the EIP-155 form for
   chain -1 (V = 35 + 2*(-1) = 33) is accepted, and its first six elements are the specification's *)
Example C10_nonvacuous_elements_negative_chain :
  let bs := [xc9; x01; x02; x03; x80; x04; x80; x21; x01; x01] in
  exists a t p l pos, RecoverRawTransaction H_triv RD_triv bs (-1) = Ok (a, t, p) /\
    Decode bs = Ok (Some (Lst l), pos) /\ map to_tree (firstn 6 l) = legacy_body (norm t) /\
    tx_nonce t = Some 1%Z.
Proof. cbv zeta. do 5 eexists. split; [vm_compute; reflexivity|]. vm_compute. auto. Qed.

(* Source constants (translator harness/cmd/gen_consts -> Gen/Consts.v, regenerated from /repo on every
   run): the type byte and the RLP constants the recovery model hard-codes equal what
   pkg/ethsigner/transaction.go and pkg/rlp/decode.go declare NOW.  The models keep their own
   literals; this theorem is what breaks when one of them changes in the source. *)
From FFS Require Gen.Consts Rlp.Model Tx.Model.
Theorem C10_source_constants :
  Gen.Consts.ethsigner_TransactionType1559 = Z.of_N (b2n Tx.Model.TransactionType1559) /\
  Gen.Consts.rlp_shortString = Z.of_N Rlp.Model.shortString /\
  Gen.Consts.rlp_longString = Z.of_N Rlp.Model.longString /\
  Gen.Consts.rlp_shortList = Z.of_N Rlp.Model.shortList /\
  Gen.Consts.rlp_longList = Z.of_N Rlp.Model.longList /\
  Gen.Consts.rlp_shortToLong = Z.of_N Rlp.Model.shortToLong /\
  Gen.Consts.rlp_maxInt32 = Z.of_N Rlp.Model.maxInt32.
Proof. vm_compute. repeat split; reflexivity. Qed.
Print Assumptions C10_source_constants.

(* 10. (round 5) Soundness for EVERY chain id.  Theorems 2, 5 and 7 assume 0 <= chain < 2^63.  The upper
      bound is the type of the parameter (Go int64); here the lower bound goes too, so the hypothesis
      left is the range of the parameter's type and nothing else.  For every chain id of the int64
      range, whenever an address is returned:
      - legacy input: the V element is a string (a list is refused); (r,s) of the input verify over
        H(payload) for a key with the returned address; with V the integer written in the input,
        either V = 27/28 (+ k*2^64) and the payload is the original-format preimage of the returned
        fields, or V = 35 + 2*chain + parity (+ k*2^64, chain with its sign) and the payload is the
        EIP-155 preimage of the returned fields for the chain id |chain| (the code writes
        big.NewInt(chainID).Bytes(), the magnitude; for 0 <= chain this is theorem 2 word for word);
      - type-0x02 input: as theorem 2 (the supplied chain id is then necessarily non-negative).
      The "+ k*2^64" is the Int64() reduction of V; theorem 12 shows when it is vacuous. *)
From FFS Require Import Tx.RecoverProofs4.
Theorem C10_sound_every_chain_partial :
  forall (H : bytes -> bytes) (RD : sigdata -> bytes -> Z -> res bytes)
         (PubKey : Type) (addr_of : PubKey -> bytes) (verify : PubKey -> bytes -> Z -> Z -> Prop),
    (forall v r s d c a, RD (v, r, s) d c = Ok a -> exists q, a = addr_of q /\ verify q d r s) ->
    forall bs chain a t p, (- 2 ^ 63 <= chain < 2 ^ 63)%Z ->
      RecoverRawTransaction H RD bs chain = Ok (a, t, p) ->
      (exists l pos vb e7 e8 q,
        Decode bs = Ok (Some (Lst l), pos) /\
        nth_error l 6 = Some (Str vb) /\ nth_error l 7 = Some e7 /\ nth_error l 8 = Some e8 /\
        a = addr_of q /\ verify q (H p) (Z.of_N (elem_int e7)) (Z.of_N (elem_int e8)) /\
        ( (V_original (Z.of_N (of_be vb)) /\ p = spec_preimage Original (norm t) 0) \/
          (~ V_original (Z.of_N (of_be vb)) /\ V_eip155 (Z.of_N (of_be vb)) chain /\
           p = spec_preimage Eip155 (norm t) (Z.abs_N chain)) ))
      \/
      (exists rest l pos c0 al e10 e11 q,
        (0 <= chain)%Z /\
        bs = x02 :: rest /\ Decode rest = Ok (Some (Lst l), pos) /\
        nth_error l 0 = Some (Str c0) /\ Z.of_N (of_be c0) = chain /\
        nth_error l 8 = Some (Lst al) /\ nth_error l 10 = Some e10 /\ nth_error l 11 = Some e11 /\
        a = addr_of q /\ verify q (H p) (Z.of_N (elem_int e10)) (Z.of_N (elem_int e11)) /\
        p = x02 :: RLP (L (eip1559_body_al (norm t) (Z.abs_N chain) (L (map to_tree al))))).
Proof. exact RecoverRaw_exact. Qed.
Print Assumptions C10_sound_every_chain_partial.

Theorem C10_sound_legacy_entry_every_chain :
  forall (H : bytes -> bytes) (RD : sigdata -> bytes -> Z -> res bytes)
         (PubKey : Type) (addr_of : PubKey -> bytes) (verify : PubKey -> bytes -> Z -> Z -> Prop),
    (forall v r s d c a, RD (v, r, s) d c = Ok a -> exists q, a = addr_of q /\ verify q d r s) ->
    forall bs chain a t p, (- 2 ^ 63 <= chain < 2 ^ 63)%Z ->
      RecoverLegacyRawTransaction H RD bs chain = Ok (a, t, p) ->
      exists l pos vb e7 e8 q,
        Decode bs = Ok (Some (Lst l), pos) /\
        nth_error l 6 = Some (Str vb) /\ nth_error l 7 = Some e7 /\ nth_error l 8 = Some e8 /\
        a = addr_of q /\ verify q (H p) (Z.of_N (elem_int e7)) (Z.of_N (elem_int e8)) /\
        ( (V_original (Z.of_N (of_be vb)) /\ p = spec_preimage Original (norm t) 0) \/
          (~ V_original (Z.of_N (of_be vb)) /\ V_eip155 (Z.of_N (of_be vb)) chain /\
           p = spec_preimage Eip155 (norm t) (Z.abs_N chain)) ).
Proof. exact RecoverLegacy_exact. Qed.
Print Assumptions C10_sound_legacy_entry_every_chain.

(* 11. The same with C05's secp256k1 layer for [RD]: no hypothesis about RecoverDirect, every chain id
       of the int64 range. *)
Theorem C10_sound_secp256k1_every_chain_partial :
  forall (o : Crypto.Ecdsa.group_ops), Crypto.Ecdsa.laws o ->
  forall (H : bytes -> bytes), (forall x, length (H x) = 32%nat) ->
    forall bs chain a t p, (- 2 ^ 63 <= chain < 2 ^ 63)%Z ->
      RecoverRawTransaction H (RD_secp o H) bs chain = Ok (a, t, p) ->
      (exists l pos vb e7 e8 q,
        Decode bs = Ok (Some (Lst l), pos) /\
        nth_error l 6 = Some (Str vb) /\ nth_error l 7 = Some e7 /\ nth_error l 8 = Some e8 /\
        a = secp_addr_of o H q /\
        secp_verify o q (H p) (Z.of_N (elem_int e7)) (Z.of_N (elem_int e8)) /\
        ( (V_original (Z.of_N (of_be vb)) /\ p = spec_preimage Original (norm t) 0) \/
          (~ V_original (Z.of_N (of_be vb)) /\ V_eip155 (Z.of_N (of_be vb)) chain /\
           p = spec_preimage Eip155 (norm t) (Z.abs_N chain)) ))
      \/
      (exists rest l pos c0 al e10 e11 q,
        (0 <= chain)%Z /\
        bs = x02 :: rest /\ Decode rest = Ok (Some (Lst l), pos) /\
        nth_error l 0 = Some (Str c0) /\ Z.of_N (of_be c0) = chain /\
        nth_error l 8 = Some (Lst al) /\ nth_error l 10 = Some e10 /\ nth_error l 11 = Some e11 /\
        a = secp_addr_of o H q /\
        secp_verify o q (H p) (Z.of_N (elem_int e10)) (Z.of_N (elem_int e11)) /\
        p = x02 :: RLP (L (eip1559_body_al (norm t) (Z.abs_N chain) (L (map to_tree al))))).
Proof. exact exact_secp. Qed.
Print Assumptions C10_sound_secp256k1_every_chain_partial.

(* 12. When the Int64() reduction of V is vacuous: for a V element of at most 8 bytes (V < 2^64) and
       0 <= chain <= 2^63 - 19 - every chain id for which 36 + 2*chain is below 2^64 - the accepted
       values are exactly V = 27, 28 (original form) and V = 35 + 2*chain, 36 + 2*chain (EIP-155);
       [V_original] / [V_eip155] are by definition the statements of theorem 8 (C10_legacy_v_meaning). *)
Theorem C10_legacy_v_exact :
  forall vb chain,
    let V := Z.of_N (of_be vb) in
    (length vb <= 8)%nat -> (0 <= chain <= 2 ^ 63 - 19)%Z ->
    (V_original V <-> V = 27 \/ V = 28)%Z /\
    (V_eip155 V chain <-> V = 35 + 2 * chain \/ V = 36 + 2 * chain)%Z.
Proof. exact (fun vb chain L => legacy_v_exact vb chain (short_v_below vb L)). Qed.
Print Assumptions C10_legacy_v_exact.

(* theorem 10 is not vacuous outside the range of theorem 2: the most negative chain id, -2^63, with
   V = 35 (= 35 + 2*(-2^63) + 2^64) is accepted and the payload is the EIP-155 preimage of the
   returned fields for the chain id 2^63 = |chain|; chain -1 with V = 33 likewise for chain id 1 *)
Example C10_nonvacuous_every_chain :
  let bs := [xc9; x01; x02; x03; x80; x04; x80; x23; x01; x01] in
  let bs' := [xc9; x01; x02; x03; x80; x04; x80; x21; x01; x01] in
  (exists a t p, RecoverRawTransaction H_triv RD_triv bs (- 2 ^ 63) = Ok (a, t, p) /\
     p = spec_preimage Eip155 (norm t) (2 ^ 63) /\ V_eip155 35 (- 2 ^ 63) /\ ~ V_original 35) /\
  (exists a t p, RecoverRawTransaction H_triv RD_triv bs' (-1) = Ok (a, t, p) /\
     p = spec_preimage Eip155 (norm t) 1 /\ V_eip155 33 (-1)).
Proof.
  cbv zeta. split.
  - do 3 eexists. split; [vm_compute; reflexivity|]. split; [vm_compute; reflexivity|]. split.
    + exists 0%Z, 1%Z. split; [auto|reflexivity].
    + intros [p [k [Hp E]]]. lia.
  - do 3 eexists. split; [vm_compute; reflexivity|]. split; [vm_compute; reflexivity|].
    exists 0%Z, 0%Z. split; [auto|reflexivity].
Qed.

(* ====================================================================================================
   Answers to the referee report design/reviews/C10.md (proofs: Tx/RecoverProofs5.v, Tx/RecoverProofs6.v)
   ==================================================================================================== *)
From FFS Require Import Tx.SignProofs2 Tx.RecoverProofs5 Tx.RecoverProofs6.

(* 13. (referee I2) Nothing about V is lost.  With NO hypothesis on the hash function, on RecoverDirect
       or on the chain id: whenever RecoverRawTransaction returns (a, t, p), the address a is exactly
       RecoverDirect's answer for the signature read from the input - V reduced as the code reduces it
       ([legacy_v_passed] of the int64 value of element 6, which is 27 or 28; the int64 value of
       element 9 for type 0x02), r and s the integers at positions 7,8 / 10,11 - over H(p) and the
       supplied chain id.  Every other soundness theorem of this file follows from this one and a law
       of RecoverDirect; a model that dropped or flipped V would not satisfy it. *)
Theorem C10_address_is_RecoverDirect_answer :
  forall (H : bytes -> bytes) (RD : sigdata -> bytes -> Z -> res bytes) bs chain a t p,
    RecoverRawTransaction H RD bs chain = Ok (a, t, p) ->
    (exists l pos vb e7 e8,
      Decode bs = Ok (Some (Lst l), pos) /\
      nth_error l 6 = Some (Str vb) /\ nth_error l 7 = Some e7 /\ nth_error l 8 = Some e8 /\
      let vp := legacy_v_passed (wrap64 (Z.of_N (of_be vb))) chain in
      (vp = 27 \/ vp = 28)%Z /\
      RD (vp, Z.of_N (elem_int e7), Z.of_N (elem_int e8)) (H p) chain = Ok a)
    \/
    (exists rest l pos vb e10 e11,
      bs = x02 :: rest /\ Decode rest = Ok (Some (Lst l), pos) /\
      nth_error l 9 = Some (Str vb) /\ nth_error l 10 = Some e10 /\ nth_error l 11 = Some e11 /\
      RD (wrap64 (Z.of_N (of_be vb)), Z.of_N (elem_int e10), Z.of_N (elem_int e11)) (H p) chain = Ok a).
Proof. exact RecoverRaw_call. Qed.
Print Assumptions C10_address_is_RecoverDirect_answer.

(* what [legacy_v_passed] says about the integer V written in the input: it is 27 + parity, where
   V = 27 + parity (original form) or V = 35 + 2*chain + parity (EIP-155), modulo 2^64 *)
Theorem C10_legacy_v_passed_parity :
  forall vb chain,
    let V := Z.of_N (of_be vb) in
    let vp := legacy_v_passed (wrap64 V) chain in
    (vp = 27 \/ vp = 28)%Z ->
    (V_original_p V (vp - 27) \/ (~ V_original V /\ V_eip155_p V chain (vp - 27))).
Proof. exact legacy_v_passed_parity. Qed.
Print Assumptions C10_legacy_v_passed_parity.

(* 14. (referee I2, I6) The secp256k1 family with the recovery id and the key-validity conjunct in the
       conclusion, for EVERY chain id (no range hypothesis at all).  For every group satisfying the
       ECDSA laws and every 32-byte hash, whenever an address is returned:
       - legacy: there is a parity par in {0,1} such that the V written in the input is 27+par
         (original form) or 35+2*chain+par (EIP-155, not also of the original form), modulo 2^64, and
         the key q is THE point [ecdsa_recover] computes from (H(p), r, s) with y-parity par - a
         function, so the mirror key of the other parity is excluded -, q is not the point at
         infinity, the returned address is q's and (r,s) verify for q;
       - type 0x02: the same with the parity C05's getVNormalized ([Secp.Proofs.v_norm]) assigns to
         the int64 value of element 9 for the supplied chain (0/1, 27/28, EIP-155 forms). *)
Theorem C10_sound_secp256k1_recovery_id :
  forall (o : Crypto.Ecdsa.group_ops), Crypto.Ecdsa.laws o ->
  forall (H : bytes -> bytes), (forall x, length (H x) = 32%nat) ->
    forall bs chain a t p,
      RecoverRawTransaction H (RD_secp o H) bs chain = Ok (a, t, p) ->
      (exists l pos vb e7 e8 par q,
        Decode bs = Ok (Some (Lst l), pos) /\
        nth_error l 6 = Some (Str vb) /\ nth_error l 7 = Some e7 /\ nth_error l 8 = Some e8 /\
        (par = 0 \/ par = 1)%Z /\
        (V_original_p (Z.of_N (of_be vb)) par \/
         (~ V_original (Z.of_N (of_be vb)) /\ V_eip155_p (Z.of_N (of_be vb)) chain par)) /\
        Crypto.Ecdsa.ecdsa_recover o (Secp.Model.hash_to_z (H p))
          (Z.of_N (elem_int e7)) (Z.of_N (elem_int e8)) (par =? 1)%Z = Some q /\
        q <> Crypto.Ecdsa.zero o /\ a = secp_addr_of o H q /\
        secp_verify o q (H p) (Z.of_N (elem_int e7)) (Z.of_N (elem_int e8)))
      \/
      (exists rest l pos vb e10 e11 vB q,
        bs = x02 :: rest /\ Decode rest = Ok (Some (Lst l), pos) /\
        nth_error l 9 = Some (Str vb) /\ nth_error l 10 = Some e10 /\ nth_error l 11 = Some e11 /\
        Secp.Proofs.v_norm (wrap64 (Z.of_N (of_be vb))) chain = Some vB /\ (vB = 27 \/ vB = 28)%Z /\
        Crypto.Ecdsa.ecdsa_recover o (Secp.Model.hash_to_z (H p))
          (Z.of_N (elem_int e10)) (Z.of_N (elem_int e11)) (vB =? 28)%Z = Some q /\
        q <> Crypto.Ecdsa.zero o /\ a = secp_addr_of o H q /\
        secp_verify o q (H p) (Z.of_N (elem_int e10)) (Z.of_N (elem_int e11))).
Proof. exact secp_recovery_id. Qed.
Print Assumptions C10_sound_secp256k1_recovery_id.

(* 15. (referee I5) The access-list refutation for EVERY hash function and EVERY RecoverDirect that
       accepts the witness signature (V = 0, r = s = 1 over H(payload), chain 1): the input
       0x02 || rlp([1,0,0,0,0,"",0,"",[[]],0,1,1]) is accepted with that address, and its payload is
       not the specification preimage of the returned fields.  (Theorem 4 exhibited one H and RD.) *)
Theorem C10_sound_refuted_every_RecoverDirect :
  forall (H : bytes -> bytes) (RD : sigdata -> bytes -> Z -> res bytes) a,
    RD (0%Z, 1%Z, 1%Z) (H al_payload) 1%Z = Ok a ->
    exists t, RecoverRawTransaction H RD al_witness 1 = Ok (a, t, al_payload) /\
      al_payload <> spec_preimage Eip1559 (norm t) 1.
Proof. exact refuted_every_RD. Qed.
Print Assumptions C10_sound_refuted_every_RecoverDirect.

(* 16. (referee I3) Canonical inputs are read as the SPECIFICATION says - no decoder in the statement.
       [spec_signed fm f c y r s] (Tx/Spec.v) is the signed transaction written from the Yellow Paper /
       EIP-155 / EIP-1559 over the Yellow-Paper RLP.  For every format, every field tuple of the
       property's range ([fields_in_range]: integers below 2^256, destination absent or 20 bytes,
       data of at most 2^31-1024 bytes), every chain id 0 <= chain < 2^61, y in {0,1}, r, s < 2^256,
       every hash and every RecoverDirect: the model's result on those bytes IS RecoverDirect's answer
       for (V, r, s) over H(spec_preimage fm f c) - V = 27+y for the legacy formats, y for type 0x02 -
       with the fields f and the preimage (acceptance and soundness at once: an equation). *)
Theorem C10_canonical_input_accepted :
  forall (H : bytes -> bytes) (RD : sigdata -> bytes -> Z -> res bytes) fm f chain y r s,
    fields_in_range f -> (0 <= chain < 2 ^ 61)%Z -> (y = 0 \/ y = 1)%N ->
    (r < 2 ^ 256)%N -> (s < 2 ^ 256)%N ->
    let c := Z.to_N chain in
    let pre := spec_preimage fm f c in
    RecoverRawTransaction H RD (spec_signed fm f c y r s) chain =
      do a <- RD (v_seen fm (27 + Z.of_N y), Z.of_N r, Z.of_N s) (H pre) chain;
      Ok (a, recovered_tx fm f, pre).
Proof. exact canonical_input_accepted. Qed.
Print Assumptions C10_canonical_input_accepted.

(* the fields of the returned transaction are f (the fee fields the format does not carry read as 0) *)
Theorem C10_canonical_input_fields :
  forall fm f,
    norm (recovered_tx fm f) =
    match fm with
    | Eip1559 => mkFields (f_nonce f) 0 (f_maxPrio f) (f_maxFee f) (f_gasLimit f) (f_to f) (f_value f) (f_data f)
    | _ => mkFields (f_nonce f) (f_gasPrice f) 0 0 (f_gasLimit f) (f_to f) (f_value f) (f_data f)
    end.
Proof. exact norm_recovered_tx. Qed.
Print Assumptions C10_canonical_input_fields.

(* 17. (referee I3 + I2) The same with C05's secp256k1 layer: on a canonical input, a returned address
       is the address of THE key ecdsa_recover computes from (H(spec_preimage), r, s) with the
       specification's y-parity y; the payload is the specification preimage. *)
Theorem C10_canonical_input_secp256k1 :
  forall (o : Crypto.Ecdsa.group_ops), Crypto.Ecdsa.laws o ->
  forall (H : bytes -> bytes), (forall x, length (H x) = 32%nat) ->
  forall fm f chain y r s a t p,
    fields_in_range f -> (0 <= chain < 2 ^ 61)%Z -> (y = 0 \/ y = 1)%N ->
    (r < 2 ^ 256)%N -> (s < 2 ^ 256)%N ->
    let c := Z.to_N chain in
    RecoverRawTransaction H (RD_secp o H) (spec_signed fm f c y r s) chain = Ok (a, t, p) ->
    t = recovered_tx fm f /\ p = spec_preimage fm f c /\
    exists q,
      Crypto.Ecdsa.ecdsa_recover o (Secp.Model.hash_to_z (H p)) (Z.of_N r) (Z.of_N s) (y =? 1)%N = Some q /\
      q <> Crypto.Ecdsa.zero o /\ a = secp_addr_of o H q /\
      secp_verify o q (H p) (Z.of_N r) (Z.of_N s).
Proof. exact canonical_input_secp. Qed.
Print Assumptions C10_canonical_input_secp256k1.

(* ---------- non-vacuity of the referee-answer theorems ---------- *)
(* (referee I4) the secp256k1 family is not vacuous: Toy.ops satisfies [laws], toyH is a 32-byte hash,
   and under them the model ACCEPTS a legacy EIP-155 input (chain 1, V = 38 and V = 37), a legacy
   original-form input (V = 27) and a type-0x02 input (V = 1); the two parities V = 37 / 38 give
   DIFFERENT addresses (so theorem 14's parity conjunct distinguishes something); r = 0 is an error. *)
Example C10_nonvacuous_secp256k1 :
  Crypto.Ecdsa.laws Crypto.Ecdsa.Toy.ops /\ (forall x, length (toyH x) = 32%nat) /\
  let RD := RD_secp Crypto.Ecdsa.Toy.ops toyH in
  let legacy v r s := [xc9; x01; x02; x03; x80; x04; x80; v; r; s] in
  let a_of bs := match RecoverRawTransaction toyH RD bs 1 with Ok (a, _, _) => Some a | _ => None end in
  (exists a t p, RecoverRawTransaction toyH RD (legacy x26 x02 x03) 1 = Ok (a, t, p) /\
     p = spec_preimage Eip155 (norm t) 1) /\
  (exists a t p, RecoverRawTransaction toyH RD (legacy x1b x02 x03) 1 = Ok (a, t, p) /\
     p = spec_preimage Original (norm t) 0) /\
  (exists a t p, RecoverRawTransaction toyH RD
     [x02; xcc; x01; x05; x02; x03; x04; x80; x06; x80; xc0; x01; x02; x03] 1 = Ok (a, t, p) /\
     p = spec_preimage Eip1559 (norm t) 1) /\
  a_of (legacy x25 x02 x03) <> None /\ a_of (legacy x25 x02 x03) <> a_of (legacy x26 x02 x03) /\
  is_err (RecoverRawTransaction toyH RD (legacy x26 x80 x03) 1) = true.
Proof.
  split; [exact Crypto.Ecdsa.Toy.toy_laws|]. split; [exact toyH_len|]. cbv zeta.
  split; [do 3 eexists; split; [vm_compute; reflexivity|vm_compute; reflexivity]|].
  split; [do 3 eexists; split; [vm_compute; reflexivity|vm_compute; reflexivity]|].
  split; [do 3 eexists; split; [vm_compute; reflexivity|vm_compute; reflexivity]|].
  split; [vm_compute; discriminate|]. split; [vm_compute; discriminate|]. vm_compute; reflexivity.
Qed.

(* the model CAN return Panic: with a RecoverDirect that panics (the hypothesis of C10_total fails) an
   otherwise accepted input gives Panic - so "<> Panic" is not true by construction of the result
   type, and the hypothesis of theorem 1 is used *)
Example C10_panic_is_possible :
  RecoverRawTransaction H_triv RD_panic [xc9; x01; x02; x03; x80; x04; x80; x25; x01; x01] 1 = Panic /\
  idx ([] : list item) 0 = Panic /\ IntInt64 None = Panic /\ lslice ([] : list item) 0 6 = Panic.
Proof. vm_compute. auto. Qed.

(* theorems 16/17 are not vacuous: a field tuple of the range exists, and the canonical EIP-155 input
   for it is the byte string of C10_nonvacuous_legacy; under the toy secp layer it is accepted *)
Example C10_nonvacuous_canonical :
  let f := mkFields 1 2 0 0 3 None 4 [] in
  fields_in_range f /\
  spec_signed Eip155 f 1 1 2 3 = [xc9; x01; x02; x03; x80; x04; x80; x26; x02; x03] /\
  spec_signed Eip1559 (mkFields 5 0 2 3 4 None 6 []) 1 1 2 3 =
    [x02; xcc; x01; x05; x02; x03; x04; x80; x06; x80; xc0; x01; x02; x03] /\
  exists a, RD_secp Crypto.Ecdsa.Toy.ops toyH (38%Z, 2%Z, 3%Z) (toyH (spec_preimage Eip155 f 1)) 1 = Ok a.
Proof.
  cbv zeta. split.
  - unfold fields_in_range.
    cbn [f_nonce f_gasPrice f_maxPrio f_maxFee f_gasLimit f_value f_to f_data length].
    split; [reflexivity|]. split; [reflexivity|]. split; [reflexivity|]. split; [reflexivity|].
    split; [reflexivity|]. split; [reflexivity|]. split; [exact I|apply Nat.le_0_l].
  - split; [vm_compute; reflexivity|]. split; [vm_compute; reflexivity|]. eexists. vm_compute. reflexivity.
Qed.

(* 18. (referee I3, the "++ rest" of the suggested statement) Bytes after the RLP element are ignored:
       for every item within the decoder's accepted region ([size_ok]: every string and list payload
       at most 2^31-1 bytes) and every suffix, each entry point returns on the item's encoding
       followed by the suffix exactly what it returns without it (proofs: Tx/RecoverProofs7.v over
       C06_decode_encode). *)
From FFS Require Import Tx.RecoverProofs7.
Theorem C10_trailing_bytes_ignored :
  forall (H : bytes -> bytes) (RD : sigdata -> bytes -> Z -> res bytes) (l : list item) (i : item)
         (rest : bytes) (chain : Z),
    size_ok (Lst l) = true -> size_ok i = true ->
    RecoverRawTransaction H RD (encode (Lst l) ++ rest) chain = RecoverRawTransaction H RD (encode (Lst l)) chain /\
    RecoverRawTransaction H RD (x02 :: encode i ++ rest) chain = RecoverRawTransaction H RD (x02 :: encode i) chain /\
    RecoverLegacyRawTransaction H RD (encode i ++ rest) chain = RecoverLegacyRawTransaction H RD (encode i) chain /\
    RecoverEIP1559Transaction H RD (x02 :: encode i ++ rest) chain =
      RecoverEIP1559Transaction H RD (x02 :: encode i) chain /\
    DecodeEIP1559SignaturePayload (x02 :: encode i ++ rest) chain =
      DecodeEIP1559SignaturePayload (x02 :: encode i) chain.
Proof.
  exact (fun H RD l i rest chain Hl Hi =>
    conj (trailing_ignored_raw_list H RD l rest chain Hl)
   (conj (trailing_ignored_raw_typed H RD i rest chain Hi)
   (conj (trailing_ignored_legacy H RD i rest chain Hi)
   (conj (trailing_ignored_eip1559 H RD x02 i rest chain Hi)
         (trailing_ignored_decode_payload x02 i rest chain Hi))))).
Qed.
Print Assumptions C10_trailing_bytes_ignored.

(* 19. Theorems 16 and 17 with arbitrary bytes after the transaction - the referee's statement of I3. *)
Theorem C10_canonical_input_accepted_with_suffix :
  forall (H : bytes -> bytes) (RD : sigdata -> bytes -> Z -> res bytes) fm f chain y r s rest,
    fields_in_range f -> (0 <= chain < 2 ^ 61)%Z -> (y = 0 \/ y = 1)%N ->
    (r < 2 ^ 256)%N -> (s < 2 ^ 256)%N ->
    let c := Z.to_N chain in
    let pre := spec_preimage fm f c in
    RecoverRawTransaction H RD (spec_signed fm f c y r s ++ rest) chain =
      do a <- RD (v_seen fm (27 + Z.of_N y), Z.of_N r, Z.of_N s) (H pre) chain;
      Ok (a, recovered_tx fm f, pre).
Proof. exact canonical_input_accepted_rest. Qed.
Print Assumptions C10_canonical_input_accepted_with_suffix.

Theorem C10_canonical_input_secp256k1_with_suffix :
  forall (o : Crypto.Ecdsa.group_ops), Crypto.Ecdsa.laws o ->
  forall (H : bytes -> bytes), (forall x, length (H x) = 32%nat) ->
  forall fm f chain y r s rest a t p,
    fields_in_range f -> (0 <= chain < 2 ^ 61)%Z -> (y = 0 \/ y = 1)%N ->
    (r < 2 ^ 256)%N -> (s < 2 ^ 256)%N ->
    let c := Z.to_N chain in
    RecoverRawTransaction H (RD_secp o H) (spec_signed fm f c y r s ++ rest) chain = Ok (a, t, p) ->
    t = recovered_tx fm f /\ p = spec_preimage fm f c /\
    exists q,
      Crypto.Ecdsa.ecdsa_recover o (Secp.Model.hash_to_z (H p)) (Z.of_N r) (Z.of_N s) (y =? 1)%N = Some q /\
      q <> Crypto.Ecdsa.zero o /\ a = secp_addr_of o H q /\
      secp_verify o q (H p) (Z.of_N r) (Z.of_N s).
Proof. exact canonical_input_secp_rest. Qed.
Print Assumptions C10_canonical_input_secp256k1_with_suffix.

(* theorem 18 is not vacuous and not trivial: a suffix after an accepted legacy input leaves it accepted
   (same result), while a suffix after the single byte 0x02 - which is the encoding of the STRING [0x02],
   not of a list - changes the result (error -> accepted): the list hypothesis of the first conjunct
   is needed *)
Example C10_nonvacuous_trailing :
  let bs := [xc9; x01; x02; x03; x80; x04; x80; x25; x01; x01] in
  RecoverRawTransaction H_triv RD_triv (bs ++ [xff; x00]) 1 = RecoverRawTransaction H_triv RD_triv bs 1 /\
  is_err (RecoverRawTransaction H_triv RD_triv bs 1) = false /\
  encode (Str [x02]) = [x02] /\
  is_err (RecoverRawTransaction H_triv RD_triv (encode (Str [x02])) 1) = true /\
  is_err (RecoverRawTransaction H_triv RD_triv
            (encode (Str [x02]) ++ [xcc; x01; x05; x02; x03; x04; x80; x06; x80; xc0; x01; x07; x08]) 1) = false.
Proof. vm_compute. auto. Qed.

(* ====================================================================================================
   Wave 6 (proofs: Tx/RecoverProofs8.v).  ONE statement per entry point carrying every clause of the
   property at once, with C05's RecoverDirect plugged in (no law of RecoverDirect assumed) - the parts
   were spread over theorems 9 (elements), 10/11 (format and preimage, key only up to parity) and 14
   (recovery id, but no payload); here they are about the SAME decoded list, the SAME V element and
   the SAME parity [par]:
   - the key q is THE point ecdsa_recover computes from (H(payload), r, s) with y-parity par, it is
     not the point at infinity, the returned address is q's and (r,s) verify for q;
   - legacy: V = 27+par and the payload is the original-format preimage of the returned fields, or
     V is not of the original form, V = 35+2*chain+par and the payload is the EIP-155 preimage for
     |chain| (both modulo 2^64, see theorem 12) - the parity that selects the key is the parity read
     from V in the form that selects the preimage;
   - type 0x02: 0 <= chain, embedded chain id = supplied one, and the V values accepted are NAMED
     (this closes the "v_norm ... = Some vB, not narrowed" entry of [partial]): with v the int64
     value of element 9, v = par, v = 27+par or v = 35+2*chain+par (C05's [legit_V]), or v lies in
     C05's known-finding region [v_alias] (an EIP-155 form shifted by a non-zero multiple of 256);
     the payload is 0x02 || RLP of the EIP-1559 list of the returned fields with the input's access
     list, and IS the specification preimage when that list is empty;
   - the first six / nine elements of the input are the specification's elements of the returned fields.
   [_partial] only because of the access list (known finding), as before.  The hypothesis on chain is
   the range of the Go parameter's type (needed by the legacy EIP-155 preimage only). *)
From FFS Require Import Tx.RecoverProofs8.
Theorem C10_sound_secp256k1_complete_partial :
  forall (o : Crypto.Ecdsa.group_ops), Crypto.Ecdsa.laws o ->
  forall (H : bytes -> bytes), (forall x, length (H x) = 32%nat) ->
  forall bs chain a t p, (- 2 ^ 63 <= chain < 2 ^ 63)%Z ->
    RecoverRawTransaction H (RD_secp o H) bs chain = Ok (a, t, p) ->
    (exists l pos vb e7 e8 par q,
      Decode bs = Ok (Some (Lst l), pos) /\ (9 <= length l)%nat /\
      nth_error l 6 = Some (Str vb) /\ nth_error l 7 = Some e7 /\ nth_error l 8 = Some e8 /\
      (par = 0 \/ par = 1)%Z /\
      ( (V_original_p (Z.of_N (of_be vb)) par /\ p = spec_preimage Original (norm t) 0) \/
        (~ V_original (Z.of_N (of_be vb)) /\ V_eip155_p (Z.of_N (of_be vb)) chain par /\
         p = spec_preimage Eip155 (norm t) (Z.abs_N chain)) ) /\
      map to_tree (firstn 6 l) = legacy_body (norm t) /\
      Crypto.Ecdsa.ecdsa_recover o (Secp.Model.hash_to_z (H p))
        (Z.of_N (elem_int e7)) (Z.of_N (elem_int e8)) (par =? 1)%Z = Some q /\
      q <> Crypto.Ecdsa.zero o /\ a = secp_addr_of o H q /\
      secp_verify o q (H p) (Z.of_N (elem_int e7)) (Z.of_N (elem_int e8)))
    \/
    (exists rest l pos c0 al vb e10 e11 par q,
      (0 <= chain)%Z /\
      bs = x02 :: rest /\ Decode rest = Ok (Some (Lst l), pos) /\ (12 <= length l)%nat /\
      nth_error l 0 = Some (Str c0) /\ Z.of_N (of_be c0) = chain /\
      nth_error l 8 = Some (Lst al) /\ nth_error l 9 = Some (Str vb) /\
      nth_error l 10 = Some e10 /\ nth_error l 11 = Some e11 /\
      (par = 0 \/ par = 1)%Z /\
      Secp.Proofs.v_norm (wrap64 (Z.of_N (of_be vb))) chain = Some (27 + par)%Z /\
      (Secp.Proofs.legit_V par chain (wrap64 (Z.of_N (of_be vb))) \/
       Secp.Proofs.v_alias (wrap64 (Z.of_N (of_be vb))) chain) /\
      map to_tree (firstn 9 l) = eip1559_body_al (norm t) (Z.to_N chain) (L (map to_tree al)) /\
      p = x02 :: RLP (L (eip1559_body_al (norm t) (Z.to_N chain) (L (map to_tree al)))) /\
      (al = [] -> p = spec_preimage Eip1559 (norm t) (Z.to_N chain)) /\
      Crypto.Ecdsa.ecdsa_recover o (Secp.Model.hash_to_z (H p))
        (Z.of_N (elem_int e10)) (Z.of_N (elem_int e11)) (par =? 1)%Z = Some q /\
      q <> Crypto.Ecdsa.zero o /\ a = secp_addr_of o H q /\
      secp_verify o q (H p) (Z.of_N (elem_int e10)) (Z.of_N (elem_int e11))).
Proof. exact raw_complete. Qed.
Print Assumptions C10_sound_secp256k1_complete_partial.

(* the same for the two entry points called directly; the type-0x02 one needs NO hypothesis on the
   chain id (it concludes 0 <= chain) *)
Theorem C10_sound_secp256k1_complete_legacy_entry :
  forall (o : Crypto.Ecdsa.group_ops), Crypto.Ecdsa.laws o ->
  forall (H : bytes -> bytes), (forall x, length (H x) = 32%nat) ->
  forall bs chain a t p, (- 2 ^ 63 <= chain < 2 ^ 63)%Z ->
    RecoverLegacyRawTransaction H (RD_secp o H) bs chain = Ok (a, t, p) ->
    exists l pos vb e7 e8 par q,
      Decode bs = Ok (Some (Lst l), pos) /\ (9 <= length l)%nat /\
      nth_error l 6 = Some (Str vb) /\ nth_error l 7 = Some e7 /\ nth_error l 8 = Some e8 /\
      (par = 0 \/ par = 1)%Z /\
      ( (V_original_p (Z.of_N (of_be vb)) par /\ p = spec_preimage Original (norm t) 0) \/
        (~ V_original (Z.of_N (of_be vb)) /\ V_eip155_p (Z.of_N (of_be vb)) chain par /\
         p = spec_preimage Eip155 (norm t) (Z.abs_N chain)) ) /\
      map to_tree (firstn 6 l) = legacy_body (norm t) /\
      Crypto.Ecdsa.ecdsa_recover o (Secp.Model.hash_to_z (H p))
        (Z.of_N (elem_int e7)) (Z.of_N (elem_int e8)) (par =? 1)%Z = Some q /\
      q <> Crypto.Ecdsa.zero o /\ a = secp_addr_of o H q /\
      secp_verify o q (H p) (Z.of_N (elem_int e7)) (Z.of_N (elem_int e8)).
Proof. exact legacy_complete. Qed.
Print Assumptions C10_sound_secp256k1_complete_legacy_entry.

Theorem C10_sound_secp256k1_complete_eip1559_entry_partial :
  forall (o : Crypto.Ecdsa.group_ops), Crypto.Ecdsa.laws o ->
  forall (H : bytes -> bytes), (forall x, length (H x) = 32%nat) ->
  forall bs chain a t p,
    RecoverEIP1559Transaction H (RD_secp o H) bs chain = Ok (a, t, p) ->
    exists rest l pos c0 al vb e10 e11 par q,
      (0 <= chain)%Z /\
      bs = x02 :: rest /\ Decode rest = Ok (Some (Lst l), pos) /\ (12 <= length l)%nat /\
      nth_error l 0 = Some (Str c0) /\ Z.of_N (of_be c0) = chain /\
      nth_error l 8 = Some (Lst al) /\ nth_error l 9 = Some (Str vb) /\
      nth_error l 10 = Some e10 /\ nth_error l 11 = Some e11 /\
      (par = 0 \/ par = 1)%Z /\
      Secp.Proofs.v_norm (wrap64 (Z.of_N (of_be vb))) chain = Some (27 + par)%Z /\
      (Secp.Proofs.legit_V par chain (wrap64 (Z.of_N (of_be vb))) \/
       Secp.Proofs.v_alias (wrap64 (Z.of_N (of_be vb))) chain) /\
      map to_tree (firstn 9 l) = eip1559_body_al (norm t) (Z.to_N chain) (L (map to_tree al)) /\
      p = x02 :: RLP (L (eip1559_body_al (norm t) (Z.to_N chain) (L (map to_tree al)))) /\
      (al = [] -> p = spec_preimage Eip1559 (norm t) (Z.to_N chain)) /\
      Crypto.Ecdsa.ecdsa_recover o (Secp.Model.hash_to_z (H p))
        (Z.of_N (elem_int e10)) (Z.of_N (elem_int e11)) (par =? 1)%Z = Some q /\
      q <> Crypto.Ecdsa.zero o /\ a = secp_addr_of o H q /\
      secp_verify o q (H p) (Z.of_N (elem_int e10)) (Z.of_N (elem_int e11)).
Proof. exact eip1559_complete. Qed.
Print Assumptions C10_sound_secp256k1_complete_eip1559_entry_partial.

(* the int64 reduction of the type-0x02 V element is the identity for an element of at most 7 bytes:
   the [wrap64] above can then be read away and [legit_V] speaks of the integer written in the input *)
Theorem C10_eip1559_v_no_reduction :
  forall vb, (length vb <= 7)%nat -> wrap64 (Z.of_N (of_be vb)) = Z.of_N (of_be vb).
Proof. exact short_v_no_reduction. Qed.
Print Assumptions C10_eip1559_v_no_reduction.

(* the new theorems are not vacuous and every disjunct of the type-0x02 V clause is inhabited: under the
   toy group (which satisfies [laws]) and toyH, the type-0x02 input of C10_nonvacuous_secp256k1 (empty
   access list, chain 1) is accepted with V = 1 (plain parity), V = 28, V = 38 = 35+2*1+1 (the three
   [legit_V] forms of parity 1) and V = 294 = 38+256 (the [v_alias] region, C05's known finding) - all
   four with the SAME address -, with V = 0 and V = 37 giving the OTHER address (parity 0), V = 2 is
   refused; each of the values is what [legit_V] / [v_alias] say *)
Example C10_nonvacuous_complete :
  let RD := RD_secp Crypto.Ecdsa.Toy.ops toyH in
  let typed v := [x02; xcc; x01; x05; x02; x03; x04; x80; x06; x80; xc0; v; x02; x03] in
  let typed294 := [x02; xce; x01; x05; x02; x03; x04; x80; x06; x80; xc0; x82; x01; x26; x02; x03] in
  let a_of bs := match RecoverRawTransaction toyH RD bs 1 with Ok (a, _, _) => Some a | _ => None end in
  (exists a t p, RecoverRawTransaction toyH RD (typed x01) 1 = Ok (a, t, p) /\
     p = spec_preimage Eip1559 (norm t) 1) /\
  a_of (typed x01) <> None /\
  a_of (typed x1c) = a_of (typed x01) /\ a_of (typed x26) = a_of (typed x01) /\ a_of typed294 = a_of (typed x01) /\
  a_of (typed x80) <> None /\ a_of (typed x80) <> a_of (typed x01) /\ a_of (typed x25) = a_of (typed x80) /\
  a_of (typed x02) = None /\
  Secp.Proofs.legit_V 1 1 1 /\ Secp.Proofs.legit_V 1 1 28 /\ Secp.Proofs.legit_V 1 1 38 /\
  Secp.Proofs.v_alias 294 1 /\ ~ Secp.Proofs.legit_V 1 1 294 /\ ~ Secp.Proofs.legit_V 0 1 294.
Proof.
  cbv zeta.
  split; [do 3 eexists; split; [vm_compute; reflexivity|vm_compute; reflexivity]|].
  split; [vm_compute; discriminate|].
  split; [vm_compute; reflexivity|]. split; [vm_compute; reflexivity|]. split; [vm_compute; reflexivity|].
  split; [vm_compute; discriminate|]. split; [vm_compute; discriminate|]. split; [vm_compute; reflexivity|].
  split; [vm_compute; reflexivity|].
  unfold Secp.Proofs.legit_V, Secp.Proofs.v_alias.
  split; [lia|]. split; [lia|]. split; [lia|].
  split; [|split; lia].
  split; [reflexivity|]. repeat (split; [lia|]). exists 1%Z, 1%Z. lia.
Qed.
