(* C10 — recovering a signer from arbitrary raw transaction bytes is total and sound.
   Statements only; proofs live in Tx/RecoverProofs.v (totality), Tx/RecoverProofs2.v (soundness) and
   Tx/RecoverProofs3.v (input elements = specification elements of the returned fields).

   The model (Tx/RecoverModel.v) takes the hash function [H] and the secp256k1 library call
   [RD = (s *SignatureData).RecoverDirect] as parameters; every theorem quantifies over them and
   states the one law of [RD] it needs as a hypothesis (both laws are C05's subject).
   Specification side: Tx/Spec.v (transaction preimages written from the Yellow Paper, EIP-155,
   EIP-2718, EIP-1559 over the Yellow-Paper RLP of Rlp/Spec.v) and Tx/Norm.v (Go struct -> fields). *)
From Coq Require Import List NArith ZArith Lia Bool.
From Coq Require Import Init.Byte.
From FFS Require Import Base.Res Base.Bytes Rlp.Model Rlp.Spec Rlp.Proofs Tx.Model Tx.Spec Tx.Norm
  Tx.RecoverModel Tx.RecoverProofs Tx.RecoverProofs2 Tx.RecoverProofs3 Tx.RecoverSecp.
From FFS Require Crypto.Ecdsa Secp.Model Secp.Proofs.
Import ListNotations.

(* 1. Totality: for every byte string and every chain id, none of the four entry points panics
      (provided RecoverDirect itself does not panic on non-negative R and S — property C05). *)
Theorem C10_total :
  forall (H : bytes -> bytes) (RD : sigdata -> bytes -> Z -> res bytes),
    (forall v r s d c, (0 <= r)%Z -> (0 <= s)%Z -> RD (v, r, s) d c <> Panic) ->
    forall (bs : bytes) (chain : Z),
      RecoverRawTransaction H RD bs chain <> Panic /\
      RecoverLegacyRawTransaction H RD bs chain <> Panic /\
      RecoverEIP1559Transaction H RD bs chain <> Panic /\
      DecodeEIP1559SignaturePayload bs chain <> Panic.
Proof. exact C10_total_all. Qed.
Print Assumptions C10_total.

(* 2. Soundness.  Whenever RecoverRawTransaction returns (address, transaction, payload), for a
      chain id in the int64 range of non-negative values:
      - legacy input: the input decodes to a list; the integers (r,s) at positions 7,8 verify over
        H(payload) for a key with the returned address; the payload is the *original-format* preimage
        of the returned fields when the V element is 27/28 and the *EIP-155* preimage for the supplied
        chain otherwise (V then being 35/36 + 2*chain in int64 arithmetic);
      - type-0x02 input: the embedded chain id equals the supplied one; (r,s) at positions 10,11
        verify over H(payload) for a key with the returned address; the payload is 0x02 || RLP of the
        EIP-1559 list of the returned fields *with the access list found in the input*.
      [_partial]: the specification (Tx/Spec.v) and the returned Transaction have no access list, so
      "the payload is the specification preimage of the returned fields" holds exactly when the
      input's access list is empty (theorem 3); for a non-empty one it fails (theorem 4, known
      finding C10/eip1559-access-list-dropped). *)
Theorem C10_sound_partial :
  forall (H : bytes -> bytes) (RD : sigdata -> bytes -> Z -> res bytes)
         (PubKey : Type) (addr_of : PubKey -> bytes) (verify : PubKey -> bytes -> Z -> Z -> Prop),
    (forall v r s d c a, RD (v, r, s) d c = Ok a -> exists q, a = addr_of q /\ verify q d r s) ->
    forall bs chain a t p, (0 <= chain < 2 ^ 63)%Z ->
      RecoverRawTransaction H RD bs chain = Ok (a, t, p) ->
      (exists l pos e6 e7 e8 q,
        Decode bs = Ok (Some (Lst l), pos) /\
        nth_error l 6 = Some e6 /\ nth_error l 7 = Some e7 /\ nth_error l 8 = Some e8 /\
        a = addr_of q /\ verify q (H p) (Z.of_N (elem_int e7)) (Z.of_N (elem_int e8)) /\
        ( (v_is_legacy (legacy_v e6) /\ p = spec_preimage Original (norm t) 0) \/
          (~ v_is_legacy (legacy_v e6) /\ v_is_eip155 (legacy_v e6) chain /\
           p = spec_preimage Eip155 (norm t) (Z.to_N chain)) ))
      \/
      (exists rest l pos c0 al e10 e11 q,
        bs = x02 :: rest /\ Decode rest = Ok (Some (Lst l), pos) /\
        nth_error l 0 = Some (Str c0) /\ Z.of_N (of_be c0) = chain /\
        nth_error l 8 = Some (Lst al) /\ nth_error l 10 = Some e10 /\ nth_error l 11 = Some e11 /\
        a = addr_of q /\ verify q (H p) (Z.of_N (elem_int e10)) (Z.of_N (elem_int e11)) /\
        p = x02 :: RLP (L (eip1559_body_al (norm t) (Z.to_N chain) (L (map to_tree al))))).
Proof. exact RecoverRaw_sound. Qed.
Print Assumptions C10_sound_partial.

(* 3. With the empty access list the EIP-1559 payload above is the preimage of Tx/Spec.v. *)
Theorem C10_sound_empty_access_list :
  forall f c, x02 :: RLP (L (eip1559_body_al f c (L (map to_tree [])))) = spec_preimage Eip1559 f c.
Proof. exact eip1559_al_empty_preimage. Qed.
Print Assumptions C10_sound_empty_access_list.

(* 4. The unguarded clause is false of the faithful model: a type-0x02 transaction with a non-empty
      access list is accepted and the payload is not the specification preimage of the returned
      fields. *)
Theorem C10_sound_refuted :
  exists H RD bs chain a t p,
    RecoverRawTransaction H RD bs chain = Ok (a, t, p) /\
    p <> spec_preimage Eip1559 (norm t) (Z.to_N chain).
Proof. exact sound_access_list_refuted. Qed.
Print Assumptions C10_sound_refuted.

(* 5. The entry points called directly. *)
Theorem C10_sound_legacy_entry :
  forall (H : bytes -> bytes) (RD : sigdata -> bytes -> Z -> res bytes)
         (PubKey : Type) (addr_of : PubKey -> bytes) (verify : PubKey -> bytes -> Z -> Z -> Prop),
    (forall v r s d c a, RD (v, r, s) d c = Ok a -> exists q, a = addr_of q /\ verify q d r s) ->
    forall bs chain a t p, (0 <= chain < 2 ^ 63)%Z ->
      RecoverLegacyRawTransaction H RD bs chain = Ok (a, t, p) ->
      exists l pos e6 e7 e8 q,
        Decode bs = Ok (Some (Lst l), pos) /\
        nth_error l 6 = Some e6 /\ nth_error l 7 = Some e7 /\ nth_error l 8 = Some e8 /\
        a = addr_of q /\ verify q (H p) (Z.of_N (elem_int e7)) (Z.of_N (elem_int e8)) /\
        ( (v_is_legacy (legacy_v e6) /\ p = spec_preimage Original (norm t) 0) \/
          (~ v_is_legacy (legacy_v e6) /\ v_is_eip155 (legacy_v e6) chain /\
           p = spec_preimage Eip155 (norm t) (Z.to_N chain)) ).
Proof. exact RecoverLegacy_sound. Qed.
Print Assumptions C10_sound_legacy_entry.

Theorem C10_sound_eip1559_entry_partial :
  forall (H : bytes -> bytes) (RD : sigdata -> bytes -> Z -> res bytes)
         (PubKey : Type) (addr_of : PubKey -> bytes) (verify : PubKey -> bytes -> Z -> Z -> Prop),
    (forall v r s d c a, RD (v, r, s) d c = Ok a -> exists q, a = addr_of q /\ verify q d r s) ->
    forall bs chain a t p,
      RecoverEIP1559Transaction H RD bs chain = Ok (a, t, p) ->
      exists rest l pos c0 al e10 e11 q,
        bs = x02 :: rest /\ Decode rest = Ok (Some (Lst l), pos) /\
        nth_error l 0 = Some (Str c0) /\ Z.of_N (of_be c0) = chain /\
        nth_error l 8 = Some (Lst al) /\ nth_error l 10 = Some e10 /\ nth_error l 11 = Some e11 /\
        a = addr_of q /\ verify q (H p) (Z.of_N (elem_int e10)) (Z.of_N (elem_int e11)) /\
        p = x02 :: RLP (L (eip1559_body_al (norm t) (Z.to_N chain) (L (map to_tree al)))).
Proof. exact Recover1559_sound. Qed.
Print Assumptions C10_sound_eip1559_entry_partial.

(* DecodeEIP1559SignaturePayload returns only the transaction: the first nine elements of its input,
   re-encoded, are the EIP-1559 preimage of the returned fields (with the input's access list). *)
Theorem C10_decode_payload_partial :
  forall bs chain t,
    DecodeEIP1559SignaturePayload bs chain = Ok t ->
    exists rest l pos c0 al,
      bs = x02 :: rest /\ Decode rest = Ok (Some (Lst l), pos) /\
      nth_error l 0 = Some (Str c0) /\ Z.of_N (of_be c0) = chain /\ nth_error l 8 = Some (Lst al) /\
      x02 :: encode (Lst (firstn 9 l)) =
        x02 :: RLP (L (eip1559_body_al (norm t) (Z.to_N chain) (L (map to_tree al)))).
Proof. exact Decode1559_sound. Qed.
Print Assumptions C10_decode_payload_partial.

(* 6. Chain id: a type-0x02 input whose embedded chain id (the integer value of the first list
      element, of any width; a list counts as 0) differs from the supplied chain id is refused by
      every entry point that accepts type 0x02 — for every chain id, hash and RecoverDirect. *)
Theorem C10_chain_id :
  forall (H : bytes -> bytes) (RD : sigdata -> bytes -> Z -> res bytes)
         rest l pos e0 chain,
    Decode rest = Ok (Some (Lst l), pos) -> nth_error l 0 = Some e0 ->
    Z.of_N (elem_int e0) <> chain ->
    (exists e, RecoverRawTransaction H RD (x02 :: rest) chain = Err e) /\
    (exists e, RecoverEIP1559Transaction H RD (x02 :: rest) chain = Err e) /\
    (exists e, DecodeEIP1559SignaturePayload (x02 :: rest) chain = Err e).
Proof. exact chain_id_mismatch_refused. Qed.
Print Assumptions C10_chain_id.

(* 7. The same with the secp256k1 layer of property C05 plugged in for [RD]: for every group
      satisfying the ECDSA laws of Crypto/Ecdsa.v (secp256k1 being the intended instance — that it
      satisfies them is the trusted mathematical fact of DESIGN §5) and every 32-byte hash, no
      hypothesis about RecoverDirect is left: it is C05's model (Secp/Model.v: getVNormalized, range
      checks, FillBytes, RecoverCompact, PublicKeyToAddress), and "verifies" is textbook ECDSA
      verification [ecdsa_verify] of (r,s) over the first 32 bytes of H(payload). *)
Theorem C10_total_secp256k1 :
  forall (o : Crypto.Ecdsa.group_ops) (H : bytes -> bytes), (forall x, length (H x) = 32%nat) ->
    forall (bs : bytes) (chain : Z),
      RecoverRawTransaction H (RD_secp o H) bs chain <> Panic /\
      RecoverLegacyRawTransaction H (RD_secp o H) bs chain <> Panic /\
      RecoverEIP1559Transaction H (RD_secp o H) bs chain <> Panic /\
      DecodeEIP1559SignaturePayload bs chain <> Panic.
Proof. exact total_secp. Qed.
Print Assumptions C10_total_secp256k1.

Theorem C10_sound_secp256k1_partial :
  forall (o : Crypto.Ecdsa.group_ops), Crypto.Ecdsa.laws o ->
  forall (H : bytes -> bytes), (forall x, length (H x) = 32%nat) ->
    forall bs chain a t p, (0 <= chain < 2 ^ 63)%Z ->
      RecoverRawTransaction H (RD_secp o H) bs chain = Ok (a, t, p) ->
      (exists l pos e6 e7 e8 q,
        Decode bs = Ok (Some (Lst l), pos) /\
        nth_error l 6 = Some e6 /\ nth_error l 7 = Some e7 /\ nth_error l 8 = Some e8 /\
        a = secp_addr_of o H q /\
        secp_verify o q (H p) (Z.of_N (elem_int e7)) (Z.of_N (elem_int e8)) /\
        ( (v_is_legacy (legacy_v e6) /\ p = spec_preimage Original (norm t) 0) \/
          (~ v_is_legacy (legacy_v e6) /\ v_is_eip155 (legacy_v e6) chain /\
           p = spec_preimage Eip155 (norm t) (Z.to_N chain)) ))
      \/
      (exists rest l pos c0 al e10 e11 q,
        bs = x02 :: rest /\ Decode rest = Ok (Some (Lst l), pos) /\
        nth_error l 0 = Some (Str c0) /\ Z.of_N (of_be c0) = chain /\
        nth_error l 8 = Some (Lst al) /\ nth_error l 10 = Some e10 /\ nth_error l 11 = Some e11 /\
        a = secp_addr_of o H q /\
        secp_verify o q (H p) (Z.of_N (elem_int e10)) (Z.of_N (elem_int e11)) /\
        p = x02 :: RLP (L (eip1559_body_al (norm t) (Z.to_N chain) (L (map to_tree al))))).
Proof. exact sound_secp. Qed.
Print Assumptions C10_sound_secp256k1_partial.

(* 8. What "the format the V element selects" means in terms of the integer V written in the input
      (the code reduces V to int64 first): original format iff V = 27/28 modulo 2^64, EIP-155 iff
      V = 35 + 2*chain + parity modulo 2^64. *)
Theorem C10_legacy_v_meaning :
  forall vb chain,
    let V := Z.of_N (of_be vb) in
    (v_is_legacy (legacy_v (Str vb)) <-> exists p k, (p = 0 \/ p = 1)%Z /\ V = (27 + p + k * 2 ^ 64)%Z) /\
    (v_is_eip155 (legacy_v (Str vb)) chain <->
       exists p k, (p = 0 \/ p = 1)%Z /\ V = (35 + 2 * chain + p + k * 2 ^ 64)%Z).
Proof. exact legacy_v_meaning. Qed.
Print Assumptions C10_legacy_v_meaning.

(* 9. (round 3) The elements of an accepted input ARE the specification's elements of the returned fields -
      with NO hypothesis about the hash function or RecoverDirect and for EVERY chain id (negative ones
      included; compare the bound of theorem 2): whenever an entry point returns a transaction, the input
      decodes to a list of at least 9 / 12 / 9 elements whose first six (legacy) or nine (type 0x02)
      elements, read as Yellow-Paper trees, are exactly the list Tx/Spec.v builds from the returned fields
      (type 0x02: with the access list found in the input).  Hence no accepted input writes a field in a
      second way (leading zero byte, 19-byte destination, a list for a string): the repaired defect D10f. *)
Theorem C10_elements_are_fields :
  forall (H : bytes -> bytes) (RD : sigdata -> bytes -> Z -> res bytes) (bs : bytes) (chain : Z),
    (forall a t p, RecoverRawTransaction H RD bs chain = Ok (a, t, p) ->
       (exists l pos,
          Decode bs = Ok (Some (Lst l), pos) /\ (9 <= length l)%nat /\
          map to_tree (firstn 6 l) = legacy_body (norm t))
       \/
       (exists rest l pos al,
          bs = x02 :: rest /\ Decode rest = Ok (Some (Lst l), pos) /\ (12 <= length l)%nat /\
          nth_error l 8 = Some (Lst al) /\
          map to_tree (firstn 9 l) = eip1559_body_al (norm t) (Z.to_N chain) (L (map to_tree al)))) /\
    (forall a t p, RecoverLegacyRawTransaction H RD bs chain = Ok (a, t, p) ->
       exists l pos,
         Decode bs = Ok (Some (Lst l), pos) /\ (9 <= length l)%nat /\
         map to_tree (firstn 6 l) = legacy_body (norm t)) /\
    (forall a t p, RecoverEIP1559Transaction H RD bs chain = Ok (a, t, p) ->
       exists rest l pos al,
         bs = x02 :: rest /\ Decode rest = Ok (Some (Lst l), pos) /\ (12 <= length l)%nat /\
         nth_error l 8 = Some (Lst al) /\
         map to_tree (firstn 9 l) = eip1559_body_al (norm t) (Z.to_N chain) (L (map to_tree al))) /\
    (forall t, DecodeEIP1559SignaturePayload bs chain = Ok t ->
       exists rest l pos al,
         bs = x02 :: rest /\ Decode rest = Ok (Some (Lst l), pos) /\ (9 <= length l)%nat /\
         nth_error l 8 = Some (Lst al) /\
         map to_tree (firstn 9 l) = eip1559_body_al (norm t) (Z.to_N chain) (L (map to_tree al))).
Proof. exact elements_are_fields_all. Qed.
Print Assumptions C10_elements_are_fields.

(* ---------- non-vacuity ---------- *)
(* a legacy EIP-155 transaction (chain 1, V = 37) and a type-0x02 transaction are accepted by the
   model under the trivial parameters (which satisfy both hypotheses used above), so the premises of
   theorems 2 and 5 are satisfiable; 0x02 alone, 0x02 0x05 and a list in the V position — inputs on
   which the unrepaired code panicked — are errors. *)
Example C10_nonvacuous_legacy :
  let bs := [xc9; x01; x02; x03; x80; x04; x80; x25; x01; x01] in
  exists a t p, RecoverRawTransaction H_triv RD_triv bs 1 = Ok (a, t, p) /\
    p = spec_preimage Eip155 (norm t) 1 /\ tx_nonce t = Some 1%Z /\ tx_to t = None.
Proof. cbv zeta. eexists. eexists. eexists. split; [vm_compute; reflexivity|]. vm_compute. auto. Qed.

Example C10_nonvacuous_eip1559 :
  let bs := [x02; xcc; x01; x05; x02; x03; x04; x80; x06; x80; xc0; x01; x07; x08] in
  exists a t p, RecoverRawTransaction H_triv RD_triv bs 1 = Ok (a, t, p) /\
    p = spec_preimage Eip1559 (norm t) 1 /\ tx_nonce t = Some 5%Z.
Proof. cbv zeta. eexists. eexists. eexists. split; [vm_compute; reflexivity|]. vm_compute. auto. Qed.

Example C10_nonvacuous_laws :
  (forall v r s d c, (0 <= r)%Z -> (0 <= s)%Z -> RD_triv (v, r, s) d c <> Panic) /\
  (forall v r s d c a, RD_triv (v, r, s) d c = Ok a ->
     exists q : unit, a = (fun _ => repeat x01 20) q /\ (fun _ _ _ _ => True) q d r s).
Proof. split; [discriminate|]. intros v r s d c a X. injection X as <-. exists tt. auto. Qed.

Example C10_repaired_witnesses :
  is_err (RecoverRawTransaction H_triv RD_triv [x02] 1) = true /\
  is_err (RecoverRawTransaction H_triv RD_triv [x02; x05] 1) = true /\
  is_err (RecoverRawTransaction H_triv RD_triv [xc9; x80; x80; x80; x80; x80; x80; xc0; x80; x80] 1) = true /\
  is_err (RecoverLegacyRawTransaction H_triv RD_triv [x05] 1) = true /\
  is_err (RecoverRawTransaction H_triv RD_triv
            [x02; xd4; x89; x01; x00; x00; x00; x00; x00; x00; x00; x01; x05; x02; x03; x04; x80; x06; x80; xc0; x01; x07; x08] 1) = true.
Proof. vm_compute. auto. Qed.

(* theorem 9 is not vacuous for a negative chain id either: a legacy transaction in the EIP-155 form for
   chain -1 (V = 35 + 2*(-1) = 33) is accepted, and its first six elements are the specification's *)
Example C10_nonvacuous_elements_negative_chain :
  let bs := [xc9; x01; x02; x03; x80; x04; x80; x21; x01; x01] in
  exists a t p l pos, RecoverRawTransaction H_triv RD_triv bs (-1) = Ok (a, t, p) /\
    Decode bs = Ok (Some (Lst l), pos) /\ map to_tree (firstn 6 l) = legacy_body (norm t) /\
    tx_nonce t = Some 1%Z.
Proof. cbv zeta. do 5 eexists. split; [vm_compute; reflexivity|]. vm_compute. auto. Qed.

(* Source constants (translator harness/cmd/gen_consts -> Gen/Consts.v, regenerated from /repo on every
   run): the type byte and the RLP constants the recovery model hard-codes equal what
   pkg/ethsigner/transaction.go and pkg/rlp/decode.go declare NOW.  The models keep their own
   literals; this theorem is what breaks when one of them changes in the source. *)
From FFS Require Gen.Consts Rlp.Model Tx.Model.
Theorem C10_source_constants :
  Gen.Consts.ethsigner_TransactionType1559 = Z.of_N (b2n Tx.Model.TransactionType1559) /\
  Gen.Consts.rlp_shortString = Z.of_N Rlp.Model.shortString /\
  Gen.Consts.rlp_longString = Z.of_N Rlp.Model.longString /\
  Gen.Consts.rlp_shortList = Z.of_N Rlp.Model.shortList /\
  Gen.Consts.rlp_longList = Z.of_N Rlp.Model.longList /\
  Gen.Consts.rlp_shortToLong = Z.of_N Rlp.Model.shortToLong /\
  Gen.Consts.rlp_maxInt32 = Z.of_N Rlp.Model.maxInt32.
Proof. vm_compute. repeat split; reflexivity. Qed.
Print Assumptions C10_source_constants.

(* 10. (round 5) Soundness for EVERY chain id.  Theorems 2, 5 and 7 assume 0 <= chain < 2^63.  The upper
      bound is the type of the parameter (Go int64); here the lower bound goes too, so the hypothesis
      left is the range of the parameter's type and nothing else.  For every chain id of the int64
      range, whenever an address is returned:
      - legacy input: the V element is a string (a list is refused); (r,s) of the input verify over
        H(payload) for a key with the returned address; with V the integer written in the input,
        either V = 27/28 (+ k*2^64) and the payload is the original-format preimage of the returned
        fields, or V = 35 + 2*chain + parity (+ k*2^64, chain with its sign) and the payload is the
        EIP-155 preimage of the returned fields for the chain id |chain| (the code writes
        big.NewInt(chainID).Bytes(), the magnitude; for 0 <= chain this is theorem 2 word for word);
      - type-0x02 input: as theorem 2 (the supplied chain id is then necessarily non-negative).
      The "+ k*2^64" is the Int64() reduction of V; theorem 12 shows when it is vacuous. *)
From FFS Require Import Tx.RecoverProofs4.
Theorem C10_sound_every_chain_partial :
  forall (H : bytes -> bytes) (RD : sigdata -> bytes -> Z -> res bytes)
         (PubKey : Type) (addr_of : PubKey -> bytes) (verify : PubKey -> bytes -> Z -> Z -> Prop),
    (forall v r s d c a, RD (v, r, s) d c = Ok a -> exists q, a = addr_of q /\ verify q d r s) ->
    forall bs chain a t p, (- 2 ^ 63 <= chain < 2 ^ 63)%Z ->
      RecoverRawTransaction H RD bs chain = Ok (a, t, p) ->
      (exists l pos vb e7 e8 q,
        Decode bs = Ok (Some (Lst l), pos) /\
        nth_error l 6 = Some (Str vb) /\ nth_error l 7 = Some e7 /\ nth_error l 8 = Some e8 /\
        a = addr_of q /\ verify q (H p) (Z.of_N (elem_int e7)) (Z.of_N (elem_int e8)) /\
        ( (V_original (Z.of_N (of_be vb)) /\ p = spec_preimage Original (norm t) 0) \/
          (~ V_original (Z.of_N (of_be vb)) /\ V_eip155 (Z.of_N (of_be vb)) chain /\
           p = spec_preimage Eip155 (norm t) (Z.abs_N chain)) ))
      \/
      (exists rest l pos c0 al e10 e11 q,
        (0 <= chain)%Z /\
        bs = x02 :: rest /\ Decode rest = Ok (Some (Lst l), pos) /\
        nth_error l 0 = Some (Str c0) /\ Z.of_N (of_be c0) = chain /\
        nth_error l 8 = Some (Lst al) /\ nth_error l 10 = Some e10 /\ nth_error l 11 = Some e11 /\
        a = addr_of q /\ verify q (H p) (Z.of_N (elem_int e10)) (Z.of_N (elem_int e11)) /\
        p = x02 :: RLP (L (eip1559_body_al (norm t) (Z.abs_N chain) (L (map to_tree al))))).
Proof. exact RecoverRaw_exact. Qed.
Print Assumptions C10_sound_every_chain_partial.

Theorem C10_sound_legacy_entry_every_chain :
  forall (H : bytes -> bytes) (RD : sigdata -> bytes -> Z -> res bytes)
         (PubKey : Type) (addr_of : PubKey -> bytes) (verify : PubKey -> bytes -> Z -> Z -> Prop),
    (forall v r s d c a, RD (v, r, s) d c = Ok a -> exists q, a = addr_of q /\ verify q d r s) ->
    forall bs chain a t p, (- 2 ^ 63 <= chain < 2 ^ 63)%Z ->
      RecoverLegacyRawTransaction H RD bs chain = Ok (a, t, p) ->
      exists l pos vb e7 e8 q,
        Decode bs = Ok (Some (Lst l), pos) /\
        nth_error l 6 = Some (Str vb) /\ nth_error l 7 = Some e7 /\ nth_error l 8 = Some e8 /\
        a = addr_of q /\ verify q (H p) (Z.of_N (elem_int e7)) (Z.of_N (elem_int e8)) /\
        ( (V_original (Z.of_N (of_be vb)) /\ p = spec_preimage Original (norm t) 0) \/
          (~ V_original (Z.of_N (of_be vb)) /\ V_eip155 (Z.of_N (of_be vb)) chain /\
           p = spec_preimage Eip155 (norm t) (Z.abs_N chain)) ).
Proof. exact RecoverLegacy_exact. Qed.
Print Assumptions C10_sound_legacy_entry_every_chain.

(* 11. The same with C05's secp256k1 layer for [RD]: no hypothesis about RecoverDirect, every chain id
       of the int64 range. *)
Theorem C10_sound_secp256k1_every_chain_partial :
  forall (o : Crypto.Ecdsa.group_ops), Crypto.Ecdsa.laws o ->
  forall (H : bytes -> bytes), (forall x, length (H x) = 32%nat) ->
    forall bs chain a t p, (- 2 ^ 63 <= chain < 2 ^ 63)%Z ->
      RecoverRawTransaction H (RD_secp o H) bs chain = Ok (a, t, p) ->
      (exists l pos vb e7 e8 q,
        Decode bs = Ok (Some (Lst l), pos) /\
        nth_error l 6 = Some (Str vb) /\ nth_error l 7 = Some e7 /\ nth_error l 8 = Some e8 /\
        a = secp_addr_of o H q /\
        secp_verify o q (H p) (Z.of_N (elem_int e7)) (Z.of_N (elem_int e8)) /\
        ( (V_original (Z.of_N (of_be vb)) /\ p = spec_preimage Original (norm t) 0) \/
          (~ V_original (Z.of_N (of_be vb)) /\ V_eip155 (Z.of_N (of_be vb)) chain /\
           p = spec_preimage Eip155 (norm t) (Z.abs_N chain)) ))
      \/
      (exists rest l pos c0 al e10 e11 q,
        (0 <= chain)%Z /\
        bs = x02 :: rest /\ Decode rest = Ok (Some (Lst l), pos) /\
        nth_error l 0 = Some (Str c0) /\ Z.of_N (of_be c0) = chain /\
        nth_error l 8 = Some (Lst al) /\ nth_error l 10 = Some e10 /\ nth_error l 11 = Some e11 /\
        a = secp_addr_of o H q /\
        secp_verify o q (H p) (Z.of_N (elem_int e10)) (Z.of_N (elem_int e11)) /\
        p = x02 :: RLP (L (eip1559_body_al (norm t) (Z.abs_N chain) (L (map to_tree al))))).
Proof. exact exact_secp. Qed.
Print Assumptions C10_sound_secp256k1_every_chain_partial.

(* 12. When the Int64() reduction of V is vacuous: for a V element of at most 8 bytes (V < 2^64) and
       0 <= chain <= 2^63 - 19 - every chain id for which 36 + 2*chain is below 2^64 - the accepted
       values are exactly V = 27, 28 (original form) and V = 35 + 2*chain, 36 + 2*chain (EIP-155);
       [V_original] / [V_eip155] are by definition the statements of theorem 8 (C10_legacy_v_meaning). *)
Theorem C10_legacy_v_exact :
  forall vb chain,
    let V := Z.of_N (of_be vb) in
    (length vb <= 8)%nat -> (0 <= chain <= 2 ^ 63 - 19)%Z ->
    (V_original V <-> V = 27 \/ V = 28)%Z /\
    (V_eip155 V chain <-> V = 35 + 2 * chain \/ V = 36 + 2 * chain)%Z.
Proof. exact (fun vb chain L => legacy_v_exact vb chain (short_v_below vb L)). Qed.
Print Assumptions C10_legacy_v_exact.

(* theorem 10 is not vacuous outside the range of theorem 2: the most negative chain id, -2^63, with
   V = 35 (= 35 + 2*(-2^63) + 2^64) is accepted and the payload is the EIP-155 preimage of the
   returned fields for the chain id 2^63 = |chain|; chain -1 with V = 33 likewise for chain id 1 *)
Example C10_nonvacuous_every_chain :
  let bs := [xc9; x01; x02; x03; x80; x04; x80; x23; x01; x01] in
  let bs' := [xc9; x01; x02; x03; x80; x04; x80; x21; x01; x01] in
  (exists a t p, RecoverRawTransaction H_triv RD_triv bs (- 2 ^ 63) = Ok (a, t, p) /\
     p = spec_preimage Eip155 (norm t) (2 ^ 63) /\ V_eip155 35 (- 2 ^ 63) /\ ~ V_original 35) /\
  (exists a t p, RecoverRawTransaction H_triv RD_triv bs' (-1) = Ok (a, t, p) /\
     p = spec_preimage Eip155 (norm t) 1 /\ V_eip155 33 (-1)).
Proof.
  cbv zeta. split.
  - do 3 eexists. split; [vm_compute; reflexivity|]. split; [vm_compute; reflexivity|]. split.
    + exists 0%Z, 1%Z. split; [auto|reflexivity].
    + intros [p [k [Hp E]]]. lia.
  - do 3 eexists. split; [vm_compute; reflexivity|]. split; [vm_compute; reflexivity|].
    exists 0%Z, 0%Z. split; [auto|reflexivity].
Qed.
