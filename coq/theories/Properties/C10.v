(* C10 — recovering a signer from arbitrary raw transaction bytes is total and sound.
   Statements only; proofs live in Tx/RecoverProofs*.v.

   The model (Tx/RecoverModel.v) takes the hash function [H] and the secp256k1 library call
   [RD = (s *SignatureData).RecoverDirect] as parameters; every theorem quantifies over them. *)
From Coq Require Import List NArith ZArith Lia Bool.
From Coq Require Import Init.Byte.
From FFS Require Import Base.Res Base.Bytes Rlp.Model Tx.Model Tx.RecoverModel Tx.RecoverProofs.
Import ListNotations.

(* 1. Totality: for every byte string and every chain id, none of the four entry points panics
      (provided RecoverDirect itself does not panic on non-negative R and S — property C05). *)
Theorem C10_total :
  forall (H : bytes -> bytes) (RD : sigdata -> bytes -> Z -> res bytes),
    (forall v r s d c, (0 <= r)%Z -> (0 <= s)%Z -> RD (v, r, s) d c <> Panic) ->
    forall (bs : bytes) (chain : Z),
      RecoverRawTransaction H RD bs chain <> Panic /\
      RecoverLegacyRawTransaction H RD bs chain <> Panic /\
      RecoverEIP1559Transaction H RD bs chain <> Panic /\
      DecodeEIP1559SignaturePayload bs chain <> Panic.
Proof. exact C10_total_all. Qed.
Print Assumptions C10_total.
