(* C12 — selectors, event topics and error selectors identify exactly the right ABI entry.
   Statements only; proofs live in Abi/EntryProofs.v and Abi/EntryProofsEvent.v.

   The model (Abi/EntryModel.v) is parametric in what the entry-level code of pkg/abi calls: the hash
   [H], the value encoder [enc], the tuple decoder [dec], the elementary decoder used for topics
   [dece].  Every theorem below holds for ALL instances; a law of an instance that a statement needs
   (hash length, decoder arity, codec round trip) is an explicit hypothesis of that statement. *)
From Coq Require Import List NArith ZArith Bool Arith Lia.
From Coq Require Import Init.Byte.
From FFS Require Import Base.Res Base.Bytes Abi.Types Abi.ModelTypes Abi.EntryModel Abi.EntrySpec.
From FFS Require Import AbiType.Spec Abi.EntryProofs Abi.EntryProofsEvent Abi.EntryLink.
From FFS Require AbiType.Syntax Abi.EncModel Abi.EncProofs3 Abi.Spec Abi.EntryInst.
From FFS Require Abi.DecModel Abi.DecSpec Abi.DecProofs3 Abi.EntryInstC03.
Import ListNotations.

(* 1. The signature is name(canonical type, ...): aliases expanded, tuples as parenthesised lists
      ([canonical] is the spelling function of the ABI type grammar, AbiType/Spec.v).
      [all_suffix_canonical] is what type parsing establishes about the text kept in a component tree:
      the suffix is the canonical decimal of M (MxN), array lengths are not negative (C13). *)
Theorem C12_signature_canonical :
  forall (e : entry) (cs : list tcomp),
    tree_children (e_inputs e) = Ok cs -> all_suffix_canonical cs ->
    Signature e = Ok (signature_spec (e_name e) (map ty_of cs)).
Proof. exact signature_canonical. Qed.
Print Assumptions C12_signature_canonical.

(* 1b. typeComponent.String is the canonical spelling of the type, for every type tree. *)
Theorem C12_type_string_canonical :
  forall t : tcomp, suffix_canonical t -> tc_string t = canonical (ty_of t).
Proof. exact tc_string_canonical. Qed.
Print Assumptions C12_type_string_canonical.

(* 2. The function / error selector is the first four bytes of the hash of that signature, the event
      topic is the whole hash (for any 32-byte hash function; Keccak-256 in the running system). *)
Theorem C12_selector :
  forall (H : bytes -> bytes), (forall m, length (H m) = 32%nat) ->
  forall (e : entry) (cs : list tcomp),
    tree_children (e_inputs e) = Ok cs -> all_suffix_canonical cs ->
    GenerateFunctionSelector H e = Ok (selector_spec H (e_name e) (map ty_of cs)) /\
    FunctionSelectorBytes H e = Ok (selector_spec H (e_name e) (map ty_of cs)).
Proof. exact selector_is_spec. Qed.
Print Assumptions C12_selector.

Theorem C12_topic0 :
  forall (H : bytes -> bytes) (e : entry) (cs : list tcomp),
    tree_children (e_inputs e) = Ok cs -> all_suffix_canonical cs ->
    SignatureHash H e = Ok (topic0_spec H (e_name e) (map ty_of cs)) /\
    SignatureHashBytes H e = topic0_spec H (e_name e) (map ty_of cs).
Proof. exact topic0_is_spec. Qed.
Print Assumptions C12_topic0.

(* 3. Call data is decoded only when it starts with the entry's own selector, and then exactly the
      bytes after the selector are decoded against the inputs. *)
Theorem C12_calldata_guard :
  forall (H : bytes -> bytes) (dec : tcomp -> bytes -> Z -> res cval) (e : entry) (b : bytes) (v : cval),
    DecodeCallData H dec e b = Ok v ->
    exists id, GenerateFunctionSelector H e = Ok id /\ firstn 4 b = id /\ (4 <= length b)%nat /\
               DecodeABIData_params dec (e_inputs e) b 4 = Ok v.
Proof. exact calldata_guard. Qed.
Print Assumptions C12_calldata_guard.

(* 3b. Anything else is refused: fewer than four bytes, or four leading bytes that are not the selector. *)
Theorem C12_calldata_foreign_refused :
  forall (H : bytes -> bytes), (forall m, length (H m) = 32%nat) ->
  forall (dec : tcomp -> bytes -> Z -> res cval) (e : entry) (b : bytes),
    (forall id, GenerateFunctionSelector H e = Ok id -> firstn 4 b <> id \/ (length b < 4)%nat) ->
    exists c, DecodeCallData H dec e b = Err c.
Proof. exact foreign_selector_refused. Qed.
Print Assumptions C12_calldata_foreign_refused.

(* 3c. Round trip: call data produced for an entry is accepted by that entry, and decodes to whatever
      the data codec's round-trip law yields for the argument tuple placed after the four selector
      bytes (the law is C03's theorem for the decoder / encoder models). *)
Theorem C12_calldata_roundtrip :
  forall (H : bytes -> bytes) (enc : cval -> res bytes) (dec : tcomp -> bytes -> Z -> res cval)
         (e : entry) (cv : cval) (b : bytes) (cv' : cval),
    EncodeCallData H enc e cv = Ok b ->
    (forall id d tree, length id = 4%nat -> enc cv = Ok d -> TypeComponentTree (e_inputs e) = Ok tree ->
                       dec tree (id ++ d) 4%Z = Ok cv') ->
    DecodeCallData H dec e b = Ok cv'.
Proof. exact calldata_roundtrip. Qed.
Print Assumptions C12_calldata_roundtrip.

(* 4. Cross rejection: call data encoded for an entry with a different selector is refused (with the
      selector-mismatch error), for every pair of entries and every argument value. *)
Theorem C12_cross_reject :
  forall (H : bytes -> bytes) (enc : cval -> res bytes) (dec : tcomp -> bytes -> Z -> res cval) (e1 e2 : entry) (cv : cval) (b id2 : bytes),
    EncodeCallData H enc e1 cv = Ok b ->
    GenerateFunctionSelector H e2 = Ok id2 ->
    GenerateFunctionSelector H e1 <> Ok id2 ->
    DecodeCallData H dec e2 b = Err EBadSig.
Proof. exact cross_reject. Qed.
Print Assumptions C12_cross_reject.

(* 5. The imperative event decoder (pre-allocated child slice, side tuple, index map) is the
      two-phase functional description: signature-topic guard, topics consumed in order by the indexed
      inputs, data tuple merged into the remaining slots. *)
Theorem C12_event_functional :
  forall (H : bytes -> bytes) (dec : tcomp -> bytes -> Z -> res cval) (dece : bytes -> tcomp -> Z -> Z -> res cval)
         (e : entry) (topics : list bytes) (data : bytes),
    DecodeEventData H dec dece e topics data = event_spec H dec dece e topics data.
Proof. exact DecodeEventData_spec. Qed.
Print Assumptions C12_event_functional.

(* 5b. A decoded log: enough topics were present, a named event carried its own signature hash in
      topics[0], and argument i is -- by the layout of the ABI specification ([sources]) -- the value
      decoded from its topic when indexed and of a value type (integers, address, bool, fixed-point,
      function), the raw topic bytes for any other indexed type, and the rank-th member of the decoded
      data tuple otherwise. *)
Theorem C12_event_decode :
  forall (H : bytes -> bytes) (dec : tcomp -> bytes -> Z -> res cval) (dece : bytes -> tcomp -> Z -> Z -> res cval)
         (e : entry) (topics : list bytes) (data : bytes) (r : cval),
    decode_len_law dec ->
    DecodeEventData H dec dece e topics data = Ok r ->
    exists cs children,
      tree_children (e_inputs e) = Ok cs /\
      r = CV (Some (TCTuple cs [])) children GNil /\ length children = length cs /\
      (topics_needed (e_anonymous e) (map p_indexed (e_inputs e)) <= length topics)%nat /\
      (e_anonymous e = false -> nth_error topics 0 = Some (SignatureHashBytes H e)) /\
      forall i tc, nth_error cs i = Some tc ->
        match nth_error (sources (map p_indexed (e_inputs e))) i with
        | Some (FromTopic k) =>
            exists topic v, nth_error topics ((if e_anonymous e then 0 else 1) + k) = Some topic /\
                            nth_error children i = Some v /\
                            (if topic_is_value (ty_of tc) then dece topic tc 0%Z 0%Z = Ok v
                             else v = raw_topic_value topic tc)
        | Some (FromData k) =>
            exists c vs g, dec (TCTuple (data_args (zip_inputs cs (e_inputs e))) []) data 0%Z = Ok (CV c vs g) /\
                           (k < length vs)%nat /\ nth_error children i = nth_error vs k
        | None => False
        end.
Proof. exact event_decode. Qed.
Print Assumptions C12_event_decode.

(* 6. Refusals: a named event without any topic, a named event with a foreign signature topic, and
      any event with fewer topics than it needs. *)
Theorem C12_event_refuse :
  forall (H : bytes -> bytes) (dec : tcomp -> bytes -> Z -> res cval) (dece : bytes -> tcomp -> Z -> Z -> res cval)
         (e : entry) (data : bytes),
    (e_anonymous e = false -> (exists cs, tree_children (e_inputs e) = Ok cs) ->
       DecodeEventData H dec dece e [] data = Err EInsufficientTopics) /\
    (forall t0 ts, e_anonymous e = false -> (exists cs, tree_children (e_inputs e) = Ok cs) ->
       t0 <> SignatureHashBytes H e ->
       DecodeEventData H dec dece e (t0 :: ts) data = Err ESigMismatch) /\
    (forall topics r, (length topics < topics_needed (e_anonymous e) (map p_indexed (e_inputs e)))%nat ->
       DecodeEventData H dec dece e topics data <> Ok r) /\
    (forall topics, (forall topic tc, dece topic tc 0%Z 0%Z <> Panic) ->
       (length topics < topics_needed (e_anonymous e) (map p_indexed (e_inputs e)))%nat ->
       exists c, DecodeEventData H dec dece e topics data = Err c).
Proof.
  intros H dec dece e data. split; [apply event_refuse_no_topics|].
  split; [intros; apply event_refuse_foreign_topic0; assumption|].
  split; [intros; apply event_refuse_too_few_topics; assumption|].
  intros; apply event_refuse_too_few_topics_err; assumption.
Qed.
Print Assumptions C12_event_refuse.

(* 7. Revert data is attributed to an error definition of the ABI -- or the built-in Error(string) --
      whose selector it carries, with the arguments decoded from the bytes after the selector; it is
      the first such definition in (Error(string) :: ABI); and when nothing is attributed, every error
      definition refused the data. *)
Theorem C12_error_attribution :
  forall (H : bytes -> bytes) (dec : tcomp -> bytes -> Z -> res cval) (a : list entry) (d : bytes),
    (forall e v, ParseError H dec a d = Ok (Some (e, v)) ->
       In e (default_error :: a) /\ e_type e = TyError /\
       (exists id, GenerateFunctionSelector H e = Ok id /\ firstn 4 d = id /\ (4 <= length d)%nat /\
                   DecodeABIData_params dec (e_inputs e) d 4 = Ok v) /\
       (exists pre post, default_error :: a = pre ++ e :: post /\
          forall e', In e' pre -> e_type e' = TyError -> exists c, DecodeCallData H dec e' d = Err c)) /\
    (ParseError H dec a d = Ok None ->
       forall e, In e (default_error :: a) -> e_type e = TyError -> exists c, DecodeCallData H dec e d = Err c).
Proof.
  intros H dec a d. split.
  - intros e v E. destruct (error_attribution H dec a d e v E) as (A & B & C).
    split; [exact A|]. split; [exact B|]. split; [exact C|]. exact (error_attribution_first H dec a d e v E).
  - exact (error_not_found H dec a d).
Qed.
Print Assumptions C12_error_attribution.

(* 7b. Completeness: if some error definition accepts the data (and no decoder call panics), the data
      is attributed. *)
Theorem C12_error_found :
  forall (H : bytes -> bytes) (dec : tcomp -> bytes -> Z -> res cval) (a : list entry) (d : bytes),
    (forall e, In e (default_error :: a) -> DecodeCallData H dec e d <> Panic) ->
    (exists e v, In e (default_error :: a) /\ e_type e = TyError /\ DecodeCallData H dec e d = Ok v) ->
    exists e v, ParseError H dec a d = Ok (Some (e, v)).
Proof. exact error_found. Qed.
Print Assumptions C12_error_found.

(* 7c. The string form names the attributed definition. *)
Theorem C12_error_string :
  forall (H : bytes -> bytes) (dec : tcomp -> bytes -> Z -> res cval) (fa : cval -> option (list bytes))
         (a : list entry) (d s : bytes),
    ErrorString H dec fa a d = Ok (s, true) ->
    exists e v parsed, ParseError H dec a d = Ok (Some (e, v)) /\ fa v = Some parsed /\
      s = e_name e ++ [ch_lparen] ++ join_args O parsed ++ [ch_rparen].
Proof. exact error_string_attributed. Qed.
Print Assumptions C12_error_string.

(* 8. From the ABI JSON to the signature: for an entry given by its parameter objects (type text +
      components, parsed by the model of the type parser of C13 and embedded into the entry model),
      whenever the i-th object spells the valid type ts[i] -- canonically, by an alias (uint, int,
      fixed, ufixed), as "tuple" + components, with array suffixes -- the signature is
      name(canonical ts[0],...), the selector its first four hash bytes, the topic the hash.
      An entry with an object that spells no valid type has no signature. *)
Theorem C12_signature_from_json :
  forall (ty : etype) (name : bytes) (anonymous : bool) (ps : list (AbiType.Syntax.param * bool)) (ts : list Abi.Types.ty),
    spells ps ts ->
    Signature (link_entry ty name anonymous ps) = Ok (signature_spec name ts).
Proof. exact signature_from_json. Qed.
Print Assumptions C12_signature_from_json.

Theorem C12_selector_from_json :
  forall (H : bytes -> bytes) (ty : etype) (name : bytes) (anonymous : bool)
         (ps : list (AbiType.Syntax.param * bool)) (ts : list Abi.Types.ty),
    (forall m, length (H m) = 32%nat) -> spells ps ts ->
    GenerateFunctionSelector H (link_entry ty name anonymous ps) = Ok (selector_spec H name ts) /\
    SignatureHashBytes H (link_entry ty name anonymous ps) = topic0_spec H name ts.
Proof. exact selector_from_json. Qed.
Print Assumptions C12_selector_from_json.

Theorem C12_signature_invalid_json :
  forall (ty : etype) (name : bytes) (anonymous : bool) (ps : list (AbiType.Syntax.param * bool)),
    Exists (fun pi => ~ exists t, valid_type t = true /\
                         spelling t (AbiType.Syntax.p_type (fst pi)) (AbiType.Syntax.p_comps (fst pi))) ps ->
    exists c, Signature (link_entry ty name anonymous ps) = Err c.
Proof. exact signature_invalid_json. Qed.
Print Assumptions C12_signature_invalid_json.

(* 9. Instantiated with the encoder model of C02 (Abi/EncModel.v) and its theorem: the call data of a
      well-typed argument tuple is selector ++ enc((T1,...,Tn), arguments) of the Solidity specification. *)
Theorem C12_calldata_is_spec :
  forall (H : bytes -> bytes), (forall m, length (H m) = 32%nat) ->
  forall (e : entry) (cs : list tcomp) (x : cval),
    tree_children (e_inputs e) = Ok cs -> all_suffix_canonical cs ->
    let tc := TCTuple cs [] in
    tc_wf tc = true -> tc_no_fixed_point tc = true -> tc_no_zero_len tc = true ->
    typed_as tc x = true -> Abi.EncProofs3.values_ok x = true ->
    Abi.Spec.well_typed (ty_of tc) (val_of x) = true -> Abi.EncProofs3.weight_ok (val_of x) ->
    EncodeCallData H Abi.EncModel.EncodeABIData e x =
      Ok (selector_spec H (e_name e) (map ty_of cs) ++ Abi.Spec.enc (TTuple (map ty_of cs)) (val_of x)).
Proof. exact Abi.EntryInst.calldata_is_spec. Qed.
Print Assumptions C12_calldata_is_spec.

(* 10. The round trip of 3c with its codec-law hypothesis discharged: encoder model of C02, decoder model
       of C03 (theorem DecProofs4.DecodeABIData_enc = C03_decode_encode).  For every entry whose
       parameter list is a valid type list without fixed-point members and without T[0] (C03's
       quantifier) and every well-typed argument tuple within the sizes the two models accept
       ([weight_ok]: C02's bound; encoding shorter than 2^32 bytes and [counts_ok]: C03's): the call data
       is selector ++ enc((T1..Tn), x) and DecodeCallData of it returns exactly the tree of x
       ([cv_of]: same numbers / bytes / strings / lengths, every node carrying its component). *)
Theorem C12_calldata_roundtrip_codec :
  forall (H : bytes -> bytes), (forall m, length (H m) = 32%nat) ->
  forall (e : entry) (cs : list tcomp) (x : cval),
    tree_children (e_inputs e) = Ok cs -> all_suffix_canonical cs ->
    let tc := TCTuple cs [] in
    tc_wf tc = true -> tc_no_fixed_point tc = true -> tc_no_zero_len tc = true ->
    typed_as tc x = true -> Abi.EncProofs3.values_ok x = true ->
    Abi.Spec.well_typed (ty_of tc) (val_of x) = true -> Abi.EncProofs3.weight_ok (val_of x) ->
    (Abi.DecModel.zlen (Abi.Spec.enc (ty_of tc) (val_of x)) < 2 ^ 32)%Z ->
    Abi.DecProofs3.counts_ok (val_of x) = true ->
    exists b,
      EncodeCallData H Abi.EncModel.EncodeABIData e x = Ok b /\
      b = selector_spec H (e_name e) (map ty_of cs) ++ Abi.Spec.enc (TTuple (map ty_of cs)) (val_of x) /\
      DecodeCallData H Abi.DecModel.DecodeABIData e b = Ok (Abi.DecSpec.cv_of tc (val_of x)).
Proof. exact Abi.EntryInstC03.calldata_roundtrip_codec. Qed.
Print Assumptions C12_calldata_roundtrip_codec.

(* ---------- non-vacuity ---------- *)
From Coq Require Import String.
From FFS Require Abi.EncModel Abi.DecModel Rlp.Model.
From FFS Require Import Abi.EntryInst.

(* a 32-byte "hash" good enough to run the examples (the theorems hold for every H) *)
Definition toyH (m : bytes) : bytes :=
  Rlp.Model.be_fixed 32 (fold_left (fun a b => (a * 16777619 + b2n b + 1) mod 2 ^ 256)%N m 0%N).
Definition Sb (s : string) : bytes := ascii_bytes s.

Definition tAddr k := TCElem EAddress [] 160 0 (Sb k).
Definition tU256 k := TCElem EUInt (Sb "256") 256 0 (Sb k).
Definition tStr k := TCElem EString [] 0 0 (Sb k).
Definition tU8arr k := TCFixedArr 2 (TCElem EUInt (Sb "8") 8 0 (Sb k)) (Sb k).

(* function transfer(address to, uint amount) -- "uint" parses to suffix "256" *)
Definition ex_transfer : entry :=
  mkEntry TyFunction (Sb "transfer") false [mkParam (Some (tAddr "to")) false; mkParam (Some (tU256 "amount")) false].
Definition ex_other : entry :=
  mkEntry TyFunction (Sb "transferFrom") false [mkParam (Some (tAddr "to")) false; mkParam (Some (tU256 "amount")) false].
(* event E(string indexed s, uint256 a, uint8[2] indexed p, address indexed w, (uint256,string) t) *)
Definition ex_event : entry :=
  mkEntry TyEvent (Sb "E") false
    [mkParam (Some (tStr "s")) true; mkParam (Some (tU256 "a")) false; mkParam (Some (tU8arr "p")) true;
     mkParam (Some (tAddr "w")) true; mkParam (Some (TCTuple [tU256 "x"; tStr "y"] (Sb "t"))) false].

Example C12_signature_nonvacuous :
  let cs := [tAddr "to"; tU256 "amount"; TCDynArr (TCTuple [tU8arr "p"; tStr "y"] (Sb "t")) (Sb "t")] in
  let e := mkEntry TyFunction (Sb "f") false (map (fun c => mkParam (Some c) false) cs) in
  tree_children (e_inputs e) = Ok cs /\ all_suffix_canonical cs /\
  Signature e = Ok (Sb "f(address,uint256,(uint8[2],string)[])").
Proof. cbv zeta. split; [reflexivity|]. split; [repeat split; try reflexivity; cbn; lia|]. vm_compute. reflexivity. Qed.

Example C12_calldata_is_spec_nonvacuous :
  let cs := [tAddr "to"; tU256 "amount"] in
  let args := CV (Some (TCTuple cs []))
                 [CV (Some (tAddr "to")) [] (GBigInt 255); CV (Some (tU256 "amount")) [] (GBigInt 1000)] GNil in
  tree_children (e_inputs ex_transfer) = Ok cs /\ all_suffix_canonical cs /\
  tc_wf (TCTuple cs []) = true /\ tc_no_fixed_point (TCTuple cs []) = true /\ tc_no_zero_len (TCTuple cs []) = true /\
  typed_as (TCTuple cs []) args = true /\ Abi.EncProofs3.values_ok args = true /\
  Abi.Spec.well_typed (ty_of (TCTuple cs [])) (val_of args) = true /\ Abi.EncProofs3.weight_ok (val_of args).
Proof.
  cbv zeta. split; [reflexivity|]. split; [cbn; repeat split; vm_compute; reflexivity|].
  split; [vm_compute; reflexivity|]. split; [vm_compute; reflexivity|]. split; [vm_compute; reflexivity|].
  split; [vm_compute; reflexivity|]. split; [vm_compute; reflexivity|]. split; [vm_compute; reflexivity|].
  unfold Abi.EncProofs3.weight_ok. vm_compute. reflexivity.
Qed.

(* the two extra guards of C12_calldata_roundtrip_codec hold for the same arguments, and its conclusion
   is the tree that was encoded *)
Example C12_calldata_roundtrip_codec_nonvacuous :
  let cs := [tAddr "to"; tU256 "amount"] in
  let args := CV (Some (TCTuple cs []))
                 [CV (Some (tAddr "to")) [] (GBigInt 255); CV (Some (tU256 "amount")) [] (GBigInt 1000)] GNil in
  (Abi.DecModel.zlen (Abi.Spec.enc (ty_of (TCTuple cs [])) (val_of args)) < 2 ^ 32)%Z /\
  Abi.DecProofs3.counts_ok (val_of args) = true /\
  Abi.DecSpec.cv_of (TCTuple cs []) (val_of args) = args.
Proof.
  cbv zeta. split; [vm_compute; reflexivity|]. split; vm_compute; reflexivity.
Qed.

Example C12_calldata_nonvacuous :
  let args := CV (Some (TCTuple [tAddr "to"; tU256 "amount"] []))
                 [CV (Some (tAddr "to")) [] (GBigInt 255); CV (Some (tU256 "amount")) [] (GBigInt 1000)] GNil in
  exists b, EncodeCallData toyH EncModel.EncodeABIData ex_transfer args = Ok b /\ List.length b = 68%nat /\
            (exists v, DecodeCallData toyH DecModel.DecodeABIData ex_transfer b = Ok v /\ val_of v = val_of args) /\
            DecodeCallData toyH DecModel.DecodeABIData ex_other b = Err EBadSig /\
            GenerateFunctionSelector toyH ex_other <> GenerateFunctionSelector toyH ex_transfer.
Proof.
  cbv zeta. eexists. split; [vm_compute; reflexivity|]. split; [reflexivity|].
  split; [eexists; split; [vm_compute; reflexivity|vm_compute; reflexivity]|].
  split; [vm_compute; reflexivity|]. vm_compute. discriminate.
Qed.

(* a log of ex_event: topics = [hash; raw; raw; address], data = (uint256, (uint256,string)) *)
Example C12_event_nonvacuous :
  let raw1 := repeat x11 32 in let raw2 := repeat x22 32 in
  let w := repeat x00 12 ++ repeat xab 20 in
  let data := Abi.Spec.enc (TTuple [TUInt 256; TTuple [TUInt 256; TString]])
                (Abi.Spec.VList [Abi.Spec.VNum 7; Abi.Spec.VList [Abi.Spec.VNum 9; Abi.Spec.VBytes (Sb "hi")]]) in
  let topics := [SignatureHashBytes toyH ex_event; raw1; raw2; w] in
  decode_len_law DecModel.DecodeABIData /\
  (exists children, DecodeEventData toyH DecModel.DecodeABIData DecModel.decode_elementary ex_event topics data
                    = Ok (CV (Some (TCTuple [tStr "s"; tU256 "a"; tU8arr "p"; tAddr "w"; TCTuple [tU256 "x"; tStr "y"] (Sb "t")] [])) children GNil) /\
     map val_of children =
       [Abi.Spec.VBytes raw1; Abi.Spec.VNum 7; Abi.Spec.VBytes raw2; Abi.Spec.VNum (Z.of_N (Rlp.Model.of_be (repeat xab 20)));
        Abi.Spec.VList [Abi.Spec.VNum 9; Abi.Spec.VBytes (Sb "hi")]]) /\
  DecodeEventData toyH DecModel.DecodeABIData DecModel.decode_elementary ex_event (firstn 3 topics) data = Err EInsufficientTopics /\
  DecodeEventData toyH DecModel.DecodeABIData DecModel.decode_elementary ex_event [] data = Err EInsufficientTopics /\
  DecodeEventData toyH DecModel.DecodeABIData DecModel.decode_elementary ex_event (raw1 :: tl topics) data = Err ESigMismatch.
Proof.
  cbv zeta. split; [exact DecModel_decode_len|].
  split; [eexists; split; vm_compute; reflexivity|].
  split; [vm_compute; reflexivity|]. split; vm_compute; reflexivity.
Qed.

Example C12_error_nonvacuous :
  let insufficient := mkEntry TyError (Sb "Insufficient") false [mkParam (Some (tU256 "need")) false] in
  let a := [ex_transfer; insufficient] in
  let args := CV (Some (TCTuple [tU256 "need"] [])) [CV (Some (tU256 "need")) [] (GBigInt 5)] GNil in
  let reason := CV (Some (TCTuple [tStr "reason"] [])) [CV (Some (tStr "reason")) [] (GString (Sb "boom"))] GNil in
  (exists d v, EncodeCallData toyH EncModel.EncodeABIData insufficient args = Ok d /\
               ParseError toyH DecModel.DecodeABIData a d = Ok (Some (insufficient, v)) /\ val_of v = val_of args) /\
  (exists d v, EncodeCallData toyH EncModel.EncodeABIData default_error reason = Ok d /\
               ParseError toyH DecModel.DecodeABIData a d = Ok (Some (default_error, v)) /\ val_of v = val_of reason) /\
  (exists d, EncodeCallData toyH EncModel.EncodeABIData ex_transfer
               (CV (Some (TCTuple [tAddr "to"; tU256 "amount"] []))
                   [CV (Some (tAddr "to")) [] (GBigInt 1); CV (Some (tU256 "amount")) [] (GBigInt 2)] GNil) = Ok d /\
             ParseError toyH DecModel.DecodeABIData a d = Ok None).
Proof.
  cbv zeta. split; [eexists; eexists; split; [vm_compute; reflexivity|split; vm_compute; reflexivity]|].
  split; [eexists; eexists; split; [vm_compute; reflexivity|split; vm_compute; reflexivity]|].
  eexists; split; vm_compute; reflexivity.
Qed.

(* f(uint, tuple[] {fixed, bytes32}) spelled with aliases: the signature expands them *)
Example C12_from_json_nonvacuous :
  let P := AbiType.Syntax.Param in
  let ps := [(P (Sb "uint") [], false); (P (Sb "tuple[]") [P (Sb "fixed") []; P (Sb "bytes32") []], true)] in
  let ts := [TUInt 256; TDynArr (TTuple [TFixed 128 18; TBytesN 32])] in
  spells ps ts /\
  Signature (link_entry TyFunction (Sb "f") false ps) = Ok (Sb "f(uint256,(fixed128x18,bytes32)[])").
Proof.
  cbv zeta. split.
  - constructor; [split; [reflexivity|right; split; reflexivity]|].
    constructor; [|constructor]. split; [reflexivity|].
    exists (Sb "tuple"). split; [|reflexivity]. split; [reflexivity|].
    split; [right; repeat split; reflexivity|]. split; [reflexivity|exact I].
  - vm_compute. reflexivity.
Qed.

(* ==========================================================================================
   Answers to the referee report (design/reviews/C12.md).  Proofs: Abi/EntryReferee.v,
   Abi/EntryRefereeEvent.v.
   ========================================================================================== *)
From FFS Require Import Base.Keccak Abi.EntryReferee Abi.EntryRefereeEvent.

(* 11. (issue 3) The hash of the running system named: with Keccak-256 of Base/Keccak.v (the Gallina
       implementation the correspondence run re-checks x/crypto/sha3 against) the selector is the
       first four bytes of keccak256("name(canonical types)") and the event topic the whole digest. *)
Theorem C12_selector_keccak :
  forall (e : entry) (cs : list tcomp),
    tree_children (e_inputs e) = Ok cs -> all_suffix_canonical cs ->
    let sig := signature_spec (e_name e) (map ty_of cs) in
    GenerateFunctionSelector keccak256 e = Ok (firstn 4 (keccak256 sig)) /\
    FunctionSelectorBytes keccak256 e = Ok (firstn 4 (keccak256 sig)) /\
    SignatureHash keccak256 e = Ok (keccak256 sig) /\
    SignatureHashBytes keccak256 e = keccak256 sig.
Proof. exact selector_keccak. Qed.
Print Assumptions C12_selector_keccak.

Theorem C12_selector_keccak_from_json :
  forall (ty : etype) (name : bytes) (anonymous : bool) (ps : list (AbiType.Syntax.param * bool)) (ts : list Abi.Types.ty),
    spells ps ts ->
    let e := link_entry ty name anonymous ps in
    Signature e = Ok (signature_spec name ts) /\
    GenerateFunctionSelector keccak256 e = Ok (firstn 4 (keccak256 (signature_spec name ts))) /\
    SignatureHashBytes keccak256 e = keccak256 (signature_spec name ts).
Proof. exact selector_keccak_from_json. Qed.
Print Assumptions C12_selector_keccak_from_json.

(* 11b. Call data with Keccak-256, C02's encoder model and C03's decoder model (guards of theorem 10). *)
Theorem C12_calldata_roundtrip_keccak :
  forall (e : entry) (cs : list tcomp) (x : cval),
    tree_children (e_inputs e) = Ok cs -> all_suffix_canonical cs ->
    let tc := TCTuple cs [] in
    tc_wf tc = true -> tc_no_fixed_point tc = true -> tc_no_zero_len tc = true ->
    typed_as tc x = true -> Abi.EncProofs3.values_ok x = true ->
    Abi.Spec.well_typed (ty_of tc) (val_of x) = true -> Abi.EncProofs3.weight_ok (val_of x) ->
    (Abi.DecModel.zlen (Abi.Spec.enc (ty_of tc) (val_of x)) < 2 ^ 32)%Z -> Abi.DecProofs3.counts_ok (val_of x) = true ->
    let b := firstn 4 (keccak256 (signature_spec (e_name e) (map ty_of cs))) ++
             Abi.Spec.enc (TTuple (map ty_of cs)) (val_of x) in
    EncodeCallData keccak256 Abi.EncModel.EncodeABIData e x = Ok b /\
    DecodeCallData keccak256 Abi.DecModel.DecodeABIData e b = Ok (Abi.DecSpec.cv_of tc (val_of x)).
Proof. exact calldata_roundtrip_keccak. Qed.
Print Assumptions C12_calldata_roundtrip_keccak.

(* 12. (issue 2) ACCEPTANCE of event logs, for every hash and every codec.  A log that carries the
       event's own signature hash first (unless anonymous), then one topic per indexed input each of
       which yields a value ([topic_yields]: [dece topic tc 0 0 = Ok v] for value types, the raw topic
       otherwise), then possibly surplus topics, and whose data decodes as the tuple of the
       non-indexed inputs to one value per member (or there is no non-indexed input), IS decoded: to the
       topic values and the data values in declaration order ([weave] by the indexed flags). *)
Theorem C12_event_accept :
  forall (H : bytes -> bytes) (dec : tcomp -> bytes -> Z -> res cval) (dece : bytes -> tcomp -> Z -> Z -> res cval)
         (e : entry) (cs : list tcomp) (tps : list bytes) (tvs : list cval) (extra : list bytes) (data : bytes)
         (c : option tcomp) (dvs : list cval) (g : gval),
    tree_children (e_inputs e) = Ok cs ->
    let l := zip_inputs cs (e_inputs e) in
    List.length tps = List.length tvs ->
    Forall2 (fun tc tv => topic_yields dece tc (fst tv) (snd tv)) (indexed_args l) (combine tps tvs) ->
    (data_args l = [] /\ dvs = [] \/
     dec (TCTuple (data_args l) []) data 0%Z = Ok (CV c dvs g) /\ List.length dvs = List.length (data_args l)) ->
    DecodeEventData H dec dece e
      ((if e_anonymous e then [] else [SignatureHashBytes H e]) ++ tps ++ extra) data
    = Ok (CV (Some (TCTuple cs [])) (weave (map p_indexed (e_inputs e)) tvs dvs) GNil).
Proof. exact event_accept. Qed.
Print Assumptions C12_event_accept.

(* 12b. (issue 2) THE EMITTED LOG DECODES TO THE EMITTED VALUES, with the Solidity encoding of the
       specification and the decoder model of C03 (theorem C03_decode_encode) plugged in.
       For an event with inputs (T1 [indexed] .. Tn [indexed]) and emitted arguments [args] (value xi
       and, for an indexed argument of a non-value type, the 32-byte hash hi the EVM stores -- any
       bytes here):
         topics = [SignatureHashBytes e unless anonymous] ++ [enc(Ti, xi) | hi : indexed i] (++ surplus)
         data   = enc((Tj..), (xj..)) over the non-indexed inputs
       decode to the tree whose i-th child is the tree of xi ([cv_of]), or the raw topic hi as a
       [bytes] value carrying the input's key for an indexed non-value type.
       Guards (C03's quantifier, decidable): indexed value-type arguments are [tc_wf], not fixed-point
       and well typed ([topics_guard]); the data tuple is [tc_wf], without fixed-point and T[0]
       members, well typed, its encoding shorter than 2^32 bytes, [counts_ok]. *)
Theorem C12_event_roundtrip_codec :
  forall (H : bytes -> bytes) (e : entry) (cs : list tcomp) (args : list emitted) (extra : list bytes),
    tree_children (e_inputs e) = Ok cs ->
    let l := zip_inputs cs (e_inputs e) in
    List.length args = List.length cs ->
    topics_guard l args = true ->
    let dt := TCTuple (data_args l) [] in
    let dv := Abi.Spec.VList (log_data_vals l args) in
    tc_wf dt = true -> tc_no_fixed_point dt = true -> tc_no_zero_len dt = true ->
    Abi.Spec.well_typed (ty_of dt) dv = true ->
    (Abi.DecModel.zlen (Abi.Spec.enc (ty_of dt) dv) < 2 ^ 32)%Z -> Abi.DecProofs3.counts_ok dv = true ->
    DecodeEventData H Abi.DecModel.DecodeABIData Abi.DecModel.decode_elementary e
      ((if e_anonymous e then [] else [SignatureHashBytes H e]) ++ log_topics l args ++ extra) (log_data l args)
    = Ok (CV (Some (TCTuple cs [])) (log_children l args) GNil).
Proof. exact event_roundtrip_codec. Qed.
Print Assumptions C12_event_roundtrip_codec.

(* 12c. The same with Keccak-256 and the signature topic written out. *)
Theorem C12_event_roundtrip_keccak :
  forall (e : entry) (cs : list tcomp) (args : list emitted) (extra : list bytes),
    tree_children (e_inputs e) = Ok cs -> all_suffix_canonical cs ->
    let l := zip_inputs cs (e_inputs e) in
    List.length args = List.length cs ->
    topics_guard l args = true ->
    let dt := TCTuple (data_args l) [] in
    let dv := Abi.Spec.VList (log_data_vals l args) in
    tc_wf dt = true -> tc_no_fixed_point dt = true -> tc_no_zero_len dt = true ->
    Abi.Spec.well_typed (ty_of dt) dv = true ->
    (Abi.DecModel.zlen (Abi.Spec.enc (ty_of dt) dv) < 2 ^ 32)%Z -> Abi.DecProofs3.counts_ok dv = true ->
    DecodeEventData keccak256 Abi.DecModel.DecodeABIData Abi.DecModel.decode_elementary e
      ((if e_anonymous e then [] else [keccak256 (signature_spec (e_name e) (map ty_of cs))])
       ++ log_topics l args ++ extra) (log_data l args)
    = Ok (CV (Some (TCTuple cs [])) (log_children l args) GNil).
Proof. exact event_roundtrip_keccak. Qed.
Print Assumptions C12_event_roundtrip_keccak.

(* 13. (issue 5) Which definition, which arguments.  The first definition of (Error(string) :: ABI)
       that accepts the revert data is the one returned, with its own decode -- no assumption about
       panics. *)
Theorem C12_error_found_first :
  forall (H : bytes -> bytes) (dec : tcomp -> bytes -> Z -> res cval) (a : list entry) (d : bytes)
         (pre : list entry) (e : entry) (post : list entry) (v : cval),
    default_error :: a = pre ++ e :: post ->
    e_type e = TyError -> DecodeCallData H dec e d = Ok v ->
    (forall e', In e' pre -> e_type e' = TyError -> exists c, DecodeCallData H dec e' d = Err c) ->
    ParseError H dec a d = Ok (Some (e, v)).
Proof. exact error_found_first. Qed.
Print Assumptions C12_error_found_first.

(* 13b. C12_error_found with its witness named: the attributed definition is the first accepting one,
        it carries the selector found in the data, the arguments are its own decode. *)
Theorem C12_error_found_named :
  forall (H : bytes -> bytes) (dec : tcomp -> bytes -> Z -> res cval) (a : list entry) (d : bytes),
    (forall e, In e (default_error :: a) -> DecodeCallData H dec e d <> Panic) ->
    (exists e v, In e (default_error :: a) /\ e_type e = TyError /\ DecodeCallData H dec e d = Ok v) ->
    exists pre e post v,
      default_error :: a = pre ++ e :: post /\ e_type e = TyError /\
      ParseError H dec a d = Ok (Some (e, v)) /\
      DecodeCallData H dec e d = Ok v /\
      GenerateFunctionSelector H e = Ok (firstn 4 d) /\
      (forall e', In e' pre -> e_type e' = TyError -> exists c, DecodeCallData H dec e' d = Err c).
Proof. exact error_found_named. Qed.
Print Assumptions C12_error_found_named.

(* 13c. With C02's encoder model and C03's decoder model: revert data built for an error definition e of
        the ABI, selector ++ enc(arguments), is attributed to e itself with exactly the argument tree,
        provided no earlier error definition (the built-in Error(string) included) has e's selector.
        (Guards of theorem 10.) *)
Theorem C12_error_roundtrip_codec :
  forall (H : bytes -> bytes), (forall m, List.length (H m) = 32%nat) ->
  forall (a : list entry) (pre post : list entry) (e : entry) (cs : list tcomp) (x : cval),
    default_error :: a = pre ++ e :: post -> e_type e = TyError ->
    (forall e', In e' pre -> e_type e' = TyError -> GenerateFunctionSelector H e' <> GenerateFunctionSelector H e) ->
    tree_children (e_inputs e) = Ok cs -> all_suffix_canonical cs ->
    let tc := TCTuple cs [] in
    tc_wf tc = true -> tc_no_fixed_point tc = true -> tc_no_zero_len tc = true ->
    typed_as tc x = true -> Abi.EncProofs3.values_ok x = true ->
    Abi.Spec.well_typed (ty_of tc) (val_of x) = true -> Abi.EncProofs3.weight_ok (val_of x) ->
    (Abi.DecModel.zlen (Abi.Spec.enc (ty_of tc) (val_of x)) < 2 ^ 32)%Z -> Abi.DecProofs3.counts_ok (val_of x) = true ->
    ParseError H Abi.DecModel.DecodeABIData a
      (selector_spec H (e_name e) (map ty_of cs) ++ Abi.Spec.enc (TTuple (map ty_of cs)) (val_of x))
    = Ok (Some (e, Abi.DecSpec.cv_of tc (val_of x))).
Proof. exact error_roundtrip_codec. Qed.
Print Assumptions C12_error_roundtrip_codec.

(* 14. (issue 7) The link to the type parser does not hide a panic: the parser model never panics
       (C13_total) and a parameter object has no type tree in the entry model exactly when the parser
       refuses it with an error. *)
Theorem C12_link_param_none_is_refusal :
  forall (p : AbiType.Syntax.param) (ix : bool),
    AbiType.Model.Validate p <> Panic /\
    (p_tc (link_param p ix) = None <-> exists c, AbiType.Model.Validate p = Err c).
Proof. exact link_param_none_is_refusal. Qed.
Print Assumptions C12_link_param_none_is_refusal.

(* ---------- non-vacuity of the referee round ---------- *)

(* Keccak-256 computed in Coq: transfer(address,uint256) has selector a9059cbb *)
Example C12_keccak_nonvacuous :
  GenerateFunctionSelector keccak256 ex_transfer = Ok [xa9; x05; x9c; xbb] /\
  firstn 4 (SignatureHashBytes keccak256
     (mkEntry TyEvent (Sb "Transfer") false
        [mkParam (Some (tAddr "from")) true; mkParam (Some (tAddr "to")) true; mkParam (Some (tU256 "value")) false]))
  = [xdd; xf2; x52; xad].
Proof. split; vm_compute; reflexivity. Qed.

Definition tI64 k := TCElem EInt (Sb "64") 64 0 (Sb k).
Definition tBool k := TCElem EBool [] 8 0 (Sb k).
(* event V(uint256 indexed a, bool indexed b, string c, int64 indexed d, string indexed s) *)
Definition ex_event2 : entry :=
  mkEntry TyEvent (Sb "V") false
    [mkParam (Some (tU256 "a")) true; mkParam (Some (tBool "b")) true; mkParam (Some (tStr "c")) false;
     mkParam (Some (tI64 "d")) true; mkParam (Some (tStr "s")) true].
Definition ex_args2 : list emitted :=
  [(Abi.Spec.VNum 1000, []); (Abi.Spec.VNum 1, []); (Abi.Spec.VBytes (Sb "hello"), []);
   (Abi.Spec.VNum (-5), []); (Abi.Spec.VBytes (Sb "hashed away"), repeat x77 32)].

(* the guards of C12_event_roundtrip_codec hold for a log with an indexed integer, boolean, negative
   integer and string; the conclusion's two sides, evaluated *)
Example C12_event_roundtrip_nonvacuous :
  let cs := [tU256 "a"; tBool "b"; tStr "c"; tI64 "d"; tStr "s"] in
  let l := zip_inputs cs (e_inputs ex_event2) in
  let dt := TCTuple (data_args l) [] in
  let dv := Abi.Spec.VList (log_data_vals l ex_args2) in
  tree_children (e_inputs ex_event2) = Ok cs /\ List.length ex_args2 = List.length cs /\
  topics_guard l ex_args2 = true /\
  tc_wf dt = true /\ tc_no_fixed_point dt = true /\ tc_no_zero_len dt = true /\
  Abi.Spec.well_typed (ty_of dt) dv = true /\
  (Abi.DecModel.zlen (Abi.Spec.enc (ty_of dt) dv) < 2 ^ 32)%Z /\ Abi.DecProofs3.counts_ok dv = true /\
  List.length (log_topics l ex_args2) = 4%nat /\
  map val_of (log_children l ex_args2) =
    [Abi.Spec.VNum 1000; Abi.Spec.VNum 1; Abi.Spec.VBytes (Sb "hello"); Abi.Spec.VNum (-5); Abi.Spec.VBytes (repeat x77 32)].
Proof.
  cbv zeta. split; [reflexivity|]. split; [reflexivity|]. split; [vm_compute; reflexivity|].
  split; [vm_compute; reflexivity|]. split; [vm_compute; reflexivity|]. split; [vm_compute; reflexivity|].
  split; [vm_compute; reflexivity|]. split; [vm_compute; reflexivity|]. split; [vm_compute; reflexivity|].
  split; vm_compute; reflexivity.
Qed.

(* the model CAN answer Panic / Err where theorems exclude it under a hypothesis: a topic decoder that
   panics makes the event decoder panic (so C12_event_refuse #4 needs its hypothesis, and #3 is stated
   as "<> Ok"), a hash shorter than four bytes makes k[0:4] panic (so the 32-byte hypothesis of
   C12_calldata_foreign_refused is needed), and a data decoder that panics makes ParseError panic
   (the no-panic hypothesis of C12_error_found / C12_error_found_named) *)
Example C12_model_can_panic :
  DecodeEventData toyH Abi.DecModel.DecodeABIData (fun _ _ _ _ => Panic) ex_event2
    [SignatureHashBytes toyH ex_event2; repeat x00 32] [] = Panic /\
  GenerateFunctionSelector (fun _ => [x01; x02; x03]) ex_transfer = Panic /\
  DecodeCallData (fun _ => [x01; x02; x03]) Abi.DecModel.DecodeABIData ex_transfer [x01; x02; x03; x04] = Panic /\
  ParseError toyH (fun _ _ _ => Panic) [] (firstn 4 (toyH (Sb "Error(string)"))) = Panic /\
  (exists c, DecodeEventData toyH Abi.DecModel.DecodeABIData Abi.DecModel.decode_elementary ex_event2
               [SignatureHashBytes toyH ex_event2; repeat x00 31] [] = Err c).
Proof.
  split; [vm_compute; reflexivity|]. split; [vm_compute; reflexivity|]. split; [vm_compute; reflexivity|].
  split; [vm_compute; reflexivity|]. eexists. vm_compute. reflexivity.
Qed.

(* an invalid type text ("uint7") in second position: the hypothesis of C12_signature_invalid_json *)
Example C12_signature_invalid_json_nonvacuous :
  let P := AbiType.Syntax.Param in
  let ps := [(P (Sb "address") [], false); (P (Sb "uint7") [], false)] in
  Exists (fun pi => ~ exists t, valid_type t = true /\
                       spelling t (AbiType.Syntax.p_type (fst pi)) (AbiType.Syntax.p_comps (fst pi))) ps /\
  (exists c, Signature (link_entry TyFunction (Sb "f") false ps) = Err c).
Proof.
  cbv zeta. split.
  - apply Exists_cons_tl. apply Exists_cons_hd. cbn [fst AbiType.Syntax.p_type AbiType.Syntax.p_comps].
    intros (t & Hv & Hs). destruct (AbiType.ProofsMain.validate_complete t _ _ Hv Hs) as (tc & E & _).
    vm_compute in E. discriminate.
  - eexists. vm_compute. reflexivity.
Qed.

(* C12_error_found / _named / _first / C12_error_string: hypotheses met by a custom error after a function *)
Example C12_error_found_nonvacuous :
  let insufficient := mkEntry TyError (Sb "Insufficient") false [mkParam (Some (tU256 "need")) false] in
  let a := [ex_transfer; insufficient] in
  let args := CV (Some (TCTuple [tU256 "need"] [])) [CV (Some (tU256 "need")) [] (GBigInt 5)] GNil in
  let fa := fun cv : cval => match cv with CV _ [CV _ _ (GBigInt z)] _ => Some [fmt_Z z] | _ => None end in
  exists d,
    EncodeCallData toyH EncModel.EncodeABIData insufficient args = Ok d /\
    (forall e, In e (default_error :: a) -> DecodeCallData toyH DecModel.DecodeABIData e d <> Panic) /\
    (exists e v, In e (default_error :: a) /\ e_type e = TyError /\ DecodeCallData toyH DecModel.DecodeABIData e d = Ok v) /\
    default_error :: a = [default_error; ex_transfer] ++ insufficient :: [] /\
    (forall e', In e' [default_error; ex_transfer] -> e_type e' = TyError ->
                exists c, DecodeCallData toyH DecModel.DecodeABIData e' d = Err c) /\
    ErrorString toyH DecModel.DecodeABIData fa a d = Ok (Sb "Insufficient(5)", true).
Proof.
  cbv zeta. eexists. split; [vm_compute; reflexivity|].
  split. { intros e [<-|[<-|[<-|[]]]]; vm_compute; discriminate. }
  split. { eexists; eexists. split; [right; right; left; reflexivity|]. split; [reflexivity|]. vm_compute. reflexivity. }
  split; [reflexivity|].
  split. { intros e' [<-|[<-|[]]] Ht; [eexists; vm_compute; reflexivity|discriminate]. }
  vm_compute. reflexivity.
Qed.

(* 15. (issue 6) The signature string identifies (name, parameter types): for names without '(' and
       valid parameter types WITHOUT tuple members (elementary types and arrays of them, any
       dimensions) the specification's signature is injective ... *)
From FFS Require Abi.EntryRefereeInj AbiType.ProofsArr AbiType.ProofsMain.
Theorem C12_signature_injective_plain :
  forall (n1 n2 : bytes) (ts1 ts2 : list Abi.Types.ty),
    AbiType.ProofsArr.no_byte x28 n1 -> AbiType.ProofsArr.no_byte x28 n2 ->
    Forall (fun t => valid_type t = true /\ AbiType.ProofsMain.tuple_free_ty t = true) ts1 ->
    Forall (fun t => valid_type t = true /\ AbiType.ProofsMain.tuple_free_ty t = true) ts2 ->
    signature_spec n1 ts1 = signature_spec n2 ts2 -> n1 = n2 /\ ts1 = ts2.
Proof. exact Abi.EntryRefereeInj.signature_spec_inj_plain. Qed.
Print Assumptions C12_signature_injective_plain.

(* 15b. ... hence two such entries that differ in (name, parameter types) have different signature
        strings, and if their selectors (event topics) coincide the hash collides on two different
        strings (on its first four bytes / on the whole digest). *)
Theorem C12_distinct_entries_collide :
  forall (H : bytes -> bytes), (forall m, List.length (H m) = 32%nat) ->
  forall (e1 e2 : entry) (cs1 cs2 : list tcomp),
    tree_children (e_inputs e1) = Ok cs1 -> all_suffix_canonical cs1 ->
    tree_children (e_inputs e2) = Ok cs2 -> all_suffix_canonical cs2 ->
    AbiType.ProofsArr.no_byte x28 (e_name e1) -> AbiType.ProofsArr.no_byte x28 (e_name e2) ->
    Forall (fun t => valid_type t = true /\ AbiType.ProofsMain.tuple_free_ty t = true) (map ty_of cs1) ->
    Forall (fun t => valid_type t = true /\ AbiType.ProofsMain.tuple_free_ty t = true) (map ty_of cs2) ->
    (e_name e1, map ty_of cs1) <> (e_name e2, map ty_of cs2) ->
    let s1 := signature_spec (e_name e1) (map ty_of cs1) in
    let s2 := signature_spec (e_name e2) (map ty_of cs2) in
    Signature e1 = Ok s1 /\ Signature e2 = Ok s2 /\ s1 <> s2 /\
    (GenerateFunctionSelector H e1 = GenerateFunctionSelector H e2 -> firstn 4 (H s1) = firstn 4 (H s2)) /\
    (SignatureHashBytes H e1 = SignatureHashBytes H e2 -> H s1 = H s2).
Proof. exact Abi.EntryRefereeInj.distinct_entries_collide. Qed.
Print Assumptions C12_distinct_entries_collide.

Example C12_distinct_entries_nonvacuous :
  let cs := [tAddr "to"; tU256 "amount"] in
  tree_children (e_inputs ex_transfer) = Ok cs /\ all_suffix_canonical cs /\
  AbiType.ProofsArr.no_byte x28 (e_name ex_transfer) /\ AbiType.ProofsArr.no_byte x28 (e_name ex_other) /\
  Forall (fun t => valid_type t = true /\ AbiType.ProofsMain.tuple_free_ty t = true) (map ty_of cs) /\
  (e_name ex_transfer, map ty_of cs) <> (e_name ex_other, map ty_of cs).
Proof.
  cbv zeta. split; [reflexivity|]. split; [cbn; repeat split; vm_compute; reflexivity|].
  split; [repeat constructor|]. split; [repeat constructor|].
  split; [repeat constructor|]. intros E. vm_compute in E. discriminate.
Qed.

(* 16. (issue 5) The no-panic hypotheses discharged for the decoder model of C03 with C11's totality
       theorems: for ABIs whose parameters have valid type trees ([params_wf]: Entry.Validate passed),
       revert data accepted by some error definition IS attributed, to the first accepting definition,
       which carries the selector found in the data; and an event log with too few topics is refused
       with an error (never a panic). *)
From FFS Require Abi.EntryRefereeTotal Abi.DecTotalProofs3.
Theorem C12_error_found_codec :
  forall (H : bytes -> bytes), (forall m, List.length (H m) = 32%nat) ->
  forall (a : list entry) (d : bytes),
    (forall e, In e a -> Abi.DecTotalProofs3.params_wf (e_inputs e)) ->
    (exists e v, In e (default_error :: a) /\ e_type e = TyError /\ DecodeCallData H Abi.DecModel.DecodeABIData e d = Ok v) ->
    exists pre e post v,
      default_error :: a = pre ++ e :: post /\ e_type e = TyError /\
      ParseError H Abi.DecModel.DecodeABIData a d = Ok (Some (e, v)) /\
      DecodeCallData H Abi.DecModel.DecodeABIData e d = Ok v /\
      GenerateFunctionSelector H e = Ok (firstn 4 d) /\
      (forall e', In e' pre -> e_type e' = TyError -> exists c, DecodeCallData H Abi.DecModel.DecodeABIData e' d = Err c).
Proof. exact Abi.EntryRefereeTotal.error_found_codec. Qed.
Print Assumptions C12_error_found_codec.

Theorem C12_event_too_few_topics_codec :
  forall (H : bytes -> bytes) (e : entry) (topics : list bytes) (data : bytes),
    Abi.DecTotalProofs3.params_wf (e_inputs e) ->
    (List.length topics < topics_needed (e_anonymous e) (map p_indexed (e_inputs e)))%nat ->
    exists c, DecodeEventData H Abi.DecModel.DecodeABIData Abi.DecModel.decode_elementary e topics data = Err c.
Proof. exact Abi.EntryRefereeTotal.event_too_few_topics_codec. Qed.
Print Assumptions C12_event_too_few_topics_codec.

Example C12_params_wf_nonvacuous :
  Abi.DecTotalProofs3.params_wf (e_inputs ex_event2) /\
  (List.length [SignatureHashBytes toyH ex_event2; repeat x00 32]
     < topics_needed (e_anonymous ex_event2) (map p_indexed (e_inputs ex_event2)))%nat.
Proof.
  split; [|vm_compute; lia].
  intros p tc Hin E. cbn [e_inputs ex_event2 In] in Hin.
  repeat (destruct Hin as [<-|Hin]; [cbn in E; injection E as <-; vm_compute; reflexivity|]). destruct Hin.
Qed.

(* 17. (issue 6, in full) The canonical spelling is injective on ALL valid types -- tuples, nested
       tuples and arrays of them included -- and so is the signature in (name, parameter types) for names
       without '('; two entries that differ in (name, types) and have the same selector / event topic
       exhibit a hash collision on two different signature strings.  (15 / 15b are the special case
       without tuple members, kept.) *)
From FFS Require Abi.EntryRefereeInj2.
Theorem C12_canonical_injective :
  forall t t' : Abi.Types.ty, valid_type t = true -> valid_type t' = true -> canonical t = canonical t' -> t = t'.
Proof. exact Abi.EntryRefereeInj2.canonical_inj. Qed.
Print Assumptions C12_canonical_injective.

Theorem C12_signature_injective :
  forall (n1 n2 : bytes) (ts1 ts2 : list Abi.Types.ty),
    AbiType.ProofsArr.no_byte x28 n1 -> AbiType.ProofsArr.no_byte x28 n2 ->
    forallb valid_type ts1 = true -> forallb valid_type ts2 = true ->
    signature_spec n1 ts1 = signature_spec n2 ts2 -> n1 = n2 /\ ts1 = ts2.
Proof. exact Abi.EntryRefereeInj2.signature_spec_inj. Qed.
Print Assumptions C12_signature_injective.

Theorem C12_distinct_entries_collide_all :
  forall (H : bytes -> bytes), (forall m, List.length (H m) = 32%nat) ->
  forall (e1 e2 : entry) (cs1 cs2 : list tcomp),
    tree_children (e_inputs e1) = Ok cs1 -> all_suffix_canonical cs1 ->
    tree_children (e_inputs e2) = Ok cs2 -> all_suffix_canonical cs2 ->
    AbiType.ProofsArr.no_byte x28 (e_name e1) -> AbiType.ProofsArr.no_byte x28 (e_name e2) ->
    forallb valid_type (map ty_of cs1) = true -> forallb valid_type (map ty_of cs2) = true ->
    (e_name e1, map ty_of cs1) <> (e_name e2, map ty_of cs2) ->
    let s1 := signature_spec (e_name e1) (map ty_of cs1) in
    let s2 := signature_spec (e_name e2) (map ty_of cs2) in
    Signature e1 = Ok s1 /\ Signature e2 = Ok s2 /\ s1 <> s2 /\
    (GenerateFunctionSelector H e1 = GenerateFunctionSelector H e2 -> firstn 4 (H s1) = firstn 4 (H s2)) /\
    (SignatureHashBytes H e1 = SignatureHashBytes H e2 -> H s1 = H s2).
Proof. exact Abi.EntryRefereeInj2.distinct_entries_collide_all. Qed.
Print Assumptions C12_distinct_entries_collide_all.

(* two events that differ only in the nesting of a tuple: f((uint256,string)[],address) vs f((uint256,string[]),address) *)
Example C12_distinct_entries_all_nonvacuous :
  let cs1 := [TCDynArr (TCTuple [tU256 "x"; tStr "y"] (Sb "t")) (Sb "t"); tAddr "w"] in
  let cs2 := [TCTuple [tU256 "x"; TCDynArr (tStr "y") (Sb "y")] (Sb "t"); tAddr "w"] in
  all_suffix_canonical cs1 /\ all_suffix_canonical cs2 /\
  forallb valid_type (map ty_of cs1) = true /\ forallb valid_type (map ty_of cs2) = true /\
  (Sb "f", map ty_of cs1) <> (Sb "f", map ty_of cs2) /\
  signature_spec (Sb "f") (map ty_of cs1) = Sb "f((uint256,string)[],address)" /\
  signature_spec (Sb "f") (map ty_of cs2) = Sb "f((uint256,string[]),address)".
Proof.
  cbv zeta. split; [cbn; repeat split; vm_compute; reflexivity|]. split; [cbn; repeat split; vm_compute; reflexivity|].
  split; [vm_compute; reflexivity|]. split; [vm_compute; reflexivity|].
  split; [intros E; vm_compute in E; discriminate|]. split; vm_compute; reflexivity.
Qed.

(* ==========================================================================================
   Wave 6.  Proofs: Abi/EntryWave6.v.
   ========================================================================================== *)
From FFS Require Abi.EntryWave6 Abi.DecProofs4.

(* 18. The decode direction of call data on the SPECIFICATION encoding alone: every byte string
       selector(e) ++ enc((T1..Tn), v) ++ post  for a well-typed value v -- whoever produced it; there
       is no encoder model in the statement, hence none of C02's guards (typed_as, values_ok,
       weight_ok < 2^248) -- is decoded by e to the tree of v, which denotes v.  Remaining guards =
       C03's quantifier only.  Trailing bytes [post] are ignored (as in abi.go). *)
Theorem C12_calldata_decode_spec :
  forall (H : bytes -> bytes), (forall m, List.length (H m) = 32%nat) ->
  forall (e : entry) (cs : list tcomp) (v : Abi.Spec.val) (post : bytes),
    tree_children (e_inputs e) = Ok cs -> all_suffix_canonical cs ->
    let tc := TCTuple cs [] in
    tc_wf tc = true -> tc_no_fixed_point tc = true -> tc_no_zero_len tc = true ->
    Abi.Spec.well_typed (ty_of tc) v = true ->
    (Abi.DecModel.zlen (Abi.Spec.enc (ty_of tc) v) < 2 ^ 32)%Z -> Abi.DecProofs3.counts_ok v = true ->
    DecodeCallData H Abi.DecModel.DecodeABIData e
      (selector_spec H (e_name e) (map ty_of cs) ++ Abi.Spec.enc (TTuple (map ty_of cs)) v ++ post)
    = Ok (Abi.DecSpec.cv_of tc v) /\
    val_of (Abi.DecSpec.cv_of tc v) = v.
Proof. exact Abi.EntryWave6.calldata_decode_spec. Qed.
Print Assumptions C12_calldata_decode_spec.

(* 19. Revert data WITHOUT the guard "no earlier error definition has the same selector" of 13c, and
       without the encoder-side guards.  [err_def_ok e'] (Abi/EntryWave6.v) is a condition on the
       definition only: its parameters have type trees cs' with canonical suffix texts, TCTuple cs' is
       tc_wf, without fixed-point and T[0] members (C03's quantifier), the name has no '(' and the
       types are valid (guards of C12_signature_injective).  For an ABI all of whose ERROR definitions
       are such, any error definition e of (Error(string) :: ABI) -- at any position, with duplicates,
       same-signature definitions under other parameter names and same-selector definitions allowed
       before it -- and any well-typed argument value v:  d = selector(e) ++ enc(types(e), v) ++ post
       is attributed to a definition e1 no earlier error definition of which has e's signature, and
         EITHER e1 has e's name and parameter types and the arguments are exactly the tree of v
                (e1 is the FIRST error definition with e's signature: e itself unless duplicated),
         OR     e1 has a different signature string s1 and the hash collides with e's signature on
                its first four bytes (then the code cannot tell them apart). *)
Theorem C12_error_roundtrip_spec :
  forall (H : bytes -> bytes), (forall m, List.length (H m) = 32%nat) ->
  forall (a : list entry) (e : entry) (cs : list tcomp) (v : Abi.Spec.val) (post : bytes),
    (forall e', In e' a -> e_type e' = TyError -> Abi.EntryWave6.err_def_ok e') ->
    In e (default_error :: a) -> e_type e = TyError -> tree_children (e_inputs e) = Ok cs ->
    Abi.Spec.well_typed (TTuple (map ty_of cs)) v = true ->
    (Abi.DecModel.zlen (Abi.Spec.enc (TTuple (map ty_of cs)) v) < 2 ^ 32)%Z -> Abi.DecProofs3.counts_ok v = true ->
    let n := e_name e in let ts := map ty_of cs in
    let d := selector_spec H n ts ++ Abi.Spec.enc (TTuple ts) v ++ post in
    exists pre e1 post1 v1,
      default_error :: a = pre ++ e1 :: post1 /\ e_type e1 = TyError /\
      ParseError H Abi.DecModel.DecodeABIData a d = Ok (Some (e1, v1)) /\
      (forall e', In e' pre -> e_type e' = TyError -> Signature e' <> Ok (signature_spec n ts)) /\
      ((exists cs1, tree_children (e_inputs e1) = Ok cs1 /\ e_name e1 = n /\ map ty_of cs1 = ts /\
                    v1 = Abi.DecSpec.cv_of (TCTuple cs1 []) v /\ val_of v1 = v)
       \/
       (exists s1, Signature e1 = Ok s1 /\ s1 <> signature_spec n ts /\
                   firstn 4 (H s1) = firstn 4 (H (signature_spec n ts)))).
Proof. exact Abi.EntryWave6.error_roundtrip_spec. Qed.
Print Assumptions C12_error_roundtrip_spec.

(* 19b. The collision alternative excluded by the minimal hypothesis on the hash: no error definition
        of (Error(string) :: ABI) with another signature string agrees with e's signature on the first
        four hash bytes.  Then the data is attributed to the first error definition with e's name and
        parameter types, with exactly the emitted values. *)
Theorem C12_error_roundtrip_no_collision :
  forall (H : bytes -> bytes), (forall m, List.length (H m) = 32%nat) ->
  forall (a : list entry) (e : entry) (cs : list tcomp) (v : Abi.Spec.val) (post : bytes),
    (forall e', In e' a -> e_type e' = TyError -> Abi.EntryWave6.err_def_ok e') ->
    In e (default_error :: a) -> e_type e = TyError -> tree_children (e_inputs e) = Ok cs ->
    Abi.Spec.well_typed (TTuple (map ty_of cs)) v = true ->
    (Abi.DecModel.zlen (Abi.Spec.enc (TTuple (map ty_of cs)) v) < 2 ^ 32)%Z -> Abi.DecProofs3.counts_ok v = true ->
    let n := e_name e in let ts := map ty_of cs in
    (forall e' s', In e' (default_error :: a) -> e_type e' = TyError -> Signature e' = Ok s' ->
                   s' <> signature_spec n ts -> firstn 4 (H s') <> firstn 4 (H (signature_spec n ts))) ->
    let d := selector_spec H n ts ++ Abi.Spec.enc (TTuple ts) v ++ post in
    exists pre e1 post1 cs1,
      default_error :: a = pre ++ e1 :: post1 /\ e_type e1 = TyError /\
      tree_children (e_inputs e1) = Ok cs1 /\ e_name e1 = n /\ map ty_of cs1 = ts /\
      (forall e', In e' pre -> e_type e' = TyError -> Signature e' <> Ok (signature_spec n ts)) /\
      ParseError H Abi.DecModel.DecodeABIData a d = Ok (Some (e1, Abi.DecSpec.cv_of (TCTuple cs1 []) v)) /\
      val_of (Abi.DecSpec.cv_of (TCTuple cs1 []) v) = v.
Proof. exact Abi.EntryWave6.error_roundtrip_no_collision. Qed.
Print Assumptions C12_error_roundtrip_no_collision.

(* non-vacuity: an ABI with a function, error Insufficient(uint256 need), a DUPLICATE under another
   parameter name Insufficient(uint256 other) and a second error Other(string); revert data built for
   the duplicate (the third entry) with trailing bytes: every hypothesis of 19 / 19b holds (toyH has no
   4-byte collision among the four error signatures), and the model attributes the data to the FIRST
   Insufficient definition with the value 5 *)
Example C12_error_roundtrip_spec_nonvacuous :
  let ins1 := mkEntry TyError (Sb "Insufficient") false [mkParam (Some (tU256 "need")) false] in
  let ins2 := mkEntry TyError (Sb "Insufficient") false [mkParam (Some (tU256 "other")) false] in
  let oth := mkEntry TyError (Sb "Other") false [mkParam (Some (tStr "why")) false] in
  let a := [ex_transfer; ins1; ins2; oth] in
  let cs := [tU256 "other"] in
  let v := Abi.Spec.VList [Abi.Spec.VNum 5] in
  let post := [xde; xad] in
  let sig := signature_spec (e_name ins2) (map ty_of cs) in
  (forall e', In e' a -> e_type e' = TyError -> Abi.EntryWave6.err_def_ok e') /\
  In ins2 (default_error :: a) /\ tree_children (e_inputs ins2) = Ok cs /\
  Abi.Spec.well_typed (TTuple (map ty_of cs)) v = true /\
  (Abi.DecModel.zlen (Abi.Spec.enc (TTuple (map ty_of cs)) v) < 2 ^ 32)%Z /\ Abi.DecProofs3.counts_ok v = true /\
  (forall e' s', In e' (default_error :: a) -> e_type e' = TyError -> Signature e' = Ok s' ->
                 s' <> sig -> firstn 4 (toyH s') <> firstn 4 (toyH sig)) /\
  (exists v1, ParseError toyH DecModel.DecodeABIData a
                (selector_spec toyH (e_name ins2) (map ty_of cs) ++ Abi.Spec.enc (TTuple (map ty_of cs)) v ++ post)
              = Ok (Some (ins1, v1)) /\ val_of v1 = v) /\
  ins1 <> ins2.
Proof.
  cbv zeta.
  assert (OK : forall n k (c : tcomp), (c = tU256 k \/ c = tStr k) -> AbiType.ProofsArr.no_byte x28 (Sb n) ->
               Abi.EntryWave6.err_def_ok (mkEntry TyError (Sb n) false [mkParam (Some c) false])).
  { intros n k c Hc Hn. exists [c]. split; [reflexivity|].
    destruct Hc as [-> | ->]; (split; [cbn; repeat split; vm_compute; reflexivity|]);
      (split; [vm_compute; reflexivity|]); (split; [vm_compute; reflexivity|]); (split; [vm_compute; reflexivity|]);
      (split; [exact Hn|vm_compute; reflexivity]). }
  split.
  { intros e' [<-|[<-|[<-|[<-|[]]]]] Ht; [discriminate| | |].
    - apply (OK "Insufficient"%string "need"%string); [left; reflexivity|repeat constructor].
    - apply (OK "Insufficient"%string "other"%string); [left; reflexivity|repeat constructor].
    - apply (OK "Other"%string "why"%string); [right; reflexivity|repeat constructor]. }
  split; [right; right; right; left; reflexivity|]. split; [reflexivity|].
  split; [vm_compute; reflexivity|]. split; [vm_compute; reflexivity|]. split; [vm_compute; reflexivity|].
  split.
  { intros e' s' Hin Ht Hs Hne. destruct Hin as [<-|[<-|[<-|[<-|[<-|[]]]]]];
      [ |discriminate Ht| | | ]; vm_compute in Hs; injection Hs as <-;
      first [exfalso; apply Hne; vm_compute; reflexivity|vm_compute; intro E; discriminate E]. }
  split; [eexists; split; vm_compute; reflexivity|].
  intros E. vm_compute in E. discriminate.
Qed.

(* non-vacuity of 18: the guards hold for transfer(address,uint256) with a value tree given as a bare
   specification value, and the data need not come from the encoder model *)
Example C12_calldata_decode_spec_nonvacuous :
  let cs := [tAddr "to"; tU256 "amount"] in
  let v := Abi.Spec.VList [Abi.Spec.VNum 255; Abi.Spec.VNum 1000] in
  tree_children (e_inputs ex_transfer) = Ok cs /\ all_suffix_canonical cs /\
  tc_wf (TCTuple cs []) = true /\ tc_no_fixed_point (TCTuple cs []) = true /\ tc_no_zero_len (TCTuple cs []) = true /\
  Abi.Spec.well_typed (ty_of (TCTuple cs [])) v = true /\
  (Abi.DecModel.zlen (Abi.Spec.enc (ty_of (TCTuple cs [])) v) < 2 ^ 32)%Z /\ Abi.DecProofs3.counts_ok v = true /\
  exists r, DecodeCallData toyH DecModel.DecodeABIData ex_transfer
              (selector_spec toyH (e_name ex_transfer) (map ty_of cs) ++ Abi.Spec.enc (TTuple (map ty_of cs)) v ++ [x01; x02; x03])
            = Ok r /\ val_of r = v.
Proof.
  cbv zeta. split; [reflexivity|]. split; [cbn; repeat split; vm_compute; reflexivity|].
  split; [vm_compute; reflexivity|]. split; [vm_compute; reflexivity|]. split; [vm_compute; reflexivity|].
  split; [vm_compute; reflexivity|]. split; [vm_compute; reflexivity|]. split; [vm_compute; reflexivity|].
  eexists. split; vm_compute; reflexivity.
Qed.
