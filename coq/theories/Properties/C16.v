(* C16 — the proxy survives and answers every request body with well-formed JSON-RPC.
   Statements only; proofs live in Rpc/WfProofs*.v.  The handler model is Rpc/WfModel.v over the body
   front end Rpc/Body.v; the response-shape specification is Rpc/WfSpec.v.  Everything outside C16's
   anchors (Backend.SyncRequest / CallRPC, the wallet, the typed decoding of the transaction, the
   completion order of a batch's goroutines, the state of the world [W] they act on) is universally
   quantified; [sched w n] is the order in which the n member goroutines of a batch finish, and the
   only thing assumed about it is that each goroutine runs exactly once. *)
From Coq Require Import String.
From Coq Require Import List NArith ZArith Bool Lia Permutation.
From Coq Require Import Init.Byte.
From FFS Require Import Base.Res Base.Bytes Rpc.Body Rpc.WfModel Rpc.WfSpec Rpc.WfProofs Rpc.WfProofs2 Rpc.WfProofs3 Rpc.WfProofs4.
From FFS Require Rpc.Json Rpc.Model.
From FFS Require Import Rpc.WfProofsC09.
Import ListNotations.

(* 1. Whatever the body, its lexer verdict, the state of the world, the backend, the wallet and the
      completion order: the handler does not panic -- neither on the request goroutine nor on a batch
      member's goroutine (where a panic would end the process). *)
Theorem C16_total :
  forall (W F : Type)
         (sync_request : W -> request -> (option response * bool) * W)
         (call_nonce : W -> F -> option rpc_error * W)
         (get_accounts : W -> option (list bytes) * W)
         (sign : W -> txn_view F -> option bytes * W)
         (decode_txn : option jv -> option (txn_view F))
         (parse_from : F -> bool)
         (sched : W -> nat -> list nat),
    (forall w n, Permutation (sched w n) (seq 0 n)) ->
    forall (w : W) (body : bytes) (v : verdict),
      rpcHandler W F sync_request call_nonce get_accounts sign decode_txn parse_from sched w body v <> Panic.
Proof. exact rpcHandler_total. Qed.
Print Assumptions C16_total.

(* 2. The handler returns a reply, and it is well-formed (WfSpec.wellformed_reply): one response object
      -- jsonrpc "2.0", an id member, exactly one of result / error{code,message} -- or a non-empty array
      of such objects; a parseable batch of n members (behind any amount of whitespace) gets an array
      of exactly n; an array is only ever the answer to an array body of that length.  Hypothesis on
      the backend client: SyncRequest hands back a response object of that shape ([sync_wf]); nothing
      is assumed about CallRPC, the wallet or the decoders. *)
Theorem C16_wellformed :
  forall (W F : Type)
         (sync_request : W -> request -> (option response * bool) * W)
         (call_nonce : W -> F -> option rpc_error * W)
         (get_accounts : W -> option (list bytes) * W)
         (sign : W -> txn_view F -> option bytes * W)
         (decode_txn : option jv -> option (txn_view F))
         (parse_from : F -> bool)
         (sched : W -> nat -> list nat),
    (forall w n, Permutation (sched w n) (seq 0 n)) ->
    sync_wf sync_request ->
    forall (w : W) (body : bytes) (v : verdict),
    exists rep w',
      rpcHandler W F sync_request call_nonce get_accounts sign decode_txn parse_from sched w body v = Ok (rep, w') /\
      wellformed_reply body v rep.
Proof. exact rpcHandler_answers_wellformed. Qed.
Print Assumptions C16_wellformed.

(* 3. Requests that cannot be processed are answered with an error object (WfSpec.never_null_reply), with
      no hypothesis on the backend at all: an unparseable body, a scalar, an empty batch, a batch with a
      non-object member or an ill-kinded field get one error object; a request without id, an
      eth_sendTransaction without a usable first parameter, without `from`, or with a malformed `from`
      gets an error object -- in a batch, in its own slot, next to the answers of the other members
      (WfSpec.must_fail; a null member is such a request).  Never null, never a missing slot. *)
Theorem C16_never_null :
  forall (W F : Type)
         (sync_request : W -> request -> (option response * bool) * W)
         (call_nonce : W -> F -> option rpc_error * W)
         (get_accounts : W -> option (list bytes) * W)
         (sign : W -> txn_view F -> option bytes * W)
         (decode_txn : option jv -> option (txn_view F))
         (parse_from : F -> bool)
         (sched : W -> nat -> list nat),
    (forall w n, Permutation (sched w n) (seq 0 n)) ->
    forall (w : W) (body : bytes) (v : verdict),
    exists rep w',
      rpcHandler W F sync_request call_nonce get_accounts sign decode_txn parse_from sched w body v = Ok (rep, w') /\
      never_null_reply F decode_txn parse_from body v rep.
Proof. exact rpcHandler_answers_never_null. Qed.
Print Assumptions C16_never_null.

(* 4. Histories: from any state of the world, any finite sequence of bodies is served to its end without
      a panic, and every single reply meets clauses 2 and 3 -- the hypotheses of the three theorems above
      mention no handler state, so nothing a request does can invalidate them for a later one. *)
Theorem C16_history :
  forall (W F : Type)
         (sync_request : W -> request -> (option response * bool) * W)
         (call_nonce : W -> F -> option rpc_error * W)
         (get_accounts : W -> option (list bytes) * W)
         (sign : W -> txn_view F -> option bytes * W)
         (decode_txn : option jv -> option (txn_view F))
         (parse_from : F -> bool)
         (sched : W -> nat -> list nat),
    (forall w n, Permutation (sched w n) (seq 0 n)) ->
    sync_wf sync_request ->
    forall (h : list (bytes * verdict)) (w : W),
    Forall (fun bv => lexer_coherent (fst bv) (snd bv)) h ->
    exists reps w',
      serve W F sync_request call_nonce get_accounts sign decode_txn parse_from sched w h = Ok (reps, w') /\
      Forall2 (fun bv rep => wellformed_reply (fst bv) (snd bv) rep /\
                             never_null_reply F decode_txn parse_from (fst bv) (snd bv) rep) h reps.
Proof. exact serve_history. Qed.
Print Assumptions C16_history.

(* 5. Totality once more, over the *concrete* model of C09 (Rpc/Model.v, builder b-c09), where
      Backend.SyncRequest / CallRPC (pkg/rpcbackend after f4f787a, 9edb119), the wallet lookup and the typed
      decoding of the transaction are modelled instead of abstract: for every backend behaviour (any JSON
      incl. the literal null, HTTP errors with and without body, connection failures), every lexer, every
      body and every completion order of the batch it decodes to, the handler does not panic.  Only the
      signer itself (pkg/fswallet + pkg/ethsigner, C08 / C01) is assumed to return. *)
Theorem C16_total_concrete_backend :
  forall (parse_int : bytes -> option Z) (lex : bytes -> option Json.json) (accounts : list bytes)
         (sign_with : bytes -> Json.transaction -> Z -> res bytes)
         (backend : Model.frame -> Model.backend_reply) (chain : Z),
    (forall a t c, sign_with a t c <> Panic) ->
    forall (body : bytes) (order : list nat),
      (forall t ms, lex body = Some t -> Json.decode_batch t = Ok ms -> Permutation order (seq 0 (length ms))) ->
      Model.rpcHandler parse_int lex accounts sign_with backend chain body order <> Panic.
Proof. exact rpcHandler_total_concrete. Qed.
Print Assumptions C16_total_concrete_backend.

(* 5b. Never null, over the same concrete model, where "bad parameters" and "malformed from" have their real
       meaning (WfProofsC09.must_fail_c: decode_transaction fails; `from` is not 20 hex-encoded bytes) and
       the reply is the JSON tree actually serialised: a body the lexer rejects, or whose tree is neither a
       request nor a non-empty batch, gets the parse-error object; a single request that cannot be processed
       gets an error object ({"jsonrpc":"2.0","id":..,"error":{"code":..,"message":..}}); a batch gets an
       array with one slot per member in which every member that cannot be processed (null member, missing
       id, ...) holds an error object -- for every backend and every completion order. *)
Theorem C16_never_null_concrete :
  forall (parse_int : bytes -> option Z) (lex : bytes -> option Json.json) (accounts : list bytes)
         (sign_with : bytes -> Json.transaction -> Z -> res bytes)
         (backend : Model.frame -> Model.backend_reply) (chain : Z),
    (forall a t c, sign_with a t c <> Panic) ->
    let handler := Model.rpcHandler parse_int lex accounts sign_with backend chain in
    let must_fail := must_fail_c parse_int in
    (forall body order, lex body = None -> handler body order = Ok Model.replyRPCParseError) /\
    (forall body order t e, lex body = Some t -> Json.decode_request t = Err e ->
        (Json.decode_batch t = Ok [] \/ exists e', Json.decode_batch t = Err e') ->
        handler body order = Ok Model.replyRPCParseError) /\
    (forall body order t rq, (b2n (Model.sniffFirstByte body) =? 91)%N = false ->
        lex body = Some t -> Json.decode_request t = Ok rq -> must_fail (Some rq) = true ->
        exists status tree traces, handler body order = Ok (status, tree, traces) /\ error_reply_tree tree) /\
    (forall body order t members, (b2n (Model.sniffFirstByte body) =? 91)%N = true ->
        lex body = Some t -> Json.decode_batch t = Ok members -> members <> [] ->
        Permutation order (seq 0 (length members)) ->
        exists status slots traces, handler body order = Ok (status, Json.JArr slots, traces) /\
          length slots = length members /\
          forall i m, nth_error members i = Some m -> must_fail m = true ->
                      exists s, nth_error slots i = Some s /\ error_reply_tree s).
Proof. exact never_null_concrete. Qed.
Print Assumptions C16_never_null_concrete.

(* 6. The sniffing clause on its own (repair e339dcc): behind any number of bytes that unicode.IsSpace
      accepts -- hence behind any amount of JSON whitespace -- the opening bracket of a batch is found. *)
Theorem C16_sniff_any_whitespace :
  forall (ws rest : bytes),
    Forall (fun c => is_space_go c = true) ws ->
    sniff_first_byte (ws ++ open_bracket :: rest) = open_bracket.
Proof. exact sniff_any_whitespace. Qed.
Print Assumptions C16_sniff_any_whitespace.

(* 8. (round 3) Every response object carries the id of the request it answers (WfProofs4.id_echo_reply):
      the reply to a single request echoes its id; in a batch, slot i carries the id of member i (null for a
      null member or a member without id) whatever the completion order of the member goroutines; a single
      reply that does not answer a decoded request carries the literal id 1 (replyRPCParseError).  The only
      hypothesis on the backend client is what SyncRequest documents -- it restores the id of the request it
      was given ([sync_echo]); nothing is assumed about CallRPC, the wallet or the decoders. *)
Theorem C16_id_echo :
  forall (W F : Type)
         (sync_request : W -> request -> (option response * bool) * W)
         (call_nonce : W -> F -> option rpc_error * W)
         (get_accounts : W -> option (list bytes) * W)
         (sign : W -> txn_view F -> option bytes * W)
         (decode_txn : option jv -> option (txn_view F))
         (parse_from : F -> bool)
         (sched : W -> nat -> list nat),
    sync_echo sync_request ->
    (forall w n, Permutation (sched w n) (seq 0 n)) ->
    forall (w : W) (body : bytes) (v : verdict),
    exists rep w',
      rpcHandler W F sync_request call_nonce get_accounts sign decode_txn parse_from sched w body v = Ok (rep, w') /\
      id_echo_reply body v rep.
Proof. exact rpcHandler_answers_id_echo. Qed.
Print Assumptions C16_id_echo.

(* 9. (round 3) ... and so does every reply of every finite history served by one process: the hypotheses
      mention no handler state and the world state is threaded and universally quantified, so nothing a
      request does can make a later reply carry a foreign id. *)
Theorem C16_history_id_echo :
  forall (W F : Type)
         (sync_request : W -> request -> (option response * bool) * W)
         (call_nonce : W -> F -> option rpc_error * W)
         (get_accounts : W -> option (list bytes) * W)
         (sign : W -> txn_view F -> option bytes * W)
         (decode_txn : option jv -> option (txn_view F))
         (parse_from : F -> bool)
         (sched : W -> nat -> list nat),
    sync_echo sync_request ->
    (forall w n, Permutation (sched w n) (seq 0 n)) ->
    forall (h : list (bytes * verdict)) (w : W),
    exists reps w',
      serve W F sync_request call_nonce get_accounts sign decode_txn parse_from sched w h = Ok (reps, w') /\
      Forall2 (fun bv rep => id_echo_reply (fst bv) (snd bv) rep) h reps.
Proof. exact serve_history_ids. Qed.
Print Assumptions C16_history_id_echo.

(* ---- non-vacuity ---- *)
Definition ex_sync (w : unit) (q : request) : (option response * bool) * unit :=
  ((Some (mkResp v2_0 (q_id q) (Some (JStr (ascii_bytes "0xabc"))) None), false), tt).
Definition ex_handler :=
  rpcHandler unit unit ex_sync (fun w _ => (None, w)) (fun w => (Some [ascii_bytes "0x01"], w))
             (fun w _ => (None, w))
             (fun p => match p with Some (JObj _) => Some (mkView (Some tt) false) | _ => None end)
             (fun _ => false) (fun _ n => rev (seq 0 n)).
Definition ex_obj (method : string) : jv :=
  JObj [(ascii_bytes "id", JNum (ascii_bytes "7")); (ascii_bytes "method", JStr (ascii_bytes method))].

(* the hypotheses are met by a concrete world (reverse completion order, a backend answering "0xabc") *)
Example C16_hypotheses_satisfiable :
  (forall (w : unit) n, Permutation ((fun _ n => rev (seq 0 n)) w n) (seq 0 n)) /\ sync_wf ex_sync.
Proof.
  split.
  - intros. apply Permutation_sym, Permutation_rev.
  - intros w q. eexists. split; [reflexivity|]. split; [reflexivity|]. left. simpl. eauto.
Qed.

(* total + wellformed: 200 blanks, then a batch of a relayed request and a null member (the witnesses of
   D16d and D16a at once): coherent lexer verdict, parseable batch of 2, answered by an array of 2 *)
Example C16_wellformed_nonvacuous :
  let body := repeat x20 200 ++ ascii_bytes "[{""id"":7,""method"":""eth_call""},null]" in
  let v := Tree (JArr [ex_obj "eth_call"; JNull]) in
  lexer_coherent body v /\ parseable_batch v = Some 2%nat /\
  exists r1 r2, ex_handler tt body v = Ok (mkReply 500 (PBatch [Some r1; Some r2]), tt) /\
                r_result r1 <> None /\ r_error r2 <> None.
Proof.
  split; [intros l _; eexists; vm_compute; reflexivity|]. split; [reflexivity|].
  eexists _, _. split; [vm_compute; reflexivity|]. split; discriminate.
Qed.

(* never null: the witness of D16b -- eth_sendTransaction whose `from` does not parse, no nonce -- is a
   request that must fail, and the reply is an error object with the request's id *)
Example C16_never_null_nonvacuous :
  let q := mkReq [] (Some (JNum (ascii_bytes "7"))) m_eth_sendTransaction [Some (JObj [(ascii_bytes "from", JStr (ascii_bytes "zz"))])] in
  let v := Tree (JObj [(ascii_bytes "id", JNum (ascii_bytes "7")); (ascii_bytes "method", JStr m_eth_sendTransaction);
                       (ascii_bytes "params", JArr [JObj [(ascii_bytes "from", JStr (ascii_bytes "zz"))]])]) in
  decode_single v = Ok q /\
  must_fail unit (fun p => match p with Some (JObj _) => Some (mkView (Some tt) false) | _ => None end) (fun _ => false) (Some q) = true /\
  ex_handler tt (ascii_bytes "{}") v = Ok (mkReply 500 (PSingle (Some (RPCErrorResponse (q_id q) RPCCodeParseError))), tt).
Proof. split; [vm_compute; reflexivity|]. split; vm_compute; reflexivity. Qed.

(* history: garbage, the body [null], then a valid request -- three replies, the last one a result *)
Example C16_history_nonvacuous :
  exists r1 r2 r3,
    serve unit unit ex_sync (fun w _ => (None, w)) (fun w => (Some [ascii_bytes "0x01"], w)) (fun w _ => (None, w))
          (fun _ => None) (fun _ => false) (fun _ n => rev (seq 0 n)) tt
          [(ascii_bytes "\x00garbage", SyntaxError);
           (ascii_bytes "[null]", Tree (JArr [JNull]));
           (ascii_bytes "{}", Tree (ex_obj "eth_accounts"))]
    = Ok ([r1; r2; mkReply 200 (PSingle (Some r3))], tt) /\ status r1 = 400%N /\ status r2 = 500%N /\ r_result r3 <> None.
Proof. eexists _, _, _. split; [vm_compute; reflexivity|]. repeat split; discriminate. Qed.

(* concrete model: a backend that answers HTTP 200 with the JSON literal null (the witness of D16e / D09c)
   to a relayed member of a batch: the handler returns HTTP 500 *)
Example C16_total_concrete_nonvacuous :
  let tree := Json.JArr [Json.JObj [(ascii_bytes "id", Json.JNum (ascii_bytes "1")); (ascii_bytes "method", Json.JStr (ascii_bytes "eth_call"))]] in
  exists r fr,
    Model.rpcHandler (fun _ => None) (fun _ => Some tree) [] (fun _ _ _ => Err 3%nat)
                     (fun _ => Model.BHttp 200 (Model.BJson Json.JNull)) 1%Z (ascii_bytes "[x]") [0%nat]
    = Ok (500%N, r, fr).
Proof. eexists _, _. vm_compute. reflexivity. Qed.

(* sniffing: 100 000 blanks, tabs and newlines in front of the bracket *)
Example C16_sniff_nonvacuous :
  sniff_first_byte (repeat x20 (N.to_nat 100000) ++ [x09; x0a; x0d] ++ open_bracket :: ascii_bytes "null]") = open_bracket.
Proof. vm_compute. reflexivity. Qed.

(* concrete never-null: `from` "zz" with no nonce is a request that must fail in the concrete sense *)
Example C16_never_null_concrete_nonvacuous :
  must_fail_c (fun _ => None)
    (Some (Json.mkReq [] (Some (Json.JNum (ascii_bytes "7"))) (ascii_bytes "eth_sendTransaction")
                      [Json.JObj [(ascii_bytes "from", Json.JStr (ascii_bytes "zz"))]])) = true /\
  must_fail_c (fun _ => None)
    (Some (Json.mkReq [] (Some (Json.JNum (ascii_bytes "7"))) (ascii_bytes "eth_sendTransaction")
                      [Json.JObj [(ascii_bytes "from", Json.JStr (ascii_bytes "0x00000000000000000000000000000000000000aa"))]])) = false.
Proof. split; vm_compute; reflexivity. Qed.

(* id echo: [ex_sync] restores the id; a batch of three members with different ids (the last one null),
   completed in reverse order, is answered slot by slot with those ids *)
Definition ex_obj_id (id method : string) : jv :=
  JObj [(ascii_bytes "id", JStr (ascii_bytes id)); (ascii_bytes "method", JStr (ascii_bytes method))].
Example C16_id_echo_nonvacuous :
  sync_echo ex_sync /\
  let v := Tree (JArr [ex_obj_id "a" "eth_call"; ex_obj_id "b" "eth_accounts"; JNull]) in
  exists r1 r2 r3 st,
    ex_handler tt (ascii_bytes "[x]") v = Ok (mkReply st (PBatch [Some r1; Some r2; Some r3]), tt) /\
    r_id r1 = Some (JStr (ascii_bytes "a")) /\ r_id r2 = Some (JStr (ascii_bytes "b")) /\ r_id r3 = None.
Proof.
  split; [intros w q r H; injection H as <-; reflexivity|].
  eexists _, _, _, _. split; [vm_compute; reflexivity|]. repeat split.
Qed.

(* history id echo: the three-body history of C16_history_nonvacuous (garbage, [null], a request with id 7):
   literal id 1, a null id in the slot of the null member, then the request's own id *)
Example C16_history_id_echo_nonvacuous :
  exists r1 r2 r3 s1 s2 s3,
    serve unit unit ex_sync (fun w _ => (None, w)) (fun w => (Some [ascii_bytes "0x01"], w)) (fun w _ => (None, w))
          (fun _ => None) (fun _ => false) (fun _ n => rev (seq 0 n)) tt
          [(ascii_bytes "\x00garbage", SyntaxError);
           (ascii_bytes "[null]", Tree (JArr [JNull]));
           (ascii_bytes "{}", Tree (ex_obj "eth_accounts"))]
    = Ok ([mkReply s1 (PSingle (Some r1)); mkReply s2 (PBatch [Some r2]); mkReply s3 (PSingle (Some r3))], tt) /\
    r_id r1 = Some (JNum (ascii_bytes "1")) /\ r_id r2 = None /\ r_id r3 = Some (JNum (ascii_bytes "7")).
Proof. eexists _, _, _, _, _, _. split; [vm_compute; reflexivity|]. repeat split. Qed.

(* Tie of the hand-written JSON-RPC error codes of Rpc/WfModel.v (and of Rpc/Model.v, which
   WfProofsC09 links to it) to the source.  Gen/Consts.v is regenerated on every run by the
   translator harness/cmd/gen_consts from the `const` declarations of pkg/rpcbackend/backend.go as
   they are NOW (internal/rpcserver declares no codes of its own, it uses these).  The models keep
   their own literals; this theorem is what breaks when a code changes in the source. *)
From FFS Require Gen.Consts.
Theorem C16_source_constants :
  Gen.Consts.rpcbackend_RPCCodeParseError = Rpc.WfModel.RPCCodeParseError /\
  Gen.Consts.rpcbackend_RPCCodeInvalidRequest = Rpc.WfModel.RPCCodeInvalidRequest /\
  Gen.Consts.rpcbackend_RPCCodeInternalError = Rpc.WfModel.RPCCodeInternalError /\
  Gen.Consts.rpcbackend_RPCCodeParseError = Rpc.Model.RPCCodeParseError /\
  Gen.Consts.rpcbackend_RPCCodeInvalidRequest = Rpc.Model.RPCCodeInvalidRequest /\
  Gen.Consts.rpcbackend_RPCCodeInternalError = Rpc.Model.RPCCodeInternalError.
Proof. vm_compute. repeat split; reflexivity. Qed.
Print Assumptions C16_source_constants.
