(* C16 — the proxy survives and answers every request body with well-formed JSON-RPC.
   Statements only; proofs live in Rpc/WfProofs*.v.  The handler model is Rpc/WfModel.v over the body
   front end Rpc/Body.v; the response-shape specification is Rpc/WfSpec.v.  Everything outside C16's
   anchors (Backend.SyncRequest / CallRPC, the wallet, the typed decoding of the transaction, the
   completion order of a batch's goroutines, the state of the world [W] they act on) is universally
   quantified; [sched w n] is the order in which the n member goroutines of a batch finish, and the
   only thing assumed about it is that each goroutine runs exactly once. *)
From Coq Require Import String.
From Coq Require Import List NArith ZArith Bool Lia Permutation.
From Coq Require Import Init.Byte.
From FFS Require Import Base.Res Base.Bytes Rpc.Body Rpc.WfModel Rpc.WfSpec Rpc.WfProofs Rpc.WfProofs2 Rpc.WfProofs3 Rpc.WfProofs4.
From FFS Require Rpc.Json Rpc.Model.
From FFS Require Import Rpc.WfProofsC09.
From FFS Require Import Rpc.Refine Rpc.RefineSim Rpc.RefineThms Rpc.RefineBackend.
Import ListNotations.

(* 1. Whatever the body, its lexer verdict, the state of the world, the backend, the wallet and the
      completion order: the handler does not panic -- neither on the request goroutine nor on a batch
      member's goroutine (where a panic would end the process). *)
Theorem C16_total :
  forall (W F : Type)
         (sync_request : W -> request -> (option response * bool) * W)
         (call_nonce : W -> F -> option rpc_error * W)
         (get_accounts : W -> option (list bytes) * W)
         (sign : W -> txn_view F -> option bytes * W)
         (decode_txn : option jv -> option (txn_view F))
         (parse_from : F -> bool)
         (sched : W -> nat -> list nat),
    (forall w n, Permutation (sched w n) (seq 0 n)) ->
    forall (w : W) (body : bytes) (v : verdict),
      rpcHandler W F sync_request call_nonce get_accounts sign decode_txn parse_from sched w body v <> Panic.
Proof. exact rpcHandler_total. Qed.
Print Assumptions C16_total.

(* 2. The handler returns a reply, and it is well-formed (WfSpec.wellformed_reply): one response object
      -- jsonrpc "2.0", an id member, exactly one of result / error{code,message} -- or a non-empty array
      of such objects; a parseable batch of n members (behind any amount of whitespace) gets an array
      of exactly n; an array is only ever the answer to an array body of that length.  Hypothesis on
      the backend client: SyncRequest hands back a response object of that shape ([sync_wf]); nothing
      is assumed about CallRPC, the wallet or the decoders. *)
Theorem C16_wellformed :
  forall (W F : Type)
         (sync_request : W -> request -> (option response * bool) * W)
         (call_nonce : W -> F -> option rpc_error * W)
         (get_accounts : W -> option (list bytes) * W)
         (sign : W -> txn_view F -> option bytes * W)
         (decode_txn : option jv -> option (txn_view F))
         (parse_from : F -> bool)
         (sched : W -> nat -> list nat),
    (forall w n, Permutation (sched w n) (seq 0 n)) ->
    sync_wf sync_request ->
    forall (w : W) (body : bytes) (v : verdict),
    exists rep w',
      rpcHandler W F sync_request call_nonce get_accounts sign decode_txn parse_from sched w body v = Ok (rep, w') /\
      wellformed_reply body v rep.
Proof. exact rpcHandler_answers_wellformed. Qed.
Print Assumptions C16_wellformed.

(* 3. Requests that cannot be processed are answered with an error object (WfSpec.never_null_reply), with
      no hypothesis on the backend at all: an unparseable body, a scalar, an empty batch, a batch with a
      non-object member or an ill-kinded field get one error object; a request without id, an
      eth_sendTransaction without a usable first parameter, without `from`, or with a malformed `from`
      gets an error object -- in a batch, in its own slot, next to the answers of the other members
      (WfSpec.must_fail; a null member is such a request).  Never null, never a missing slot. *)
Theorem C16_never_null :
  forall (W F : Type)
         (sync_request : W -> request -> (option response * bool) * W)
         (call_nonce : W -> F -> option rpc_error * W)
         (get_accounts : W -> option (list bytes) * W)
         (sign : W -> txn_view F -> option bytes * W)
         (decode_txn : option jv -> option (txn_view F))
         (parse_from : F -> bool)
         (sched : W -> nat -> list nat),
    (forall w n, Permutation (sched w n) (seq 0 n)) ->
    forall (w : W) (body : bytes) (v : verdict),
    exists rep w',
      rpcHandler W F sync_request call_nonce get_accounts sign decode_txn parse_from sched w body v = Ok (rep, w') /\
      never_null_reply F decode_txn parse_from body v rep.
Proof. exact rpcHandler_answers_never_null. Qed.
Print Assumptions C16_never_null.

(* 4. Histories: from any state of the world, any finite sequence of bodies is served to its end without
      a panic, and every single reply meets clauses 2 and 3 -- the hypotheses of the three theorems above
      mention no handler state, so nothing a request does can invalidate them for a later one. *)
Theorem C16_history :
  forall (W F : Type)
         (sync_request : W -> request -> (option response * bool) * W)
         (call_nonce : W -> F -> option rpc_error * W)
         (get_accounts : W -> option (list bytes) * W)
         (sign : W -> txn_view F -> option bytes * W)
         (decode_txn : option jv -> option (txn_view F))
         (parse_from : F -> bool)
         (sched : W -> nat -> list nat),
    (forall w n, Permutation (sched w n) (seq 0 n)) ->
    sync_wf sync_request ->
    forall (h : list (bytes * verdict)) (w : W),
    Forall (fun bv => lexer_coherent (fst bv) (snd bv)) h ->
    exists reps w',
      serve W F sync_request call_nonce get_accounts sign decode_txn parse_from sched w h = Ok (reps, w') /\
      Forall2 (fun bv rep => wellformed_reply (fst bv) (snd bv) rep /\
                             never_null_reply F decode_txn parse_from (fst bv) (snd bv) rep) h reps.
Proof. exact serve_history. Qed.
Print Assumptions C16_history.

(* 5. Totality once more, over the *concrete* model of C09 (Rpc/Model.v, builder b-c09), where
      Backend.SyncRequest / CallRPC (pkg/rpcbackend after f4f787a, 9edb119), the wallet lookup and the typed
      decoding of the transaction are modelled instead of abstract: for every backend behaviour (any JSON
      incl. the literal null, HTTP errors with and without body, connection failures), every lexer, every
      body and every completion order of the batch it decodes to, the handler does not panic.  Only the
      signer itself (pkg/fswallet + pkg/ethsigner, C08 / C01) is assumed to return. *)
Theorem C16_total_concrete_backend :
  forall (parse_int : bytes -> option Z) (lex : bytes -> option Json.json) (accounts : list bytes)
         (sign_with : bytes -> Json.transaction -> Z -> res bytes)
         (backend : Model.frame -> Model.backend_reply) (chain : Z),
    (forall a t c, sign_with a t c <> Panic) ->
    forall (body : bytes) (order : list nat),
      (forall t ms, lex body = Some t -> Json.decode_batch t = Ok ms -> Permutation order (seq 0 (length ms))) ->
      Model.rpcHandler parse_int lex accounts sign_with backend chain body order <> Panic.
Proof. exact rpcHandler_total_concrete. Qed.
Print Assumptions C16_total_concrete_backend.

(* 5b. Never null, over the same concrete model, where "bad parameters" and "malformed from" have their real
       meaning (WfProofsC09.must_fail_c: decode_transaction fails; `from` is not 20 hex-encoded bytes) and
       the reply is the JSON tree actually serialised: a body the lexer rejects, or whose tree is neither a
       request nor a non-empty batch, gets the parse-error object; a single request that cannot be processed
       gets an error object ({"jsonrpc":"2.0","id":..,"error":{"code":..,"message":..}}); a batch gets an
       array with one slot per member in which every member that cannot be processed (null member, missing
       id, ...) holds an error object -- for every backend and every completion order. *)
Theorem C16_never_null_concrete :
  forall (parse_int : bytes -> option Z) (lex : bytes -> option Json.json) (accounts : list bytes)
         (sign_with : bytes -> Json.transaction -> Z -> res bytes)
         (backend : Model.frame -> Model.backend_reply) (chain : Z),
    (forall a t c, sign_with a t c <> Panic) ->
    let handler := Model.rpcHandler parse_int lex accounts sign_with backend chain in
    let must_fail := must_fail_c parse_int in
    (forall body order, lex body = None -> handler body order = Ok Model.replyRPCParseError) /\
    (forall body order t e, lex body = Some t -> Json.decode_request t = Err e ->
        (Json.decode_batch t = Ok [] \/ exists e', Json.decode_batch t = Err e') ->
        handler body order = Ok Model.replyRPCParseError) /\
    (forall body order t rq, (b2n (Model.sniffFirstByte body) =? 91)%N = false ->
        lex body = Some t -> Json.decode_request t = Ok rq -> must_fail (Some rq) = true ->
        exists status tree traces, handler body order = Ok (status, tree, traces) /\ error_reply_tree tree) /\
    (forall body order t members, (b2n (Model.sniffFirstByte body) =? 91)%N = true ->
        lex body = Some t -> Json.decode_batch t = Ok members -> members <> [] ->
        Permutation order (seq 0 (length members)) ->
        exists status slots traces, handler body order = Ok (status, Json.JArr slots, traces) /\
          length slots = length members /\
          forall i m, nth_error members i = Some m -> must_fail m = true ->
                      exists s, nth_error slots i = Some s /\ error_reply_tree s).
Proof. exact never_null_concrete. Qed.
Print Assumptions C16_never_null_concrete.

(* 6. The sniffing clause on its own (repair e339dcc): behind any number of bytes that unicode.IsSpace
      accepts -- hence behind any amount of JSON whitespace -- the opening bracket of a batch is found. *)
Theorem C16_sniff_any_whitespace :
  forall (ws rest : bytes),
    Forall (fun c => is_space_go c = true) ws ->
    sniff_first_byte (ws ++ open_bracket :: rest) = open_bracket.
Proof. exact sniff_any_whitespace. Qed.
Print Assumptions C16_sniff_any_whitespace.

(* 8. (round 3) Every response object carries the id of the request it answers (WfProofs4.id_echo_reply):
      the reply to a single request echoes its id; in a batch, slot i carries the id of member i (null for a
      null member or a member without id) whatever the completion order of the member goroutines; a single
      reply that does not answer a decoded request carries the literal id 1 (replyRPCParseError).  The only
      hypothesis on the backend client is what SyncRequest documents -- it restores the id of the request it
      was given ([sync_echo]); nothing is assumed about CallRPC, the wallet or the decoders. *)
Theorem C16_id_echo :
  forall (W F : Type)
         (sync_request : W -> request -> (option response * bool) * W)
         (call_nonce : W -> F -> option rpc_error * W)
         (get_accounts : W -> option (list bytes) * W)
         (sign : W -> txn_view F -> option bytes * W)
         (decode_txn : option jv -> option (txn_view F))
         (parse_from : F -> bool)
         (sched : W -> nat -> list nat),
    sync_echo sync_request ->
    (forall w n, Permutation (sched w n) (seq 0 n)) ->
    forall (w : W) (body : bytes) (v : verdict),
    exists rep w',
      rpcHandler W F sync_request call_nonce get_accounts sign decode_txn parse_from sched w body v = Ok (rep, w') /\
      id_echo_reply body v rep.
Proof. exact rpcHandler_answers_id_echo. Qed.
Print Assumptions C16_id_echo.

(* 9. (round 3) ... and so does every reply of every finite history served by one process: the hypotheses
      mention no handler state and the world state is threaded and universally quantified, so nothing a
      request does can make a later reply carry a foreign id. *)
Theorem C16_history_id_echo :
  forall (W F : Type)
         (sync_request : W -> request -> (option response * bool) * W)
         (call_nonce : W -> F -> option rpc_error * W)
         (get_accounts : W -> option (list bytes) * W)
         (sign : W -> txn_view F -> option bytes * W)
         (decode_txn : option jv -> option (txn_view F))
         (parse_from : F -> bool)
         (sched : W -> nat -> list nat),
    sync_echo sync_request ->
    (forall w n, Permutation (sched w n) (seq 0 n)) ->
    forall (h : list (bytes * verdict)) (w : W),
    exists reps w',
      serve W F sync_request call_nonce get_accounts sign decode_txn parse_from sched w h = Ok (reps, w') /\
      Forall2 (fun bv rep => id_echo_reply (fst bv) (snd bv) rep) h reps.
Proof. exact serve_history_ids. Qed.
Print Assumptions C16_history_id_echo.

(* 10. (round 4) The refinement between the two handler models.  WfModel's Section variables are instantiated
       by the definitions of C09's concrete model (Rpc/RefineSim.v: W := the nonce cell txn.Nonce, F := the
       decoded transaction with its raw `from`, sync_request := Model.SyncRequest backend, call_nonce :=
       dec_address + Model.CallRPC + dec_hexint, get_accounts := the wallet's list, sign := Model.wallet_Sign,
       decode_txn := Json.decode_transaction, parse_from := dec_address succeeds; the lexer verdict is
       [verdict_of (lex body)], requests / responses go through [abs_req] / [abs_resp] of Rpc/Refine.v).
       Simulation, with no hypothesis on the backend, the signer or the order: whenever the concrete handler
       returns a reply, that reply is the serialisation [cp_tree cp] of a payload [cp] such that WfModel's
       handler -- for any scheduler that hands out the same completion order for this batch, from every
       world -- returns the same HTTP status and the abstraction [cp_abs cp] of that payload (same single /
       batch shape, same response objects slot by slot). *)
Theorem C16_simulation :
  forall (parse_int : bytes -> option Z) (lex : bytes -> option Json.json) (accounts : list bytes)
         (sign_with : bytes -> Json.transaction -> Z -> res bytes)
         (backend : Model.frame -> Model.backend_reply) (chain : Z)
         (body : bytes) (order : list nat) (sched : RefineSim.W -> nat -> list nat),
    (forall w t ms, lex body = Some t -> Json.decode_batch t = Ok ms -> sched w (length ms) = order) ->
    forall status tree traces,
      Model.rpcHandler parse_int lex accounts sign_with backend chain body order = Ok (status, tree, traces) ->
      exists cp, tree = cp_tree cp /\
        forall w, exists w',
          rpcHandler RefineSim.W RefineSim.F (i_sync backend) (i_call_nonce parse_int backend) (i_get_accounts accounts)
                     (i_sign sign_with chain) (i_decode_txn parse_int) i_parse_from sched w body (verdict_of (lex body))
          = Ok (mkReply status (cp_abs cp), w').
Proof. exact rpcHandler_sim_flat. Qed.
Print Assumptions C16_simulation.

(* 10b. ... packaged with totality: if the signer returns and the order is a completion order of the batch
        the body decodes to, the concrete handler returns, and WfModel's handler under the instantiation (with
        the scheduler [i_sched order], which satisfies the permutation hypothesis of theorems 1-9) returns
        the abstraction of the same reply. *)
Theorem C16_refines_C09 :
  forall (parse_int : bytes -> option Z) (lex : bytes -> option Json.json) (accounts : list bytes)
         (sign_with : bytes -> Json.transaction -> Z -> res bytes)
         (backend : Model.frame -> Model.backend_reply) (chain : Z),
    (forall a t c, sign_with a t c <> Panic) ->
    forall (body : bytes) (order : list nat),
      (forall t ms, lex body = Some t -> Json.decode_batch t = Ok ms -> Permutation order (seq 0 (length ms))) ->
      exists status cp traces,
        Model.rpcHandler parse_int lex accounts sign_with backend chain body order = Ok (status, cp_tree cp, traces) /\
        forall w, exists w',
          rpcHandler RefineSim.W RefineSim.F (i_sync backend) (i_call_nonce parse_int backend) (i_get_accounts accounts)
                     (i_sign sign_with chain) (i_decode_txn parse_int) i_parse_from (i_sched order) w body (verdict_of (lex body))
          = Ok (mkReply status (cp_abs cp), w').
Proof. exact rpcHandler_refines. Qed.
Print Assumptions C16_refines_C09.

(* 11. C16_wellformed carried over to the concrete model through 10 (RefineThms.wellformed_tree is
       WfSpec.wellformed_reply on the serialised reply): the reply tree is one JSON-RPC 2.0 response object
       (an object with "jsonrpc":"2.0", an id member and exactly one of result / error{code,message}) or a
       non-empty array of them; a parseable batch of n gets an array of n; an array only answers an array of
       that length.  GUARD (the place where the two models differ): WfModel assumes [sync_wf] of its abstract
       SyncRequest; for Model.SyncRequest this is not a theorem for every backend (theorem 14), so it is the
       explicit hypothesis [sync_wf_c backend] -- every response SyncRequest hands back has jsonrpc "2.0" and
       exactly one of result / error -- which theorem 13 derives for backends that speak JSON-RPC 2.0. *)
Theorem C16_wellformed_concrete :
  forall (parse_int : bytes -> option Z) (lex : bytes -> option Json.json) (accounts : list bytes)
         (sign_with : bytes -> Json.transaction -> Z -> res bytes)
         (backend : Model.frame -> Model.backend_reply) (chain : Z),
    (forall a t c, sign_with a t c <> Panic) ->
    forall (body : bytes) (order : list nat),
      (forall t ms, lex body = Some t -> Json.decode_batch t = Ok ms -> Permutation order (seq 0 (length ms))) ->
      sync_wf_c backend ->
      exists status tree traces,
        Model.rpcHandler parse_int lex accounts sign_with backend chain body order = Ok (status, tree, traces) /\
        wellformed_tree body (verdict_of (lex body)) tree.
Proof. exact wellformed_concrete. Qed.
Print Assumptions C16_wellformed_concrete.

(* 12. C16_id_echo carried over (RefineThms.id_echo_tree): for EVERY backend -- [sync_echo] is a theorem
       about Model.SyncRequest, no guard -- the reply to a decoded single request is an object (not null)
       whose "id" member is the request's id (null when absent); slot i of the reply to a decoded non-empty
       batch is an object whose "id" is that of member i (null for a null member), for every completion order;
       a reply that is not an array carries the literal id 1 or the id of the decoded request. *)
Theorem C16_id_echo_concrete :
  forall (parse_int : bytes -> option Z) (lex : bytes -> option Json.json) (accounts : list bytes)
         (sign_with : bytes -> Json.transaction -> Z -> res bytes)
         (backend : Model.frame -> Model.backend_reply) (chain : Z),
    (forall a t c, sign_with a t c <> Panic) ->
    forall (body : bytes) (order : list nat),
      (forall t ms, lex body = Some t -> Json.decode_batch t = Ok ms -> Permutation order (seq 0 (length ms))) ->
      exists status tree traces,
        Model.rpcHandler parse_int lex accounts sign_with backend chain body order = Ok (status, tree, traces) /\
        id_echo_tree lex body tree.
Proof. exact id_echo_concrete. Qed.
Print Assumptions C16_id_echo_concrete.

(* 12b. C16_history / C16_history_id_echo carried over: every finite history of (body, completion order)
        pairs is served to its end by the concrete handler ([serve_c]: the concrete model has no handler
        state, so a history is served request by request) and every reply meets 11 and 12. *)
Theorem C16_history_concrete :
  forall (parse_int : bytes -> option Z) (lex : bytes -> option Json.json) (accounts : list bytes)
         (sign_with : bytes -> Json.transaction -> Z -> res bytes)
         (backend : Model.frame -> Model.backend_reply) (chain : Z),
    (forall a t c, sign_with a t c <> Panic) ->
    forall (h : list (bytes * list nat)),
      Forall (fun bo => forall t ms, lex (fst bo) = Some t -> Json.decode_batch t = Ok ms ->
                                     Permutation (snd bo) (seq 0 (length ms))) h ->
      sync_wf_c backend ->
      exists reps,
        serve_c parse_int lex accounts sign_with backend chain h = Ok reps /\
        Forall2 (fun bo hr => wellformed_tree (fst bo) (verdict_of (lex (fst bo))) (reply_tree_of hr) /\
                              id_echo_tree lex (fst bo) (reply_tree_of hr)) h reps.
Proof. exact history_concrete. Qed.
Print Assumptions C16_history_concrete.

(* 12c. The history-level refinement: the replies of [serve_c] are, entry by entry, the serialisations of
        payloads whose abstractions WfModel.serve returns under the instantiation -- for any one scheduler
        that hands out every entry's completion order (WfModel's scheduler is a function of the world and
        the batch size, and the instantiated world is only the nonce cell: one scheduler covers the histories
        in which batches of equal size complete in the same order; 10b covers each request of any history). *)
Theorem C16_history_refines_C09 :
  forall (parse_int : bytes -> option Z) (lex : bytes -> option Json.json) (accounts : list bytes)
         (sign_with : bytes -> Json.transaction -> Z -> res bytes)
         (backend : Model.frame -> Model.backend_reply) (chain : Z)
         (sched : RefineSim.W -> nat -> list nat) (h : list (bytes * list nat)),
    (forall b o, In (b, o) h -> forall w t ms, lex b = Some t -> Json.decode_batch t = Ok ms -> sched w (length ms) = o) ->
    forall reps, serve_c parse_int lex accounts sign_with backend chain h = Ok reps ->
    exists cps, Forall2 (fun hr cp => reply_tree_of hr = cp_tree cp) reps cps /\
      forall w, exists w',
        serve RefineSim.W RefineSim.F (i_sync backend) (i_call_nonce parse_int backend) (i_get_accounts accounts)
              (i_sign sign_with chain) (i_decode_txn parse_int) i_parse_from sched w
              (map (fun bo => (fst bo, verdict_of (lex (fst bo)))) h)
        = Ok (map (fun x => mkReply (fst (fst (fst x))) (cp_abs (snd x))) (combine reps cps), w').
Proof. exact serve_refines. Qed.
Print Assumptions C16_history_refines_C09.

(* 13. The guard of 11 in terms of the backend: it holds when every reply is a JSON-RPC 2.0 result object, an
       error object with a non-zero code (HTTP 2xx or >= 400), an HTTP error (>= 400) without a JSON-RPC body,
       or no reply at all (RefineBackend.reply_wf). *)
Theorem C16_backend_guard :
  forall (backend : Model.frame -> Model.backend_reply),
    (forall fr, reply_wf (backend fr)) -> sync_wf_c backend.
Proof. exact reply_wf_sync_wf. Qed.
Print Assumptions C16_backend_guard.

(* 14. ... and it is needed: for the backend that answers HTTP 200 with an error object whose code is 0,
       SyncRequest returns, without error, a response carrying both "result":null and the error object
       (backend.go treats only a non-zero code as an error) -- WfModel's [sync_wf] fails there. *)
Theorem C16_backend_guard_needed :
  let rq := Json.mkReq (Json.bs "2.0") (Some (Json.JNum (Json.bs "7"))) (Json.bs "eth_call") [] in
  let '(res, err, _) := Model.SyncRequest code0_backend rq in
  err = false /\ Json.rs_result res = Some Json.JNull /\
  (exists e, Json.rs_error res = Some e /\ Json.e_code e = 0%Z) /\
  ~ sync_wf_c code0_backend.
Proof. exact sync_wf_c_code0_refuted. Qed.
Print Assumptions C16_backend_guard_needed.

(* 15. The two notions of "a request that cannot be processed" (WfSpec.must_fail under the instantiation,
       WfProofsC09.must_fail_c of theorem 5b) are the same predicate through the abstraction. *)
Theorem C16_must_fail_agree :
  forall (parse_int : bytes -> option Z) (m : option Json.rpc_request),
    must_fail RefineSim.F (i_decode_txn parse_int) i_parse_from (abs_oreq m) = must_fail_c parse_int m.
Proof. exact must_fail_sim. Qed.
Print Assumptions C16_must_fail_agree.

(* ---- non-vacuity ---- *)
Definition ex_sync (w : unit) (q : request) : (option response * bool) * unit :=
  ((Some (mkResp v2_0 (q_id q) (Some (JStr (ascii_bytes "0xabc"))) None), false), tt).
Definition ex_handler :=
  rpcHandler unit unit ex_sync (fun w _ => (None, w)) (fun w => (Some [ascii_bytes "0x01"], w))
             (fun w _ => (None, w))
             (fun p => match p with Some (JObj _) => Some (mkView (Some tt) false) | _ => None end)
             (fun _ => false) (fun _ n => rev (seq 0 n)).
Definition ex_obj (method : string) : jv :=
  JObj [(ascii_bytes "id", JNum (ascii_bytes "7")); (ascii_bytes "method", JStr (ascii_bytes method))].

(* the hypotheses are met by a concrete world (reverse completion order, a backend answering "0xabc") *)
Example C16_hypotheses_satisfiable :
  (forall (w : unit) n, Permutation ((fun _ n => rev (seq 0 n)) w n) (seq 0 n)) /\ sync_wf ex_sync.
Proof.
  split.
  - intros. apply Permutation_sym, Permutation_rev.
  - intros w q. eexists. split; [reflexivity|]. split; [reflexivity|]. left. simpl. eauto.
Qed.

(* total + wellformed: 200 blanks, then a batch of a relayed request and a null member (the witnesses of
   D16d and D16a at once): coherent lexer verdict, parseable batch of 2, answered by an array of 2 *)
Example C16_wellformed_nonvacuous :
  let body := repeat x20 200 ++ ascii_bytes "[{""id"":7,""method"":""eth_call""},null]" in
  let v := Tree (JArr [ex_obj "eth_call"; JNull]) in
  lexer_coherent body v /\ parseable_batch v = Some 2%nat /\
  exists r1 r2, ex_handler tt body v = Ok (mkReply 500 (PBatch [Some r1; Some r2]), tt) /\
                r_result r1 <> None /\ r_error r2 <> None.
Proof.
  split; [intros l _; eexists; vm_compute; reflexivity|]. split; [reflexivity|].
  eexists _, _. split; [vm_compute; reflexivity|]. split; discriminate.
Qed.

(* never null: the witness of D16b -- eth_sendTransaction whose `from` does not parse, no nonce -- is a
   request that must fail, and the reply is an error object with the request's id *)
Example C16_never_null_nonvacuous :
  let q := mkReq [] (Some (JNum (ascii_bytes "7"))) m_eth_sendTransaction [Some (JObj [(ascii_bytes "from", JStr (ascii_bytes "zz"))])] in
  let v := Tree (JObj [(ascii_bytes "id", JNum (ascii_bytes "7")); (ascii_bytes "method", JStr m_eth_sendTransaction);
                       (ascii_bytes "params", JArr [JObj [(ascii_bytes "from", JStr (ascii_bytes "zz"))]])]) in
  decode_single v = Ok q /\
  must_fail unit (fun p => match p with Some (JObj _) => Some (mkView (Some tt) false) | _ => None end) (fun _ => false) (Some q) = true /\
  ex_handler tt (ascii_bytes "{}") v = Ok (mkReply 500 (PSingle (Some (RPCErrorResponse (q_id q) RPCCodeParseError))), tt).
Proof. split; [vm_compute; reflexivity|]. split; vm_compute; reflexivity. Qed.

(* history: garbage, the body [null], then a valid request -- three replies, the last one a result *)
Example C16_history_nonvacuous :
  exists r1 r2 r3,
    serve unit unit ex_sync (fun w _ => (None, w)) (fun w => (Some [ascii_bytes "0x01"], w)) (fun w _ => (None, w))
          (fun _ => None) (fun _ => false) (fun _ n => rev (seq 0 n)) tt
          [(ascii_bytes "\x00garbage", SyntaxError);
           (ascii_bytes "[null]", Tree (JArr [JNull]));
           (ascii_bytes "{}", Tree (ex_obj "eth_accounts"))]
    = Ok ([r1; r2; mkReply 200 (PSingle (Some r3))], tt) /\ status r1 = 400%N /\ status r2 = 500%N /\ r_result r3 <> None.
Proof. eexists _, _, _. split; [vm_compute; reflexivity|]. repeat split; discriminate. Qed.

(* concrete model: a backend that answers HTTP 200 with the JSON literal null (the witness of D16e / D09c)
   to a relayed member of a batch: the handler returns HTTP 500 *)
Example C16_total_concrete_nonvacuous :
  let tree := Json.JArr [Json.JObj [(ascii_bytes "id", Json.JNum (ascii_bytes "1")); (ascii_bytes "method", Json.JStr (ascii_bytes "eth_call"))]] in
  exists r fr,
    Model.rpcHandler (fun _ => None) (fun _ => Some tree) [] (fun _ _ _ => Err 3%nat)
                     (fun _ => Model.BHttp 200 (Model.BJson Json.JNull)) 1%Z (ascii_bytes "[x]") [0%nat]
    = Ok (500%N, r, fr).
Proof. eexists _, _. vm_compute. reflexivity. Qed.

(* sniffing: 100 000 blanks, tabs and newlines in front of the bracket *)
Example C16_sniff_nonvacuous :
  sniff_first_byte (repeat x20 (N.to_nat 100000) ++ [x09; x0a; x0d] ++ open_bracket :: ascii_bytes "null]") = open_bracket.
Proof. vm_compute. reflexivity. Qed.

(* concrete never-null: `from` "zz" with no nonce is a request that must fail in the concrete sense *)
Example C16_never_null_concrete_nonvacuous :
  must_fail_c (fun _ => None)
    (Some (Json.mkReq [] (Some (Json.JNum (ascii_bytes "7"))) (ascii_bytes "eth_sendTransaction")
                      [Json.JObj [(ascii_bytes "from", Json.JStr (ascii_bytes "zz"))]])) = true /\
  must_fail_c (fun _ => None)
    (Some (Json.mkReq [] (Some (Json.JNum (ascii_bytes "7"))) (ascii_bytes "eth_sendTransaction")
                      [Json.JObj [(ascii_bytes "from", Json.JStr (ascii_bytes "0x00000000000000000000000000000000000000aa"))]])) = false.
Proof. split; vm_compute; reflexivity. Qed.

(* id echo: [ex_sync] restores the id; a batch of three members with different ids (the last one null),
   completed in reverse order, is answered slot by slot with those ids *)
Definition ex_obj_id (id method : string) : jv :=
  JObj [(ascii_bytes "id", JStr (ascii_bytes id)); (ascii_bytes "method", JStr (ascii_bytes method))].
Example C16_id_echo_nonvacuous :
  sync_echo ex_sync /\
  let v := Tree (JArr [ex_obj_id "a" "eth_call"; ex_obj_id "b" "eth_accounts"; JNull]) in
  exists r1 r2 r3 st,
    ex_handler tt (ascii_bytes "[x]") v = Ok (mkReply st (PBatch [Some r1; Some r2; Some r3]), tt) /\
    r_id r1 = Some (JStr (ascii_bytes "a")) /\ r_id r2 = Some (JStr (ascii_bytes "b")) /\ r_id r3 = None.
Proof.
  split; [intros w q r H; injection H as <-; reflexivity|].
  eexists _, _, _, _. split; [vm_compute; reflexivity|]. repeat split.
Qed.

(* history id echo: the three-body history of C16_history_nonvacuous (garbage, [null], a request with id 7):
   literal id 1, a null id in the slot of the null member, then the request's own id *)
Example C16_history_id_echo_nonvacuous :
  exists r1 r2 r3 s1 s2 s3,
    serve unit unit ex_sync (fun w _ => (None, w)) (fun w => (Some [ascii_bytes "0x01"], w)) (fun w _ => (None, w))
          (fun _ => None) (fun _ => false) (fun _ n => rev (seq 0 n)) tt
          [(ascii_bytes "\x00garbage", SyntaxError);
           (ascii_bytes "[null]", Tree (JArr [JNull]));
           (ascii_bytes "{}", Tree (ex_obj "eth_accounts"))]
    = Ok ([mkReply s1 (PSingle (Some r1)); mkReply s2 (PBatch [Some r2]); mkReply s3 (PSingle (Some r3))], tt) /\
    r_id r1 = Some (JNum (ascii_bytes "1")) /\ r_id r2 = None /\ r_id r3 = Some (JNum (ascii_bytes "7")).
Proof. eexists _, _, _, _, _, _. split; [vm_compute; reflexivity|]. repeat split. Qed.

(* refinement / concrete shape theorems: a signer that returns, a backend that speaks JSON-RPC 2.0, a batch of a
   relayed request and a null member completing in reverse order: the hypotheses of 10b-12 hold, and the
   concrete handler answers with an array of two objects carrying "a" / the backend's result and null / an error *)
Definition exc_backend (_ : Model.frame) : Model.backend_reply :=
  Model.reply_result (Json.JNum (Json.bs "99")) (Json.JStr (Json.bs "0xabc")).
Definition exc_tree : Json.json :=
  Json.JArr [Json.JObj [(Json.bs "id", Json.JStr (Json.bs "a")); (Json.bs "method", Json.JStr (Json.bs "eth_call"))]; Json.JNull].
Example C16_concrete_refinement_nonvacuous :
  let sign_with := fun (_ : bytes) (_ : Json.transaction) (_ : Z) => @Err bytes 3%nat in
  let lex := fun _ : bytes => Some exc_tree in
  let body := ascii_bytes "[x]" in
  (forall a t c, sign_with a t c <> Panic) /\
  (forall t ms, lex body = Some t -> Json.decode_batch t = Ok ms -> Permutation [1; 0]%nat (seq 0 (length ms))) /\
  sync_wf_c exc_backend /\
  exists s1 s2 traces,
    Model.rpcHandler (fun _ => None) lex [] sign_with exc_backend 1%Z body [1; 0]%nat = Ok (500%N, Json.JArr [s1; s2], traces) /\
    tree_member "id" s1 = Some (Json.JStr (Json.bs "a")) /\ tree_member "result" s1 = Some (Json.JStr (Json.bs "0xabc")) /\
    tree_member "id" s2 = Some Json.JNull /\ tree_member "error" s2 <> None /\
    (* ... and the abstract handler under the instantiation replies with the abstraction of the same two slots *)
    exists r1 r2 w',
      rpcHandler RefineSim.W RefineSim.F (i_sync exc_backend) (i_call_nonce (fun _ => None) exc_backend) (i_get_accounts [])
                 (i_sign sign_with 1%Z) (i_decode_txn (fun _ => None)) i_parse_from (i_sched [1; 0]%nat) None body (verdict_of (lex body))
      = Ok (mkReply 500 (PBatch [Some r1; Some r2]), w') /\
      r_id r1 = Some (JStr (ascii_bytes "a")) /\ r_result r1 = Some (JStr (ascii_bytes "0xabc")) /\ r_id r2 = None /\ r_error r2 <> None.
Proof.
  cbv zeta. split; [intros; discriminate|]. split.
  { intros t ms El Ed. injection El as <-. vm_compute in Ed. injection Ed as <-. apply perm_swap. }
  split; [apply reply_wf_sync_wf; intros fr; apply wf_result|].
  eexists _, _, _. split; [vm_compute; reflexivity|].
  repeat (split; [reflexivity|]). split; [discriminate|].
  eexists _, _, _. split; [vm_compute; reflexivity|].
  repeat (split; [reflexivity|]). discriminate.
Qed.

(* ======== answers to the statement review design/reviews/C16.md (appended; nothing above was changed) ======== *)
From FFS Require Import Rpc.WfReferee Rpc.RefineReferee.

(* 16. (review I3) C16_history without its lexer-coherence hypothesis on the history: that hypothesis was never
       used (coherence is a premise INSIDE wellformed_reply clause (b) and never_null_reply clause 3).  This is the
       stronger statement; C16_history is its special case. *)
Theorem C16_history_any :
  forall (W F : Type)
         (sync_request : W -> request -> (option response * bool) * W)
         (call_nonce : W -> F -> option rpc_error * W)
         (get_accounts : W -> option (list bytes) * W)
         (sign : W -> txn_view F -> option bytes * W)
         (decode_txn : option jv -> option (txn_view F))
         (parse_from : F -> bool)
         (sched : W -> nat -> list nat),
    (forall w n, Permutation (sched w n) (seq 0 n)) ->
    sync_wf sync_request ->
    forall (h : list (bytes * verdict)) (w : W),
    exists reps w',
      serve W F sync_request call_nonce get_accounts sign decode_txn parse_from sched w h = Ok (reps, w') /\
      Forall2 (fun bv rep => wellformed_reply (fst bv) (snd bv) rep /\
                             never_null_reply F decode_txn parse_from (fst bv) (snd bv) rep) h reps.
Proof. exact serve_history_any. Qed.
Print Assumptions C16_history_any.

(* 16b. (review, level_text) ... and with NO hypothesis on the backend at all for the never-null clause: every
        finite history is served to its end and every reply meets clause 3. *)
Theorem C16_history_never_null :
  forall (W F : Type)
         (sync_request : W -> request -> (option response * bool) * W)
         (call_nonce : W -> F -> option rpc_error * W)
         (get_accounts : W -> option (list bytes) * W)
         (sign : W -> txn_view F -> option bytes * W)
         (decode_txn : option jv -> option (txn_view F))
         (parse_from : F -> bool)
         (sched : W -> nat -> list nat),
    (forall w n, Permutation (sched w n) (seq 0 n)) ->
    forall (h : list (bytes * verdict)) (w : W),
    exists reps w',
      serve W F sync_request call_nonce get_accounts sign decode_txn parse_from sched w h = Ok (reps, w') /\
      Forall2 (fun bv rep => never_null_reply F decode_txn parse_from (fst bv) (snd bv) rep) h reps.
Proof. exact serve_history_never_null. Qed.
Print Assumptions C16_history_never_null.

(* 17. (review I4) What "not a parseable batch" gets, by name, with no hypothesis whatsoever (not even on the
       scheduler): every body that is not a request -- a syntax error, a scalar, an object with an ill-kinded
       request field, the empty array, AND an array with a member that is a number / string / bool / array / an
       object with an ill-kinded field (e.g. [1,{"id":1,"method":"eth_accounts"}]) -- is answered by exactly
       replyRPCParseError: ONE error object (HTTP 400, id 1, code -32600), never an array; such members do NOT get a
       slot of their own, and the valid members next to them are not processed (the world is unchanged).  JSON-RPC
       2.0 section 6 would answer [1] with [{error}]; the code does not, and C16 is stated for what it does. *)
Theorem C16_unprocessable_exact :
  forall (W F : Type)
         (sync_request : W -> request -> (option response * bool) * W)
         (call_nonce : W -> F -> option rpc_error * W)
         (get_accounts : W -> option (list bytes) * W)
         (sign : W -> txn_view F -> option bytes * W)
         (decode_txn : option jv -> option (txn_view F))
         (parse_from : F -> bool)
         (sched : W -> nat -> list nat)
         (w : W) (body : bytes) (v : verdict),
    unprocessable_body v -> v <> Tree JNull ->
    rpcHandler W F sync_request call_nonce get_accounts sign decode_txn parse_from sched w body v = Ok (parse_error_reply, w).
Proof. exact unprocessable_exact. Qed.
Print Assumptions C16_unprocessable_exact.

Theorem C16_unparseable_array_one_error :
  forall (W F : Type)
         (sync_request : W -> request -> (option response * bool) * W)
         (call_nonce : W -> F -> option rpc_error * W)
         (get_accounts : W -> option (list bytes) * W)
         (sign : W -> txn_view F -> option bytes * W)
         (decode_txn : option jv -> option (txn_view F))
         (parse_from : F -> bool)
         (sched : W -> nat -> list nat)
         (w : W) (body : bytes) (l : list jv),
    parseable_batch (Tree (JArr l)) = None ->
    rpcHandler W F sync_request call_nonce get_accounts sign decode_txn parse_from sched w body (Tree (JArr l))
    = Ok (parse_error_reply, w).
Proof. exact unparseable_array_one_error. Qed.
Print Assumptions C16_unparseable_array_one_error.

(* 17b. the remaining unprocessable body, the literal null: the zero request, i.e. the missing-id error object
        (HTTP 500, id null) -- or replyRPCParseError when the sniffed byte is '[' (incoherent verdict only). *)
Theorem C16_null_body_exact :
  forall (W F : Type)
         (sync_request : W -> request -> (option response * bool) * W)
         (call_nonce : W -> F -> option rpc_error * W)
         (get_accounts : W -> option (list bytes) * W)
         (sign : W -> txn_view F -> option bytes * W)
         (decode_txn : option jv -> option (txn_view F))
         (parse_from : F -> bool)
         (sched : W -> nat -> list nat)
         (w : W) (body : bytes),
    rpcHandler W F sync_request call_nonce get_accounts sign decode_txn parse_from sched w body (Tree JNull) =
    Ok (if byte_eqb (sniff_first_byte body) open_bracket then parse_error_reply
        else mkReply 500 (PSingle (Some (RPCErrorResponse None RPCCodeInvalidRequest))), w).
Proof. exact null_body_exact. Qed.
Print Assumptions C16_null_body_exact.

(* 18. (review I5) The model CAN panic, and the one hypothesis of C16_total is necessary: under a scheduler whose
       first entry names a goroutine that does not exist (index >= n) the handler panics on EVERY decodable
       non-empty batch (rpcArray[i] out of range on the member goroutine). *)
Theorem C16_sched_guard_needed :
  forall (W F : Type)
         (sync_request : W -> request -> (option response * bool) * W)
         (call_nonce : W -> F -> option rpc_error * W)
         (get_accounts : W -> option (list bytes) * W)
         (sign : W -> txn_view F -> option bytes * W)
         (decode_txn : option jv -> option (txn_view F))
         (parse_from : F -> bool)
         (sched : W -> nat -> list nat)
         (w : W) (body : bytes) (v : verdict) (reqs : list (option request)) (i : nat) (rest : list nat),
    byte_eqb (sniff_first_byte body) open_bracket = true ->
    decode_batch v = Ok reqs -> reqs <> [] ->
    sched w (length reqs) = i :: rest -> (length reqs <= i)%nat ->
    rpcHandler W F sync_request call_nonce get_accounts sign decode_txn parse_from sched w body v = Panic.
Proof. exact sched_out_of_range_panics. Qed.
Print Assumptions C16_sched_guard_needed.

(* 18b. (review I5) The handler as it was BEFORE fix d674d82 (WfReferee.processRPC_prefix: the nil guard of
        processRPC removed, the argument dereferenced first; everything else word for word): for every world,
        backend, wallet and every completion order that is a permutation, a batch of n+1 null members panics --
        C16_total is a theorem about the guard, not about how the result type was written down. *)
Theorem C16_prefix_panics_on_null_member :
  forall (W F : Type)
         (sync_request : W -> request -> (option response * bool) * W)
         (call_nonce : W -> F -> option rpc_error * W)
         (get_accounts : W -> option (list bytes) * W)
         (sign : W -> txn_view F -> option bytes * W)
         (decode_txn : option jv -> option (txn_view F))
         (parse_from : F -> bool)
         (sched : W -> nat -> list nat) (w : W) (n : nat),
    Permutation (sched w (S n)) (seq 0 (S n)) ->
    handleRPCBatch_prefix W F sync_request call_nonce get_accounts sign decode_txn parse_from sched w
                          (Tree (JArr (repeat JNull (S n)))) = Panic.
Proof. exact prefix_panics_on_null_member. Qed.
Print Assumptions C16_prefix_panics_on_null_member.

(* 19. (review I1) C16_wellformed_concrete / C16_history_concrete with the hypothesis on the BACKEND instead of the
       derived guard on SyncRequest's output: for a conforming backend -- every reply is RefineBackend.reply_wf: a
       JSON-RPC 2.0 result object, an error object with a non-zero code (HTTP 2xx or >= 400), an HTTP error
       (>= 400) without a JSON-RPC body, or no reply at all -- every reply of the concrete handler is well-formed. *)
Theorem C16_wellformed_conforming :
  forall (parse_int : bytes -> option Z) (lex : bytes -> option Json.json) (accounts : list bytes)
         (sign_with : bytes -> Json.transaction -> Z -> res bytes)
         (backend : Model.frame -> Model.backend_reply) (chain : Z),
    (forall a t c, sign_with a t c <> Panic) ->
    (forall fr, reply_wf (backend fr)) ->
    forall (body : bytes) (order : list nat),
      (forall t ms, lex body = Some t -> Json.decode_batch t = Ok ms -> Permutation order (seq 0 (length ms))) ->
      exists status tree traces,
        Model.rpcHandler parse_int lex accounts sign_with backend chain body order = Ok (status, tree, traces) /\
        wellformed_tree body (verdict_of (lex body)) tree.
Proof. exact wellformed_conforming. Qed.
Print Assumptions C16_wellformed_conforming.

Theorem C16_history_conforming :
  forall (parse_int : bytes -> option Z) (lex : bytes -> option Json.json) (accounts : list bytes)
         (sign_with : bytes -> Json.transaction -> Z -> res bytes)
         (backend : Model.frame -> Model.backend_reply) (chain : Z),
    (forall a t c, sign_with a t c <> Panic) ->
    (forall fr, reply_wf (backend fr)) ->
    forall (h : list (bytes * list nat)),
      Forall (fun bo => forall t ms, lex (fst bo) = Some t -> Json.decode_batch t = Ok ms ->
                                     Permutation (snd bo) (seq 0 (length ms))) h ->
      exists reps,
        serve_c parse_int lex accounts sign_with backend chain h = Ok reps /\
        Forall2 (fun bo hr => wellformed_tree (fst bo) (verdict_of (lex (fst bo))) (reply_tree_of hr) /\
                              id_echo_tree lex (fst bo) (reply_tree_of hr)) h reps.
Proof. exact history_conforming. Qed.
Print Assumptions C16_history_conforming.

(* 19b. (review I1) What is NOT proved, as refutations over the concrete model: clause (d) of the property fails
        for backends that do not conform.  (i) HTTP 200 with an error object whose code is 0: the PROXY'S OWN reply
        (HTTP 200) carries both "result" (null) and "error" and is not a response object.  (ii) a backend labelling
        its answer "jsonrpc":"1.0": relayed verbatim; sync_wf_c fails and the proxy's reply says "1.0". *)
Theorem C16_code0_reply_not_wellformed :
  exists tree traces,
    Model.rpcHandler (fun _ => None) (fun _ => Some probe_tree) [] (fun _ _ _ => Err 3%nat) code0_backend 1%Z
                     (Json.bs "{}") [] = Ok (200%N, tree, traces) /\
    (exists v, tree_member "result" tree = Some v) /\ (exists e, tree_member "error" tree = Some e) /\
    ~ reply_tree_ok tree.
Proof. exact code0_reply_not_wellformed. Qed.
Print Assumptions C16_code0_reply_not_wellformed.

Theorem C16_backend_guard_needed_jsonrpc :
  let '(res, err, _) := Model.SyncRequest jsonrpc1_backend probe_rq in
  err = false /\ Json.rs_jsonrpc res = Json.bs "1.0" /\ ~ sync_wf_c jsonrpc1_backend.
Proof. exact sync_wf_c_jsonrpc1_refuted. Qed.
Print Assumptions C16_backend_guard_needed_jsonrpc.

Theorem C16_jsonrpc1_reply_not_wellformed :
  exists tree traces,
    Model.rpcHandler (fun _ => None) (fun _ => Some probe_tree) [] (fun _ _ _ => Err 3%nat) jsonrpc1_backend 1%Z
                     (Json.bs "{}") [] = Ok (200%N, tree, traces) /\
    tree_member "jsonrpc" tree = Some (Json.JStr (Json.bs "1.0")) /\ ~ reply_tree_ok tree.
Proof. exact jsonrpc1_reply_not_wellformed. Qed.
Print Assumptions C16_jsonrpc1_reply_not_wellformed.

(* 20. (review I2) The bytes on the wire.  replyRPC is `b, _ := json.Marshal(result); w.Write(b)` with the error
       DROPPED (RefineReferee.replyRPC_body: None => the empty body).  encoding/json is external: [marshal] and the
       relation [denotes b t] ("the text b is JSON denoting t") are universally quantified, their three laws
       (RefineReferee.marshal_laws: Marshal succeeds on every reply value; what it writes denotes the value; the
       empty text denotes nothing) are HYPOTHESES, not theorems -- there is no serialiser / parser model.  Under
       them: for every backend the body is non-empty and denotes the handler's reply tree (objects carrying the
       request ids, never null); for a conforming backend that tree is well-formed.  C16_wire_empty_iff: without
       the laws nothing is left -- the body is empty exactly when Marshal fails or writes nothing. *)
Theorem C16_wire_reply_any_backend :
  forall (marshal : Json.json -> option bytes) (denotes : bytes -> Json.json -> Prop),
    marshal_laws marshal denotes ->
  forall (parse_int : bytes -> option Z) (lex : bytes -> option Json.json) (accounts : list bytes)
         (sign_with : bytes -> Json.transaction -> Z -> res bytes)
         (backend : Model.frame -> Model.backend_reply) (chain : Z),
    (forall a t c, sign_with a t c <> Panic) ->
    forall (body : bytes) (order : list nat),
      (forall t ms, lex body = Some t -> Json.decode_batch t = Ok ms -> Permutation order (seq 0 (length ms))) ->
      exists status tree traces,
        Model.rpcHandler parse_int lex accounts sign_with backend chain body order = Ok (status, tree, traces) /\
        replyRPC_body marshal tree <> [] /\ denotes (replyRPC_body marshal tree) tree /\ id_echo_tree lex body tree.
Proof. exact wire_reply_any_backend. Qed.
Print Assumptions C16_wire_reply_any_backend.

Theorem C16_wire_reply_wellformed :
  forall (marshal : Json.json -> option bytes) (denotes : bytes -> Json.json -> Prop),
    marshal_laws marshal denotes ->
  forall (parse_int : bytes -> option Z) (lex : bytes -> option Json.json) (accounts : list bytes)
         (sign_with : bytes -> Json.transaction -> Z -> res bytes)
         (backend : Model.frame -> Model.backend_reply) (chain : Z),
    (forall a t c, sign_with a t c <> Panic) ->
    forall (body : bytes) (order : list nat),
      (forall fr, reply_wf (backend fr)) ->
      (forall t ms, lex body = Some t -> Json.decode_batch t = Ok ms -> Permutation order (seq 0 (length ms))) ->
      exists status tree traces,
        Model.rpcHandler parse_int lex accounts sign_with backend chain body order = Ok (status, tree, traces) /\
        replyRPC_body marshal tree <> [] /\ denotes (replyRPC_body marshal tree) tree /\
        wellformed_tree body (verdict_of (lex body)) tree.
Proof. exact wire_reply_wellformed. Qed.
Print Assumptions C16_wire_reply_wellformed.

Theorem C16_wire_empty_iff :
  forall (marshal : Json.json -> option bytes) (t : Json.json),
    replyRPC_body marshal t = [] <-> marshal t = None \/ marshal t = Some [].
Proof. exact wire_empty_iff. Qed.
Print Assumptions C16_wire_empty_iff.

(* ---- non-vacuity of 16-20 ---- *)

(* 16: a history whose second entry is NOT coherent (array tree, body that does not start with '['): served *)
Example C16_history_any_nonvacuous :
  ~ lexer_coherent (ascii_bytes "{}") (Tree (JArr [JNull])) /\
  exists r1 r2,
    serve unit unit ex_sync (fun w _ => (None, w)) (fun w => (Some [ascii_bytes "0x01"], w)) (fun w _ => (None, w))
          (fun _ => None) (fun _ => false) (fun _ n => rev (seq 0 n)) tt
          [(ascii_bytes "[null]", Tree (JArr [JNull])); (ascii_bytes "{}", Tree (JArr [JNull]))]
    = Ok ([r1; r2], tt) /\ status r1 = 500%N /\ status r2 = 400%N.
Proof.
  split.
  - intros H. destruct (H [JNull] eq_refl) as [rest Hr]. vm_compute in Hr. discriminate.
  - eexists _, _. split; [vm_compute; reflexivity|]. split; reflexivity.
Qed.

(* 17: the referee's bodies [1,{"id":1,"method":"eth_accounts"}], [{"id":1,"method":5}], [[]] are arrays that
   are not parseable batches; the first is answered by the single parse-error object (not an array of 2) *)
Example C16_unprocessable_nonvacuous :
  let v1 := Tree (JArr [JNum (ascii_bytes "1"); ex_obj "eth_accounts"]) in
  let v2 := Tree (JArr [JObj [(ascii_bytes "id", JNum (ascii_bytes "1")); (ascii_bytes "method", JNum (ascii_bytes "5"))]]) in
  let v3 := Tree (JArr [JArr []]) in
  parseable_batch v1 = None /\ parseable_batch v2 = None /\ parseable_batch v3 = None /\
  unprocessable_body v1 /\ v1 <> Tree JNull /\
  ex_handler tt (ascii_bytes "[1,{""id"":7,""method"":""eth_accounts""}]") v1 = Ok (parse_error_reply, tt) /\
  status parse_error_reply = 400%N.
Proof. cbv zeta. repeat split; try reflexivity; discriminate. Qed.

(* 18: the model returns Panic -- abstract handler with a scheduler naming goroutine 5 of a batch of 1; the
   concrete handler of C09 with such an order, and with a signer that panics (the hypothesis sign_with <> Panic
   of the concrete theorems is needed); the pre-fix handler on [null] under the reverse-order scheduler *)
Definition exp_tx_tree : Json.json :=
  Json.JObj [(Json.bs "id", Json.JNum (Json.bs "1")); (Json.bs "method", Json.JStr (Json.bs "eth_sendTransaction"));
             (Json.bs "params", Json.JArr [Json.JObj [(Json.bs "from", Json.JStr (Json.bs "0x00000000000000000000000000000000000000aa"));
                                                      (Json.bs "nonce", Json.JStr (Json.bs "0x1"))]])].
Example C16_model_can_panic :
  rpcHandler unit unit ex_sync (fun w _ => (None, w)) (fun w => (Some [], w)) (fun w _ => (None, w))
             (fun _ => None) (fun _ => false) (fun _ _ => [5%nat]) tt (ascii_bytes "[null]") (Tree (JArr [JNull])) = Panic /\
  Model.rpcHandler (fun _ => None) (fun _ => Some (Json.JArr [Json.JNull])) [] (fun _ _ _ => Err 3%nat)
                   (fun _ => Model.BConnFail) 1%Z (ascii_bytes "[null]") [5%nat] = Panic /\
  Model.rpcHandler (fun _ => Some 1%Z) (fun _ => Some exp_tx_tree) [repeat x00 19 ++ [xaa]] (fun _ _ _ => Panic)
                   (fun _ => Model.BConnFail) 1%Z (ascii_bytes "{}") [] = Panic /\
  handleRPCBatch_prefix unit unit ex_sync (fun w _ => (None, w)) (fun w => (Some [], w)) (fun w _ => (None, w))
                        (fun _ => None) (fun _ => false) (fun _ n => rev (seq 0 n)) tt (Tree (JArr [JNull])) = Panic.
Proof. repeat split; vm_compute; reflexivity. Qed.

(* 5b clause 3 executed (review I6): the concrete handler run on a SINGLE request that must fail -- `from` "zz",
   no nonce -- with a body that is that request's text; the reply is an error object with the request's id *)
Definition exq_tree : Json.json :=
  Json.JObj [(Json.bs "id", Json.JNum (Json.bs "7")); (Json.bs "method", Json.JStr (Json.bs "eth_sendTransaction"));
             (Json.bs "params", Json.JArr [Json.JObj [(Json.bs "from", Json.JStr (Json.bs "zz"))]])].
Example C16_never_null_concrete_executed :
  let body := ascii_bytes "{""id"":7,""method"":""eth_sendTransaction"",""params"":[{""from"":""zz""}]}" in
  exists rq,
    Json.decode_request exq_tree = Ok rq /\ must_fail_c (fun _ => None) (Some rq) = true /\
    Model.rpcHandler (fun _ => None) (fun _ => Some exq_tree) [] (fun _ _ _ => Err 3%nat) (fun _ => Model.BConnFail) 1%Z body []
    = Ok (500%N, Json.response_tree (Model.RPCErrorResponse (Some (Json.JNum (Json.bs "7"))) Model.RPCCodeParseError), [[]]) /\
    error_reply_tree (Json.response_tree (Model.RPCErrorResponse (Some (Json.JNum (Json.bs "7"))) Model.RPCCodeParseError)).
Proof.
  cbv zeta. eexists. split; [vm_compute; reflexivity|]. split; [vm_compute; reflexivity|].
  split; [vm_compute; reflexivity|]. eexists _, _. reflexivity.
Qed.

(* 3 once more (review I6), with a body that IS the text of the verdict tree *)
Example C16_never_null_nonvacuous_body :
  let body := ascii_bytes "{""id"":7,""method"":""eth_sendTransaction"",""params"":[{""from"":""zz""}]}" in
  let v := Tree (JObj [(ascii_bytes "id", JNum (ascii_bytes "7")); (ascii_bytes "method", JStr m_eth_sendTransaction);
                       (ascii_bytes "params", JArr [JObj [(ascii_bytes "from", JStr (ascii_bytes "zz"))]])]) in
  exists q, decode_single v = Ok q /\
    ex_handler tt body v = Ok (mkReply 500 (PSingle (Some (RPCErrorResponse (q_id q) RPCCodeParseError))), tt).
Proof. eexists. split; vm_compute; reflexivity. Qed.

(* 19: a conforming backend exists (exc_backend answers result objects) *)
Example C16_conforming_nonvacuous : forall fr, reply_wf (exc_backend fr).
Proof. intros fr. apply wf_result. Qed.

(* 20: the laws of the wire theorems have an instance (a compact renderer; NOT a model of encoding/json), and a
   Marshal that fails gives the empty body *)
Example C16_wire_nonvacuous :
  marshal_laws (fun t => Some (render t)) (fun b t => b = render t) /\
  replyRPC_body (fun t => Some (render t)) (Json.JArr [Json.JObj [(Json.bs "id", Json.JNum (Json.bs "7"))]; Json.JNull])
    = ascii_bytes "[{""id"": 7},null]" /\
  replyRPC_body (fun _ => None) Json.JNull = [].
Proof. split; [exact render_laws|]. split; vm_compute; reflexivity. Qed.

(* Tie of the hand-written JSON-RPC error codes of Rpc/WfModel.v (and of Rpc/Model.v, which
   WfProofsC09 links to it) to the source.  Gen/Consts.v is regenerated on every run by the
   translator harness/cmd/gen_consts from the `const` declarations of pkg/rpcbackend/backend.go as
   they are NOW (internal/rpcserver declares no codes of its own, it uses these).  The models keep
   their own literals; this theorem is what breaks when a code changes in the source. *)
From FFS Require Gen.Consts.
Theorem C16_source_constants :
  Gen.Consts.rpcbackend_RPCCodeParseError = Rpc.WfModel.RPCCodeParseError /\
  Gen.Consts.rpcbackend_RPCCodeInvalidRequest = Rpc.WfModel.RPCCodeInvalidRequest /\
  Gen.Consts.rpcbackend_RPCCodeInternalError = Rpc.WfModel.RPCCodeInternalError /\
  Gen.Consts.rpcbackend_RPCCodeParseError = Rpc.Model.RPCCodeParseError /\
  Gen.Consts.rpcbackend_RPCCodeInvalidRequest = Rpc.Model.RPCCodeInvalidRequest /\
  Gen.Consts.rpcbackend_RPCCodeInternalError = Rpc.Model.RPCCodeInternalError.
Proof. vm_compute. repeat split; reflexivity. Qed.
Print Assumptions C16_source_constants.

(* ======== wave 6: histories in which every request has its own scheduler (closes `partial` "I3 scheduler";
   Rpc/W6C16Sched.v; nothing above was changed) ========

   WfModel.serve threads ONE scheduler function through a whole history, so two batches of equal size served
   from the same world complete in the same order and C16_history_refines_C09 covered only the concrete
   histories with that regularity.  [serve_each] serves a history whose entries each carry their own
   scheduler (the handler, WfModel.rpcHandler, is unchanged). *)
From FFS Require Import Rpc.W6C16Sched.

(* 35. WfModel.serve is the special case "the same scheduler in every entry". *)
Theorem C16_serve_is_each :
  forall (W F : Type)
         (sync_request : W -> request -> (option response * bool) * W)
         (call_nonce : W -> F -> option rpc_error * W)
         (get_accounts : W -> option (list bytes) * W)
         (sign : W -> txn_view F -> option bytes * W)
         (decode_txn : option jv -> option (txn_view F))
         (parse_from : F -> bool)
         (sched : W -> nat -> list nat) (h : list (bytes * verdict)) (w : W),
    serve_each W F sync_request call_nonce get_accounts sign decode_txn parse_from w (map (fun bv => (bv, sched)) h)
    = serve W F sync_request call_nonce get_accounts sign decode_txn parse_from sched w h.
Proof. exact serve_each_const. Qed.
Print Assumptions C16_serve_is_each.

(* 36. C16_history_any for independently scheduled requests: every entry's scheduler is a permutation of the
       members (per entry; nothing relates the schedulers of two entries), sync_wf: the history is served to its end
       and every reply is well-formed and never null. *)
Theorem C16_history_each :
  forall (W F : Type)
         (sync_request : W -> request -> (option response * bool) * W)
         (call_nonce : W -> F -> option rpc_error * W)
         (get_accounts : W -> option (list bytes) * W)
         (sign : W -> txn_view F -> option bytes * W)
         (decode_txn : option jv -> option (txn_view F))
         (parse_from : F -> bool),
    sync_wf sync_request ->
    forall h : list (entry W),
    Forall (fun e => forall w n, Permutation (snd e w n) (seq 0 n)) h ->
    forall w : W,
    exists reps w',
      serve_each W F sync_request call_nonce get_accounts sign decode_txn parse_from w h = Ok (reps, w') /\
      Forall2 (fun (e : entry W) rep => wellformed_reply (fst (fst e)) (snd (fst e)) rep /\
                             never_null_reply F decode_txn parse_from (fst (fst e)) (snd (fst e)) rep) h reps.
Proof. exact serve_each_history. Qed.
Print Assumptions C16_history_each.

(* 36b. ... the never-null clause with no hypothesis on the backend (C16_history_never_null). *)
Theorem C16_history_each_never_null :
  forall (W F : Type)
         (sync_request : W -> request -> (option response * bool) * W)
         (call_nonce : W -> F -> option rpc_error * W)
         (get_accounts : W -> option (list bytes) * W)
         (sign : W -> txn_view F -> option bytes * W)
         (decode_txn : option jv -> option (txn_view F))
         (parse_from : F -> bool)
         (h : list (entry W)),
    Forall (fun e => forall w n, Permutation (snd e w n) (seq 0 n)) h ->
    forall w : W,
    exists reps w',
      serve_each W F sync_request call_nonce get_accounts sign decode_txn parse_from w h = Ok (reps, w') /\
      Forall2 (fun (e : entry W) rep =>
                 never_null_reply F decode_txn parse_from (fst (fst e)) (snd (fst e)) rep) h reps.
Proof. exact serve_each_never_null. Qed.
Print Assumptions C16_history_each_never_null.

(* 36c. ... and the id clause (C16_history_id_echo), under sync_echo. *)
Theorem C16_history_each_id_echo :
  forall (W F : Type)
         (sync_request : W -> request -> (option response * bool) * W)
         (call_nonce : W -> F -> option rpc_error * W)
         (get_accounts : W -> option (list bytes) * W)
         (sign : W -> txn_view F -> option bytes * W)
         (decode_txn : option jv -> option (txn_view F))
         (parse_from : F -> bool),
    sync_echo sync_request ->
    forall h : list (entry W),
    Forall (fun e => forall w n, Permutation (snd e w n) (seq 0 n)) h ->
    forall w : W,
    exists reps w',
      serve_each W F sync_request call_nonce get_accounts sign decode_txn parse_from w h = Ok (reps, w') /\
      Forall2 (fun (e : entry W) rep => id_echo_reply (fst (fst e)) (snd (fst e)) rep) h reps.
Proof. exact serve_each_ids. Qed.
Print Assumptions C16_history_each_id_echo.

(* 37. The permutation hypothesis is needed for EACH entry: after any served prefix, one entry whose scheduler
       names a goroutine that does not exist (a decodable non-empty batch) ends the history in Panic. *)
Theorem C16_each_sched_guard_needed :
  forall (W F : Type)
         (sync_request : W -> request -> (option response * bool) * W)
         (call_nonce : W -> F -> option rpc_error * W)
         (get_accounts : W -> option (list bytes) * W)
         (sign : W -> txn_view F -> option bytes * W)
         (decode_txn : option jv -> option (txn_view F))
         (parse_from : F -> bool)
         (pre : list (entry W)) (b : bytes) (v : verdict) (s : W -> nat -> list nat) (post : list (entry W))
         (w : W) (reqs : list (option request)) (i : nat) (rest : list nat),
    Forall (fun e => forall w n, Permutation (snd e w n) (seq 0 n)) pre ->
    byte_eqb (sniff_first_byte b) open_bracket = true ->
    decode_batch v = Ok reqs -> reqs <> [] ->
    (forall w1, s w1 (length reqs) = i :: rest) -> (length reqs <= i)%nat ->
    serve_each W F sync_request call_nonce get_accounts sign decode_txn parse_from w (pre ++ ((b, v), s) :: post) = Panic.
Proof. exact serve_each_bad_entry_panics. Qed.
Print Assumptions C16_each_sched_guard_needed.

(* 38. C16_history_refines_C09 for EVERY concrete history, with no hypothesis at all (not on the backend, the
       signer, the orders, nor any regularity between entries): whenever C09's concrete model serves the history
       of (body, completion order) pairs, the replies are serialisations of payloads whose abstractions are what
       WfModel serves, from every world, for the history in which entry i is scheduled by its own order. *)
Theorem C16_history_each_simulation :
  forall (parse_int : bytes -> option Z) (lex : bytes -> option Json.json) (accounts : list bytes)
         (sign_with : bytes -> Json.transaction -> Z -> res bytes)
         (backend : Model.frame -> Model.backend_reply) (chain : Z)
         (h : list (bytes * list nat)) (reps : list Model.http_reply),
    serve_c parse_int lex accounts sign_with backend chain h = Ok reps ->
    exists cps, Forall2 (fun hr cp => reply_tree_of hr = cp_tree cp) reps cps /\
      forall w, exists w',
        serve_each RefineSim.W RefineSim.F (i_sync backend) (i_call_nonce parse_int backend) (i_get_accounts accounts)
                   (i_sign sign_with chain) (i_decode_txn parse_int) i_parse_from w
                   (abs_history lex (fun o _ _ => o) h)
        = Ok (abs_replies reps cps, w').
Proof. exact serve_each_sim. Qed.
Print Assumptions C16_history_each_simulation.

(* 39. The total version: the signer returns and every order is a permutation of the members its body decodes to
       (the guards of C16_refines_C09, per entry).  The concrete history is served to its end; the abstract history
       under the schedulers [i_sched order_i] -- each a permutation scheduler, so 36-36c apply to it -- yields the
       abstraction of the same replies from every world. *)
Theorem C16_history_each_refines_C09 :
  forall (parse_int : bytes -> option Z) (lex : bytes -> option Json.json) (accounts : list bytes)
         (sign_with : bytes -> Json.transaction -> Z -> res bytes)
         (backend : Model.frame -> Model.backend_reply) (chain : Z),
    (forall a t c, sign_with a t c <> Panic) ->
    forall h : list (bytes * list nat),
    Forall (fun bo => forall t ms, lex (fst bo) = Some t -> Json.decode_batch t = Ok ms ->
                                   Permutation (snd bo) (seq 0 (length ms))) h ->
    exists reps cps,
      serve_c parse_int lex accounts sign_with backend chain h = Ok reps /\
      Forall2 (fun hr cp => reply_tree_of hr = cp_tree cp) reps cps /\
      Forall (fun e : entry RefineSim.W => forall w n, Permutation (snd e w n) (seq 0 n)) (abs_history lex i_sched h) /\
      forall w, exists w',
        serve_each RefineSim.W RefineSim.F (i_sync backend) (i_call_nonce parse_int backend) (i_get_accounts accounts)
                   (i_sign sign_with chain) (i_decode_txn parse_int) i_parse_from w
                   (abs_history lex i_sched h)
        = Ok (abs_replies reps cps, w').
Proof. exact serve_each_refines. Qed.
Print Assumptions C16_history_each_refines_C09.

(* ---- non-vacuity of 35-39 ---- *)

(* the same two-member batch (a relayed request, a null member) twice, completing in the two different orders:
   no single scheduler meets the hypothesis of C16_history_refines_C09 for this history; the guards of 39 hold;
   both models serve it, with the same slots *)
Example C16_history_each_nonvacuous :
  let sign_with := fun (_ : bytes) (_ : Json.transaction) (_ : Z) => @Err bytes 3%nat in
  let lex := fun _ : bytes => Some exc_tree in
  let body := ascii_bytes "[x]" in
  let h := [(body, [0; 1]%nat); (body, [1; 0]%nat)] in
  (~ exists sched : RefineSim.W -> nat -> list nat,
       forall b o, In (b, o) h -> forall w t ms, lex b = Some t -> Json.decode_batch t = Ok ms -> sched w (length ms) = o) /\
  Forall (fun bo => forall t ms, lex (fst bo) = Some t -> Json.decode_batch t = Ok ms ->
                                 Permutation (snd bo) (seq 0 (length ms))) h /\
  (exists a1 a2 b1 b2 t1 t2,
     serve_c (fun _ => None) lex [] sign_with exc_backend 1%Z h
     = Ok [(500%N, Json.JArr [a1; a2], t1); (500%N, Json.JArr [b1; b2], t2)] /\
     tree_member "result" a1 = Some (Json.JStr (Json.bs "0xabc")) /\ tree_member "error" a2 <> None /\
     tree_member "result" b1 = Some (Json.JStr (Json.bs "0xabc")) /\ tree_member "error" b2 <> None) /\
  exists r1 r2 r3 r4 w',
    serve_each RefineSim.W RefineSim.F (i_sync exc_backend) (i_call_nonce (fun _ => None) exc_backend) (i_get_accounts [])
               (i_sign sign_with 1%Z) (i_decode_txn (fun _ => None)) i_parse_from None (abs_history lex i_sched h)
    = Ok ([mkReply 500 (PBatch [Some r1; Some r2]); mkReply 500 (PBatch [Some r3; Some r4])], w') /\
    r_result r1 = Some (JStr (ascii_bytes "0xabc")) /\ r_error r2 <> None /\
    r_result r3 = Some (JStr (ascii_bytes "0xabc")) /\ r_error r4 <> None.
Proof.
  cbv zeta. split.
  { intros [sched Hs].
    pose proof (Hs _ _ (or_introl eq_refl) None exc_tree [Some (Json.mkReq [] (Some (Json.JStr (Json.bs "a"))) (Json.bs "eth_call") []); None] eq_refl) as H1.
    pose proof (Hs _ _ (or_intror (or_introl eq_refl)) None exc_tree [Some (Json.mkReq [] (Some (Json.JStr (Json.bs "a"))) (Json.bs "eth_call") []); None] eq_refl) as H2.
    assert (Ed : Json.decode_batch exc_tree = Ok [Some (Json.mkReq [] (Some (Json.JStr (Json.bs "a"))) (Json.bs "eth_call") []); None])
      by (vm_compute; reflexivity).
    specialize (H1 Ed). specialize (H2 Ed). rewrite H1 in H2. discriminate. }
  split.
  { repeat constructor; cbn [fst snd]; intros t ms El Ed; injection El as <-; vm_compute in Ed; injection Ed as <-;
      [apply Permutation_refl|apply perm_swap]. }
  split.
  { eexists _, _, _, _, _, _. split; [vm_compute; reflexivity|]. repeat (split; [reflexivity || discriminate|]). discriminate. }
  eexists _, _, _, _, _. split; [vm_compute; reflexivity|].
  repeat (split; [reflexivity || discriminate|]). discriminate.
Qed.

(* 37: a served entry, then an entry whose scheduler names goroutine 5 of a batch of one *)
Example C16_each_sched_guard_nonvacuous :
  serve_each unit unit ex_sync (fun w _ => (None, w)) (fun w => (Some [ascii_bytes "0x01"], w)) (fun w _ => (None, w))
             (fun _ => None) (fun _ => false) tt
             [((ascii_bytes "[null]", Tree (JArr [JNull])), fun _ n => rev (seq 0 n));
              ((ascii_bytes "[null]", Tree (JArr [JNull])), fun _ _ => [5%nat])]
  = Panic.
Proof. vm_compute. reflexivity. Qed.
