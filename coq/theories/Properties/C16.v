(* C16 — the proxy survives and answers every request body with well-formed JSON-RPC.
   Statements only; proofs live in Rpc/WfProofs*.v.  The handler model is Rpc/WfModel.v over the body
   front end Rpc/Body.v; the response-shape specification is Rpc/WfSpec.v.  Everything outside C16's
   anchors (Backend.SyncRequest / CallRPC, the wallet, the typed decoding of the transaction, the
   completion order of a batch's goroutines) is universally quantified. *)
From Coq Require Import String.
From Coq Require Import List NArith ZArith Bool Lia Permutation.
From Coq Require Import Init.Byte.
From FFS Require Import Base.Res Base.Bytes Rpc.Body Rpc.WfModel Rpc.WfSpec Rpc.WfProofs.
Import ListNotations.

(* 1. Whatever the body, its lexer verdict, the state of the world, the backend, the wallet and the
      completion order of the member goroutines: the handler does not panic -- neither on the request
      goroutine nor on a batch member's goroutine (where a panic would end the process) -- and returns
      a reply.  [sched w n] is the order in which the n goroutines of a batch finish; the only
      hypothesis is that each of them runs exactly once. *)
Theorem C16_total :
  forall (W F : Type)
         (sync_request : W -> request -> (option response * bool) * W)
         (call_nonce : W -> F -> option rpc_error * W)
         (get_accounts : W -> option (list bytes) * W)
         (sign : W -> txn_view F -> option bytes * W)
         (decode_txn : option jv -> option (txn_view F))
         (parse_from : F -> bool)
         (sched : W -> nat -> list nat),
    (forall w n, Permutation (sched w n) (seq 0 n)) ->
    forall (w : W) (body : bytes) (v : verdict),
      rpcHandler W F sync_request call_nonce get_accounts sign decode_txn parse_from sched w body v <> Panic.
Proof. exact rpcHandler_total. Qed.
Print Assumptions C16_total.

(* non-vacuity: the in-order schedule satisfies the hypothesis; and the witness of the repaired defect
   D16a, the body [null], is answered by an array holding one error object (not a dead process) *)
Example C16_total_nonvacuous :
  (forall (w : unit) n, Permutation ((fun _ n => seq 0 n) w n) (seq 0 n)) /\
  exists r, rpcHandler unit unit (fun w q => ((None, true), w)) (fun w _ => (None, w)) (fun w => (None, w))
              (fun w _ => (None, w)) (fun _ => None) (fun _ => true) (fun _ n => seq 0 n)
              tt (ascii_bytes "[null]") (Tree (JArr [JNull]))
            = Ok (mkReply 500 (PBatch [Some r]), tt) /\ r_error r <> None.
Proof. split; [intros; apply Permutation_refl|]. eexists. split; [vm_compute; reflexivity|discriminate]. Qed.
