(* C14, answers to the referee (issues 3, 5, 6): statements about whole documents.

   * [word] is injective on the range of an integer type: "the word of z" identifies z.
   * A document that hashes has, at EVERY position of integer type the hashing walk reaches
     (ComposeJson.doc_reaches: through struct members and array elements of domain and message), a
     value that was read as an integer in range, encoded as its word, and — for a text in the
     modelled grammars, in particular every JSON number — exactly the integer the text denotes.
     Contrapositive: a JSON number that denotes no in-range integer anywhere the walk reaches makes
     EncodeTypedDataV4 return an error.
   * With the concrete Keccak-256: the outcome of hashing any JSON tree is a 32-byte digest or an
     error.
   * The document-level agreement of spellings, stated from JSON trees through the decoder, for the
     hashing and for the signing path.
   * Examples: the model does return Panic where a guard is missing (so "<> Panic" is a result);
     the example documents do hash to [Ok]. *)
From Coq Require Import String.
From Coq Require Import List NArith ZArith Bool Arith Lia.
From Coq Require Import Init.Byte.
From FFS Require Import Base.Res Base.Bytes Base.Keccak Abi.Spec.
From FFS Require Import Eip712.Util Eip712.Input Eip712.Numeric Eip712.Coerce Eip712.Model.
From FFS Require Import Eip712.TotalProofsInput Eip712.TotalProofs Eip712.TotalProofsFuel Eip712.NumericProofs
                        Eip712.SpellingProofs Eip712.ExactSpellingProofs Eip712.SpellingDocProofs
                        Eip712.SpellingDocOptProofs Eip712.ComposeJson Eip712.RefJsonNumber.
Import ListNotations.

(* ---------- word is injective on the range of a type ---------- *)
Lemma n2b_inj a b : (a < 256)%N -> (b < 256)%N -> n2b a = n2b b -> a = b.
Proof. intros Ha Hb E. rewrite <- (b2n_n2b a Ha), <- (b2n_n2b b Hb), E. reflexivity. Qed.

Lemma be_fixedZ_len k : forall z, length (be_fixedZ k z) = k.
Proof. induction k as [|k IH]; intros z; cbn [be_fixedZ]; [reflexivity|]. rewrite app_length, IH. cbn. lia. Qed.

Lemma be_fixedZ_inj k : forall a b, be_fixedZ k a = be_fixedZ k b -> (a mod 256 ^ Z.of_nat k = b mod 256 ^ Z.of_nat k)%Z.
Proof.
  induction k as [|k IH]; intros a b E.
  - change (Z.of_nat 0) with 0%Z. rewrite Z.pow_0_r, !Z.mod_1_r. reflexivity.
  - cbn [be_fixedZ] in E. apply app_inj_tail in E. destruct E as [E1 E2].
    apply IH in E1.
    assert (Ha : (0 <= a mod 256 < 256)%Z) by (apply Z.mod_pos_bound; lia).
    assert (Hb : (0 <= b mod 256 < 256)%Z) by (apply Z.mod_pos_bound; lia).
    apply n2b_inj in E2; [|lia|lia].
    assert (E3 : (a mod 256 = b mod 256)%Z) by lia.
    rewrite Nat2Z.inj_succ, Z.pow_succ_r by lia.
    rewrite (Z.rem_mul_r a 256 (256 ^ Z.of_nat k)) by lia.
    rewrite (Z.rem_mul_r b 256 (256 ^ Z.of_nat k)) by lia.
    rewrite E1, E3. reflexivity.
Qed.

Lemma word_mod z1 z2 : word z1 = word z2 -> (z1 mod 2 ^ 256 = z2 mod 2 ^ 256)%Z.
Proof.
  unfold word. rewrite two_256. intros E. apply be_fixedZ_inj in E.
  replace (256 ^ Z.of_nat 32)%Z with (2 ^ 256)%Z in E by reflexivity.
  rewrite !Z.mod_mod in E by lia. exact E.
Qed.

Theorem word_inj_in_range sgn m z1 z2 :
  (m <= 256)%N -> in_range sgn m z1 = true -> in_range sgn m z2 = true -> word z1 = word z2 -> z1 = z2.
Proof.
  intros Hm H1 H2 E. apply word_mod in E.
  assert (Hd : ((z1 - z2) mod 2 ^ 256 = 0)%Z).
  { rewrite Zminus_mod, E, Z.sub_diag. reflexivity. }
  apply Z.mod_divide in Hd; [|lia]. destruct Hd as [k Hk].
  assert (Hbound : (- 2 ^ 256 < z1 - z2 < 2 ^ 256)%Z).
  { unfold in_range in H1, H2. destruct sgn.
    - apply andb_true_iff in H1, H2. destruct H1 as [A1 B1], H2 as [A2 B2].
      apply Z.leb_le in A1, A2. apply Z.ltb_lt in B1, B2.
      assert (HP : (2 * 2 ^ (Z.of_N m - 1) <= 2 ^ 256)%Z).
      { destruct (N.eq_dec m 0) as [->|Hne].
        - change (2 ^ (Z.of_N 0 - 1))%Z with 0%Z. lia.
        - rewrite <- Z.pow_succ_r by lia. apply Z.pow_le_mono_r; lia. }
      lia.
    - apply andb_true_iff in H1, H2. destruct H1 as [A1 B1], H2 as [A2 B2].
      apply Z.leb_le in A1, A2. apply Z.ltb_lt in B1, B2.
      assert (HP : (2 ^ Z.of_N m <= 2 ^ 256)%Z) by (apply Z.pow_le_mono_r; lia).
      lia. }
  assert (k = 0)%Z by nia. lia.
Qed.

(* an integer member type has a width of at most 256 bits *)
Lemma integer_member_width allTypes tn tc : integer_member_type allTypes tn tc -> (e_m tc <= 256)%N.
Proof.
  intros [_ [_ [Htc Hb]]]. pose proof (abi_elementary_type_int _ _ Htc Hb) as Hmax.
  unfold has_max in Hmax. apply andb_true_iff in Hmax. destruct Hmax as [Hmax _].
  apply andb_true_iff in Hmax. destruct Hmax as [_ Hle]. apply N.leb_le in Hle. exact Hle.
Qed.

(* two values accepted at the same integer member with the same bytes were read as the same integer *)
Theorem integer_member_injective H big_other allTypes fuel tn tc v1 v2 w :
  integer_member_type allTypes tn tc ->
  encodeElement H big_other allTypes (S fuel) tn v1 = Ok w ->
  encodeElement H big_other allTypes (S fuel) tn v2 = Ok w ->
  exists z, integer_of_gval big_other v1 = Ok z /\ integer_of_gval big_other v2 = Ok z.
Proof.
  intros Hty E1 E2.
  destruct (integer_member_sound H big_other allTypes fuel tn tc v1 w Hty E1) as [z1 [R1 [I1 W1]]].
  destruct (integer_member_sound H big_other allTypes fuel tn tc v2 w Hty E2) as [z2 [R2 [I2 W2]]].
  exists z1. split; [exact R1|]. rewrite R2. f_equal. symmetry.
  apply (word_inj_in_range _ _ _ _ (integer_member_width _ _ _ Hty) I1 I2). congruence.
Qed.

(* ---------- clause 3 on the document ---------- *)
(* A document that hashes: at every position of integer type the walk reaches, the value was read as
   an integer z in range of the type, that position contributed the word of z, and a text of the
   modelled grammars there denotes exactly z. *)
Theorem document_integers_exact H big_other td dg f tn tc v :
  EncodeTypedDataV4 H big_other (Some td) = Ok dg ->
  doc_reaches td f tn v ->
  integer_member_type (effective_types (td_types td)) tn tc ->
  exists z, integer_of_gval big_other v = Ok z /\
            in_range (is_signed (e_base tc)) (e_m tc) z = true /\
            encodeElement H big_other (effective_types (td_types td)) f tn v = Ok (word z) /\
            (forall t, (v = GNumber t \/ v = GString t) -> classify t <> COther -> text_denotes t z) /\
            (forall t, v = GNumber t -> json_number t -> text_denotes t z).
Proof.
  intros E Hreach Hty.
  destruct (doc_reaches_ok H big_other td f tn v dg Hreach E) as [w Hw].
  destruct f as [|f']; [discriminate|].
  destruct (integer_member_sound H big_other _ f' tn tc v w Hty Hw) as [z [Hz [Hr Hword]]].
  exists z. subst w. repeat split; try assumption.
  - intros t [-> | ->] Hc; exact (BigIntegerFromString_sound big_other t z Hc Hz).
  - intros t -> Hj. exact (BigIntegerFromString_sound big_other t z (json_number_classified t Hj) Hz).
Qed.

(* Contrapositive for JSON numbers, with no side condition on the text: a JSON number at a reached
   position of integer type that denotes no integer in range of the type makes the document an error. *)
Theorem document_json_number_rejected H big_other td f tn tc t :
  doc_reaches td f tn (GNumber t) -> json_number t ->
  integer_member_type (effective_types (td_types td)) tn tc ->
  (forall z, text_denotes t z -> in_range (is_signed (e_base tc)) (e_m tc) z = false) ->
  exists e, EncodeTypedDataV4 H big_other (Some td) = Err e.
Proof.
  intros Hreach Hj Hty Hno.
  apply (rejects_inexact_from_json H big_other td f tn tc t (GNumber t) Hreach (or_introl eq_refl) Hty).
  split; [exact (json_number_classified t Hj)|exact Hno].
Qed.

(* ---------- the concrete hash: a 32-byte digest or an error ---------- *)
Lemma EncodeTypedDataV4_is_hash H big_other p d :
  EncodeTypedDataV4 H big_other p = Ok d -> exists x, d = H x.
Proof.
  unfold EncodeTypedDataV4. destruct p as [p|]; [|discriminate]. cbv zeta.
  destruct (td_primary p); [discriminate|]. intros E.
  match type of E with (do _ <- ?c; _) = _ => destruct c as [dh| |] end; cbn [bind] in E; try discriminate.
  match type of E with (if ?c then _ else _) = _ => destruct c end.
  - match type of E with (do _ <- ?c; _) = _ => destruct c as [sh| |] end; cbn [bind] in E; try discriminate.
    injection E as <-. eauto.
  - injection E as <-. eauto.
Qed.

Theorem payload_digest_or_error big_other (payload : option typed_data) :
  (exists d, EncodeTypedDataV4 keccak256 big_other payload = Ok d /\ length d = 32%nat) \/
  (exists e, EncodeTypedDataV4 keccak256 big_other payload = Err e /\ e <> EOutOfFuel).
Proof.
  destruct (EncodeTypedDataV4 keccak256 big_other payload) as [d|e|] eqn:E.
  - left. exists d. split; [reflexivity|].
    destruct (EncodeTypedDataV4_is_hash _ _ _ _ E) as [x ->]. apply keccak256_length.
  - right. exists e. split; [reflexivity|]. intros ->.
    exact (EncodeTypedDataV4_fuel keccak256 big_other payload E).
  - exfalso. exact (EncodeTypedDataV4_total keccak256 big_other payload E).
Qed.

Theorem document_digest_or_error big_other (doc : json) :
  let r := do td <- decode_typed_data doc; EncodeTypedDataV4 keccak256 big_other (Some td) in
  (exists d, r = Ok d /\ length d = 32%nat) \/ (exists e, r = Err e).
Proof.
  cbv zeta. destruct (decode_typed_data doc) as [td|e|] eqn:Ed; cbn [bind].
  - destruct (payload_digest_or_error big_other (Some td)) as [[d [E L]]|[e [E _]]]; [left|right]; eauto.
  - right. eauto.
  - exfalso. pose proof (hash_document_total keccak256 big_other doc) as Hn. rewrite Ed in Hn. apply Hn. reflexivity.
Qed.

(* ---------- the agreement of spellings from JSON trees, both paths ---------- *)
Lemma sign_ptr_path H big_other sd doc :
  (do p <- decode_typed_data_ptr doc; SignTypedDataV4 H big_other sd p) =
  (do td <- decode_typed_data doc; SignTypedDataV4 H big_other sd (Some td)).
Proof.
  destruct doc; try (unfold decode_typed_data_ptr; destruct (decode_typed_data _); reflexivity).
  reflexivity.
Qed.

Theorem spellings_agree_json H big_other sd doc1 doc2 types primary od1 od2 om1 om2 :
  decode_typed_data doc1 = Ok (mkTD types primary od1 om1) ->
  decode_typed_data doc2 = Ok (mkTD types primary od2 om2) ->
  let ts := effective_types types in
  opt_members_rel ts (members_of (tget EIP712Domain ts)) od1 od2 ->
  opt_members_rel ts (members_of (tget primary ts)) om1 om2 ->
  (do td <- decode_typed_data doc1; EncodeTypedDataV4 H big_other (Some td)) =
  (do td <- decode_typed_data doc2; EncodeTypedDataV4 H big_other (Some td)) /\
  (do p <- decode_typed_data_ptr doc1; SignTypedDataV4 H big_other sd p) =
  (do p <- decode_typed_data_ptr doc2; SignTypedDataV4 H big_other sd p).
Proof.
  cbv zeta. intros D1 D2 Hd Hm.
  pose proof (EncodeTypedDataV4_respelled_opt H big_other types primary od1 od2 om1 om2 Hd Hm) as E.
  rewrite !sign_ptr_path. rewrite D1, D2. cbn [bind]. unfold SignTypedDataV4. rewrite E. split; reflexivity.
Qed.

(* ---------- examples ---------- *)
(* the two example documents of SpellingDocProofs as JSON trees *)
Definition jmember (n t : string) : json := JObj [(bs "name", JStr (bs n)); (bs "type", JStr (bs t))].
Definition ex_json_types : json :=
  JObj [(bs "EIP712Domain", JArr [jmember "chainId" "uint256"]);
        (bs "A", JArr [jmember "x" "int256"; jmember "ys" "uint8[]"; jmember "s" "string"])].
Definition ex_json1 : json :=
  JObj [(bs "types", ex_json_types); (bs "primaryType", JStr (bs "A"));
        (bs "domain", JObj [(bs "chainId", JNum (bs "1"))]);
        (bs "message", JObj [(bs "x", JNum (bs "9223372036854775808"));
                             (bs "ys", JArr [JNum (bs "255"); JStr (bs "0")]); (bs "s", JStr (bs "12"))])].
Definition ex_json2 : json :=
  JObj [(bs "types", ex_json_types); (bs "primaryType", JStr (bs "A"));
        (bs "domain", JObj [(bs "chainId", JStr (bs "0x1"))]);
        (bs "message", JObj [(bs "x", JStr (bs "0x8000000000000000"));
                             (bs "ys", JArr [JStr (bs "0xff"); JNum (bs "0")]); (bs "s", JStr (bs "12"))])].

Example ex_json_decode :
  decode_typed_data ex_json1 = Ok (mkTD (Some ex_types) (bs "A") (Some ex_d1) (Some ex_m1)) /\
  decode_typed_data ex_json2 = Ok (mkTD (Some ex_types) (bs "A") (Some ex_d2) (Some ex_m2)).
Proof. split; vm_compute; reflexivity. Qed.

(* the instance of the document theorems is not "Err = Err": with the real hash both documents give
   the same 32-byte digest *)
Example ex_documents_hash_ok :
  exists d,
    EncodeTypedDataV4 keccak256 (fun _ => None) (Some (mkTD (Some ex_types) (bs "A") (Some ex_d1) (Some ex_m1))) = Ok d /\
    EncodeTypedDataV4 keccak256 (fun _ => None) (Some (mkTD (Some ex_types) (bs "A") (Some ex_d2) (Some ex_m2))) = Ok d /\
    (do td <- decode_typed_data ex_json1; EncodeTypedDataV4 keccak256 (fun _ => None) (Some td)) = Ok d /\
    (do td <- decode_typed_data ex_json2; EncodeTypedDataV4 keccak256 (fun _ => None) (Some td)) = Ok d /\
    length d = 32%nat /\ ex_json1 <> ex_json2.
Proof.
  destruct ex_json_decode as [D1 D2].
  destruct (payload_digest_or_error (fun _ => None) (Some (mkTD (Some ex_types) (bs "A") (Some ex_d1) (Some ex_m1))))
    as [[d [E L]]|[e [E _]]].
  - exists d. pose proof respelled_documents as [Hd [Hm _]]. cbv zeta in Hd, Hm.
    pose proof (EncodeTypedDataV4_respelled keccak256 (fun _ => None) (Some ex_types) (bs "A") _ _ _ _ Hd Hm) as Eq.
    rewrite D1, D2. cbn [bind]. rewrite <- Eq. repeat split; try assumption. discriminate.
  - exfalso. revert E.
    assert (Hc : match EncodeTypedDataV4 keccak256 (fun _ => None)
                         (Some (mkTD (Some ex_types) (bs "A") (Some ex_d1) (Some ex_m1))) with Ok _ => true | _ => false end = true)
      by (vm_compute; reflexivity).
    intros E. rewrite E in Hc. discriminate.
Qed.

(* "<> Panic" is a result, not a property of the result type: the model panics where the Go code
   would — a nil *TypeMember rendered by Type.Encode (what b9ca7d3 / d7c8b02 guard), a FillBytes into
   a buffer that is too small, and SignTypedDataV4 with a signer that breaks [signer_in_range]. *)
Example model_can_panic :
  TypeMember_Encode None = Panic /\
  Type_Encode (bs "A") (Some [None]) = Panic /\
  fill_bytes 32 (2 ^ 256) = Panic /\
  SignTypedDataV4 (fun _ => []) (fun _ => None) (fun _ => Some (2 ^ 256, 1, 27)%Z)
                  (Some (mkTD None EIP712Domain None None)) = Panic /\
  ~ signer_in_range (fun _ => Some (2 ^ 256, 1, 27)%Z).
Proof.
  split; [vm_compute; reflexivity|]. split; [vm_compute; reflexivity|].
  split; [vm_compute; reflexivity|]. split; [vm_compute; reflexivity|].
  intros Hs. destruct (Hs [] _ _ _ eq_refl) as [Hr _]. vm_compute in Hr. discriminate.
Qed.

(* ... and it returns errors: the null document through both paths, a fraction at an integer member *)
Example model_returns_errors :
  (do td <- decode_typed_data JNull; EncodeTypedDataV4 keccak256 (fun _ => None) (Some td)) = Err EPrimaryTypeRequired /\
  (do p <- decode_typed_data_ptr JNull;
   SignTypedDataV4 keccak256 (fun _ => None) (fun _ => Some (1, 1, 27)%Z) p) = Err EPrimaryTypeRequired /\
  (exists e, decode_typed_data (JArr []) = Err e).
Proof.
  split; [vm_compute; reflexivity|]. split; [vm_compute; reflexivity|].
  eexists. vm_compute. reflexivity.
Qed.

(* ---------- non-vacuity of the document-level clause 3 ---------- *)
(* the example document with the int256 member x given as the JSON number [t] *)
Definition ex_td_x (t : bytes) : typed_data :=
  mkTD (Some ex_types) (bs "A") (Some ex_d1)
       (Some [(bs "x", GNumber t); (bs "ys", GSlice [GNumber (bs "255"); GString (bs "0")]); (bs "s", GString (bs "12"))]).

Lemma ex_x_reached t : doc_reaches (ex_td_x t) 3 (bs "int256") (GNumber t).
Proof.
  right. split; [vm_compute; reflexivity|].
  exists [(bs "x", GNumber t); (bs "ys", GSlice [GNumber (bs "255"); GString (bs "0")]); (bs "s", GString (bs "12"))],
         (mkMember (bs "x") (bs "int256")).
  split; [reflexivity|]. split; [vm_compute; left; reflexivity|].
  apply rc_here.
Qed.

Lemma ex_int256_member :
  integer_member_type (effective_types (td_types (ex_td_x []))) (bs "int256") (mkEtc EInt 256 (bs "256")).
Proof. repeat split; vm_compute; reflexivity. Qed.

Lemma json_number_1_5 : json_number (bs "1.5").
Proof.
  exists [], (bs "1"), (bs ".5"), []. repeat split; try (left; reflexivity).
  - right. exists x31, []. repeat split; vm_compute; congruence.
  - right. exists (bs "5"). repeat split; try reflexivity. discriminate.
Qed.

(* 1.5 denotes no integer; 1e77 denotes 10^77 which is beyond int256: both documents are refused,
   whatever the hash and the oracle; with x = 9223372036854775808 the same document hashes, and the
   position holds exactly 2^63 *)
Example ex_document_rejected (H : bytes -> bytes) (big_other : bytes -> option Z) :
  (exists e, EncodeTypedDataV4 H big_other (Some (ex_td_x (bs "1.5"))) = Err e) /\
  (exists e, EncodeTypedDataV4 H big_other (Some (ex_td_x (bs "1e77"))) = Err e) /\
  (forall dg, EncodeTypedDataV4 H big_other (Some (ex_td_x (bs "9223372036854775808"))) = Ok dg ->
     integer_of_gval big_other (GNumber (bs "9223372036854775808")) = Ok (2 ^ 63)%Z).
Proof.
  split; [|split].
  - apply (document_json_number_rejected H big_other _ _ _ _ _ (ex_x_reached _) json_number_1_5 ex_int256_member).
    intros z Hz. exfalso. exact (ex_fraction z Hz).
  - destruct json_number_examples as [_ [_ [_ [Hj _]]]].
    apply (document_json_number_rejected H big_other _ _ _ _ _ (ex_x_reached _) Hj ex_int256_member).
    intros z Hz. destruct ex_1e77 as [D [M [_ R]]].
    pose proof (BigIntegerFromString_complete (fun _ => None) _ _ Hz M) as E1.
    pose proof (BigIntegerFromString_complete (fun _ => None) _ _ D M) as E2.
    rewrite E1 in E2. injection E2 as ->. exact R.
  - intros dg E.
    destruct (document_integers_exact H big_other _ dg _ _ _ _ E (ex_x_reached _) ex_int256_member)
      as [z [Hz [_ [_ [Hd _]]]]].
    rewrite Hz. f_equal.
    assert (Hc : classify (bs "9223372036854775808") <> COther) by (vm_compute; discriminate).
    pose proof (Hd _ (or_introl eq_refl) Hc) as Hden. vm_compute in Hden. exact Hden.
Qed.

Example ex_document_x_hashes :
  match EncodeTypedDataV4 keccak256 (fun _ => None) (Some (ex_td_x (bs "9223372036854775808"))) with
  | Ok d => length d = 32%nat | _ => False end.
Proof. vm_compute. reflexivity. Qed.

(* ---------- what is NOT proved: strings outside the modelled grammars ---------- *)
(* "010" (a digit string with a leading zero) is outside the grammars: the model hands it to the
   math/big oracle and encodes whatever integer the oracle answers.  math/big (SetString(s, 0)) reads
   it as octal 8 — the oracle table of every run contains ("010", 8) — so the string "010" at a uint8
   member is hashed as 8, not as ten.  No exactness theorem covers such strings. *)
Example leading_zero_string_is_oracle :
  classify (bs "010") = COther /\
  (forall H o z, o (bs "010") = Some z -> in_range false 8 z = true ->
     encodeElement H o [] 1 (bs "uint8") (GString (bs "010")) = Ok (word z)) /\
  (forall H o, o (bs "010") = None ->
     exists e, encodeElement H o [] 1 (bs "uint8") (GString (bs "010")) = Err e).
Proof.
  assert (Hc : classify (bs "010") = COther) by (vm_compute; reflexivity).
  assert (Hty : integer_member_type [] (bs "uint8") (mkEtc EUInt 8 (bs "8"))) by (repeat split; vm_compute; reflexivity).
  split; [exact Hc|]. split.
  - intros H o z Ho Hr.
    assert (Hz : integer_of_gval o (GString (bs "010")) = Ok z).
    { cbn [integer_of_gval]. unfold BigIntegerFromString. rewrite Hc, Ho. reflexivity. }
    rewrite (integer_member_exact H o [] 0 _ _ _ z Hty Hz). cbn [e_base e_m is_signed]. rewrite Hr. reflexivity.
  - intros H o Ho. exists EBadInteger.
    apply (integer_member_unreadable H o [] 0 _ _ _ _ Hty).
    cbn [integer_of_gval]. unfold BigIntegerFromString. rewrite Hc, Ho. reflexivity.
Qed.
