(* C04 composed with C05 — SignTypedDataV4 end to end.
   ProofsSignVerify.sign_verifies is conditional ("whenever signing succeeds and V is 27/28").  Here the
   two conditions are discharged from the facts they follow from:
     * the document is well formed  ->  the digest exists and is the EIP-712 specification digest
       (ProofsMain.digest_is_spec, C04 clause 1);
     * the signer is C05's model of KeyPair.SignDirect (Secp/Model.v) for a key 1 <= d < n over any
       group satisfying Ecdsa.laws  ->  it answers, R and S are in [1, n-1] (so FillBytes(32) does not
       panic), S is in the lower half, V is 27..30 and the pair verifies (Secp.Proofs.SignDirect_shape);
     * C05's residual guard [no_overflow] (no nonce point with x >= n, the 2^-128 case in which btcec
       emits recovery code 2/3)  ->  V is 27/28, and then RecoverDirect returns the address of d
       (Secp.Proofs.SignDirect_V_27_28, recover_all_conventions).
   One guard belongs to the model only: btcec's signRFC6979 loop is unbounded, the model's has [fuel]
   iterations; [nonce_found] says that one of the first [fuel] nonces of the stream gives a signature
   (ecdsa_sign fails only for k = 0 mod n, r = 0 or s = 0).  Without it the model answers
   Err EOutOfFuel where the Go code would keep looping. *)
From Coq Require Import List NArith ZArith Bool Arith Lia.
From Coq Require Import Init.Byte.
From FFS Require Import Base.Res Base.Bytes Abi.Spec Crypto.Ecdsa.
From FFS Require Import Eip712.Util Eip712.Input Eip712.Numeric Eip712.Coerce Eip712.Model Eip712.Spec Eip712.Repr.
From FFS Require Import Eip712.ProofsSign Eip712.ProofsMain Eip712.ProofsSignVerify.
From FFS Require Secp.Model Secp.Spec Secp.Proofs.
Import ListNotations.

Lemma sign_loop_finds o fuel : forall (nn : nat -> Z) it j dd z,
  (it <= j < it + fuel)%nat -> ecdsa_sign o dd z (nn j) <> None ->
  ecdsa_sign_loop o fuel nn it dd z <> None.
Proof.
  induction fuel as [|f IH]; intros nn it j dd z Hj Hs; [lia|].
  cbn [ecdsa_sign_loop]. destruct (ecdsa_sign o dd z (nn it)) eqn:E; [discriminate|].
  apply (IH nn (S it) j); [|exact Hs].
  destruct (Nat.eq_dec it j) as [->|]; [congruence|lia].
Qed.

Section EndToEnd.
  Variable o : group_ops.
  Hypothesis L : laws o.
  Hypothesis Hn : (n o < Secp.Model.two256)%Z.
  Variable Hk : bytes -> bytes.                                   (* keccak256 of the address derivation *)
  Hypothesis HH : forall x, length (Hk x) = 32%nat.
  Variable nonce : Z -> bytes -> nat -> Z.
  Variable fuel : nat.
  Variable d : Z.                                                 (* the private key *)
  Hypothesis Hd : (1 <= d < n o)%Z.

  (* model-only guard: the retry loop finds a usable nonce within its fuel *)
  Definition nonce_found (m : bytes) : Prop :=
    exists j, (j < fuel)%nat /\ ecdsa_sign o d (Secp.Model.hash_to_z m) (nonce d m j) <> None.

  Lemma SignDirect_succeeds m : nonce_found m -> exists sg, Secp.Model.SignDirect o nonce fuel d m = Ok sg.
  Proof.
    intros (j & Hj & Hs).
    destruct (Secp.Model.SignDirect o nonce fuel d m) as [sg|e|] eqn:E; [eexists; reflexivity| |].
    - exfalso. unfold Secp.Model.SignDirect, Secp.Model.SignCompact in E.
      destruct (ecdsa_sign_loop o fuel (nonce d m) 0 d (Secp.Model.hash_to_z m)) as [es|] eqn:El.
      + cbn [bind index nth_error] in E. unfold slice in E.
        repeat match type of E with context [if ?c then _ else _] => destruct c end; cbn [bind] in E; discriminate.
      + revert El. apply (sign_loop_finds o fuel (nonce d m) 0%nat j); [lia|exact Hs].
    - exfalso. exact (Secp.Proofs.SignDirect_total o nonce fuel d m E).
  Qed.

  Lemma coerce_fill32 z : (1 <= z < n o)%Z -> Coerce.fill_bytes 32 z = Ok (Secp.Model.be_fixed 32 z).
  Proof.
    intros Hz. unfold Coerce.fill_bytes. rewrite Z.abs_eq by lia.
    replace (z <? 256 ^ Z.of_nat 32)%Z with true.
    - rewrite be_fixedZ_eq. reflexivity.
    - symmetry. apply Z.ltb_lt. rewrite <- Secp.Proofs.two256_eq. lia.
  Qed.

  (* what SignTypedDataV4 returns for a payload whose digest is m, with no guard beyond the model's fuel *)
  Theorem sign_payload_shape H big_other payload m :
    EncodeTypedDataV4 H big_other payload = Ok m -> nonce_found m ->
    exists res sg,
      SignTypedDataV4 H big_other (key_signer o nonce fuel d) payload = Ok res /\
      Secp.Model.SignDirect o nonce fuel d m = Ok sg /\
      r_hash res = m /\
      r_V res = Secp.Model.sV sg /\
      r_R res = Secp.Model.be_fixed 32 (Secp.Model.sR sg) /\
      r_S res = Secp.Model.be_fixed 32 (Secp.Model.sS sg) /\
      r_signatureRSV res = r_R res ++ r_S res ++ [n2b (Z.to_N (r_V res))] /\
      length (r_signatureRSV res) = 65%nat /\
      (r_V res = 27 \/ r_V res = 28 \/ r_V res = 29 \/ r_V res = 30)%Z /\
      (1 <= Secp.Model.sR sg < n o)%Z /\ (1 <= Secp.Model.sS sg < n o)%Z /\ (2 * Secp.Model.sS sg <= n o)%Z /\
      ecdsa_verify o (pub o d) (Secp.Model.hash_to_z m) (Secp.Model.sR sg) (Secp.Model.sS sg) = true /\
      Secp.Model.DecodeCompactRSV (r_signatureRSV res) = Ok sg.
  Proof.
    intros Henc Hnf. destruct (SignDirect_succeeds m Hnf) as [sg Esg].
    destruct (Secp.Proofs.SignDirect_shape o L Hn nonce fuel d m sg Esg) as (HV & HR & HS & Hlow & Hver).
    set (rb := Secp.Model.be_fixed 32 (Secp.Model.sR sg)). set (sb := Secp.Model.be_fixed 32 (Secp.Model.sS sg)).
    assert (Hvb : n2b (Z.to_N (Secp.Model.sV sg mod 256)) = n2b (Z.to_N (Secp.Model.sV sg))).
    { destruct HV as [->|[->|[->| ->]]]; reflexivity. }
    exists (mkResult m (rb ++ sb ++ [n2b (Z.to_N (Secp.Model.sV sg))]) (Secp.Model.sV sg) rb sb), sg.
    split.
    { unfold SignTypedDataV4. rewrite Henc. cbn [bind]. unfold key_signer. rewrite Esg.
      rewrite (coerce_fill32 _ HR), (coerce_fill32 _ HS). cbn [bind]. rewrite Hvb. reflexivity. }
    cbn [r_hash r_V r_R r_S r_signatureRSV].
    split; [exact Esg|]. split; [reflexivity|]. split; [reflexivity|]. split; [reflexivity|]. split; [reflexivity|].
    split; [reflexivity|].
    split; [unfold rb, sb; rewrite !app_length, !Secp.Proofs.be_fixed_length; reflexivity|].
    split; [exact HV|]. split; [exact HR|]. split; [exact HS|]. split; [exact Hlow|]. split; [exact Hver|].
    destruct (Secp.Proofs.compact_roundtrip sg) as (b & _ & _ & Hdec & Hb); try lia.
    replace (rb ++ sb ++ [n2b (Z.to_N (Secp.Model.sV sg))]) with b; [exact Hdec|].
    rewrite Hb. unfold rb, sb. do 2 f_equal. rewrite Secp.Proofs.be_fixed_S.
    cbn [Secp.Model.be_fixed app]. f_equal. f_equal.
    destruct HV as [->|[->|[->| ->]]]; reflexivity.
  Qed.

  (* The end-to-end statement: a well-formed document, the key d, C05's residual guard. *)
  Theorem sign_typed_data_end_to_end H big_other td doc :
    represents big_other td doc -> wf_doc doc -> types_dims_fit (d_types doc) ->
    let m := digest H doc in
    nonce_found m ->
    Secp.Proofs.no_overflow o nonce d m ->
    exists res sg,
      SignTypedDataV4 H big_other (key_signer o nonce fuel d) (Some td) = Ok res /\
      r_hash res = m /\
      r_signatureRSV res = r_R res ++ r_S res ++ [n2b (Z.to_N (r_V res))] /\
      length (r_R res) = 32%nat /\ length (r_S res) = 32%nat /\ length (r_signatureRSV res) = 65%nat /\
      (r_V res = 27 \/ r_V res = 28)%Z /\
      Secp.Model.DecodeCompactRSV (r_signatureRSV res) = Ok sg /\
      Secp.Model.sV sg = r_V res /\
      r_R res = Secp.Model.be_fixed 32 (Secp.Model.sR sg) /\ r_S res = Secp.Model.be_fixed 32 (Secp.Model.sS sg) /\
      (1 <= Secp.Model.sR sg < n o)%Z /\ (1 <= Secp.Model.sS sg < n o)%Z /\ (2 * Secp.Model.sS sg <= n o)%Z /\
      ecdsa_verify o (pub o d) (Secp.Model.hash_to_z m) (Secp.Model.sR sg) (Secp.Model.sS sg) = true /\
      forall c, (0 <= c <= 2 ^ 53)%Z ->
        Secp.Model.RecoverDirect o Hk sg m c = Ok (Secp.Proofs.addr_of o Hk (pub o d)).
  Proof.
    intros Hrep Hwf Hdims m Hnf Hno.
    pose proof (digest_is_spec H big_other td doc Hrep Hwf Hdims) as Henc. fold m in Henc.
    destruct (sign_payload_shape H big_other (Some td) m Henc Hnf)
      as (res & sg & Hs & Esg & Hh & HV & HR & HS & Hrsv & Hlen & _ & HRr & HSr & Hlow & Hver & Hdec).
    pose proof (Secp.Proofs.SignDirect_V_27_28 o L Hn nonce fuel d m sg Hno Esg) as HV'.
    exists res, sg. split; [exact Hs|]. split; [exact Hh|]. split; [exact Hrsv|].
    split; [rewrite HR; apply Secp.Proofs.be_fixed_length|].
    split; [rewrite HS; apply Secp.Proofs.be_fixed_length|].
    split; [exact Hlen|]. split; [rewrite HV; exact HV'|]. split; [exact Hdec|]. split; [symmetry; exact HV|].
    split; [exact HR|]. split; [exact HS|]. split; [exact HRr|]. split; [exact HSr|]. split; [exact Hlow|].
    split; [exact Hver|].
    intros c Hc.
    assert (Hc' : Secp.Model.is_int64 c = true).
    { apply Secp.Proofs.is_int64_iff. change (2 ^ 53)%Z with 9007199254740992%Z in Hc. unfold Secp.Model.two63. lia. }
    destruct (Secp.Proofs.recover_all_conventions o L Hn Hk HH nonce fuel d m sg c c Hd Hc Hc' Esg HV') as (A & _).
    exact A.
  Qed.

  (* Without C05's guard: everything except "V in {27,28}" and recovery still holds; V may be 29/30,
     and recovery returns the signer's address exactly in the 27/28 case. *)
  Theorem sign_typed_data_any_V H big_other td doc :
    represents big_other td doc -> wf_doc doc -> types_dims_fit (d_types doc) ->
    let m := digest H doc in
    nonce_found m ->
    exists res sg,
      SignTypedDataV4 H big_other (key_signer o nonce fuel d) (Some td) = Ok res /\
      r_hash res = m /\ length (r_signatureRSV res) = 65%nat /\
      Secp.Model.DecodeCompactRSV (r_signatureRSV res) = Ok sg /\ Secp.Model.sV sg = r_V res /\
      (r_V res = 27 \/ r_V res = 28 \/ r_V res = 29 \/ r_V res = 30)%Z /\
      (2 * Secp.Model.sS sg <= n o)%Z /\
      ecdsa_verify o (pub o d) (Secp.Model.hash_to_z m) (Secp.Model.sR sg) (Secp.Model.sS sg) = true /\
      (Secp.Proofs.no_overflow o nonce d m -> (r_V res = 27 \/ r_V res = 28)%Z) /\
      ((r_V res = 27 \/ r_V res = 28)%Z -> forall c, (0 <= c <= 2 ^ 53)%Z ->
         Secp.Model.RecoverDirect o Hk sg m c = Ok (Secp.Proofs.addr_of o Hk (pub o d))).
  Proof.
    intros Hrep Hwf Hdims m Hnf.
    pose proof (digest_is_spec H big_other td doc Hrep Hwf Hdims) as Henc. fold m in Henc.
    destruct (sign_payload_shape H big_other (Some td) m Henc Hnf)
      as (res & sg & Hs & Esg & Hh & HV & HR & HS & Hrsv & Hlen & HV4 & HRr & HSr & Hlow & Hver & Hdec).
    exists res, sg. split; [exact Hs|]. split; [exact Hh|]. split; [exact Hlen|]. split; [exact Hdec|].
    split; [symmetry; exact HV|]. split; [exact HV4|]. split; [exact Hlow|]. split; [exact Hver|].
    split.
    - intros Hno. rewrite HV. exact (Secp.Proofs.SignDirect_V_27_28 o L Hn nonce fuel d m sg Hno Esg).
    - intros HV' c Hc. rewrite HV in HV'.
      assert (Hc' : Secp.Model.is_int64 c = true).
      { apply Secp.Proofs.is_int64_iff. change (2 ^ 53)%Z with 9007199254740992%Z in Hc. unfold Secp.Model.two63. lia. }
      destruct (Secp.Proofs.recover_all_conventions o L Hn Hk HH nonce fuel d m sg c c Hd Hc Hc' Esg HV') as (A & _).
      exact A.
  Qed.
End EndToEnd.
