(* C04 — how the model's string operations behave on the type names the spec prints ([Spec.ty_name]):
   array suffix detection and splitting (hashArray), stripping at the first '[' (addNestedTypes),
   strconv.Atoi on a printed dimension, abiElementaryType on a printed atomic name. *)
From Coq Require Import String.
From Coq Require Import List NArith ZArith Bool Arith Lia.
From Coq Require Import Init.Byte.
From FFS Require Import Base.Res Base.Bytes Eip712.Util Eip712.Input Eip712.Numeric Eip712.Coerce Eip712.Model
  Eip712.Spec Eip712.ProofsUtil.
Import ListNotations.

Definition lacksb (c : byte) (l : bytes) : bool := forallb (fun x => negb (byte_eqb x c)) l.
Lemma lacksb_lacks c l : lacksb c l = true -> lacks c l.
Proof.
  unfold lacksb. rewrite forallb_forall. intros Hl x Hx ->. specialize (Hl _ Hx).
  rewrite byte_eqb_refl in Hl. discriminate.
Qed.

Lemma dec_lacks c n : is_digit c = false -> lacks c (dec n).
Proof. intros Hc. apply digits_lack; [apply dec_ok | exact Hc]. Qed.

(* no '[' and no ']' *)
Definition nobr (l : bytes) : Prop := lacks x5b l /\ lacks x5d l.

Lemma nobr_app a b : nobr a -> nobr b -> nobr (a ++ b).
Proof. intros [A1 A2] [B1 B2]. split; apply lacks_app; assumption. Qed.
Lemma nobr_dec n : nobr (dec n).
Proof. split; apply dec_lacks; reflexivity. Qed.
Lemma nobr_b l : lacksb x5b l && lacksb x5d l = true -> nobr l.
Proof. intros Hb. apply andb_prop in Hb as [A B]. split; apply lacksb_lacks; assumption. Qed.

Lemma atomic_name_nobr a : nobr (atomic_name a).
Proof.
  destruct a; unfold atomic_name; try (apply nobr_b; reflexivity);
    (apply nobr_app; [apply nobr_b; reflexivity | apply nobr_dec]).
Qed.
Lemma atomic_name_nonempty a : atomic_name a <> [].
Proof. destruct a; unfold atomic_name; try discriminate; intros E; apply app_eq_nil in E as [E _]; discriminate. Qed.

Lemma wf_name_nobr n : wf_name n = true -> nobr n /\ n <> [].
Proof.
  unfold wf_name. intros Hw. apply andb_prop in Hw as [Hb Hn]. split.
  - apply negb_true_iff in Hb.
    assert (Hx : forall x, In x n -> is_bracket x = false).
    { intros x Hx. destruct (is_bracket x) eqn:E; [|reflexivity].
      assert (existsb is_bracket n = true) by (apply existsb_exists; eauto). congruence. }
    split; intros x Hi ->; specialize (Hx _ Hi); unfold is_bracket in Hx; simpl in Hx; discriminate.
  - destruct n; [discriminate | discriminate].
Qed.

(* the innermost element type's name *)
Fixpoint base_name (t : mty) : bytes :=
  match t with Atomic a => atomic_name a | Struct n => n | Arr t' _ => base_name t' end.

(* every struct name mentioned in t is bracket-free and non-empty *)
Fixpoint names_ok (t : mty) : Prop :=
  match t with
  | Atomic _ => True
  | Struct n => nobr n /\ n <> []
  | Arr t' _ => names_ok t'
  end.

Lemma base_name_nobr t : names_ok t -> nobr (base_name t) /\ base_name t <> [].
Proof.
  induction t as [a|n|t IH k]; simpl; intros Hn; auto.
  split; [apply atomic_name_nobr | apply atomic_name_nonempty].
Qed.

Definition suffix (k : option N) : bytes :=
  match k with None => [x5d] | Some n => dec n ++ [x5d] end.
Lemma ty_name_arr t k : ty_name (Arr t k) = ty_name t ++ x5b :: suffix k.
Proof. destruct k; reflexivity. Qed.

Lemma ty_name_nonempty t : names_ok t -> ty_name t <> [].
Proof.
  induction t as [a|n|t IH k]; intros Hn.
  - apply atomic_name_nonempty.
  - apply Hn.
  - rewrite ty_name_arr. intros E. apply app_eq_nil in E as [_ E]. discriminate.
Qed.

(* addNestedTypes: the name up to the first '[' *)
Lemma strip_array_app p r : strip_array (p ++ x5b :: r) = strip_array p.
Proof.
  unfold strip_array. rewrite index_byte_app. destruct (index_byte x5b p) as [i|] eqn:E.
  - apply index_byte_le in E. rewrite firstn_app. replace (i - length p)%nat with O by lia.
    simpl. rewrite app_nil_r. reflexivity.
  - rewrite firstn_app, Nat.sub_diag, firstn_all. simpl. apply app_nil_r.
Qed.
Lemma strip_array_nobr l : lacks x5b l -> strip_array l = l.
Proof. intros Hl. unfold strip_array. rewrite index_byte_lacks by exact Hl. reflexivity. Qed.

Lemma strip_ty_name t : names_ok t -> strip_array (ty_name t) = base_name t.
Proof.
  induction t as [a|n|t IH k]; intros Hn.
  - apply strip_array_nobr. apply atomic_name_nobr.
  - apply strip_array_nobr. apply Hn.
  - rewrite ty_name_arr, strip_array_app. apply IH. exact Hn.
Qed.

(* encodeElement: only array types end in ']' *)
Lemma ends_with_arr t k : ends_with x5d (ty_name (Arr t k)) = true.
Proof.
  rewrite ty_name_arr. destruct k as [n|]; simpl suffix.
  - replace (ty_name t ++ x5b :: dec n ++ [x5d]) with ((ty_name t ++ x5b :: dec n) ++ [x5d])
      by (rewrite <- app_assoc; reflexivity).
    apply ends_with_app.
  - replace (ty_name t ++ [x5b; x5d]) with ((ty_name t ++ [x5b]) ++ [x5d]) by (rewrite <- app_assoc; reflexivity).
    apply ends_with_app.
Qed.
Lemma ends_with_nobr l : nobr l -> ends_with x5d l = false.
Proof. intros [_ Hl]. apply ends_with_lacks. exact Hl. Qed.

(* hashArray on a printed array type: the split is (element type, printed dimension) *)
Lemma suffix_lacks k : lacks x5b (suffix k).
Proof.
  destruct k as [n|]; simpl.
  - apply lacks_app; [apply dec_lacks; reflexivity | apply lacksb_lacks; reflexivity].
  - apply lacksb_lacks; reflexivity.
Qed.

Definition dim_str (k : option N) : bytes := match k with None => [] | Some n => dec n end.
Lemma suffix_dim k : suffix k = dim_str k ++ [x5d].
Proof. destruct k; reflexivity. Qed.

Lemma hashArray_split t k :
  names_ok t ->
  let s := ty_name (Arr t k) in
  let n := length s in
  exists openPos, last_index_byte x5b s = Some (S openPos) /\ S openPos = length (ty_name t) /\
    index s (n - 1) = Ok x5d /\
    slice s (S openPos + 1) (n - 1) = Ok (dim_str k) /\
    slice s 0 (S openPos) = Ok (ty_name t).
Proof.
  intros Hn s n. subst s n. rewrite ty_name_arr.
  pose proof (ty_name_nonempty t Hn) as Hne.
  destruct (ty_name t) as [|b0 p0] eqn:Ep; [congruence|]. rewrite <- Ep in *.
  exists (length p0). assert (HL : length (ty_name t) = S (length p0)) by (rewrite Ep; reflexivity).
  split; [rewrite last_index_byte_app by apply suffix_lacks; rewrite HL; reflexivity|].
  split; [auto|].
  set (p := ty_name t) in *. rewrite suffix_dim.
  assert (Hlen : length (p ++ x5b :: dim_str k ++ [x5d]) = (length p + 1 + length (dim_str k) + 1)%nat).
  { rewrite app_length. simpl. rewrite app_length. simpl. lia. }
  rewrite Hlen. split; [|split].
  - unfold index. replace (length p + 1 + length (dim_str k) + 1 - 1)%nat with (length p + S (length (dim_str k)))%nat by lia.
    rewrite nth_error_app2 by lia. replace (length p + S (length (dim_str k)) - length p)%nat with (S (length (dim_str k))) by lia.
    simpl. rewrite nth_error_app2 by lia. rewrite Nat.sub_diag. reflexivity.
  - rewrite slice_ok by (rewrite ?Hlen; lia).
    replace (p ++ x5b :: dim_str k ++ [x5d]) with ((p ++ [x5b]) ++ dim_str k ++ [x5d]) by (rewrite <- app_assoc; reflexivity).
    replace (S (length p0) + 1)%nat with (length (p ++ [x5b])) by (rewrite app_length; simpl; lia).
    rewrite skipn_prefix. rewrite app_length. simpl.
    replace (length p + 1 + length (dim_str k) + 1 - 1 - (length p + 1))%nat with (length (dim_str k)) by lia.
    rewrite firstn_app, Nat.sub_diag, firstn_all. simpl. rewrite app_nil_r. reflexivity.
  - rewrite <- HL. apply slice_prefix.
Qed.

(* strconv.Atoi on a printed dimension *)
Lemma atoi_dec n : (Z.of_N n <= 9223372036854775807)%Z -> atoi (dec n) = Some (Z.of_N n).
Proof.
  intros Hn. unfold atoi. destruct (dec_first_digit n) as (b & l & E & Hd). rewrite E.
  assert (byte_eqb b x2d = false /\ byte_eqb b x2b = false) as [-> ->].
  { unfold is_digit in Hd. apply andb_prop in Hd as [H1 H2]. apply N.leb_le in H1, H2.
    split; (destruct (byte_eqb_spec b x2d) as [->|]; [simpl in *; lia|]);
      (destruct (byte_eqb_spec b x2b) as [->|]; [simpl in *; lia|]); reflexivity. }
  rewrite <- E, undec_dec.
  replace ((-9223372036854775808 <=? Z.of_N n)%Z) with true by (symmetry; apply Z.leb_le; lia).
  replace ((Z.of_N n <=? 9223372036854775807)%Z) with true by (symmetry; apply Z.leb_le; lia).
  reflexivity.
Qed.
Lemma dec_nonempty n : dec n <> [].
Proof. apply dec_ok. Qed.

(* abiElementaryType on a printed atomic name: a finite check over the well-formed atomic types *)
Definition etc_of (a : atomic) : etc :=
  match a with
  | AUint m => mkEtc EUInt m (dec m)
  | AInt m => mkEtc EInt m (dec m)
  | ABool => mkEtc EBool 8 []
  | AAddress => mkEtc EAddress 160 []
  | ABytesN n => mkEtc EBytes n (dec n)
  | ABytes => mkEtc EBytes 0 []
  | AString => mkEtc EString 0 []
  end.

Definition etc_eqb (x y : etc) : bool :=
  match e_base x, e_base y with
  | EInt, EInt | EUInt, EUInt | EAddress, EAddress | EBool, EBool | EBytes, EBytes | EString, EString => true
  | _, _ => false
  end && (e_m x =? e_m y)%N && bytes_eqb (e_suffix x) (e_suffix y).
Lemma etc_eqb_eq x y : etc_eqb x y = true -> x = y.
Proof.
  destruct x as [b m s], y as [b' m' s']. unfold etc_eqb. simpl. intros Hq.
  apply andb_prop in Hq as [Hq Hs]. apply andb_prop in Hq as [Hb Hm].
  apply N.eqb_eq in Hm. apply bytes_eqb_eq in Hs. subst.
  destruct b, b'; try discriminate; reflexivity.
Qed.

Definition atomic_ok (a : atomic) : bool :=
  match abi_elementary_type (atomic_name a) with
  | Ok tc => etc_eqb tc (etc_of a)
  | _ => false
  end.

Lemma wf_atomics_ok : forallb atomic_ok wf_atomics = true.
Proof. vm_compute. reflexivity. Qed.

Lemma wf_atomic_In a : wf_atomic a = true -> In a wf_atomics.
Proof.
  unfold wf_atomics. destruct a as [m|m| | |n| |]; simpl wf_atomic; intros Hw.
  - apply andb_prop in Hw as [Hw H3]. apply andb_prop in Hw as [H1 H2].
    apply N.leb_le in H1, H2. apply N.eqb_eq in H3.
    apply in_or_app; right. apply in_or_app; left. apply in_map_iff. exists (N.to_nat (m / 8)).
    pose proof (N.div_mod m 8). split; [f_equal; lia|]. apply in_seq.
    assert (1 <= m / 8 <= 32)%N; [|lia].
    split; [apply N.div_le_lower_bound; lia | apply N.div_le_upper_bound; lia].
  - apply andb_prop in Hw as [Hw H3]. apply andb_prop in Hw as [H1 H2].
    apply N.leb_le in H1, H2. apply N.eqb_eq in H3.
    apply in_or_app; right. apply in_or_app; right. apply in_or_app; left. apply in_map_iff. exists (N.to_nat (m / 8)).
    pose proof (N.div_mod m 8). split; [f_equal; lia|]. apply in_seq.
    assert (1 <= m / 8 <= 32)%N; [|lia].
    split; [apply N.div_le_lower_bound; lia | apply N.div_le_upper_bound; lia].
  - simpl; auto.
  - simpl; auto.
  - apply andb_prop in Hw as [H1 H2]. apply N.leb_le in H1, H2.
    apply in_or_app; right. apply in_or_app; right. apply in_or_app; right. apply in_map_iff. exists (N.to_nat n).
    split; [f_equal; lia|]. apply in_seq. lia.
  - simpl; auto.
  - simpl; auto.
Qed.

Lemma abi_elementary_type_atomic a : wf_atomic a = true ->
  abi_elementary_type (atomic_name a) = Ok (etc_of a).
Proof.
  intros Hw. apply wf_atomic_In in Hw.
  pose proof wf_atomics_ok as Hall. rewrite forallb_forall in Hall. specialize (Hall _ Hw).
  unfold atomic_ok in Hall. destruct (abi_elementary_type (atomic_name a)) as [tc| |]; try discriminate.
  apply etc_eqb_eq in Hall. congruence.
Qed.
