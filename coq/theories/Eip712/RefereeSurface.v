(* C04 — answers to the referee report (design/reviews/C04.md), issue I5: facts a reader needs in order
   to trust Spec.v and the model's result classes, restated in one place for Properties/C04.v.
     * the executable dependency set of the specification ([Spec.deps]: saturation + insertion sort) is
       exactly "the struct types reachable from the primary one, other than itself", duplicate free and
       in ascending byte-lexicographic order;
     * the model's EncodeTypedDataV4 never panics and never runs out of fuel; SignTypedDataV4 never
       panics for a signer answering |R|, |S| < 2^256 and never runs out of fuel. *)
From Coq Require Import String.
From Coq Require Import List NArith ZArith Bool Arith Lia Permutation Sorted.
From Coq Require Import Init.Byte.
From FFS Require Import Base.Res Base.Bytes Eip712.Util Eip712.Input Eip712.Numeric Eip712.Coerce Eip712.Model
                        Eip712.Spec Eip712.Repr.
From FFS Require Import Eip712.ProofsUtil Eip712.ProofsDeps Eip712.TotalProofs Eip712.TotalProofsFuel.
Import ListNotations.

Theorem spec_deps_reachable_sorted (sts : types) (n : bytes) :
  wf_types sts -> In n (keys sts) ->
  (forall x, In x (deps sts n) <-> (reachable sts n x /\ x <> n)) /\
  StronglySorted (fun a b => bytes_leb a b = true) (deps sts n) /\
  NoDup (deps sts n).
Proof.
  intros Hwf Hn. unfold deps. split; [|split].
  - intros x. split.
    + intros Hx. apply (Permutation_in _ (sort_perm _)) in Hx. apply filter_In in Hx as [Hc Hne].
      split; [apply (closure_spec sts Hwf n Hn); exact Hc|].
      intros ->. rewrite (proj2 (bytes_eqb_eq n n) eq_refl) in Hne. discriminate.
    + intros [Hr Hne]. apply (Permutation_in _ (Permutation_sym (sort_perm _))). apply filter_In.
      split; [apply (closure_spec sts Hwf n Hn); exact Hr|].
      destruct (bytes_eqb x n) eqn:E; [apply bytes_eqb_eq in E; contradiction|reflexivity].
  - apply sort_sorted.
  - apply (Permutation_NoDup (Permutation_sym (sort_perm _))). apply NoDup_filter.
    unfold closure. apply (sat_nodup sts Hwf). apply NoDup_filter. apply Hwf.
Qed.

(* the sort used by specification and model: sorted output, a permutation of its input *)
Theorem spec_sort_is_a_sort (l : list bytes) :
  StronglySorted (fun a b => bytes_leb a b = true) (sort l) /\ Permutation (sort l) l.
Proof. split; [apply sort_sorted|apply sort_perm]. Qed.

Theorem model_result_classes (H : bytes -> bytes) (big_other : bytes -> option Z)
        (sign_direct : bytes -> option (Z * Z * Z)) (payload : option typed_data) :
  EncodeTypedDataV4 H big_other payload <> Panic /\
  EncodeTypedDataV4 H big_other payload <> Err EOutOfFuel /\
  SignTypedDataV4 H big_other sign_direct payload <> Err EOutOfFuel /\
  ((forall msg r s v, sign_direct msg = Some (r, s, v) -> (Z.abs r < 2 ^ 256 /\ Z.abs s < 2 ^ 256)%Z) ->
   SignTypedDataV4 H big_other sign_direct payload <> Panic).
Proof.
  split; [apply EncodeTypedDataV4_total|]. split; [apply EncodeTypedDataV4_fuel|].
  split; [apply SignTypedDataV4_fuel|]. intros Hs. apply SignTypedDataV4_total. exact Hs.
Qed.

(* referee I4: [wf_doc] accepts a document without message (td_message = nil) although its primary type
   is not the domain type — the convention of the implementation (and of Spec.enc_member for an absent
   struct reference), not of the EIP text / eth-sig-util (which refuses a null message).  What is
   computed then, said explicitly: the message part of the digest is 32 zero bytes. *)
From FFS Require Import Eip712.ProofsMain.
Theorem absent_message_digest (H : bytes -> bytes) (big_other : bytes -> option Z) (td : typed_data) (d : doc) :
  represents big_other td d -> wf_doc d -> types_dims_fit (d_types d) ->
  td_message td = None -> bytes_eqb (d_primary d) domain_name = false ->
  d_message d = VNone /\
  EncodeTypedDataV4 H big_other (Some td) =
    Ok (H ([x19; x01] ++ hashStruct H (d_types d) domain_name (d_domain d) ++ repeat x00 32)).
Proof.
  intros Hr Hwf Hdims Hnil Hp.
  assert (Em : d_message d = VNone).
  { destruct Hr as (_ & _ & _ & [Hm|Hm]); [congruence|]. rewrite Hnil in Hm. inversion Hm. reflexivity. }
  split; [exact Em|]. rewrite (digest_is_spec H big_other td d Hr Hwf Hdims). unfold digest. rewrite Hp, Em. reflexivity.
Qed.
