(* C04 — when a Go-level typed-data document (Input.v: type strings, decoded JSON values) *is* a given
   EIP-712 document of Spec.v.  These relations are what the C04 theorems quantify over: every
   well-formed document in JSON form represents some Spec.doc, under any key order, with any extra
   fields.  (Parse.v computes the represented document; ProofsParse links the two.)
   Definitions only. *)
From Coq Require Import List NArith ZArith Bool Arith.
From Coq Require Import Init.Byte.
From FFS Require Import Base.Res Base.Bytes Eip712.Util Eip712.Input Eip712.Numeric Eip712.Coerce Eip712.Spec.
Import ListNotations.

(* type definitions: the member type strings are the canonical spellings of the parsed types *)
Definition render_member (m : smember) : option member :=
  Some (mkMember (sm_name m) (ty_name (sm_ty m))).
Definition render_def (d : structdef) : option gtype := Some (map render_member d).

(* the Go map holds the rendered definition of every struct type of the document, and declares no
   type under the name of an atomic type (such a declaration would shadow the atomic type).  It may
   hold any other entries: nothing reachable refers to them (wf_types closes [sts] under references) *)
Definition repr_types (gts : typeset) (sts : types) : Prop :=
  (forall n def, assoc n sts = Some def -> tlookup n gts = Some (render_def def)) /\
  (forall a, wf_atomic a = true -> tlookup (atomic_name a) gts = None).

Section Values.
  Variable big_other : bytes -> option Z.
  Variable sts : types.

  (* an atomic value as read by the documented coercions *)
  Definition repr_atomic (a : atomic) (g : gval) (v : value) : Prop :=
    match a with
    | AUint _ | AInt _ => exists z, integer_of_gval big_other g = Ok z /\ v = VInt z
    | ABool => exists z, get_bool g = Ok z /\ v = VBool (negb (z =? 0)%Z)
    | AAddress => exists b, get_bytes g = Ok b /\ v = VInt (of_beZ b)
    | ABytesN _ | ABytes => exists b, get_bytes g = Ok b /\ v = VBytes b
    | AString => exists s, get_string g = Ok s /\ v = VBytes s
    end.

  (* struct values are looked up member by member (extra keys are not looked at, a missing key reads
     as nil); nil is the absent struct *)
  Inductive repr : mty -> gval -> value -> Prop :=
  | R_atomic a g v : repr_atomic a g v -> repr (Atomic a) g v
  | R_none n : repr (Struct n) GNil VNone
  | R_struct n m def vs :
      assoc n sts = Some def -> repr_members def m vs -> repr (Struct n) (GMap m) (VStruct vs)
  | R_arr t k gs vs : repr_elems t gs vs -> repr (Arr t k) (GSlice gs) (VArr vs)
  with repr_members : structdef -> gmap -> list value -> Prop :=
  | RM_nil m : repr_members [] m []
  | RM_cons sm ms m v vs :
      repr (sm_ty sm) (glookup (sm_name sm) m) v -> repr_members ms m vs ->
      repr_members (sm :: ms) m (v :: vs)
  with repr_elems : mty -> list gval -> list value -> Prop :=
  | RE_nil t : repr_elems t [] []
  | RE_cons t g gs v vs : repr t g v -> repr_elems t gs vs -> repr_elems t (g :: gs) (v :: vs).

  Scheme repr_mut := Induction for repr Sort Prop
  with repr_members_mut := Induction for repr_members Sort Prop
  with repr_elems_mut := Induction for repr_elems Sort Prop.
  Combined Scheme repr_mutind from repr_mut, repr_members_mut, repr_elems_mut.
End Values.

(* the document as EncodeTypedDataV4 sees it: a missing EIP712Domain type is the empty struct, a
   missing domain the empty object, a missing message the absent value *)
Definition with_domain_type (gts : option typeset) : typeset :=
  let ts := match gts with Some t => t | None => [] end in
  match tlookup domain_name ts with Some _ => ts | None => aset domain_name (Some []) ts end.

Definition represents (big_other : bytes -> option Z) (td : typed_data) (d : doc) : Prop :=
  repr_types (with_domain_type (td_types td)) (d_types d) /\
  td_primary td = d_primary d /\
  repr big_other (d_types d) (Struct domain_name)
       (GMap (match td_domain td with Some m => m | None => [] end)) (d_domain d) /\
  (bytes_eqb (d_primary d) domain_name = true \/       (* domain-only: the message is not looked at *)
   repr big_other (d_types d) (Struct (d_primary d))
        (match td_message td with Some m => GMap m | None => GNil end) (d_message d)).

(* array dimensions must fit Go's int for strconv.Atoi *)
Fixpoint dims_fit (t : mty) : Prop :=
  match t with
  | Arr t' (Some k) => (Z.of_N k <= 9223372036854775807)%Z /\ dims_fit t'
  | Arr t' None => dims_fit t'
  | _ => True
  end.
Definition types_dims_fit (sts : types) : Prop :=
  Forall (fun nd : bytes * structdef => Forall (fun m => dims_fit (sm_ty m)) (snd nd)) sts.

(* ---------- relations between Go-level documents used by the invariance theorems ---------- *)
From Coq Require Import Permutation.

(* the same JSON value with the keys of its objects in a different order, at any depth.  A Go map has
   no order; the association lists standing for maps have unique keys *)
Inductive gperm : gval -> gval -> Prop :=
| GP_refl g : gperm g g
| GP_slice l l' : Forall2 gperm l l' -> gperm (GSlice l) (GSlice l')
| GP_map m m1 m' :
    NoDup (keys m) -> Permutation m m1 ->
    Forall2 (fun a b : bytes * gval => fst a = fst b /\ gperm (snd a) (snd b)) m1 m' ->
    gperm (GMap m) (GMap m').

(* the same value of type t up to fields that are no members: struct values agree (recursively) on
   the members of their struct type and are unconstrained on every other key *)
Inductive same_members (sts : types) : mty -> gval -> gval -> Prop :=
| SM_same t g : same_members sts t g g
| SM_struct n def m m' :
    assoc n sts = Some def ->
    Forall (fun sm => same_members sts (sm_ty sm) (glookup (sm_name sm) m) (glookup (sm_name sm) m')) def ->
    same_members sts (Struct n) (GMap m) (GMap m')
| SM_arr t k l l' : Forall2 (same_members sts t) l l' -> same_members sts (Arr t k) (GSlice l) (GSlice l').

Definition types_of (td : typed_data) : typeset := match td_types td with Some t => t | None => [] end.
Definition domain_of (td : typed_data) : gval := GMap (match td_domain td with Some m => m | None => [] end).
Definition message_of (td : typed_data) : gval := match td_message td with Some m => GMap m | None => GNil end.
