(* Evaluator for the correspondence check of C14.  Runs, on the cases written by harness/cmd/c14,
     - the model of json.Unmarshal into TypedData (Input.v) and compares class + decoded value,
     - the model of EncodeTypedDataV4 / SignTypedDataV4 (Model.v, b-c04) on the decoded document,
       both decode paths, and compares class + digest,
     - for single-member numeric documents: an independent statement of what the digest of the
       integer denoted by the text must be (EIP-712 hashStruct of one int<M>/uint<M> member), which is
       the property oracle "never hashed as a different value", and the model's numeric coercion.
   Result codes: 0 agree; 1..9 model differs from the implementation (8: the encoding/json lexer let
   through a number token outside the RFC 8259 number grammar — the hypothesis [json_number] of the
   theorems about JSON numbers, checked with RefJsonNumber.json_number_b on every token); >= 10 the
   implementation breaks the property on this input. *)
From Coq Require Import String.
From Coq Require Import List NArith ZArith Bool Arith.
From Coq Require Import Init.Byte.
From FFS Require Import Base.Res Base.Bytes Base.Lit Base.Keccak Abi.Spec.
From FFS Require Import Eip712.Util Eip712.Input Eip712.Numeric Eip712.Coerce Eip712.Model.
From FFS Require Import Eip712.RefJsonNumber.
Import ListNotations.

(* ---------- trees as written by the harness: leaves in the byte-DSL ---------- *)
Inductive djson :=
| DNull | DBool (b : bool) | DNum (t : bdsl) | DStr (s : bdsl) | DArr (l : list djson) | DObj (m : list (bdsl * djson)).

Fixpoint expand (d : djson) : json :=
  match d with
  | DNull => JNull
  | DBool b => JBool b
  | DNum t => JNum (bexpand t)
  | DStr s => JStr (bexpand s)
  | DArr l => JArr (map expand l)
  | DObj m => JObj (map (fun kv => (bexpand (fst kv), expand (snd kv))) m)
  end.

(* the math/big oracle as a finite table (filled by the harness calling math/big directly);
   a text that is not in the table is one math/big refuses *)
Definition table_oracle (tbl : list (bdsl * Z)) : bytes -> option Z :=
  let t := map (fun kv => (bexpand (fst kv), snd kv)) tbl in
  fun s => alookup s t.

(* ---------- canonical serialisation of a decoded TypedData (mirrors serTD in the harness) ---------- *)
Definition n4 (n : nat) : bytes :=
  let n := N.of_nat n in
  [n2b ((n / 16777216) mod 256); n2b ((n / 65536) mod 256); n2b ((n / 256) mod 256); n2b (n mod 256)]%N.
Definition ser_bytes (b : bytes) : bytes := n4 (length b) ++ b.

Definition sorted_keys {A} (m : list (bytes * A)) : list bytes := sort (map fst m).

Fixpoint ser_gval (v : gval) : bytes :=
  match v with
  | GNil => [x00]
  | GBool b => [x01; if b then x01 else x00]
  | GNumber t => x02 :: ser_bytes t
  | GString s => x03 :: ser_bytes s
  | GSlice l => x04 :: n4 (length l) ++ flat_map ser_gval l
  | GMap m =>
      (* members serialised in document order first, then emitted in key order *)
      let sm := map (fun kv => (fst kv, ser_gval (snd kv))) m in
      x05 :: n4 (length m) ++
        flat_map (fun k => ser_bytes k ++ match alookup k sm with Some s => s | None => [] end) (sorted_keys m)
  end.
Definition ser_map_body (m : gmap) : bytes :=
  match ser_gval (GMap m) with _ :: r => r | [] => [] end.

Definition ser_member (m : option member) : bytes :=
  match m with None => [x00] | Some mb => x01 :: ser_bytes (m_name mb) ++ ser_bytes (m_type mb) end.
Definition ser_type (t : option gtype) : bytes :=
  match t with None => [x00] | Some ms => x01 :: n4 (length ms) ++ flat_map ser_member ms end.
Definition ser_td (td : typed_data) : bytes :=
  (match td_types td with
   | None => [x00]
   | Some ts => x01 :: n4 (length ts) ++
                  flat_map (fun k => ser_bytes k ++ ser_type (tget k ts)) (sorted_keys ts)
   end)
  ++ ser_bytes (td_primary td)
  ++ (match td_domain td with None => [x00] | Some m => x01 :: ser_map_body m end)
  ++ (match td_message td with None => [x00] | Some m => x01 :: ser_map_body m end).

Definition cks_eqb (a b : N * N * N) : bool :=
  let '(a1, a2, a3) := a in let '(b1, b2, b3) := b in ((a1 =? b1) && (a2 =? b2) && (a3 =? b3))%N.

(* ---------- the independent oracle for single-member numeric documents ---------- *)
(* {"types":{"A":[{"name":"x","type":T}]},"primaryType":"A","domain":{},"message":{"x":V}}
   EIP-712: digest = keccak(0x19 0x01 || hashStruct(EIP712Domain{}) || hashStruct(A{x}))
            hashStruct(s) = keccak(keccak(encodeType) || encodeData), int/uint member = 32-byte word *)
Definition type_name (sgn : bool) (bits : N) : bytes := (if sgn then bs "int" else bs "uint") ++ dec bits.
Definition num_type_hash (sgn : bool) (bits : N) : bytes :=
  keccak256 (bs "A(" ++ type_name sgn bits ++ bs " x)").
Definition empty_domain_separator : bytes :=
  Eval vm_compute in keccak256 (keccak256 (bs "EIP712Domain()")).
Definition widths : list N := map (fun k => (8 * N.of_nat k)%N) (seq 1 32).
Definition type_hash_table : list (bool * N * bytes) :=
  Eval vm_compute in flat_map (fun m => [(false, m, num_type_hash false m); (true, m, num_type_hash true m)]) widths.
Definition lookup_type_hash (sgn : bool) (bits : N) : bytes :=
  match find (fun e => Bool.eqb (fst (fst e)) sgn && (snd (fst e) =? bits)%N) type_hash_table with
  | Some e => snd e
  | None => num_type_hash sgn bits
  end.
Definition spec_num_digest (sgn : bool) (bits : N) (z : Z) : bytes :=
  keccak256 ([x19; x01] ++ empty_domain_separator ++ keccak256 (lookup_type_hash sgn bits ++ word z)).

Definition in_range (sgn : bool) (bits : N) (z : Z) : bool :=
  if sgn then (- 2 ^ (Z.of_N bits - 1) <=? z)%Z && (z <? 2 ^ (Z.of_N bits - 1))%Z
  else (0 <=? z)%Z && (z <? 2 ^ Z.of_N bits)%Z.

(* ---------- cases ---------- *)
Inductive case :=
(* document; math/big table; Unmarshal into a value: class, checksum of the decoded value;
   EncodeTypedDataV4: class, digest; Unmarshal into a pointer: class; SignTypedDataV4: class, hash *)
| CDoc (doc : djson) (tbl : list (bdsl * Z)) (ucls : nat) (proj : N * N * N)
       (hcls : nat) (hdig : bdsl) (pcls : nat) (scls : nat) (sdig : bdsl)
(* member type int<bits>/uint<bits>; JSON number or string; the text; the integer it denotes exactly
   (None: none); canonical spelling?; math/big table; class; digest *)
| CNum (sgn : bool) (bits : N) (isnum : bool) (text : bdsl) (denotes : option Z) (canonical : bool)
       (tbl : list (bdsl * Z)) (cls : nat) (dig : bdsl).

Definition dummy_signer (_ : bytes) : option (Z * Z * Z) := Some (1, 1, 27)%Z.

(* class and digest of a model result against the implementation's *)
Definition same_result (m : res bytes) (c : nat) (d : bytes) : bool :=
  match m with
  | Ok b => (c =? 0)%nat && bytes_eqb b d
  | Err _ => (c =? 1)%nat
  | Panic => (c =? 2)%nat
  end.

Definition e2e_class (c1 c2 : nat) : nat := if (c1 =? 0)%nat then c2 else c1.

(* What is compared is the end-to-end outcome of each path (rejected at decode time or at hash time is
   the same observable: an error), plus the decoded value when both sides decode. *)
Definition check_doc (doc : json) (o : bytes -> option Z) (ucls : nat) (proj : N * N * N)
           (hcls : nat) (hdig : bytes) (pcls scls : nat) (sdig : bytes) : N :=
  if (ucls =? 2)%nat || (hcls =? 2)%nat || (pcls =? 2)%nat || (scls =? 2)%nat then 12 else
  (* every number token the encoding/json lexer handed over is an RFC 8259 number: the hypothesis
     [json_number] of the theorems about JSON numbers (RefJsonNumber.json_number_b_sound) *)
  if negb (json_numbers_ok doc) then 8 else
  let dv := decode_typed_data doc in
  let proj_ok := match dv with
                 | Ok td => if (ucls =? 0)%nat then cks_eqb (cks (ser_td td)) proj else true
                 | _ => true
                 end in
  if negb proj_ok then 2 else
  let rv := do td <- dv; EncodeTypedDataV4 keccak256 o (Some td) in
  if negb (same_result rv (e2e_class ucls hcls) hdig) then 4 else
  (* pointer path: the document null leaves the pointer nil (SignTypedDataV4 of nil); otherwise the
     pointer holds the same value and SignTypedDataV4 returns the digest just computed as its hash *)
  match doc with
  | JNull =>
      let rs := match SignTypedDataV4 keccak256 o dummy_signer None with
                | Ok r => Ok (r_hash r) | Err e => Err e | Panic => Panic
                end in
      if same_result rs (e2e_class pcls scls) sdig then 0 else 5
  | _ => if same_result rv (e2e_class pcls scls) sdig then 0 else 5
  end.

Definition x_key : bytes := bs "x".
Definition a_key : bytes := bs "A".

Definition check_num (sgn : bool) (bits : N) (isnum : bool) (text : bytes) (denotes : option Z)
           (canonical : bool) (o : bytes -> option Z) (cls : nat) (dig : bytes) : N :=
  if (cls =? 2)%nat then 12 else
  (* a text offered as a JSON number that is not an RFC 8259 number ("00e-1", "+5"): the document is
     not JSON, the lexer must refuse it (class error); code 8 when encoding/json accepted such a token *)
  if isnum && negb (json_number_b text) then (if (cls =? 1)%nat then 0 else 8) else
  let v := if isnum then GNumber text else GString text in
  let tn := type_name sgn bits in
  let types : typeset := [(a_key, Some [Some (mkMember x_key tn)])] in
  (* the model at the level of one member: encodeElement on the value *)
  let m := encodeElement keccak256 o types 2 tn v in
  let model_ok :=
    match m with
    | Ok w => (cls =? 0)%nat
    | Err _ => (cls =? 1)%nat
    | Panic => false
    end in
  let model_val_ok :=                       (* the model against the generator's denotation *)
    match m, denotes with
    | Ok w, Some z => in_range sgn bits z && bytes_eqb w (word z)
    | Ok _, None => false
    | _, _ => true
    end in
  let fin : N := if negb model_val_ok then 7%N else if negb model_ok then 6%N else 0%N in
  match denotes with
  | Some z =>
      if in_range sgn bits z then
        if (cls =? 0)%nat then
          if bytes_eqb dig (spec_num_digest sgn bits z) then fin else 10
        else if canonical then 11 else fin
      else if (cls =? 0)%nat then 13 else fin
  | None => if (cls =? 0)%nat then 13 else fin
  end.

Definition check_case (c : case) : N :=
  match c with
  | CDoc doc tbl ucls proj hcls hdig pcls scls sdig =>
      check_doc (expand doc) (table_oracle tbl) ucls proj hcls (bexpand hdig) pcls scls (bexpand sdig)
  | CNum sgn bits isnum text denotes canonical tbl cls dig =>
      check_num sgn bits isnum (bexpand text) denotes canonical (table_oracle tbl) cls (bexpand dig)
  end.

Fixpoint mismatches_go (i : N) (l : list case) : list (N * N) :=
  match l with
  | [] => []
  | c :: t => let r := check_case c in
              if (r =? 0)%N then mismatches_go (i + 1) t else (i, r) :: mismatches_go (i + 1) t
  end.
Definition mismatches (l : list case) : list (N * N) := firstn 20 (mismatches_go 0 l).

(* anchor: the Mail example of EIP-712 through decode + model gives the published digest *)
Local Open Scope string_scope.
Definition mail_doc : json :=
  let mem n t := JObj [(bs "name", JStr (bs n)); (bs "type", JStr (bs t))] in
  JObj [
    (bs "types", JObj [
       (bs "EIP712Domain", JArr [mem "name" "string"; mem "version" "string"; mem "chainId" "uint256"; mem "verifyingContract" "address"]);
       (bs "Person", JArr [mem "name" "string"; mem "wallet" "address"]);
       (bs "Mail", JArr [mem "from" "Person"; mem "to" "Person"; mem "contents" "string"])]);
    (bs "primaryType", JStr (bs "Mail"));
    (bs "domain", JObj [(bs "name", JStr (bs "Ether Mail")); (bs "version", JStr (bs "1")); (bs "chainId", JNum (bs "1"));
                        (bs "verifyingContract", JStr (bs "0xCcCCccccCCCCcCCCCCCcCcCccCcCCCcCcccccccC"))]);
    (bs "message", JObj [
       (bs "from", JObj [(bs "name", JStr (bs "Cow")); (bs "wallet", JStr (bs "0xCD2a3d9F938E13CD947Ec05AbC7FE734Df8DD826"))]);
       (bs "to", JObj [(bs "name", JStr (bs "Bob")); (bs "wallet", JStr (bs "0xbBbBBBBbbBBBbbbBbbBbbbbBBbBbbbbBbBbbBBbB"))]);
       (bs "contents", JStr (bs "Hello, Bob!"))])].
Example mail_digest :
  (do td <- decode_typed_data mail_doc; EncodeTypedDataV4 keccak256 (fun _ => None) (Some td))
  = Ok (unhex "be609aee343fb3c4b28e1df9e632fca64fcfaede20f02e86244efddf30957bd2").
Proof. vm_compute. reflexivity. Qed.

(* self-test of code 8: "00e-1" offered as a JSON number is not an RFC 8259 number; the case agrees
   when the implementation refuses the document and is reported when it hashes it; a document tree
   carrying such a token is reported *)
Example code8_selftest :
  check_num true 8 true (bs "00e-1") (Some 0%Z) false (fun _ => None) 1 [] = 0%N /\
  check_num true 8 true (bs "00e-1") (Some 0%Z) false (fun _ => None) 0 [] = 8%N /\
  check_doc (JObj [(bs "message", JObj [(bs "x", JNum (bs "010"))])]) (fun _ => None) 0 (0, 0, 0)%N 1 [] 0 1 [] = 8%N.
Proof. split; [vm_compute; reflexivity|]. split; vm_compute; reflexivity. Qed.
