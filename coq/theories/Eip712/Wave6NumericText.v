(* C14, wave 6: the guard [classify t <> COther] of the clause-3 theorems (a condition phrased through
   the model's own tokenizer) replaced by a DECLARATIVE grammar of the text, for strings as well as
   for JSON numbers:

       numeric-text = [ "+" / "-" ] ( int [ frac ] [ exp ]  /  "0" ( "x" / "X" ) 1*HEXDIG )
       int = "0" / ( digit1-9 *DIGIT )     frac = "." 1*DIGIT     exp = ( "e" / "E" ) [ "+" / "-" ] 1*DIGIT

   (int / frac / exp are RefJsonNumber's transcription of RFC 8259 section 6.)  Proved here:
     * [numeric_text t <-> classify t <> COther]: the math/big oracle of the model is consulted for
       a text iff the text is outside this grammar, so the declared gap of clause 3 (leading-zero
       octal, 0b / 0o, '_', "5.", "08", hex floats ...) is exactly the complement of a grammar written
       without reference to the model;
     * every JSON number and every canonical spelling (dec_text z, hex_text z) is a numeric-text;
     * the member-level and document-level "never a different value" statements with the grammar as
       the only condition on the text. *)
From Coq Require Import String.
From Coq Require Import List NArith ZArith Bool Arith Lia.
From Coq Require Import Init.Byte.
From FFS Require Import Base.Res Base.Bytes Abi.Spec.
From FFS Require Import Eip712.Util Eip712.Input Eip712.Numeric Eip712.Coerce Eip712.Model.
From FFS Require Import Eip712.TotalProofs Eip712.NumericProofs Eip712.SpellingProofs Eip712.ExactSpellingProofs Eip712.SpellingDocProofs Eip712.ComposeJson
                        Eip712.RefJsonNumber.
Import ListNotations.

(* ---------- the grammar ---------- *)
Definition sign_text (sg : bytes) : Prop := sg = [] \/ sg = [x2b] \/ sg = [x2d].

Definition sci_body (body : bytes) : Prop :=
  exists ip fr ex, body = ip ++ fr ++ ex /\ json_int ip /\ json_frac fr /\ json_exp ex.

Definition hex_body (body : bytes) : Prop :=
  exists x h, body = x30 :: x :: h /\ (x = x78 \/ x = x58) /\ h <> [] /\ forallb is_hex h = true.

Definition numeric_text (t : bytes) : Prop :=
  exists sg body, t = sg ++ body /\ sign_text sg /\ (sci_body body \/ hex_body body).

(* ---------- grammar -> classified ---------- *)
Lemma classify_unsigned_hex neg x h :
  (x = x78 \/ x = x58) -> h <> [] -> forallb is_hex h = true ->
  classify_unsigned neg (x30 :: x :: h) = CHex neg h.
Proof.
  intros Hx Hne Hh. unfold classify_unsigned.
  assert (E : byte_is 48 x30 && (byte_is 120 x || byte_is 88 x) = true)
    by (destruct Hx as [-> | ->]; reflexivity).
  rewrite E. destruct h as [|h0 h']; [congruence|]. rewrite Hh. reflexivity.
Qed.

Lemma body_unsigned neg body : sci_body body \/ hex_body body -> classify_unsigned neg body <> COther.
Proof.
  intros [[ip [fr [ex [-> [Hip [Hfr Hex]]]]]] | [x [h [-> [Hx [Hne Hh]]]]]].
  - apply classify_unsigned_json; assumption.
  - rewrite (classify_unsigned_hex neg x h Hx Hne Hh). discriminate.
Qed.

(* a body starts with a digit *)
Lemma body_head body : sci_body body \/ hex_body body ->
  exists b r, body = b :: r /\ Numeric.is_digit b = true.
Proof.
  intros [[ip [fr [ex [-> [Hip _]]]]] | [x [h [-> _]]]].
  - destruct Hip as [-> | [d [r [-> [Hd Hr]]]]].
    + exists x30, (fr ++ ex). split; reflexivity.
    + exists d, (r ++ fr ++ ex). split; [reflexivity|].
      unfold Numeric.is_digit. cbv zeta. apply andb_true_iff. split; apply N.leb_le; lia.
  - exists x30, (x :: h). split; reflexivity.
Qed.

Theorem numeric_text_classified t : numeric_text t -> classify t <> COther.
Proof.
  intros [sg [body [-> [Hsg Hb]]]].
  destruct Hsg as [-> | [-> | ->]].
  - cbn [app]. destruct (body_head body Hb) as [b [r [-> Hd]]].
    unfold classify. rewrite (digit_not 45 b Hd) by lia. rewrite (digit_not 43 b Hd) by lia.
    apply body_unsigned. exact Hb.
  - cbn [app classify]. change (byte_is 45 x2b) with false. change (byte_is 43 x2b) with true. cbv iota.
    apply body_unsigned. exact Hb.
  - cbn [app classify]. change (byte_is 45 x2d) with true. cbv iota.
    apply body_unsigned. exact Hb.
Qed.

(* ---------- classified -> grammar ---------- *)
Lemma int_part_json ip : forallb Numeric.is_digit ip = true -> int_part_ok ip = true -> json_int ip.
Proof.
  intros Hd Hok. destruct ip as [|b r]; [discriminate|].
  cbn [forallb] in Hd. apply andb_true_iff in Hd. destruct Hd as [Hb Hr].
  pose proof (is_digit_range b Hb) as Rb.
  destruct (N.eq_dec (b2n b) 48) as [E|NE].
  - assert (b = x30) by (rewrite <- (n2b_b2n b), E; reflexivity). subst b.
    destruct r as [|c r']; [left; reflexivity|]. cbn [int_part_ok] in Hok. discriminate.
  - right. exists b, r. repeat split; try lia. exact Hr.
Qed.

Lemma is_sign_text es eneg : is_sign es eneg -> sign_text es.
Proof. unfold is_sign, sign_text. intros [[-> _] | [[-> _] | [-> _]]]; tauto. Qed.

Lemma frac_text_json fp : forallb Numeric.is_digit fp = true -> json_frac (frac_text fp).
Proof.
  intros Hd. destruct fp as [|f0 f']; [left; reflexivity|].
  right. exists (f0 :: f'). repeat split; [discriminate|exact Hd].
Qed.

(* the integer part [classify_unsigned] returns passed [int_part_ok] *)
Lemma classify_unsigned_int_ok neg r :
  match classify_unsigned neg r with
  | CDec _ ip | CSci _ ip _ _ _ => int_part_ok ip = true
  | _ => True
  end.
Proof.
  unfold classify_unsigned.
  destruct (match r with
            | z :: x :: h => if byte_is 48 z && (byte_is 120 x || byte_is 88 x)
                             then Some (match h with _ :: _ => if forallb is_hex h then CHex neg h else COther | [] => COther end)
                             else None
            | _ => None end) as [c0|] eqn:Ehex.
  - destruct r as [|z [|x h]]; try discriminate.
    destruct (byte_is 48 z && (byte_is 120 x || byte_is 88 x)); [|discriminate].
    injection Ehex as <-. destruct h; [exact I|]. destruct (forallb is_hex (b :: h)); exact I.
  - clear Ehex. destruct (span_digits r) as [ip r1].
    destruct (int_part_ok ip) eqn:Eok; cbn [negb]; [|exact I].
    destruct r1 as [|c1 r2]; [exact Eok|].
    destruct (byte_is 46 c1).
    + destruct (span_digits r2) as [fp r3]. destruct fp; [exact I|].
      destruct (scan_exp r3) as [[eneg ed]|]; [exact Eok|exact I].
    + destruct (scan_exp (c1 :: r2)) as [[eneg ed]|]; [|exact I]. destruct ed; [exact I|exact Eok].
Qed.

Lemma classify_unsigned_body neg r : classify_unsigned neg r <> COther -> sci_body r \/ hex_body r.
Proof.
  intros Hc. pose proof (classify_unsigned_spec neg r _ eq_refl) as Hs.
  pose proof (classify_unsigned_int_ok neg r) as Hok.
  destruct (classify_unsigned neg r) as [n ds|n ds|n ip fp eneg ed|]; [| | |congruence].
  - destruct Hs as [_ [-> Hd]]. left. exists ds, [], []. rewrite !app_nil_r.
    repeat split; [apply int_part_json; assumption|left; reflexivity|left; reflexivity].
  - destruct Hs as [_ [[x [-> Hx]] [Hh Hne]]]. right. exists x, ds. repeat split; assumption.
  - destruct Hs as [_ [Hip [Hfp [Hed [expo [-> Hex]]]]]]. left.
    exists ip, (frac_text fp), expo. repeat split.
    + apply int_part_json; assumption.
    + apply frac_text_json. exact Hfp.
    + destruct Hex as [[-> _] | [e [es [-> [He [Hes Hne]]]]]]; [left; reflexivity|].
      right. exists e, es, ed. repeat split; try assumption. exact (is_sign_text es eneg Hes).
Qed.

Theorem classified_numeric_text t : classify t <> COther -> numeric_text t.
Proof.
  intros Hc. pose proof (classify_spec t) as Hs.
  destruct (classify t) as [n ds|n ds|n ip fp eneg ed|] eqn:E; [| | |congruence];
    destruct Hs as [sgn [r [-> [Hsg Hu]]]]; exists sgn, r;
    (split; [reflexivity|]); (split; [exact (is_sign_text _ _ Hsg)|]);
    apply (classify_unsigned_body n r); rewrite Hu; discriminate.
Qed.

(* The oracle of the model is consulted for a text iff the text is outside the grammar. *)
Theorem numeric_text_iff_classified t : numeric_text t <-> classify t <> COther.
Proof. split; [apply numeric_text_classified|apply classified_numeric_text]. Qed.

Theorem oracle_asked_iff_outside_grammar o1 o2 t :
  (numeric_text t -> BigIntegerFromString o1 t = BigIntegerFromString o2 t) /\
  (~ numeric_text t -> BigIntegerFromString o1 t = match o1 t with Some z => Ok z | None => Err EBadInteger end).
Proof.
  split.
  - intros Hn. apply numeric_text_classified in Hn. unfold BigIntegerFromString.
    destruct (classify t); try reflexivity. congruence.
  - intros Hn. unfold BigIntegerFromString. destruct (classify t) eqn:E; try reflexivity;
      exfalso; apply Hn, classified_numeric_text; rewrite E; discriminate.
Qed.

(* ---------- what is inside the grammar ---------- *)
Theorem json_number_numeric_text t : json_number t -> numeric_text t.
Proof.
  intros [mi [ip [fr [ex [-> [Hmi [Hip [Hfr Hex]]]]]]]].
  exists mi, (ip ++ fr ++ ex). split; [reflexivity|]. split.
  - destruct Hmi as [-> | ->]; unfold sign_text; tauto.
  - left. exists ip, fr, ex. repeat split; assumption.
Qed.

Theorem canonical_spellings_numeric_text z : numeric_text (dec_text z) /\ numeric_text (hex_text z).
Proof.
  split; apply classified_numeric_text.
  - rewrite classify_dec_text. discriminate.
  - rewrite classify_hex_text. discriminate.
Qed.

(* ---------- clause 3 with the grammar as the only condition on the text ---------- *)
Section Element.
  Variable H : bytes -> bytes.
  Variable big_other : bytes -> option Z.
  Variable allTypes : typeset.

  Theorem numeric_text_member_exact fuel tn tc t v w :
    integer_member_type allTypes tn tc -> numeric_text t -> (v = GNumber t \/ v = GString t) ->
    encodeElement H big_other allTypes (S fuel) tn v = Ok w ->
    exists z, text_denotes t z /\ in_range (is_signed (e_base tc)) (e_m tc) z = true /\ w = word z.
  Proof.
    intros Hty Hn Hv Hw.
    destruct (integer_member_sound H big_other allTypes fuel tn tc _ w Hty Hw) as [z [Hz [Hr Hword]]].
    exists z. repeat split; try assumption.
    destruct Hv as [-> | ->];
      exact (BigIntegerFromString_sound big_other t z (numeric_text_classified t Hn) Hz).
  Qed.

  Theorem numeric_text_member_oracle_free o2 fuel tn tc t v :
    integer_member_type allTypes tn tc -> numeric_text t -> (v = GNumber t \/ v = GString t) ->
    encodeElement H big_other allTypes (S fuel) tn v = encodeElement H o2 allTypes (S fuel) tn v.
  Proof.
    intros Hty Hn Hv.
    rewrite (encodeElement_integer H big_other allTypes fuel tn tc _ Hty).
    rewrite (encodeElement_integer H o2 allTypes fuel tn tc _ Hty).
    destruct (oracle_asked_iff_outside_grammar big_other o2 t) as [Ho _].
    destruct Hv as [-> | ->]; cbn [integer_of_gval]; rewrite (Ho Hn); reflexivity.
  Qed.
End Element.

(* on the document: a text of the grammar (JSON number or string) at a reached position of integer
   type that denotes no integer in range of the type makes the whole document an error *)
Theorem document_numeric_text_rejected H big_other td f tn tc t v :
  doc_reaches td f tn v -> (v = GNumber t \/ v = GString t) -> numeric_text t ->
  integer_member_type (effective_types (td_types td)) tn tc ->
  (forall z, text_denotes t z -> in_range (is_signed (e_base tc)) (e_m tc) z = false) ->
  exists e, EncodeTypedDataV4 H big_other (Some td) = Err e.
Proof.
  intros Hreach Hv Hn Hty Hno.
  apply (rejects_inexact_from_json H big_other td f tn tc t v Hreach Hv Hty).
  split; [exact (numeric_text_classified t Hn)|exact Hno].
Qed.

(* ---------- non-vacuity: inside and outside ---------- *)
Example numeric_text_examples :
  numeric_text (bs "-12") /\ numeric_text (bs "+0x1F") /\ numeric_text (bs "0XfF") /\
  numeric_text (bs "+1.50E+3") /\ numeric_text (bs "1e77") /\ numeric_text (bs "-0") /\
  ~ numeric_text (bs "010") /\ ~ numeric_text (bs "-010") /\ ~ numeric_text (bs "0b11") /\
  ~ numeric_text (bs "0o17") /\ ~ numeric_text (bs "1_000") /\ ~ numeric_text (bs "0x_1f") /\
  ~ numeric_text (bs "5.") /\ ~ numeric_text (bs "08") /\ ~ numeric_text (bs "0x1p4") /\
  ~ numeric_text (bs "") /\ ~ numeric_text (bs "0x") /\ ~ numeric_text (bs "+-1") /\ ~ numeric_text (bs ".5").
Proof.
  repeat split;
    try (apply classified_numeric_text; vm_compute; discriminate);
    try (intros Hn; apply (numeric_text_classified _ Hn); vm_compute; reflexivity).
Qed.

(* the instance of the document statement for a STRING: "256" at a uint8 member and "1.5" at an int256
   member cannot be hashed *)
Example numeric_text_string_examples :
  forall (H : bytes -> bytes) (o : bytes -> option Z) fuel w,
    encodeElement H o [] (S fuel) (bs "uint8") (GString (bs "+0x100")) <> Ok w /\
    encodeElement H o [] (S fuel) (bs "uint8") (GString (bs "0xff")) = Ok (word 255).
Proof.
  intros H o fuel w.
  destruct integer_member_type_int256 as [_ [Hu8 _]].
  split.
  - intros E.
    assert (Hn : numeric_text (bs "+0x100")) by (apply classified_numeric_text; vm_compute; discriminate).
    destruct (numeric_text_member_exact H o [] fuel _ _ _ _ w Hu8 Hn (or_intror eq_refl) E) as [z [Hd [Hr _]]].
    vm_compute in Hd. subst z. vm_compute in Hr. discriminate.
  - rewrite (encodeElement_integer H o [] fuel _ _ _ Hu8). vm_compute. reflexivity.
Qed.

(* ================================================================================================
   Second item: the exact boundary of acceptance on the grammar.  [exponent_moderate] (round 3) was a
   sufficient condition for an exact text to be read; [exponent_expandable] is the necessary and
   sufficient one: the written exponent fits int64 and (the mantissa is zero, or the effective
   exponent is at most 10^6 in magnitude).  On the grammar the coercion returns z IFF the text
   denotes z and its exponent is expandable: a text beyond the boundary is refused (never misread),
   and inside the boundary nothing exact is refused.
   ================================================================================================ *)
Local Open Scope Z_scope.

Definition exponent_expandable (t : bytes) : Prop :=
  match classify t with
  | CSci neg ip fp eneg ed =>
      let e := signed eneg (dec_value ed) in
      int64_ok e = true /\ (dec_value (ip ++ fp) = 0 \/ Z.abs (e - Z.of_nat (length fp)) <= 1000000)
  | COther => False
  | _ => True
  end.

Lemma moderate_expandable t : exponent_moderate t -> exponent_expandable t.
Proof.
  unfold exponent_moderate, exponent_expandable. destruct (classify t); cbv zeta; tauto.
Qed.

Lemma sci_value_iff neg ip fp eneg ed z :
  sci_value neg ip fp eneg ed = Ok z <->
  sci_denotes neg ip fp eneg ed z /\
  int64_ok (signed eneg (dec_value ed)) = true /\
  (dec_value (ip ++ fp) = 0 \/ Z.abs (signed eneg (dec_value ed) - Z.of_nat (length fp)) <= 1000000).
Proof.
  split.
  - intros E. split; [apply sci_value_exact; exact E|].
    revert E. unfold sci_value. cbv zeta.
    destruct (int64_ok (signed eneg (dec_value ed))); cbn [negb]; [|discriminate].
    destruct (dec_value (ip ++ fp) =? 0) eqn:Em.
    + apply Z.eqb_eq in Em. intros _. split; [reflexivity|left; exact Em].
    + destruct (Z.abs (signed eneg (dec_value ed) - Z.of_nat (length fp)) >? 1000000) eqn:Eb; [discriminate|].
      intros _. split; [reflexivity|right]. rewrite Z.gtb_ltb in Eb. apply Z.ltb_ge in Eb. exact Eb.
  - intros [Hd [H64 [Hm | Hn]]].
    + revert Hd. unfold sci_value, sci_denotes. cbv zeta. rewrite H64. cbn [negb]. rewrite Hm. cbn [Z.eqb].
      set (n := signed eneg (dec_value ed) - Z.of_nat (length fp)).
      destruct (0 <=? n) eqn:En.
      * intros ->. f_equal. unfold signed. destruct neg; simpl; lia.
      * apply Z.leb_gt in En. assert (Hp : 0 < 10 ^ (- n)) by (apply Z.pow_pos_nonneg; lia).
        intros Hz. f_equal. unfold signed in Hz. destruct neg; simpl in Hz; nia.
    + apply sci_value_complete; assumption.
Qed.

Theorem BigIntegerFromString_accepts_iff o t z :
  numeric_text t ->
  (BigIntegerFromString o t = Ok z <-> text_denotes t z /\ exponent_expandable t).
Proof.
  intros Hn. apply numeric_text_classified in Hn.
  unfold BigIntegerFromString, text_denotes, exponent_expandable.
  destruct (classify t) as [n ds|n ds|n ip fp eneg ed|]; [| | |congruence].
  - split; [intros E; injection E as <-; split; [reflexivity|exact I]|intros [-> _]; reflexivity].
  - split; [intros E; injection E as <-; split; [reflexivity|exact I]|intros [-> _]; reflexivity].
  - cbv zeta. rewrite sci_value_iff. tauto.
Qed.

Theorem beyond_boundary_refused o t :
  numeric_text t -> ~ exponent_expandable t -> exists e, BigIntegerFromString o t = Err e.
Proof.
  intros Hn Hx. destruct (BigIntegerFromString o t) as [z|e|] eqn:E.
  - exfalso. apply Hx. apply (BigIntegerFromString_accepts_iff o t z Hn). exact E.
  - eauto.
  - exfalso. exact (integer_of_gval_np o (GString t) E).
Qed.

Section ElementBoundary.
  Variable H : bytes -> bytes.
  Variable big_other : bytes -> option Z.
  Variable allTypes : typeset.

  (* inside the boundary: every exact spelling gives the outcome of the canonical spellings
     (C14_exact_spellings_agree with the weaker, necessary hypothesis) *)
  Theorem expandable_spelling_element fuel tn tc t z :
    integer_member_type allTypes tn tc -> numeric_text t -> text_denotes t z -> exponent_expandable t ->
    let r := if in_range (is_signed (e_base tc)) (e_m tc) z then Ok (word z)
             else Err (if is_signed (e_base tc) then ETooLarge
                       else if (z <? 0)%Z then ENegativeUnsigned else ETooLarge) in
    encodeElement H big_other allTypes (S fuel) tn (GNumber t) = r /\
    encodeElement H big_other allTypes (S fuel) tn (GString t) = r.
  Proof.
    intros Hty Hn Hd Hm. cbv zeta.
    assert (Hz : BigIntegerFromString big_other t = Ok z)
      by (apply (BigIntegerFromString_accepts_iff big_other t z Hn); split; assumption).
    split; apply integer_member_exact; try exact Hty; cbn [integer_of_gval]; exact Hz.
  Qed.

  (* beyond the boundary: refused, whatever the text denotes *)
  Theorem beyond_boundary_element fuel tn tc t v :
    integer_member_type allTypes tn tc -> numeric_text t -> ~ exponent_expandable t ->
    (v = GNumber t \/ v = GString t) ->
    exists e, encodeElement H big_other allTypes (S fuel) tn v = Err e.
  Proof.
    intros Hty Hn Hx Hv. destruct (beyond_boundary_refused big_other t Hn Hx) as [e E].
    exists e. apply (integer_member_unreadable H big_other allTypes fuel tn tc v e Hty).
    destruct Hv as [-> | ->]; exact E.
  Qed.

  (* hence: a text of the grammar at an integer member is hashed IFF it denotes an integer in range
     of the type and its exponent is expandable; the bytes are then the word of that integer *)
  Theorem numeric_text_member_iff fuel tn tc t v w :
    integer_member_type allTypes tn tc -> numeric_text t -> (v = GNumber t \/ v = GString t) ->
    (encodeElement H big_other allTypes (S fuel) tn v = Ok w <->
     exists z, text_denotes t z /\ exponent_expandable t /\
               in_range (is_signed (e_base tc)) (e_m tc) z = true /\ w = word z).
  Proof.
    intros Hty Hn Hv. split.
    - intros Hw.
      destruct (integer_member_sound H big_other allTypes fuel tn tc _ w Hty Hw) as [z [Hz [Hr Hword]]].
      assert (Hz' : BigIntegerFromString big_other t = Ok z) by (destruct Hv as [-> | ->]; exact Hz).
      apply (BigIntegerFromString_accepts_iff big_other t z Hn) in Hz'. destruct Hz' as [Hd Hx].
      exists z. repeat split; assumption.
    - intros [z [Hd [Hx [Hr ->]]]].
      destruct (expandable_spelling_element fuel tn tc t z Hty Hn Hd Hx) as [A B]. cbv zeta in A, B.
      rewrite Hr in A, B. destruct Hv as [-> | ->]; assumption.
  Qed.
End ElementBoundary.

(* non-vacuity: "0e9999999" (zero mantissa) is beyond [exponent_moderate] but expandable and read as 0;
   "1e1000001" is an exact text (it denotes 10^1000001) beyond the boundary; "1e9223372036854775808"
   has an exponent outside int64 *)
Example boundary_examples :
  numeric_text (bs "0e9999999") /\ exponent_expandable (bs "0e9999999") /\ ~ exponent_moderate (bs "0e9999999") /\
  (forall o, BigIntegerFromString o (bs "0e9999999") = Ok 0) /\
  numeric_text (bs "1e1000001") /\ ~ exponent_expandable (bs "1e1000001") /\
  numeric_text (bs "1e9223372036854775808") /\ ~ exponent_expandable (bs "1e9223372036854775808") /\
  numeric_text (bs "1e1000000") /\ exponent_expandable (bs "1e1000000").
Proof.
  assert (E0 : classify (bs "0e9999999") = CSci false (bs "0") [] false (bs "9999999")) by (vm_compute; reflexivity).
  assert (E1 : classify (bs "1e1000001") = CSci false (bs "1") [] false (bs "1000001")) by (vm_compute; reflexivity).
  assert (E2 : classify (bs "1e9223372036854775808") = CSci false (bs "1") [] false (bs "9223372036854775808"))
    by (vm_compute; reflexivity).
  assert (E3 : classify (bs "1e1000000") = CSci false (bs "1") [] false (bs "1000000")) by (vm_compute; reflexivity).
  assert (A1 : numeric_text (bs "0e9999999")) by (apply classified_numeric_text; rewrite E0; discriminate).
  assert (A2 : exponent_expandable (bs "0e9999999")).
  { unfold exponent_expandable. rewrite E0. cbv zeta. split; [vm_compute; reflexivity|left; vm_compute; reflexivity]. }
  assert (A3 : ~ exponent_moderate (bs "0e9999999")).
  { unfold exponent_moderate. rewrite E0. cbv zeta. intros [_ Hb]. vm_compute in Hb. apply Hb. reflexivity. }
  assert (A4 : forall o, BigIntegerFromString o (bs "0e9999999") = Ok 0).
  { intros o. unfold BigIntegerFromString. rewrite E0. vm_compute. reflexivity. }
  assert (A5 : numeric_text (bs "1e1000001")) by (apply classified_numeric_text; rewrite E1; discriminate).
  assert (A6 : ~ exponent_expandable (bs "1e1000001")).
  { unfold exponent_expandable. rewrite E1. cbv zeta.
    intros [_ [Hb | Hb]]; vm_compute in Hb; [discriminate|apply Hb; reflexivity]. }
  assert (A7 : numeric_text (bs "1e9223372036854775808")) by (apply classified_numeric_text; rewrite E2; discriminate).
  assert (A8 : ~ exponent_expandable (bs "1e9223372036854775808")).
  { unfold exponent_expandable. rewrite E2. cbv zeta. intros [Hb _]. vm_compute in Hb. discriminate. }
  assert (A9 : numeric_text (bs "1e1000000")) by (apply classified_numeric_text; rewrite E3; discriminate).
  assert (A10 : exponent_expandable (bs "1e1000000")).
  { unfold exponent_expandable. rewrite E3. cbv zeta. split; [vm_compute; reflexivity|right; vm_compute; discriminate]. }
  exact (conj A1 (conj A2 (conj A3 (conj A4 (conj A5 (conj A6 (conj A7 (conj A8 (conj A9 A10))))))))).
Qed.
