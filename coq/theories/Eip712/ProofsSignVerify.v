(* C04 — the signature clause completed with C05's ECDSA theorems: when the signer of
   SignTypedDataV4 is pkg/secp256k1's KeyPair.SignDirect (Secp/Model.v, over any group satisfying the
   laws of Crypto/Ecdsa.v), the 65 bytes returned decode (DecodeCompactRSV) to a signature that
   RecoverDirect maps, for the reported hash, to the address of the signing key. *)
From Coq Require Import List NArith ZArith Bool Arith Lia.
From Coq Require Import Init.Byte.
From FFS Require Import Base.Res Base.Bytes Abi.Spec Crypto.Ecdsa.
From FFS Require Import Eip712.Util Eip712.Input Eip712.Numeric Eip712.Coerce Eip712.Model Eip712.ProofsSign.
From FFS Require Secp.Model Secp.Spec Secp.Proofs.
Import ListNotations.

Lemma be_fixedZ_eq k : forall z, be_fixedZ k z = Secp.Model.be_fixed k z.
Proof.
  induction k as [|k IH]; intros z; [reflexivity|].
  rewrite Secp.Proofs.be_fixed_S. cbn [be_fixedZ]. rewrite IH. reflexivity.
Qed.

Section Verify.
  Variable o : group_ops.
  Hypothesis L : laws o.
  Hypothesis Hn : (n o < Secp.Model.two256)%Z.
  Variable Hk : bytes -> bytes.                                   (* keccak256 of the address derivation *)
  Hypothesis HH : forall x, length (Hk x) = 32%nat.
  Variable nonce : Z -> bytes -> nat -> Z.
  Variable fuel : nat.
  Variable d : Z.                                                 (* the private key *)
  Hypothesis Hd : (1 <= d < n o)%Z.

  Definition key_signer (digest : bytes) : option (Z * Z * Z) :=
    match Secp.Model.SignDirect o nonce fuel d digest with
    | Ok sg => Some (Secp.Model.sR sg, Secp.Model.sS sg, Secp.Model.sV sg)
    | _ => None
    end.

  Theorem sign_verifies H big_other payload res c :
    (0 <= c <= 2 ^ 53)%Z ->
    SignTypedDataV4 H big_other key_signer payload = Ok res ->
    (r_V res = 27 \/ r_V res = 28)%Z ->
    exists sg,
      EncodeTypedDataV4 H big_other payload = Ok (r_hash res) /\
      Secp.Model.DecodeCompactRSV (r_signatureRSV res) = Ok sg /\
      Secp.Model.sV sg = r_V res /\
      Secp.Model.RecoverDirect o Hk sg (r_hash res) c = Ok (Secp.Proofs.addr_of o Hk (pub o d)).
  Proof.
    intros Hc Hs HV.
    destruct (sign_shape _ _ _ _ _ Hs) as (digest & R & S & V & Henc & Hsd & Hh & HR & HS & HVv & Hrsv & _).
    unfold key_signer in Hsd. destruct (Secp.Model.SignDirect o nonce fuel d digest) as [sg| |] eqn:Esg; try discriminate.
    injection Hsd as <- <- <-.
    destruct (Secp.Proofs.SignDirect_shape o L Hn nonce fuel d digest sg Esg) as (_ & HRr & HSr & _).
    assert (HV' : (Secp.Model.sV sg = 27 \/ Secp.Model.sV sg = 28)%Z) by (rewrite <- HVv; exact HV).
    assert (Hc' : Secp.Model.is_int64 c = true).
    { apply Secp.Proofs.is_int64_iff. change (2 ^ 53)%Z with 9007199254740992%Z in Hc. unfold Secp.Model.two63. lia. }
    destruct (Secp.Proofs.compact_roundtrip sg) as (b & _ & _ & Hdec & Hb); try lia.
    exists sg. subst digest. split; [exact Henc|]. split; [|split; [symmetry; exact HVv|]].
    - replace (r_signatureRSV res) with b; [exact Hdec|].
      rewrite Hb, Hrsv, HR, HS. rewrite !Z.abs_eq by lia. rewrite !be_fixedZ_eq. do 2 f_equal.
      rewrite Secp.Proofs.be_fixed_S. reflexivity.
    - destruct (Secp.Proofs.recover_all_conventions o L Hn Hk HH nonce fuel d (r_hash res) sg c c Hd Hc Hc' Esg HV') as (A & _).
      exact A.
  Qed.
End Verify.
