(* C14 — an integer member of typed data, at the level of encodeElement (Model.v): for a member type
   that the ABI type parser reads as int<M>/uint<M>, the value is encoded as the 32-byte word of the
   integer the coercion read — exactly when that integer is in range of the type — and is an error
   otherwise; hence the three canonical spellings of an integer give the same result, and no numeric
   text is ever encoded as another integer than the one it denotes. *)
From Coq Require Import String.
From Coq Require Import List NArith ZArith Bool Arith Lia.
From Coq Require Import Init.Byte.
From FFS Require Import Base.Res Base.Bytes Abi.Spec.
From FFS Require Import Eip712.Util Eip712.Input Eip712.Numeric Eip712.Coerce Eip712.Model.
From FFS Require Import Eip712.TotalProofsInput Eip712.TotalProofs Eip712.NumericProofs.
Import ListNotations.

(* the parser's int/uint entries carry a width for which posMax/negMax exist: 8..256, multiple of 8 *)
Lemma parse_m_suffix_int s v : parse_m_suffix 8 256 8 s = Ok v -> has_max v = true.
Proof.
  unfold parse_m_suffix. destruct (parse_uint 16 s) as [val|]; [|discriminate].
  destruct (negb (bytes_eqb (dec val) s)); [discriminate|].
  destruct ((val <? 8)%N || (256 <? val)%N) eqn:E; [discriminate|].
  destruct (negb (8 =? 0)%N && negb (val mod 8 =? 0)%N) eqn:E2; [discriminate|].
  intros Hv; injection Hv as <-. apply orb_false_iff in E. destruct E as [E1 E3].
  apply N.ltb_ge in E1, E3. cbn [N.eqb negb andb] in E2. apply negb_false_iff in E2.
  unfold has_max. rewrite (proj2 (N.leb_le _ _) E1), (proj2 (N.leb_le _ _) E3), E2. reflexivity.
Qed.

Definition is_int_base (b : ebase) : bool := match b with EInt | EUInt => true | _ => false end.

Lemma abi_elementary_type_int tn tc :
  abi_elementary_type tn = Ok tc -> is_int_base (e_base tc) = true -> has_max (e_m tc) = true.
Proof.
  unfold abi_elementary_type.
  destruct (span_lower tn) as [etStr rest]. destruct (span_not_bracket rest) as [suffix arrays].
  destruct (bytes_eqb etStr (bs "tuple")). { destruct suffix; discriminate. }
  destruct (base_of_name etStr) as [b|]; [|discriminate].
  intros Hb. apply bind_ok in Hb. destruct Hb as [tc0 [H0 H1]].
  destruct arrays; [|discriminate]. injection H1 as <-.
  destruct b; try (destruct suffix; try discriminate; injection H0 as <-; discriminate);
    try (injection H0 as <-; discriminate).
  - apply bind_ok in H0. destruct H0 as [m [Hp Hr]]. injection Hr as <-. intros _. simpl.
    apply (parse_m_suffix_int _ _ Hp).
  - apply bind_ok in H0. destruct H0 as [m [Hp Hr]]. injection Hr as <-. intros _. simpl.
    apply (parse_m_suffix_int _ _ Hp).
  - destruct suffix.
    + injection H0 as <-. discriminate.
    + apply bind_ok in H0. destruct H0 as [m [Hp Hr]]. injection Hr as <-. discriminate.
Qed.

Definition is_signed (b : ebase) : bool := match b with EInt => true | _ => false end.

Section Element.
  Variable H : bytes -> bytes.
  Variable big_other : bytes -> option Z.
  Variable allTypes : typeset.

  (* [tn] is an integer member type of this document: not an array type, not a struct name of the
     type set, and the ABI parser reads it as int<M> / uint<M> *)
  Definition integer_member_type (tn : bytes) (tc : etc) : Prop :=
    ends_with x5d tn = false /\ tlookup tn allTypes = None /\
    abi_elementary_type tn = Ok tc /\ is_int_base (e_base tc) = true.

  Lemma encodeElement_integer fuel tn tc v :
    integer_member_type tn tc ->
    encodeElement H big_other allTypes (S fuel) tn v =
      do z <- integer_of_gval big_other v;
      if is_signed (e_base tc) then encode_signed (e_m tc) z else encode_unsigned (e_m tc) z.
  Proof.
    intros [Hend [Hlk [Htc Hb]]]. cbn [encodeElement]. rewrite Hend, Hlk. cbn [is_some]. rewrite Htc. cbn [bind].
    unfold abi_encode. destruct (e_base tc); try discriminate; reflexivity.
  Qed.

  (* accepted  =>  the word of exactly the integer that was read, and that integer is in range;
     and conversely every in-range reading is accepted: never a different value *)
  Theorem integer_member_exact fuel tn tc v z :
    integer_member_type tn tc -> integer_of_gval big_other v = Ok z ->
    encodeElement H big_other allTypes (S fuel) tn v =
      if in_range (is_signed (e_base tc)) (e_m tc) z then Ok (word z)
      else Err (if is_signed (e_base tc) then ETooLarge
                else if (z <? 0)%Z then ENegativeUnsigned else ETooLarge).
  Proof.
    intros Hty Hz. rewrite (encodeElement_integer fuel tn tc v Hty), Hz. cbn [bind].
    destruct Hty as [_ [_ [Htc Hb]]].
    pose proof (abi_elementary_type_int _ _ Htc Hb) as Hmax.
    pose proof (abi_elementary_type_m _ _ Htc) as Hm.
    destruct (e_base tc); try discriminate; cbn [is_signed].
    - apply encode_signed_exact; exact Hmax.
    - apply encode_unsigned_exact; exact Hm.
  Qed.

  Theorem integer_member_unreadable fuel tn tc v e :
    integer_member_type tn tc -> integer_of_gval big_other v = Err e ->
    encodeElement H big_other allTypes (S fuel) tn v = Err e.
  Proof. intros Hty Hz. rewrite (encodeElement_integer fuel tn tc v Hty), Hz. reflexivity. Qed.

  (* the three spellings of z at an integer member: the same result, which is the word of z when z is
     in range of the type and an error when it is not *)
  Theorem spellings_agree_element fuel tn tc z :
    integer_member_type tn tc ->
    let r := if in_range (is_signed (e_base tc)) (e_m tc) z then Ok (word z)
             else Err (if is_signed (e_base tc) then ETooLarge
                       else if (z <? 0)%Z then ENegativeUnsigned else ETooLarge) in
    encodeElement H big_other allTypes (S fuel) tn (GNumber (dec_text z)) = r /\
    encodeElement H big_other allTypes (S fuel) tn (GString (dec_text z)) = r /\
    encodeElement H big_other allTypes (S fuel) tn (GString (hex_text z)) = r.
  Proof.
    intros Hty. cbv zeta. destruct (spellings_read_exactly big_other z) as [H1 [H2 H3]].
    repeat split; apply integer_member_exact; assumption.
  Qed.

  (* a JSON number (or a string in the same grammar) at an integer member that is hashed at all was
     read as an integer, the text denotes exactly that integer, it is in range, and the bytes are its
     word: an input that is not integral, or out of range, is therefore rejected *)
  Theorem integer_member_sound fuel tn tc v w :
    integer_member_type tn tc ->
    encodeElement H big_other allTypes (S fuel) tn v = Ok w ->
    exists z, integer_of_gval big_other v = Ok z /\
              in_range (is_signed (e_base tc)) (e_m tc) z = true /\ w = word z.
  Proof.
    intros Hty Hw. destruct (integer_of_gval big_other v) as [z|e|] eqn:Ez.
    - exists z. rewrite (integer_member_exact fuel tn tc v z Hty Ez) in Hw.
      destruct (in_range _ _ z); [|discriminate]. injection Hw as <-. repeat split; reflexivity.
    - rewrite (integer_member_unreadable fuel tn tc v e Hty Ez) in Hw. discriminate.
    - exfalso. apply (integer_of_gval_np _ _ Ez).
  Qed.
End Element.

(* what the coercion reads from a text in the modelled grammars is what the text denotes *)
Definition text_denotes (t : bytes) (z : Z) : Prop :=
  match classify t with
  | CDec neg ds => z = signed neg (dec_value ds)
  | CHex neg ds => z = signed neg (hex_value ds)
  | CSci neg ip fp eneg ed => sci_denotes neg ip fp eneg ed z
  | COther => False
  end.

Theorem BigIntegerFromString_sound o t z :
  classify t <> COther -> BigIntegerFromString o t = Ok z -> text_denotes t z.
Proof.
  unfold BigIntegerFromString, text_denotes. destruct (classify t); intros Hc Hz.
  - injection Hz as <-. reflexivity.
  - injection Hz as <-. reflexivity.
  - apply sci_value_exact. exact Hz.
  - congruence.
Qed.

(* non-vacuity: "int256" and "uint8" are integer member types of any type set not defining them *)
Example integer_member_type_int256 :
  integer_member_type [] (bs "int256") (mkEtc EInt 256 (bs "256")) /\
  integer_member_type [] (bs "uint8") (mkEtc EUInt 8 (bs "8")) /\
  integer_member_type [] (bs "uint") (mkEtc EUInt 256 (bs "256")).
Proof. repeat split; vm_compute; reflexivity. Qed.

Example spellings_2_63 :
  dec_text (2 ^ 63) = bs "9223372036854775808" /\ hex_text (2 ^ 63) = bs "0x8000000000000000" /\
  dec_text (- 2 ^ 255) = bs "-57896044618658097711785492504343953926634992332820282019728792003956564819968" /\
  hex_text (-128) = bs "-0x80" /\ in_range true 256 (2 ^ 63) = true /\ in_range true 64 (2 ^ 63) = false.
Proof. repeat split; vm_compute; reflexivity. Qed.
