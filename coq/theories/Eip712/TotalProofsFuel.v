(* C14 — the fuel of the model never runs out: for every type set and every value,
     - the dependency walk addNestedTypes started with fuel S |allTypes| (as encodeType does) and
     - encodeElement started with fuel S (gdepth v) (as HashStruct does)
   do not return [Err EOutOfFuel].  So the totality theorems of TotalProofs.v are not true "because the
   model gave up": an error of the model is an error value of the Go code, and the recursion of the Go
   code terminates (each descent of the walk marks a new type name of the finite type set; each
   descent of encodeElement goes into a strictly smaller value). *)
From Coq Require Import String.
From Coq Require Import List NArith ZArith Bool Arith Lia.
From Coq Require Import Init.Byte.
From FFS Require Import Base.Res Base.Bytes Abi.Spec.
From FFS Require Import Eip712.Util Eip712.Input Eip712.Numeric Eip712.Coerce Eip712.Model.
From FFS Require Import Eip712.TotalProofsInput Eip712.TotalProofs.
Import ListNotations.

Definition nf {A} (r : res A) : Prop := r <> Err EOutOfFuel.

Lemma bind_nf {A B} (r : res A) (f : A -> res B) :
  nf r -> (forall a, r = Ok a -> nf (f a)) -> nf (bind r f).
Proof. unfold nf. destruct r; simpl; intros H1 H2; [apply H2; reflexivity | intros E; apply H1; injection E as ->; reflexivity | discriminate]. Qed.

Ltac consts := unfold nf, EOutOfFuel, EBadInteger, EBadABIType, ENotElementary, EBadBool, EBadHex, EBadString,
  ENegativeUnsigned, ETooLarge, EInsufficientData, EUnsupportedType, EPrimaryTypeRequired, ETypeNotFound,
  EValueNotMap, EInvalidArraySuffix, EValueNotArray, EInvalidArrayLen, ENullTypeMember in *.
Ltac leaf := consts; repeat match goal with |- context [if ?c then _ else _] => destruct c end; discriminate.

(* ---------- leaves: none of them produces the out-of-fuel class ---------- *)
Lemma sci_value_nf neg ip fp eneg ed : nf (sci_value neg ip fp eneg ed).
Proof. unfold sci_value. cbv zeta. leaf. Qed.

Lemma BigIntegerFromString_nf o s : nf (BigIntegerFromString o s).
Proof.
  unfold BigIntegerFromString. destruct (classify s); try (consts; discriminate).
  - apply sci_value_nf.
  - destruct (o s); consts; discriminate.
Qed.

Lemma integer_of_gval_nf o v : nf (integer_of_gval o v).
Proof. destruct v; simpl; try (consts; discriminate); apply BigIntegerFromString_nf. Qed.

Lemma fill_bytes_nf k z : nf (fill_bytes k z).
Proof. unfold fill_bytes. leaf. Qed.
Lemma encode_unsigned_nf m z : nf (encode_unsigned m z).
Proof. unfold encode_unsigned, fill_bytes. leaf. Qed.
Lemma encode_signed_nf m z : nf (encode_signed m z).
Proof. unfold encode_signed, fill_bytes. leaf. Qed.
Lemma encode_fixed_bytes_nf m b : nf (encode_fixed_bytes m b).
Proof.
  unfold encode_fixed_bytes. cbv zeta. destruct (_ || _); [consts; discriminate|].
  apply bind_nf; [unfold slice; leaf|]. intros; consts; discriminate.
Qed.
Lemma get_bytes_nf v : nf (get_bytes v).
Proof. destruct v; simpl; try (consts; discriminate). destruct (hex_decode _); consts; discriminate. Qed.
Lemma get_string_nf v : nf (get_string v).
Proof. destruct v; simpl; consts; discriminate. Qed.
Lemma get_bool_nf v : nf (get_bool v).
Proof. destruct v; simpl; consts; discriminate. Qed.

Lemma abi_encode_nf o tc v : nf (abi_encode o tc v).
Proof.
  unfold abi_encode. destruct (e_base tc); try (consts; discriminate).
  - apply bind_nf; [apply integer_of_gval_nf|]. intros; apply encode_signed_nf.
  - apply bind_nf; [apply integer_of_gval_nf|]. intros; apply encode_unsigned_nf.
  - apply bind_nf; [apply get_bytes_nf|]. intros; apply encode_unsigned_nf.
  - apply bind_nf; [apply get_bool_nf|]. intros; apply encode_unsigned_nf.
  - apply bind_nf; [apply get_bytes_nf|]. intros; apply encode_fixed_bytes_nf.
Qed.

Lemma parse_m_suffix_nf a b c s : nf (parse_m_suffix a b c s).
Proof. unfold parse_m_suffix. destruct (parse_uint 16 s); [|consts; discriminate]. leaf. Qed.

Lemma abi_elementary_type_nf tn : nf (abi_elementary_type tn).
Proof.
  unfold abi_elementary_type.
  destruct (span_lower tn) as [etStr rest]. destruct (span_not_bracket rest) as [suffix arrays].
  destruct (bytes_eqb etStr (bs "tuple")). { destruct suffix; consts; discriminate. }
  destruct (base_of_name etStr) as [b|]; [|consts; discriminate].
  apply bind_nf.
  - destruct b; try (destruct suffix; consts; discriminate); try (consts; discriminate).
    + apply bind_nf; [apply parse_m_suffix_nf|]. intros; consts; discriminate.
    + apply bind_nf; [apply parse_m_suffix_nf|]. intros; consts; discriminate.
    + destruct suffix; [consts; discriminate|]. apply bind_nf; [apply parse_m_suffix_nf|]. intros; consts; discriminate.
  - intros tc _. destruct arrays; consts; discriminate.
Qed.

Lemma TypeMember_Encode_nf tm : nf (TypeMember_Encode tm).
Proof. destruct tm; simpl; consts; discriminate. Qed.
Lemma Type_Encode_members_nf first l : nf (Type_Encode_members first l).
Proof.
  revert first. induction l as [|tm r IH]; intros first; simpl; [consts; discriminate|].
  apply bind_nf; [apply TypeMember_Encode_nf|]. intros s _.
  apply bind_nf; [apply IH|]. intros; consts; discriminate.
Qed.
Lemma Type_Encode_nf name t : nf (Type_Encode name t).
Proof. unfold Type_Encode. apply bind_nf; [apply Type_Encode_members_nf|]. intros; consts; discriminate. Qed.
Lemma Type_Encode_all_nf ts names : nf (Type_Encode_all ts names).
Proof.
  induction names as [|n r IH]; simpl; [consts; discriminate|].
  apply bind_nf; [apply Type_Encode_nf|]. intros s _. apply bind_nf; [exact IH|]. intros; consts; discriminate.
Qed.
Lemma TypeSet_Encode_nf ts primary : nf (TypeSet_Encode ts primary).
Proof.
  unfold TypeSet_Encode, TypeSet_Encode_keys. apply bind_nf; [apply Type_Encode_nf|]. intros p _.
  apply bind_nf; [apply Type_Encode_all_nf|]. intros; consts; discriminate.
Qed.

(* ---------- the dependency walk ---------- *)
Section Walk.
  Variable allTypes : typeset.

  (* entries of the type set whose name the walk has not marked yet *)
  Definition unvisited (ts : typeset) : nat :=
    length (filter (fun kv : bytes * option gtype => is_nil_type (tget (fst kv) ts)) allTypes).

  (* marks are never removed *)
  Definition mono (ts ts' : typeset) : Prop :=
    forall k, is_nil_type (tget k ts') = true -> is_nil_type (tget k ts) = true.

  Lemma mono_refl ts : mono ts ts.
  Proof. intros k Hk; exact Hk. Qed.
  Lemma mono_trans a b c : mono a b -> mono b c -> mono a c.
  Proof. intros H1 H2 k Hk. apply H1, H2, Hk. Qed.

  Lemma filter_le {A} (p q : A -> bool) l :
    (forall x, p x = true -> q x = true) -> (length (filter p l) <= length (filter q l))%nat.
  Proof.
    intros Hpq. induction l as [|x l IH]; simpl; [lia|].
    destruct (p x) eqn:Ep; [rewrite (Hpq x Ep); simpl; lia|]. destruct (q x); simpl; lia.
  Qed.

  Lemma filter_lt {A} (p q : A -> bool) l x :
    (forall y, p y = true -> q y = true) -> In x l -> q x = true -> p x = false ->
    (length (filter p l) < length (filter q l))%nat.
  Proof.
    intros Hpq Hin Hq Hp. induction l as [|y l IH]; [destruct Hin|].
    simpl. destruct Hin as [->|Hin].
    - rewrite Hp, Hq. simpl. pose proof (filter_le p q l Hpq). lia.
    - specialize (IH Hin). destruct (p y) eqn:Ep; [rewrite (Hpq y Ep); simpl; lia|].
      destruct (q y); simpl; lia.
  Qed.

  Lemma unvisited_mono ts ts' : mono ts ts' -> (unvisited ts' <= unvisited ts)%nat.
  Proof. intros Hm. unfold unvisited. apply filter_le. intros [k t] Hk. apply Hm. exact Hk. Qed.

  Lemma tget_aset k name t ts : tget k (aset name t ts) = if bytes_eqb k name then t else tget k ts.
  Proof. unfold tget, tlookup. rewrite alookup_aset. destruct (bytes_eqb k name); reflexivity. Qed.

  Lemma alookup_in {V} k (m : list (bytes * V)) v : alookup k m = Some v -> In (k, v) m.
  Proof.
    induction m as [|[k' v'] m IH]; simpl; [discriminate|].
    destruct (bytes_eqb_spec k k') as [->|Hne]; [intros Hv; injection Hv as <-; left; reflexivity|].
    intros Hv. right. apply IH, Hv.
  Qed.

  (* marking an unmarked name of the type set with a non-nil type *)
  Lemma mono_aset name t ts : is_nil_type (tget name ts) = true -> mono ts (aset name t ts).
  Proof.
    intros Hn k Hk. rewrite tget_aset in Hk. destruct (bytes_eqb k name) eqn:E; [|exact Hk].
    destruct (bytes_eqb_spec k name) as [E'|]; [|discriminate]. rewrite E'. exact Hn.
  Qed.

  Lemma unvisited_aset name t ts :
    tlookup name allTypes = Some t -> is_nil_type (tget name ts) = true -> is_nil_type t = false ->
    (unvisited (aset name t ts) < unvisited ts)%nat.
  Proof.
    intros Hl Hn Ht. unfold unvisited. apply (filter_lt _ _ _ (name, t)).
    - intros kv Hk. apply (mono_aset name t ts Hn (fst kv)). exact Hk.
    - apply alookup_in. exact Hl.
    - simpl. exact Hn.
    - simpl. rewrite tget_aset. destruct (bytes_eqb_spec name name) as [_|Hne]; [exact Ht|congruence].
  Qed.

  Lemma ant_loop_mono rec ms ts ts' :
    (forall n s s', rec n s = Ok s' -> mono s s') -> ant_loop rec ms ts = Ok ts' -> mono ts ts'.
  Proof.
    intros Hrec. revert ts. induction ms as [|[tm|] r IH]; intros ts Hl; simpl in Hl.
    - injection Hl as <-. apply mono_refl.
    - apply bind_ok in Hl. destruct Hl as [s1 [H1 Hl]].
      apply (mono_trans _ s1); [apply (Hrec _ _ _ H1)|apply (IH _ Hl)].
    - discriminate.
  Qed.

  Lemma addNestedTypes_mono fuel : forall n ts ts', addNestedTypes fuel n allTypes ts = Ok ts' -> mono ts ts'.
  Proof.
    induction fuel as [|f IH]; intros n ts ts' Hr; [discriminate|].
    rewrite addNestedTypes_S in Hr. cbv zeta in Hr.
    destruct (tlookup (strip_array n) allTypes) as [t|]; [|injection Hr as <-; apply mono_refl].
    destruct (is_nil_type (tget (strip_array n) ts)) eqn:En; [|injection Hr as <-; apply mono_refl].
    apply (mono_trans _ (aset (strip_array n) t ts)); [apply mono_aset; exact En|].
    apply (ant_loop_mono _ _ _ _ (fun n s s' Hs => IH n s s' Hs) Hr).
  Qed.

  Lemma ant_loop_nf rec ms ts bound :
    (forall n s, (unvisited s <= bound)%nat -> nf (rec n s)) ->
    (forall n s s', rec n s = Ok s' -> mono s s') ->
    (unvisited ts <= bound)%nat -> nf (ant_loop rec ms ts).
  Proof.
    intros Hnf Hm. revert ts. induction ms as [|[tm|] r IH]; intros ts Hb; simpl; try (consts; discriminate).
    apply bind_nf; [apply Hnf; exact Hb|]. intros s1 H1. apply IH.
    pose proof (unvisited_mono _ _ (Hm _ _ _ H1)). lia.
  Qed.

  Lemma addNestedTypes_nf fuel : forall n ts, (unvisited ts < fuel)%nat -> nf (addNestedTypes fuel n allTypes ts).
  Proof.
    induction fuel as [|f IH]; intros n ts Hu; [lia|].
    rewrite addNestedTypes_S. cbv zeta.
    destruct (tlookup (strip_array n) allTypes) as [t|] eqn:El; [|consts; discriminate].
    destruct (is_nil_type (tget (strip_array n) ts)) eqn:En; [|consts; discriminate].
    destruct t as [ms|].
    - (* a real member list: the name is marked now, one fewer unvisited *)
      pose proof (unvisited_aset _ _ ts El En eq_refl) as Hlt.
      apply (ant_loop_nf _ _ _ (unvisited (aset (strip_array n) (Some ms) ts))); [| |lia].
      + intros n' s Hs. apply IH. lia.
      + intros n' s s' Hs. apply (addNestedTypes_mono f n' s s' Hs).
    - (* a nil Type has no members: nothing to descend into *)
      simpl. consts; discriminate.
  Qed.

  Lemma unvisited_le ts : (unvisited ts <= length allTypes)%nat.
  Proof.
    unfold unvisited. generalize allTypes. intros l0. induction l0 as [|x l IH]; simpl; [lia|].
    destruct (is_nil_type _); simpl; lia.
  Qed.
End Walk.

(* ---------- values ---------- *)
Lemma gdepth_slice_in ve l : In ve l -> (gdepth ve < gdepth (GSlice l))%nat.
Proof.
  intros Hin. cbn [gdepth]. induction l as [|x l IH]; [destruct Hin|].
  cbn [fold_right]. destruct Hin as [->|Hin]; [lia|]. specialize (IH Hin). lia.
Qed.

Lemma gdepth_glookup k m : (gdepth (glookup k m) < gdepth (GMap m))%nat.
Proof.
  unfold glookup. cbn [gdepth]. induction m as [|[k' v] m IH]; cbn [alookup fold_right]; [simpl; lia|].
  destruct (bytes_eqb k k'); cbn [snd]; [lia|]. lia.
Qed.

Section Fuel.
  Variable H : bytes -> bytes.
  Variable big_other : bytes -> option Z.

  Lemma encodeType_nf allTypes typeName : nf (encodeType allTypes typeName).
  Proof.
    unfold encodeType. destruct (tget typeName allTypes); [|consts; discriminate].
    apply bind_nf.
    - apply addNestedTypes_nf. pose proof (unvisited_le allTypes []). lia.
    - intros d _. apply bind_nf; [apply TypeSet_Encode_nf|]. intros; consts; discriminate.
  Qed.

  Lemma ed_loop_nf enc vMap ms :
    (forall tn k, nf (enc tn (glookup k vMap))) -> nf (ed_loop enc vMap ms).
  Proof.
    intros Henc. induction ms as [|[tm|] r IH]; simpl; try (consts; discriminate).
    apply bind_nf; [apply Henc|]. intros b _. apply bind_nf; [exact IH|]. intros; consts; discriminate.
  Qed.

  Lemma encodeData_nf allTypes enc typeName v :
    (forall vMap, v = GMap vMap -> forall tn k, nf (enc tn (glookup k vMap))) ->
    nf (encodeData H allTypes enc typeName v).
  Proof.
    intros Henc. unfold encodeData. apply bind_nf; [apply encodeType_nf|]. intros [t te] _.
    destruct v; try (consts; discriminate).
    apply bind_nf; [|intros; consts; discriminate]. apply (ed_loop_nf enc m t). apply (Henc m eq_refl).
  Qed.

  Lemma hashStruct_nf allTypes enc typeName v :
    (forall vMap, v = GMap vMap -> forall tn k, nf (enc tn (glookup k vMap))) ->
    nf (hashStruct H big_other allTypes enc typeName v).
  Proof.
    intros Henc. unfold hashStruct. apply bind_nf; [apply encodeData_nf; exact Henc|]. intros [e|] _; [consts; discriminate|].
    destruct (abi_elementary_type (bs "bytes32")); try (consts; discriminate).
    destruct (abi_encode big_other a (GString zero_hex)); consts; discriminate.
  Qed.

  Lemma ha_loop_nf enc trimmed l :
    (forall ve, In ve l -> nf (enc trimmed ve)) -> nf (ha_loop enc trimmed l).
  Proof.
    induction l as [|ve r IH]; intros Henc; simpl; [consts; discriminate|].
    apply bind_nf; [apply Henc; left; reflexivity|]. intros b _.
    apply bind_nf; [apply IH; intros; apply Henc; right; assumption|]. intros; consts; discriminate.
  Qed.

  Lemma hashArray_nf enc typeName v :
    (forall l, v = GSlice l -> forall tn ve, In ve l -> nf (enc tn ve)) -> nf (hashArray H enc typeName v).
  Proof.
    intros Henc. unfold hashArray. cbv zeta.
    destruct (last_index_byte x5b typeName) as [[|p]|]; try (consts; discriminate).
    apply bind_nf; [unfold index; destruct (nth_error _ _); consts; discriminate|]. intros lastb _.
    destruct (negb (byte_eqb lastb x5d)); [consts; discriminate|].
    apply bind_nf; [unfold slice; leaf|]. intros dimStr _.
    apply bind_nf; [unfold slice; leaf|]. intros trimmed _.
    destruct v; try (consts; discriminate).
    apply bind_nf.
    - destruct dimStr; [consts; discriminate|]. destruct (atoi _); [|consts; discriminate].
      destruct (_ =? _)%Z; consts; discriminate.
    - intros _ _. apply bind_nf; [|intros; consts; discriminate].
      apply (ha_loop_nf enc trimmed l). intros ve Hin. apply (Henc l eq_refl trimmed ve Hin).
  Qed.

  (* enough fuel for the value: strictly more than its depth *)
  Theorem encodeElement_nf allTypes fuel : forall typeName v,
    (gdepth v < fuel)%nat -> nf (encodeElement H big_other allTypes fuel typeName v).
  Proof.
    induction fuel as [|f IH]; intros typeName v Hd; [lia|].
    cbn [encodeElement].
    destruct (ends_with x5d typeName).
    { apply hashArray_nf. intros l -> tn ve Hin. apply IH. pose proof (gdepth_slice_in ve l Hin). lia. }
    destruct (is_some (tlookup typeName allTypes)).
    { apply hashStruct_nf. intros vMap -> tn k. apply IH. pose proof (gdepth_glookup k vMap). lia. }
    apply bind_nf; [apply abi_elementary_type_nf|]. intros tc _.
    destruct (e_base tc); try (consts; discriminate); try apply abi_encode_nf.
    - destruct (e_suffix tc); [|apply abi_encode_nf].
      apply bind_nf; [apply get_bytes_nf|]. intros; consts; discriminate.
    - apply bind_nf; [apply get_string_nf|]. intros; consts; discriminate.
  Qed.

  Lemma HashStruct_nf typeName v allTypes : nf (HashStruct H big_other typeName v allTypes).
  Proof.
    unfold HashStruct. apply hashStruct_nf. intros vMap -> tn k.
    apply encodeElement_nf. unfold fuel_of. pose proof (gdepth_glookup k vMap). lia.
  Qed.

  Theorem EncodeTypedDataV4_fuel (payload : option typed_data) :
    EncodeTypedDataV4 H big_other payload <> Err EOutOfFuel.
  Proof.
    change (nf (EncodeTypedDataV4 H big_other payload)).
    unfold EncodeTypedDataV4. destruct payload as [p|]; [|consts; discriminate]. cbv zeta.
    destruct (td_primary p); [consts; discriminate|].
    apply bind_nf; [apply HashStruct_nf|]. intros dh _.
    destruct (negb _); [|consts; discriminate].
    apply bind_nf; [apply HashStruct_nf|]. intros; consts; discriminate.
  Qed.

  Theorem SignTypedDataV4_fuel sign_direct (payload : option typed_data) :
    SignTypedDataV4 H big_other sign_direct payload <> Err EOutOfFuel.
  Proof.
    change (nf (SignTypedDataV4 H big_other sign_direct payload)). unfold SignTypedDataV4.
    apply bind_nf; [apply EncodeTypedDataV4_fuel|]. intros d _.
    destruct (sign_direct d) as [[[r s] v]|]; [|unfold ESigner; consts; discriminate].
    apply bind_nf; [apply fill_bytes_nf|]. intros rb _.
    apply bind_nf; [apply fill_bytes_nf|]. intros; consts; discriminate.
  Qed.
End Fuel.
