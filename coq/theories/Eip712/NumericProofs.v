(* C14 — exactness of the numeric coercion (Numeric.v) and of the integer word encoders (Coerce.v):
   - the canonical decimal text (as a JSON number or as a string) and the canonical 0x-hex string of an
     integer z are all read as exactly z;
   - whatever a text in the decimal / hex / scientific grammars is read as, is exactly what it denotes
     (a scientific text is accepted only when m * 10^n is an integer);
   - an int<M>/uint<M> member is encoded as the 32-byte word of z exactly when z is in range of the
     type, and is an error otherwise. *)
From Coq Require Import String.
From Coq Require Import List NArith ZArith Bool Arith Lia.
From Coq Require Import Init.Byte.
From FFS Require Import Base.Res Base.Bytes Abi.Spec.
From FFS Require Import Eip712.Util Eip712.Input Eip712.Numeric Eip712.Coerce.
Import ListNotations.

(* ---------- positional printers, generic in the base ---------- *)
Section Printer.
  Variable base : N.
  Variable chr : N -> byte.
  Variable val : byte -> Z.
  Hypothesis base_ge2 : (2 <= base)%N.
  Hypothesis val_chr : forall d, (d < base)%N -> val (chr d) = Z.of_N d.

  Fixpoint pr_go (fuel : nat) (n : N) (acc : bytes) : bytes :=
    match fuel with
    | O => acc
    | S f => let acc' := chr (n mod base) :: acc in
             if (n <? base)%N then acc' else pr_go f (n / base) acc'
    end.

  Lemma pr_go_S f n acc :
    pr_go (S f) n acc = if (n <? base)%N then chr (n mod base) :: acc
                        else pr_go f (n / base) (chr (n mod base) :: acc).
  Proof. reflexivity. Qed.

  Definition step (a : Z) (b : byte) : Z := (a * Z.of_N base + val b)%Z.

  Lemma div_fits f n : (base <= n)%N -> (n < 2 ^ N.of_nat (S (S f)))%N -> (n / base < 2 ^ N.of_nat (S f))%N.
  Proof.
    intros Hb Hn. apply N.div_lt_upper_bound; [lia|].
    replace (N.of_nat (S (S f))) with (N.succ (N.of_nat (S f))) in Hn by lia.
    rewrite N.pow_succ_r' in Hn. nia.
  Qed.

  Lemma small_fuel n : (base <= n)%N -> (n < 2 ^ N.of_nat 1)%N -> False.
  Proof. simpl. intros; lia. Qed.

  (* reading back what was printed *)
  Lemma pr_go_value f : forall n acc, (n < 2 ^ N.of_nat (S f))%N ->
    fold_left step (pr_go (S f) n acc) 0%Z = fold_left step acc (Z.of_N n).
  Proof.
    induction f as [|f IH]; intros n acc Hn; rewrite pr_go_S.
    - destruct (n <? base)%N eqn:E.
      + apply N.ltb_lt in E. cbn [fold_left]. unfold step at 2. rewrite N.mod_small by exact E.
        rewrite val_chr by exact E. f_equal.
      + apply N.ltb_ge in E. exfalso. apply (small_fuel n E Hn).
    - destruct (n <? base)%N eqn:E.
      + apply N.ltb_lt in E. cbn [fold_left]. unfold step at 2. rewrite N.mod_small by exact E.
        rewrite val_chr by exact E. f_equal.
      + apply N.ltb_ge in E. rewrite IH by (apply div_fits; assumption).
        cbn [fold_left]. unfold step at 2. rewrite val_chr by (apply N.mod_lt; lia).
        f_equal. rewrite N2Z.inj_div, N2Z.inj_mod.
        pose proof (Z.div_mod (Z.of_N n) (Z.of_N base) ltac:(lia)). lia.
  Qed.

  Variable ok : byte -> bool.
  Hypothesis ok_chr : forall d, (d < base)%N -> ok (chr d) = true.

  Lemma pr_go_all f : forall n acc, forallb ok acc = true -> forallb ok (pr_go f n acc) = true.
  Proof.
    induction f as [|f IH]; intros n acc Ha; [exact Ha|]; rewrite pr_go_S.
    assert (Hc : forallb ok (chr (n mod base) :: acc) = true).
    { cbn [forallb]. rewrite ok_chr by (apply N.mod_lt; lia). exact Ha. }
    destruct (n <? base)%N; [exact Hc|apply IH; exact Hc].
  Qed.

  (* the first character of a positive number is a non-zero digit *)
  Lemma pr_go_head f : forall n acc, (1 <= n)%N -> (n < 2 ^ N.of_nat (S f))%N ->
    exists d r, pr_go (S f) n acc = chr d :: r /\ (1 <= d < base)%N.
  Proof.
    induction f as [|f IH]; intros n acc H1 Hn; rewrite pr_go_S.
    - destruct (n <? base)%N eqn:E.
      + apply N.ltb_lt in E. exists n, acc. rewrite N.mod_small by exact E. split; [reflexivity|lia].
      + apply N.ltb_ge in E. exfalso. apply (small_fuel n E Hn).
    - destruct (n <? base)%N eqn:E.
      + apply N.ltb_lt in E. exists n, acc. rewrite N.mod_small by exact E. split; [reflexivity|lia].
      + apply N.ltb_ge in E. apply IH; [|apply div_fits; assumption].
        apply N.div_le_lower_bound; lia.
  Qed.

  Lemma pr_go_zero f acc : pr_go (S f) 0 acc = chr 0 :: acc.
  Proof. rewrite pr_go_S. rewrite N.mod_0_l by lia. replace (0 <? base)%N with true; [reflexivity|]. symmetry. apply N.ltb_lt. lia. Qed.

  Lemma pr_go_nonempty f n acc : pr_go (S f) n acc <> [].
  Proof.
    revert n acc. induction f as [|f IH]; intros n acc; rewrite pr_go_S.
    - destruct (n <? base)%N; discriminate.
    - destruct (n <? base)%N; [discriminate|]. apply IH.
  Qed.
End Printer.

Lemma log2_fuel n : (n < 2 ^ N.of_nat (S (N.to_nat (N.log2 n))))%N.
Proof.
  rewrite Nat2N.inj_succ, N2Nat.id.
  destruct n as [|p]; [reflexivity|]. apply N.log2_spec. lia.
Qed.

(* ---------- decimal: Util.dec ---------- *)
Lemma dec_go_is_pr f : forall n acc, dec_go f n acc = pr_go 10 digit f n acc.
Proof. induction f as [|f IH]; intros n acc; cbn [dec_go pr_go]; cbv zeta; [reflexivity|]. rewrite IH. reflexivity. Qed.

Lemma b2n_digit d : (d < 10)%N -> b2n (digit d) = (48 + d)%N.
Proof. intros H. unfold digit. apply b2n_n2b. lia. Qed.

Lemma digit_val_digit d : (d < 10)%N -> digit_val (digit d) = Z.of_N d.
Proof. intros H. unfold digit_val. rewrite b2n_digit by exact H. lia. Qed.

Lemma is_digit_digit d : (d < 10)%N -> Numeric.is_digit (digit d) = true.
Proof.
  intros H. unfold Numeric.is_digit. cbv zeta. rewrite b2n_digit by exact H.
  apply andb_true_iff; split; apply N.leb_le; lia.
Qed.

Lemma dec_value_step ds : dec_value ds = fold_left (step 10 digit_val) ds 0%Z.
Proof. reflexivity. Qed.

Lemma dec_value_dec n : dec_value (dec n) = Z.of_N n.
Proof.
  unfold dec. rewrite dec_go_is_pr, dec_value_step.
  rewrite (pr_go_value 10 digit digit_val ltac:(lia) digit_val_digit) by apply log2_fuel. reflexivity.
Qed.

Lemma dec_all_digits n : forallb Numeric.is_digit (dec n) = true.
Proof.
  unfold dec. rewrite dec_go_is_pr.
  apply (pr_go_all 10 digit ltac:(lia) Numeric.is_digit is_digit_digit). reflexivity.
Qed.

Lemma dec_nonempty n : dec n <> [].
Proof. unfold dec. rewrite dec_go_is_pr. apply pr_go_nonempty. Qed.

Lemma dec_head n : (1 <= n)%N -> exists d r, dec n = digit d :: r /\ (1 <= d < 10)%N.
Proof. intros H. unfold dec. rewrite dec_go_is_pr. apply pr_go_head; [lia|exact H|apply log2_fuel]. Qed.

Lemma dec_zero : dec 0 = [x30].
Proof. reflexivity. Qed.

(* ---------- hexadecimal printer (spec side): lower-case, no leading zeros ---------- *)
Definition hexchr (d : N) : byte := if (d <? 10)%N then n2b (48 + d) else n2b (87 + d).
Definition hexs (n : N) : bytes := pr_go 16 hexchr (S (N.to_nat (N.log2 n))) n [].

Lemma hex_val_hexchr d : (d < 16)%N -> hex_val (hexchr d) = Some (Z.of_N d).
Proof.
  intros H. unfold hexchr, hex_val. cbv zeta. destruct (d <? 10)%N eqn:E.
  - apply N.ltb_lt in E. rewrite b2n_n2b by lia.
    replace ((48 <=? 48 + d)%N && (48 + d <=? 57)%N) with true
      by (symmetry; apply andb_true_iff; split; apply N.leb_le; lia).
    f_equal. lia.
  - apply N.ltb_ge in E. rewrite b2n_n2b by lia.
    replace ((48 <=? 87 + d)%N && (87 + d <=? 57)%N) with false
      by (symmetry; apply andb_false_iff; right; apply N.leb_gt; lia).
    replace ((97 <=? 87 + d)%N && (87 + d <=? 102)%N) with true
      by (symmetry; apply andb_true_iff; split; apply N.leb_le; lia).
    f_equal. lia.
Qed.

Definition hexv' (b : byte) : Z := match hex_val b with Some d => d | None => 0%Z end.
Lemma hexv'_hexchr d : (d < 16)%N -> hexv' (hexchr d) = Z.of_N d.
Proof. intros H. unfold hexv'. rewrite hex_val_hexchr by exact H. reflexivity. Qed.
Lemma is_hex_hexchr d : (d < 16)%N -> is_hex (hexchr d) = true.
Proof. intros H. unfold is_hex. rewrite hex_val_hexchr by exact H. reflexivity. Qed.

Lemma hex_value_hexs n : hex_value (hexs n) = Z.of_N n.
Proof.
  unfold hexs. change (hex_value ?l) with (fold_left (step 16 hexv') l 0%Z).
  rewrite (pr_go_value 16 hexchr hexv' ltac:(lia) hexv'_hexchr) by apply log2_fuel. reflexivity.
Qed.
Lemma hexs_all_hex n : forallb is_hex (hexs n) = true.
Proof. unfold hexs. apply (pr_go_all 16 hexchr ltac:(lia) is_hex is_hex_hexchr). reflexivity. Qed.
Lemma hexs_nonempty n : hexs n <> [].
Proof. unfold hexs. apply pr_go_nonempty. Qed.

(* ---------- the three canonical spellings of an integer ---------- *)
Definition sign_text (z : Z) : bytes := if (z <? 0)%Z then [x2d] else [].
Definition dec_text (z : Z) : bytes := sign_text z ++ dec (Z.abs_N z).
Definition hex_text (z : Z) : bytes := sign_text z ++ [x30; x78] ++ hexs (Z.abs_N z).

Lemma span_digits_all ds : forallb Numeric.is_digit ds = true -> span_digits ds = (ds, []).
Proof.
  induction ds as [|b r IH]; intros H; [reflexivity|].
  cbn [forallb] in H. apply andb_true_iff in H. destruct H as [Hb Hr].
  cbn [span_digits]. rewrite Hb, (IH Hr). reflexivity.
Qed.

Lemma byte_is_digit_false k d : (d < 10)%N -> (k < 48 \/ 57 < k)%N -> byte_is k (digit d) = false.
Proof. intros Hd Hk. unfold byte_is. rewrite b2n_digit by exact Hd. apply N.eqb_neq. lia. Qed.

(* a canonical decimal digit string is classified as a decimal integer *)
Lemma classify_unsigned_dec neg n : classify_unsigned neg (dec n) = CDec neg (dec n).
Proof.
  unfold classify_unsigned.
  assert (Hhex : match dec n with
                 | z :: x :: h => if byte_is 48 z && (byte_is 120 x || byte_is 88 x)
                                  then Some (match h with _ :: _ => if forallb is_hex h then CHex neg h else COther | [] => COther end)
                                  else None
                 | _ => None end = None).
  { pose proof (dec_all_digits n) as Hall.
    destruct (dec n) as [|z [|x h]]; try reflexivity.
    cbn [forallb] in Hall. apply andb_true_iff in Hall. destruct Hall as [_ Hall].
    apply andb_true_iff in Hall. destruct Hall as [Hx _].
    unfold Numeric.is_digit in Hx. cbv zeta in Hx. apply andb_true_iff in Hx. destruct Hx as [H1 H2].
    apply N.leb_le in H1, H2.
    replace (byte_is 120 x) with false by (symmetry; apply N.eqb_neq; lia).
    replace (byte_is 88 x) with false by (symmetry; apply N.eqb_neq; lia).
    rewrite andb_false_r. reflexivity. }
  rewrite Hhex. rewrite (span_digits_all _ (dec_all_digits n)).
  assert (Hip : int_part_ok (dec n) = true).
  { destruct (N.eq_dec n 0) as [->|Hn]; [reflexivity|].
    destruct (dec_head n ltac:(lia)) as [d [r [E Hd]]]. rewrite E.
    destruct r; [reflexivity|]. cbn [int_part_ok]. unfold byte_is. rewrite b2n_digit by lia.
    replace (48 + d =? 48)%N with false by (symmetry; apply N.eqb_neq; lia). reflexivity. }
  rewrite Hip. reflexivity.
Qed.

Lemma classify_unsigned_hex neg n : classify_unsigned neg ([x30; x78] ++ hexs n) = CHex neg (hexs n).
Proof.
  unfold classify_unsigned. cbn [app].
  replace (byte_is 48 x30 && (byte_is 120 x78 || byte_is 88 x78)) with true by reflexivity.
  pose proof (hexs_nonempty n) as Hne. pose proof (hexs_all_hex n) as Hall.
  destruct (hexs n) as [|h t]; [congruence|]. rewrite Hall. reflexivity.
Qed.

(* the first character of a digit string is neither '-' nor '+' *)
Lemma classify_nonneg_dec n : classify (dec n) = CDec false (dec n).
Proof.
  unfold classify. pose proof (dec_nonempty n) as Hne. pose proof (dec_all_digits n) as Hall.
  pose proof (classify_unsigned_dec false n) as Hc.
  destruct (dec n) as [|b r]; [congruence|].
  cbn [forallb] in Hall. apply andb_true_iff in Hall. destruct Hall as [Hb _].
  unfold Numeric.is_digit in Hb. cbv zeta in Hb. apply andb_true_iff in Hb. destruct Hb as [H1 H2].
  apply N.leb_le in H1, H2.
  replace (byte_is 45 b) with false by (symmetry; apply N.eqb_neq; lia).
  replace (byte_is 43 b) with false by (symmetry; apply N.eqb_neq; lia).
  exact Hc.
Qed.

Lemma classify_dec_text z : classify (dec_text z) = CDec (z <? 0)%Z (dec (Z.abs_N z)).
Proof.
  unfold dec_text, sign_text. destruct (z <? 0)%Z.
  - cbn [app classify]. replace (byte_is 45 x2d) with true by reflexivity. apply classify_unsigned_dec.
  - cbn [app]. apply classify_nonneg_dec.
Qed.

Lemma classify_hex_text z : classify (hex_text z) = CHex (z <? 0)%Z (hexs (Z.abs_N z)).
Proof.
  unfold hex_text, sign_text. destruct (z <? 0)%Z.
  - cbn [app classify]. replace (byte_is 45 x2d) with true by reflexivity.
    apply (classify_unsigned_hex true).
  - cbn [app classify]. replace (byte_is 45 x30) with false by reflexivity.
    replace (byte_is 43 x30) with false by reflexivity. apply (classify_unsigned_hex false).
Qed.

Lemma signed_abs z : signed (z <? 0)%Z (Z.of_N (Z.abs_N z)) = z.
Proof.
  unfold signed. rewrite N2Z.inj_abs_N. destruct (z <? 0)%Z eqn:E.
  - apply Z.ltb_lt in E. lia.
  - apply Z.ltb_ge in E. lia.
Qed.

Section Exact.
  Variable big_other : bytes -> option Z.

  (* ---- every integer, in each canonical spelling, is read as exactly that integer ---- *)
  Theorem BigIntegerFromString_dec z : BigIntegerFromString big_other (dec_text z) = Ok z.
  Proof. unfold BigIntegerFromString. rewrite classify_dec_text, dec_value_dec, signed_abs. reflexivity. Qed.

  Theorem BigIntegerFromString_hex z : BigIntegerFromString big_other (hex_text z) = Ok z.
  Proof. unfold BigIntegerFromString. rewrite classify_hex_text, hex_value_hexs, signed_abs. reflexivity. Qed.

  Theorem spellings_read_exactly z :
    integer_of_gval big_other (GNumber (dec_text z)) = Ok z /\
    integer_of_gval big_other (GString (dec_text z)) = Ok z /\
    integer_of_gval big_other (GString (hex_text z)) = Ok z.
  Proof.
    cbn [integer_of_gval]. repeat split; [apply BigIntegerFromString_dec | apply BigIntegerFromString_dec | apply BigIntegerFromString_hex].
  Qed.

  (* ---- what a text in the scientific grammar is read as is exactly what it denotes ----
     mantissa m = the digits ip ++ fp read in base 10, exponent e = the signed digits ed, so the
     text denotes  (+/-) m * 10^(e - |fp|).  Stated without rationals: *)
  Definition sci_denotes (neg : bool) (ip fp : bytes) (eneg : bool) (ed : bytes) (z : Z) : Prop :=
    let m := dec_value (ip ++ fp) in
    let n := (signed eneg (dec_value ed) - Z.of_nat (length fp))%Z in
    if (0 <=? n)%Z then z = signed neg (m * 10 ^ n)%Z
    else (z * 10 ^ (- n) = signed neg m)%Z.

  Theorem sci_value_exact neg ip fp eneg ed z :
    sci_value neg ip fp eneg ed = Ok z -> sci_denotes neg ip fp eneg ed z.
  Proof.
    unfold sci_value, sci_denotes. cbv zeta.
    set (m := dec_value (ip ++ fp)). set (e := signed eneg (dec_value ed)).
    set (n := (e - Z.of_nat (length fp))%Z).
    destruct (negb (int64_ok e)); [discriminate|].
    destruct (m =? 0)%Z eqn:Em.
    - apply Z.eqb_eq in Em. intros Hz; injection Hz as <-. rewrite Em.
      destruct (0 <=? n)%Z; unfold signed; destruct neg; simpl; lia.
    - destruct (Z.abs n >? 1000000)%Z; [discriminate|].
      destruct (0 <=? n)%Z eqn:En.
      + intros Hz; injection Hz as <-. reflexivity.
      + apply Z.leb_gt in En.
        destruct (m mod 10 ^ (- n) =? 0)%Z eqn:Ed; [|discriminate].
        apply Z.eqb_eq in Ed. intros Hz; injection Hz as <-.
        assert (Hp : (0 < 10 ^ (- n))%Z) by (apply Z.pow_pos_nonneg; lia).
        pose proof (Z.div_mod m (10 ^ (- n)) ltac:(lia)) as Hdm. rewrite Ed in Hdm.
        unfold signed. destruct neg; nia.
  Qed.

  (* a scientific text that does not denote an integer is refused *)
  Corollary sci_value_non_integer neg ip fp eneg ed :
    (forall z, ~ sci_denotes neg ip fp eneg ed z) -> exists e, sci_value neg ip fp eneg ed = Err e.
  Proof.
    intros Hno. destruct (sci_value neg ip fp eneg ed) as [z|e|] eqn:E.
    - exfalso. apply (Hno z). apply sci_value_exact. exact E.
    - exists e. reflexivity.
    - exfalso. revert E. clear. unfold sci_value. cbv zeta.
      repeat match goal with |- context [if ?c then _ else _] => destruct c end; discriminate.
  Qed.
End Exact.

(* ---------- the word encoders are exact on the range of the type and refuse everything else ---------- *)
Definition in_range (sgn : bool) (m : N) (z : Z) : bool :=
  if sgn then (- 2 ^ (Z.of_N m - 1) <=? z)%Z && (z <? 2 ^ (Z.of_N m - 1))%Z
  else (0 <=? z)%Z && (z <? 2 ^ Z.of_N m)%Z.

Lemma two_256 : two 256 = (2 ^ 256)%Z.
Proof. reflexivity. Qed.

Lemma fill_bytes_word z : (0 <= z < 2 ^ 256)%Z -> fill_bytes 32 z = Ok (word z).
Proof.
  intros Hz. unfold fill_bytes. replace (256 ^ Z.of_nat 32)%Z with (2 ^ 256)%Z by reflexivity.
  rewrite Z.abs_eq by lia. replace (z <? 2 ^ 256)%Z with true by (symmetry; apply Z.ltb_lt; lia).
  unfold word. rewrite two_256, Z.mod_small by lia. reflexivity.
Qed.

Lemma bitlen_le m z : (0 <= z)%Z -> (Z.of_N m <? bitlen z)%Z = negb (z <? 2 ^ Z.of_N m)%Z.
Proof.
  intros Hz. unfold bitlen. destruct (z =? 0)%Z eqn:E0.
  - apply Z.eqb_eq in E0. subst z.
    replace (Z.of_N m <? 0)%Z with false by (symmetry; apply Z.ltb_ge; lia).
    replace (0 <? 2 ^ Z.of_N m)%Z with true by (symmetry; apply Z.ltb_lt; apply Z.pow_pos_nonneg; lia).
    reflexivity.
  - apply Z.eqb_neq in E0.
    destruct (z <? 2 ^ Z.of_N m)%Z eqn:E.
    + apply Z.ltb_lt in E. apply Z.log2_lt_pow2 in E; [|lia]. simpl. apply Z.ltb_ge. lia.
    + apply Z.ltb_ge in E. simpl. apply Z.ltb_lt.
      assert (Z.of_N m <= Z.log2 z)%Z; [|lia]. apply Z.log2_le_pow2; lia.
Qed.

Theorem encode_unsigned_exact m z : (m <= 256)%N ->
  encode_unsigned m z = if in_range false m z then Ok (word z)
                        else Err (if (z <? 0)%Z then ENegativeUnsigned else ETooLarge).
Proof.
  intros Hm. unfold encode_unsigned, in_range.
  destruct (z <? 0)%Z eqn:E0.
  - apply Z.ltb_lt in E0. replace (0 <=? z)%Z with false by (symmetry; apply Z.leb_gt; lia). reflexivity.
  - apply Z.ltb_ge in E0. replace (0 <=? z)%Z with true by (symmetry; apply Z.leb_le; lia).
    rewrite bitlen_le by lia. cbn [andb]. destruct (z <? 2 ^ Z.of_N m)%Z eqn:E; cbn [negb]; [|reflexivity].
    apply Z.ltb_lt in E. apply fill_bytes_word. split; [lia|].
    apply Z.lt_le_trans with (1 := E). apply Z.pow_le_mono_r; lia.
Qed.

Theorem encode_signed_exact m z : has_max m = true ->
  encode_signed m z = if in_range true m z then Ok (word z) else Err ETooLarge.
Proof.
  intros Hmx. pose proof Hmx as Hm. unfold has_max in Hm. apply andb_true_iff in Hm. destruct Hm as [Hm _].
  apply andb_true_iff in Hm. destruct Hm as [H8 H256]. apply N.leb_le in H8, H256.
  unfold encode_signed, check_signed_fits, in_range.
  assert (Hpos : (0 < 2 ^ (Z.of_N m - 1))%Z) by (apply Z.pow_pos_nonneg; lia).
  assert (Hle : (2 ^ (Z.of_N m - 1) <= 2 ^ 255)%Z) by (apply Z.pow_le_mono_r; lia).
  assert (Hword : forall w, (- 2 ^ 255 <= w < 2 ^ 255)%Z -> fill_bytes 32 (Z.land w (2 ^ 256 - 1)) = Ok (word w)).
  { intros w Hw. replace (2 ^ 256 - 1)%Z with (Z.ones 256) by reflexivity. rewrite Z.land_ones by lia.
    pose proof (Z.mod_pos_bound w (2 ^ 256) ltac:(lia)) as Hb.
    rewrite fill_bytes_word by lia. unfold word. rewrite two_256, Z.mod_mod by lia. reflexivity. }
  destruct (z =? 0)%Z eqn:E0.
  - apply Z.eqb_eq in E0. subst z. cbn [negb].
    replace (- 2 ^ (Z.of_N m - 1) <=? 0)%Z with true by (symmetry; apply Z.leb_le; lia).
    replace (0 <? 2 ^ (Z.of_N m - 1))%Z with true by (symmetry; apply Z.ltb_lt; lia).
    cbn [andb]. apply Hword. lia.
  - apply Z.eqb_neq in E0. destruct (0 <? z)%Z eqn:Ep.
    + apply Z.ltb_lt in Ep.
      replace (- 2 ^ (Z.of_N m - 1) <=? z)%Z with true by (symmetry; apply Z.leb_le; lia). cbn [andb].
      destruct (z <? 2 ^ (Z.of_N m - 1))%Z eqn:E.
      * apply Z.ltb_lt in E. rewrite Hmx. replace (z <=? 2 ^ (Z.of_N m - 1) - 1)%Z with true by (symmetry; apply Z.leb_le; lia).
        cbn [andb negb]. apply Hword. lia.
      * apply Z.ltb_ge in E. replace (z <=? 2 ^ (Z.of_N m - 1) - 1)%Z with false by (symmetry; apply Z.leb_gt; lia).
        rewrite andb_false_r. reflexivity.
    + apply Z.ltb_ge in Ep.
      replace (z <? 2 ^ (Z.of_N m - 1))%Z with true by (symmetry; apply Z.ltb_lt; lia). rewrite andb_true_r.
      destruct (- 2 ^ (Z.of_N m - 1) <=? z)%Z eqn:E.
      * apply Z.leb_le in E. rewrite Hmx. cbn [andb negb]. apply Hword. lia.
      * rewrite andb_false_r. reflexivity.
Qed.

(* ---------- the tokenizer of numeric texts is faithful: the components [classify] returns are the
   pieces of the text, in order (so [text_denotes]-style statements phrased through [classify] speak
   about the text itself) ---------- *)
Lemma byte_is_true k b : byte_is k b = true -> b = n2b k.
Proof. unfold byte_is. intros Hk. apply N.eqb_eq in Hk. rewrite <- Hk, n2b_b2n. reflexivity. Qed.

Lemma span_digits_spec l d r : span_digits l = (d, r) -> l = d ++ r /\ forallb Numeric.is_digit d = true.
Proof.
  revert d r. induction l as [|b t IH]; intros d r Hs; cbn [span_digits] in Hs.
  - injection Hs as <- <-. split; reflexivity.
  - destruct (Numeric.is_digit b) eqn:Eb.
    + destruct (span_digits t) as [d' t'] eqn:Et. injection Hs as <- <-.
      destruct (IH d' t' eq_refl) as [-> Hd]. split; [reflexivity|]. cbn [forallb]. rewrite Eb, Hd. reflexivity.
    + injection Hs as <- <-. split; reflexivity.
Qed.

(* the sign in front of a text: nothing, '+' or '-' *)
Definition is_sign (sgn : bytes) (neg : bool) : Prop :=
  (sgn = [] /\ neg = false) \/ (sgn = [x2b] /\ neg = false) \/ (sgn = [x2d] /\ neg = true).

Lemma scan_exp_spec r eneg ed :
  scan_exp r = Some (eneg, ed) ->
  forallb Numeric.is_digit ed = true /\
  ((r = [] /\ ed = [] /\ eneg = false) \/
   (exists e es, r = e :: es ++ ed /\ (e = x65 \/ e = x45) /\ is_sign es eneg /\ ed <> [])).
Proof.
  unfold scan_exp. destruct r as [|e r1]. { intros Hs; injection Hs as <- <-. split; [reflexivity|]. left. repeat split. }
  destruct (byte_is 101 e || byte_is 69 e) eqn:Ee; [|discriminate].
  assert (He : e = x65 \/ e = x45).
  { apply orb_true_iff in Ee. destruct Ee as [Ee|Ee]; apply byte_is_true in Ee; [left|right]; exact Ee. }
  destruct r1 as [|s r2].
  - cbn. discriminate.
  - destruct (byte_is 45 s) eqn:E45.
    + apply byte_is_true in E45. change (n2b 45) with x2d in E45. subst s.
      destruct (span_digits r2) as [d t] eqn:Es. destruct d as [|d0 d']; [discriminate|]. destruct t; [|discriminate].
      intros Hx; injection Hx as <- <-. destruct (span_digits_spec _ _ _ Es) as [Hr Hd]. rewrite app_nil_r in Hr.
      split; [exact Hd|]. right. exists e, [x2d]. subst r2. repeat split; try assumption; try discriminate.
      right; right; split; reflexivity.
    + destruct (byte_is 43 s) eqn:E43.
      * apply byte_is_true in E43. change (n2b 43) with x2b in E43. subst s.
        destruct (span_digits r2) as [d t] eqn:Es. destruct d as [|d0 d']; [discriminate|]. destruct t; [|discriminate].
        intros Hx; injection Hx as <- <-. destruct (span_digits_spec _ _ _ Es) as [Hr Hd]. rewrite app_nil_r in Hr.
        split; [exact Hd|]. right. exists e, [x2b]. subst r2. repeat split; try assumption; try discriminate.
        right; left; split; reflexivity.
      * destruct (span_digits (s :: r2)) as [d t] eqn:Es. destruct d as [|d0 d']; [discriminate|]. destruct t; [|discriminate].
        intros Hx; injection Hx as <- <-. destruct (span_digits_spec _ _ _ Es) as [Hr Hd]. rewrite app_nil_r in Hr.
        split; [exact Hd|]. right. exists e, []. rewrite Hr. repeat split; try assumption; try discriminate.
        left; split; reflexivity.
Qed.

Definition frac_text (fp : bytes) : bytes := match fp with [] => [] | _ => x2e :: fp end.

Lemma classify_unsigned_spec neg r c :
  classify_unsigned neg r = c ->
  match c with
  | CDec n ds => n = neg /\ r = ds /\ forallb Numeric.is_digit ds = true
  | CHex n ds => n = neg /\ (exists x, r = x30 :: x :: ds /\ (x = x78 \/ x = x58)) /\ forallb is_hex ds = true /\ ds <> []
  | CSci n ip fp eneg ed =>
      n = neg /\ forallb Numeric.is_digit ip = true /\ forallb Numeric.is_digit fp = true /\
      forallb Numeric.is_digit ed = true /\
      exists expo, r = ip ++ frac_text fp ++ expo /\
        ((expo = [] /\ ed = [] /\ fp <> []) \/
         (exists e es, expo = e :: es ++ ed /\ (e = x65 \/ e = x45) /\ is_sign es eneg /\ ed <> []))
  | COther => True
  end.
Proof.
  unfold classify_unsigned.
  destruct (match r with
            | z :: x :: h => if byte_is 48 z && (byte_is 120 x || byte_is 88 x)
                             then Some (match h with _ :: _ => if forallb is_hex h then CHex neg h else COther | [] => COther end)
                             else None
            | _ => None end) as [c0|] eqn:Ehex.
  - intros <-. destruct r as [|z [|x h]]; try discriminate.
    destruct (byte_is 48 z && (byte_is 120 x || byte_is 88 x)) eqn:Ep; [|discriminate].
    injection Ehex as <-. destruct h as [|h0 h']; [exact I|].
    destruct (forallb is_hex (h0 :: h')) eqn:Eh; [|exact I].
    apply andb_true_iff in Ep. destruct Ep as [Ez Ex]. apply byte_is_true in Ez. change (n2b 48) with x30 in Ez.
    repeat split; try assumption; try discriminate. exists x. subst z. split; [reflexivity|].
    apply orb_true_iff in Ex. destruct Ex as [Ex|Ex]; apply byte_is_true in Ex; [left|right]; exact Ex.
  - clear Ehex. destruct (span_digits r) as [ip r1] eqn:Es. destruct (span_digits_spec _ _ _ Es) as [Hr Hip].
    destruct (negb (int_part_ok ip)); [intros <-; exact I|].
    destruct r1 as [|c1 r2].
    + intros <-. rewrite app_nil_r in Hr. repeat split; assumption.
    + destruct (byte_is 46 c1) eqn:Edot.
      * apply byte_is_true in Edot. change (n2b 46) with x2e in Edot. subst c1.
        destruct (span_digits r2) as [fp r3] eqn:Ef. destruct (span_digits_spec _ _ _ Ef) as [Hr2 Hfp].
        destruct fp as [|f0 f']; [intros <-; exact I|].
        destruct (scan_exp r3) as [[eneg ed]|] eqn:Ee; [|intros <-; exact I].
        intros <-. destruct (scan_exp_spec _ _ _ Ee) as [Hed Hex].
        repeat split; try assumption. exists r3. split; [rewrite Hr, Hr2; reflexivity|].
        destruct Hex as [[-> [-> _]]|Hex]; [left; repeat split; discriminate|right; exact Hex].
      * destruct (scan_exp (c1 :: r2)) as [[eneg ed]|] eqn:Ee; [|intros <-; exact I].
        destruct ed as [|e0 e']; [intros <-; exact I|].
        intros <-. destruct (scan_exp_spec _ _ _ Ee) as [Hed Hex].
        repeat split; try assumption; try reflexivity. exists (c1 :: r2). split; [rewrite Hr; reflexivity|].
        destruct Hex as [[Hn _]|Hex]; [discriminate|right; exact Hex].
Qed.

(* the whole text: optional sign, then the unsigned part *)
Theorem classify_spec t :
  match classify t with
  | COther => True
  | c => exists sgn r, t = sgn ++ r /\
           is_sign sgn (match c with CDec n _ | CHex n _ | CSci n _ _ _ _ => n | COther => false end) /\
           classify_unsigned (match c with CDec n _ | CHex n _ | CSci n _ _ _ _ => n | COther => false end) r = c
  end.
Proof.
  unfold classify. destruct t as [|b r]; [exact I|].
  destruct (byte_is 45 b) eqn:E45.
  - apply byte_is_true in E45. change (n2b 45) with x2d in E45. subst b.
    pose proof (classify_unsigned_spec true r _ eq_refl) as Hs.
    destruct (classify_unsigned true r) eqn:Ec; try exact I;
      exists [x2d], r; (split; [reflexivity|]);
      (split; [right; right; split; [reflexivity|]; (destruct Hs as [-> _]; reflexivity) | destruct Hs as [-> _]; exact Ec]).
  - destruct (byte_is 43 b) eqn:E43.
    + apply byte_is_true in E43. change (n2b 43) with x2b in E43. subst b.
      pose proof (classify_unsigned_spec false r _ eq_refl) as Hs.
      destruct (classify_unsigned false r) eqn:Ec; try exact I;
        exists [x2b], r; (split; [reflexivity|]);
        (split; [right; left; split; [reflexivity|]; (destruct Hs as [-> _]; reflexivity) | destruct Hs as [-> _]; exact Ec]).
    + pose proof (classify_unsigned_spec false (b :: r) _ eq_refl) as Hs.
      destruct (classify_unsigned false (b :: r)) eqn:Ec; try exact I;
        exists [], (b :: r); (split; [reflexivity|]);
        (split; [left; split; [reflexivity|]; (destruct Hs as [-> _]; reflexivity) | destruct Hs as [-> _]; exact Ec]).
Qed.

Theorem classify_faithful t :
  (forall neg ds, classify t = CDec neg ds ->
     exists sgn, t = sgn ++ ds /\ is_sign sgn neg /\ forallb Numeric.is_digit ds = true) /\
  (forall neg ds, classify t = CHex neg ds ->
     exists sgn x, t = sgn ++ x30 :: x :: ds /\ is_sign sgn neg /\ (x = x78 \/ x = x58) /\
                   forallb is_hex ds = true /\ ds <> []) /\
  (forall neg ip fp eneg ed, classify t = CSci neg ip fp eneg ed ->
     exists sgn expo, t = sgn ++ ip ++ frac_text fp ++ expo /\ is_sign sgn neg /\
       forallb Numeric.is_digit ip = true /\ forallb Numeric.is_digit fp = true /\
       forallb Numeric.is_digit ed = true /\
       ((expo = [] /\ ed = [] /\ fp <> []) \/
        (exists e es, expo = e :: es ++ ed /\ (e = x65 \/ e = x45) /\ is_sign es eneg /\ ed <> []))).
Proof.
  pose proof (classify_spec t) as Hs. repeat split.
  - intros neg ds Hc. rewrite Hc in Hs. destruct Hs as [sgn [r [-> [Hsg Hu]]]].
    destruct (classify_unsigned_spec _ _ _ Hu) as [_ [-> Hd]]. exists sgn. repeat split; assumption.
  - intros neg ds Hc. rewrite Hc in Hs. destruct Hs as [sgn [r [-> [Hsg Hu]]]].
    destruct (classify_unsigned_spec _ _ _ Hu) as [_ [[x [-> Hx]] [Hh Hne]]]. exists sgn, x. repeat split; assumption.
  - intros neg ip fp eneg ed Hc. rewrite Hc in Hs. destruct Hs as [sgn [r [-> [Hsg Hu]]]].
    destruct (classify_unsigned_spec _ _ _ Hu) as [_ [Hip [Hfp [Hed [expo [-> Hex]]]]]].
    exists sgn, expo. repeat split; assumption.
Qed.
