(* C04 — soundness of Parse.v: the document computed by [parse_doc] is represented by the Go-level
   document, and the boolean well-formedness check implies Spec.wf_doc.  Hence the digest theorem in
   the form   well_formed (parse doc) -> EncodeTypedDataV4 doc = Ok (digest (parse doc)). *)
From Coq Require Import String.
From Coq Require Import List NArith ZArith Bool Arith Lia Permutation.
From Coq Require Import Init.Byte.
From FFS Require Import Base.Res Base.Bytes Eip712.Util Eip712.Input Eip712.Numeric Eip712.Coerce Eip712.Model
  Eip712.Spec Eip712.Repr Eip712.Parse Eip712.ProofsUtil Eip712.ProofsNames Eip712.ProofsDeps Eip712.ProofsMain.
Import ListNotations.

Lemma strip_prefix_ok p : forall s r, strip_prefix p s = Some r -> s = p ++ r.
Proof.
  induction p as [|a p IH]; intros s r; simpl; [intros Hq; injection Hq as ->; reflexivity|].
  destruct s as [|b s]; [discriminate|]. destruct (byte_eqb_spec a b) as [->|]; [|discriminate].
  intros Hq. rewrite (IH _ _ Hq). reflexivity.
Qed.

Lemma canon_dec_ok s n : canon_dec s = Some n -> dec n = s.
Proof.
  unfold canon_dec. destruct (undec s) as [m|]; [|discriminate].
  destruct (bytes_eqb_spec (dec m) s) as [E|]; [|discriminate]. intros Hq; injection Hq as <-. exact E.
Qed.

Lemma parse_atomic_ok s a : parse_atomic s = Some a -> atomic_name a = s /\ wf_atomic a = true.
Proof.
  unfold parse_atomic.
  destruct (bytes_eqb_spec s (bs "bool")) as [->|_]; [intros Hq; injection Hq as <-; split; reflexivity|].
  destruct (bytes_eqb_spec s (bs "address")) as [->|_]; [intros Hq; injection Hq as <-; split; reflexivity|].
  destruct (bytes_eqb_spec s (bs "string")) as [->|_]; [intros Hq; injection Hq as <-; split; reflexivity|].
  destruct (bytes_eqb_spec s (bs "bytes")) as [->|_]; [intros Hq; injection Hq as <-; split; reflexivity|].
  destruct (strip_prefix (bs "bytes") s) as [r|] eqn:E1.
  { apply strip_prefix_ok in E1. destruct (canon_dec r) as [n|] eqn:E2; [|discriminate].
    apply canon_dec_ok in E2. destruct (wf_atomic (ABytesN n)) eqn:Ew; [|discriminate].
    intros Hq; injection Hq as <-. split; [|exact Ew]. unfold atomic_name. rewrite E2. symmetry. exact E1. }
  destruct (strip_prefix (bs "uint") s) as [r|] eqn:E3.
  { apply strip_prefix_ok in E3. destruct (canon_dec r) as [n|] eqn:E2; [|discriminate].
    apply canon_dec_ok in E2. destruct (wf_atomic (AUint n)) eqn:Ew; [|discriminate].
    intros Hq; injection Hq as <-. split; [|exact Ew]. unfold atomic_name. rewrite E2. symmetry. exact E3. }
  destruct (strip_prefix (bs "int") s) as [r|] eqn:E4; [|discriminate].
  apply strip_prefix_ok in E4. destruct (canon_dec r) as [n|] eqn:E2; [|discriminate].
  apply canon_dec_ok in E2. destruct (wf_atomic (AInt n)) eqn:Ew; [|discriminate].
  intros Hq; injection Hq as <-. split; [|exact Ew]. unfold atomic_name. rewrite E2. symmetry. exact E4.
Qed.

Lemma split_array_ok s t dim : split_array s = Some (t, dim) -> s = t ++ x5b :: dim ++ [x5d].
Proof.
  unfold split_array. destruct (ends_with x5d s); [|discriminate].
  destruct (last_index_byte x5b s) as [i|]; [|discriminate].
  destruct (bytes_eqb_spec s (firstn i s ++ x5b :: firstn (length s - i - 2) (skipn (S i) s) ++ [x5d])) as [E|]; [|discriminate].
  intros Hq; injection Hq as <- <-. exact E.
Qed.

(* member types whose struct references are among [names] and whose atomic types are valid *)
Fixpoint wf_in (names : list bytes) (t : mty) : bool :=
  match t with
  | Atomic a => wf_atomic a
  | Struct n => bmem n names
  | Arr t' _ => wf_in names t'
  end.

Lemma parse_ty_ok names : forall fuel s t, parse_ty fuel names s = Some t -> ty_name t = s /\ wf_in names t = true.
Proof.
  induction fuel as [|f IH]; intros s t; simpl; [discriminate|].
  destruct (ends_with x5d s).
  - destruct (split_array s) as [[t0 dim]|] eqn:Es; [|discriminate]. apply split_array_ok in Es.
    destruct (parse_ty f names t0) as [t'|] eqn:Et; [|discriminate]. apply IH in Et as [Hn Hw].
    destruct dim as [|d0 dr].
    + intros Hq; injection Hq as <-. split; [|exact Hw]. rewrite ty_name_arr, Hn, Es. reflexivity.
    + destruct (canon_dec (d0 :: dr)) as [k|] eqn:Ek; [|discriminate]. apply canon_dec_ok in Ek.
      intros Hq; injection Hq as <-. split; [|exact Hw]. rewrite ty_name_arr, Hn, Es. simpl suffix. rewrite Ek. reflexivity.
  - destruct (bmem s names) eqn:Eb; [intros Hq; injection Hq as <-; split; [reflexivity | exact Eb]|].
    destruct (parse_atomic s) as [a|] eqn:Ea; [|discriminate]. apply parse_atomic_ok in Ea as [Hn Hw].
    intros Hq; injection Hq as <-. split; assumption.
Qed.

Lemma opt_all_ok {A B} (f : A -> option B) l r :
  opt_all (map f l) = Some r -> Forall2 (fun x y => f x = Some y) l r.
Proof.
  revert r; induction l as [|x l IH]; intros r; simpl; [intros Hq; injection Hq as <-; constructor|].
  destruct (f x) as [y|] eqn:E; [|discriminate]. destruct (opt_all (map f l)) as [r'|]; [|discriminate].
  intros Hq; injection Hq as <-. constructor; [exact E | apply IH; reflexivity].
Qed.

Lemma Forall2_imp {A B} (P Q : A -> B -> Prop) l l' :
  (forall x y, P x y -> Q x y) -> Forall2 P l l' -> Forall2 Q l l'.
Proof. intros Hpq Hf. induction Hf; constructor; auto. Qed.

Lemma parse_member_ok names m sm : parse_member names m = Some sm ->
  render_member sm = m /\ wf_in names (sm_ty sm) = true.
Proof.
  unfold parse_member. destruct m as [[n ty]|]; [|discriminate]. cbn [m_type m_name].
  destruct (parse_ty (S (length ty)) names ty) as [t|] eqn:E; [|discriminate]. apply parse_ty_ok in E as [Hn Hw].
  intros Hq; injection Hq as <-. unfold render_member. cbn [sm_name sm_ty]. rewrite Hn. split; [reflexivity | exact Hw].
Qed.

Definition entry_ok (names : list bytes) (g : bytes * option gtype) (s : bytes * structdef) : Prop :=
  fst g = fst s /\ snd g = render_def (snd s) /\ Forall (fun sm => wf_in names (sm_ty sm) = true) (snd s).

Lemma parse_types_ok gts sts : parse_types gts = Some sts -> Forall2 (entry_ok (map fst gts)) gts sts.
Proof.
  unfold parse_types. intros Hp. apply opt_all_ok in Hp.
  eapply Forall2_imp; [|exact Hp]. intros [n t] [n' def] Hq. cbn [fst snd] in Hq.
  destruct t as [ms|]; [|discriminate].
  destruct (opt_all (map (parse_member (map fst gts)) ms)) as [d|] eqn:Ed; [|discriminate].
  injection Hq as <- <-. apply opt_all_ok in Ed. unfold entry_ok. cbn [fst snd]. split; [reflexivity|].
  unfold render_def. split.
  - f_equal. clear -Ed. induction Ed as [|m sm ms d Hm Hf IH]; [reflexivity|].
    simpl. apply parse_member_ok in Hm as [<- _]. f_equal. exact IH.
  - clear -Ed. induction Ed as [|m sm ms d Hm Hf IH]; constructor; [|exact IH].
    apply parse_member_ok in Hm as [_ Hw]. exact Hw.
Qed.

Lemma entries_keys names gts sts : Forall2 (entry_ok names) gts sts -> keys sts = map fst gts.
Proof. induction 1 as [|g s gts sts [Hk _] Hf IH]; simpl; [reflexivity|]. rewrite IH, Hk. reflexivity. Qed.

Lemma entries_lookup names gts sts n def : Forall2 (entry_ok names) gts sts ->
  assoc n sts = Some def -> tlookup n gts = Some (render_def def).
Proof.
  induction 1 as [|[gn gt] [sn sd] gts sts (Hk & Hv & _) Hf IH]; simpl; [discriminate|].
  cbn [fst snd] in Hk, Hv. subst gn gt. destruct (bytes_eqb n sn); [intros Hq; injection Hq as <-; reflexivity | exact IH].
Qed.

Lemma entries_wf names gts sts : Forall2 (entry_ok names) gts sts ->
  Forall (fun nd : bytes * structdef => Forall (fun sm => wf_in names (sm_ty sm) = true) (snd nd)) sts.
Proof. induction 1 as [|g s gts sts (_ & _ & Hw) Hf IH]; constructor; assumption. Qed.

(* ---------- values ---------- *)
Section Values.
  Variable big_other : bytes -> option Z.
  Variable sts : types.

  Lemma parse_atomic_val_ok a g v : parse_atomic_val big_other a g = Some v -> repr_atomic big_other a g v.
  Proof.
    destruct a; simpl.
    - destruct (integer_of_gval big_other g) as [z| |]; try discriminate. intros Hq; injection Hq as <-. eauto.
    - destruct (integer_of_gval big_other g) as [z| |]; try discriminate. intros Hq; injection Hq as <-. eauto.
    - destruct (get_bool g) as [z| |]; try discriminate. intros Hq; injection Hq as <-. eauto.
    - destruct (get_bytes g) as [b| |]; try discriminate. intros Hq; injection Hq as <-. eauto.
    - destruct (get_bytes g) as [b| |]; try discriminate. intros Hq; injection Hq as <-. eauto.
    - destruct (get_bytes g) as [b| |]; try discriminate. intros Hq; injection Hq as <-. eauto.
    - destruct (get_string g) as [b| |]; try discriminate. intros Hq; injection Hq as <-. eauto.
  Qed.

  Lemma parse_val_ok : forall fuel t g v, parse_val big_other sts fuel t g = Some v -> repr big_other sts t g v.
  Proof.
    induction fuel as [|f IH]; intros t g v; simpl; [discriminate|].
    destruct t as [a|n|t' k].
    - intros Hp. constructor. apply parse_atomic_val_ok. exact Hp.
    - destruct g; try discriminate.
      + intros Hq; injection Hq as <-. constructor.
      + destruct (assoc n sts) as [def|] eqn:Ed; [|discriminate].
        destruct (opt_all (map (fun sm => parse_val big_other sts f (sm_ty sm) (glookup (sm_name sm) m)) def)) as [l|] eqn:El; [|discriminate].
        intros Hq; injection Hq as <-. econstructor; [exact Ed|]. apply opt_all_ok in El.
        clear Ed. induction El as [|sm x def l Hx Hf IHl]; constructor; [apply IH; exact Hx | exact IHl].
    - destruct g; try discriminate.
      destruct (opt_all (map (parse_val big_other sts f t') l)) as [l'|] eqn:El; [|discriminate].
      intros Hq; injection Hq as <-. constructor. apply opt_all_ok in El.
      induction El as [|x y l l' Hx Hf IHl]; constructor; [apply IH; exact Hx | exact IHl].
  Qed.
End Values.

(* ---------- well-formedness ---------- *)
Lemma nodupb_ok l : nodupb l = true -> NoDup l.
Proof.
  induction l as [|x l IH]; simpl; [constructor|]. intros Hb. apply andb_prop in Hb as [H1 H2].
  constructor; [apply bmem_false, negb_true_iff; exact H1 | apply IH; exact H2].
Qed.

Lemma wf_types_b_ok sts : wf_types_b sts = true -> wf_types sts.
Proof.
  unfold wf_types_b, wf_types. intros Hb. apply andb_prop in Hb as [Hnd Hall]. split; [apply nodupb_ok; exact Hnd|].
  rewrite forallb_forall in Hall. apply Forall_forall. intros nd Hin. specialize (Hall _ Hin).
  apply andb_prop in Hall as [Hall Hm]. apply andb_prop in Hall as [Hn Ha]. split; [exact Hn|]. split.
  - intros a Hwa E. rewrite forallb_forall in Ha. specialize (Ha a (wf_atomic_In a Hwa)).
    cbv beta in Ha. apply negb_true_iff, bytes_eqb_neq in Ha. apply Ha. exact E.
  - rewrite forallb_forall in Hm. apply Forall_forall. exact Hm.
Qed.

Lemma wf_doc_b_ok d : wf_doc_b d = true -> wf_doc d.
Proof.
  unfold wf_doc_b, wf_doc. intros Hb.
  apply andb_prop in Hb as [Hb H5]. apply andb_prop in Hb as [Hb H4]. apply andb_prop in Hb as [Hb H3].
  apply andb_prop in Hb as [H1 H2].
  split; [apply wf_types_b_ok; exact H1|]. split; [apply bmem_In; exact H2|]. split; [apply bmem_In; exact H3|].
  split; [exact H4|]. apply orb_prop in H5. exact H5.
Qed.

Lemma dims_fit_b_ok t : dims_fit_b t = true -> dims_fit t.
Proof.
  induction t as [a|n|t IH k]; simpl; auto. destruct k as [k|]; [|exact IH].
  intros Hb. apply andb_prop in Hb as [H1 H2]. split; [apply Z.leb_le; exact H1 | apply IH; exact H2].
Qed.
Lemma types_dims_fit_b_ok sts : types_dims_fit_b sts = true -> types_dims_fit sts.
Proof.
  unfold types_dims_fit_b, types_dims_fit. rewrite forallb_forall. intros Hb. apply Forall_forall. intros nd Hin.
  specialize (Hb _ Hin). rewrite forallb_forall in Hb. apply Forall_forall. intros m Hm. apply dims_fit_b_ok, Hb, Hm.
Qed.

(* ---------- documents ---------- *)
Lemma aset_absent {V} k (v : V) s : alookup k s = None -> aset k v s = s ++ [(k, v)].
Proof.
  induction s as [|[k' v'] s IH]; simpl; [reflexivity|]. destruct (bytes_eqb k k'); [discriminate|].
  intros Hn. rewrite IH by exact Hn. reflexivity.
Qed.

Lemma parse_types_repr gts sts : parse_types gts = Some sts -> wf_types sts -> repr_types gts sts.
Proof.
  intros Et Hwt. apply parse_types_ok in Et. split.
  - intros n def Hn. eapply entries_lookup; eassumption.
  - intros a Hwa. unfold tlookup. rewrite alookup_assoc. apply assoc_None.
    intros Hin0. assert (Hin : In (atomic_name a) (keys sts)) by (rewrite (entries_keys _ _ _ Et); exact Hin0).
    apply assoc_keys in Hin as (def & Hdef).
    destruct (wf_lookup sts Hwt _ _ Hdef) as (_ & Hna & _). apply (Hna a Hwa). reflexivity.
Qed.

Theorem parse_doc_represents big_other td d :
  parse_doc big_other td = Some d -> wf_doc_b d = true -> represents big_other td d.
Proof.
  unfold parse_doc. intros Hp Hwfb.
  set (gts0 := match td_types td with Some t => t | None => [] end) in *.
  set (gts := match alookup domain_name gts0 with Some _ => gts0 | None => gts0 ++ [(domain_name, Some [])] end) in *.
  assert (Egts : with_domain_type (td_types td) = gts).
  { unfold with_domain_type, gts, tlookup. fold gts0. destruct (alookup domain_name gts0) eqn:E; [reflexivity|].
    apply aset_absent. exact E. }
  destruct (parse_types gts) as [sts|] eqn:Et; [|discriminate].
  destruct (parse_val big_other sts _ (Struct domain_name) _) as [dv|] eqn:Ed; [|discriminate].
  destruct (if bytes_eqb (td_primary td) domain_name then Some VNone
            else parse_val big_other sts _ (Struct (td_primary td)) _) as [mv|] eqn:Em; [|discriminate].
  injection Hp as <-. cbn [d_types d_primary d_domain d_message] in *.
  apply parse_types_ok in Et.
  split; [|split; [reflexivity|split]].
  - rewrite Egts. split.
    + intros n def Hn. eapply entries_lookup; eassumption.
    + intros a Hwa. apply wf_doc_b_ok in Hwfb. destruct Hwfb as (Hwt & _). cbn [d_types] in Hwt.
      unfold tlookup. rewrite alookup_assoc. apply assoc_None.
      intros Hin0. assert (Hin : In (atomic_name a) (keys sts)) by (rewrite (entries_keys _ _ _ Et); exact Hin0).
      apply assoc_keys in Hin as (def & Hdef).
      destruct (wf_lookup sts Hwt _ _ Hdef) as (_ & Hna & _). apply (Hna a Hwa). reflexivity.
  - apply parse_val_ok in Ed. exact Ed.
  - cbn [d_primary]. destruct (bytes_eqb (td_primary td) domain_name) eqn:Edo; [left; reflexivity|right].
    apply parse_val_ok in Em. destruct (td_message td); exact Em.
Qed.

(* C04_digest_is_spec in its functional form *)
Theorem digest_is_spec_parse H big_other td d :
  parse_doc big_other td = Some d -> well_formed_b d = true ->
  EncodeTypedDataV4 H big_other (Some td) = Ok (digest H d).
Proof.
  intros Hp Hw. unfold well_formed_b in Hw. apply andb_prop in Hw as [Hw Hd].
  apply digest_is_spec.
  - apply parse_doc_represents; assumption.
  - apply wf_doc_b_ok; exact Hw.
  - apply types_dims_fit_b_ok; exact Hd.
Qed.
