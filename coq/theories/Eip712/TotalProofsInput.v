(* C14 — totality of the input side: json.Unmarshal of any JSON tree into a TypedData value or a
   *TypedData pointer (Input.v) never panics, and the maps it produces have unique keys. *)
From Coq Require Import List NArith ZArith Bool Lia.
From Coq Require Import Init.Byte.
From FFS Require Import Base.Res Base.Bytes Eip712.Input.
Import ListNotations.

Lemma bind_np {A B} (r : res A) (f : A -> res B) :
  r <> Panic -> (forall a, f a <> Panic) -> bind r f <> Panic.
Proof. destruct r; simpl; intros H1 H2; auto; discriminate. Qed.

(* a left fold in the result monad stays away from Panic when each step does *)
Lemma fold_bind_np {A B} (f : A -> B -> res A) (l : list B) (init : res A) :
  init <> Panic -> (forall a b, f a b <> Panic) ->
  fold_left (fun acc b => do a <- acc; f a b) l init <> Panic.
Proof.
  revert init. induction l as [|b l IH]; intros init Hi Hf; simpl; [exact Hi|].
  apply IH; [|exact Hf]. apply bind_np; [exact Hi|]. intros a. apply Hf.
Qed.

Lemma dec_string_np cur j : dec_string cur j <> Panic.
Proof. destruct j; simpl; discriminate. Qed.

Lemma dec_member_fields_np m : dec_member_fields m <> Panic.
Proof.
  unfold dec_member_fields.
  apply (fold_bind_np (fun mb (kv : bytes * json) =>
           if field_is F_NAME (fst kv) then
             do s <- dec_string (m_name mb) (snd kv); Ok (mkMember s (m_type mb))
           else if field_is F_TYPE (fst kv) then
             do s <- dec_string (m_type mb) (snd kv); Ok (mkMember (m_name mb) s)
           else Ok mb)); [discriminate|].
  intros mb kv. destruct (field_is F_NAME (fst kv)).
  - apply bind_np; [apply dec_string_np|discriminate].
  - destruct (field_is F_TYPE (fst kv)); [|discriminate].
    apply bind_np; [apply dec_string_np|discriminate].
Qed.

Lemma dec_member_np j : dec_member j <> Panic.
Proof.
  destruct j; simpl; try discriminate.
  apply bind_np; [apply dec_member_fields_np|discriminate].
Qed.

Lemma dec_list_np {A} (f : json -> res A) l : (forall j, f j <> Panic) -> dec_list f l <> Panic.
Proof.
  intros Hf. induction l as [|j l IH]; simpl; [discriminate|].
  apply bind_np; [apply Hf|]. intros a. apply bind_np; [exact IH|discriminate].
Qed.

Lemma dec_type_np j : dec_type j <> Panic.
Proof.
  destruct j; simpl; try discriminate.
  apply bind_np; [apply dec_list_np, dec_member_np|discriminate].
Qed.

Lemma dec_typeset_np cur j : dec_typeset cur j <> Panic.
Proof.
  destruct j; simpl; try discriminate.
  apply bind_np; [|discriminate].
  apply (fold_bind_np (fun ts (kv : bytes * json) => do t <- dec_type (snd kv); Ok (aset (fst kv) t ts))); [discriminate|].
  intros ts kv. apply bind_np; [apply dec_type_np|discriminate].
Qed.

Lemma dec_gmap_np cur j : dec_gmap cur j <> Panic.
Proof. destruct j; simpl; discriminate. Qed.

Lemma dec_td_field_np td kv : dec_td_field td kv <> Panic.
Proof.
  unfold dec_td_field. destruct kv as [k v].
  destruct (field_is F_TYPES k). { apply bind_np; [apply dec_typeset_np|discriminate]. }
  destruct (field_is F_PRIMARYTYPE k). { apply bind_np; [apply dec_string_np|discriminate]. }
  destruct (field_is F_DOMAIN k). { apply bind_np; [apply dec_gmap_np|discriminate]. }
  destruct (field_is F_MESSAGE k). { apply bind_np; [apply dec_gmap_np|discriminate]. }
  discriminate.
Qed.

Theorem decode_typed_data_into_total cur doc : decode_typed_data_into cur doc <> Panic.
Proof.
  destruct doc; simpl; try discriminate.
  apply (fold_bind_np dec_td_field); [discriminate|]. apply dec_td_field_np.
Qed.

Theorem decode_typed_data_total doc : decode_typed_data doc <> Panic.
Proof. apply decode_typed_data_into_total. Qed.

Theorem decode_typed_data_ptr_total doc : decode_typed_data_ptr doc <> Panic.
Proof.
  destruct doc; cbn [decode_typed_data_ptr]; try discriminate;
    (apply bind_np; [apply decode_typed_data_total|discriminate]).
Qed.

(* ---------- the decoded maps have unique keys (they stand for Go maps) ---------- *)
Definition akeys {V} (m : list (bytes * V)) : list bytes := map fst m.

Lemma aset_keys {V} k (v : V) m :
  akeys (aset k v m) = if existsb (bytes_eqb k) (akeys m) then akeys m else akeys m ++ [k].
Proof.
  induction m as [|[k' v'] m IH]; [reflexivity|]. cbn [aset akeys map fst existsb].
  destruct (bytes_eqb_spec k k') as [->|Hne]; cbn [orb map fst].
  - reflexivity.
  - fold (akeys m). fold (akeys (aset k v m)). rewrite IH. destruct (existsb (bytes_eqb k) (akeys m)); reflexivity.
Qed.

Lemma existsb_bytes_in k l : existsb (bytes_eqb k) l = false -> ~ In k l.
Proof.
  intros Hf Hin. assert (existsb (bytes_eqb k) l = true); [|congruence].
  apply existsb_exists. exists k. split; [exact Hin|]. destruct (bytes_eqb_spec k k); congruence.
Qed.

Lemma nodup_snoc (k : bytes) l : NoDup l -> ~ In k l -> NoDup (l ++ [k]).
Proof.
  induction l as [|x l IH]; intros Hn Hk; simpl; [repeat constructor; intros []|].
  inversion Hn as [|? ? Hx Hl]; subst. constructor.
  - rewrite in_app_iff. intros [Hi|[<-|[]]]; [exact (Hx Hi)|apply Hk; left; reflexivity].
  - apply IH; [exact Hl|]. intros Hi. apply Hk. right. exact Hi.
Qed.

Lemma aset_nodup {V} k (v : V) m : NoDup (akeys m) -> NoDup (akeys (aset k v m)).
Proof.
  intros Hn. rewrite aset_keys. destruct (existsb (bytes_eqb k) (akeys m)) eqn:E; [exact Hn|].
  apply existsb_bytes_in in E. apply nodup_snoc; assumption.
Qed.

Lemma fold_aset_nodup {A V} (f : A -> bytes * V) (l : list A) (init : list (bytes * V)) :
  NoDup (akeys init) -> NoDup (akeys (fold_left (fun acc a => aset (fst (f a)) (snd (f a)) acc) l init)).
Proof.
  revert init. induction l as [|a l IH]; intros init Hn; simpl; [exact Hn|]. apply IH, aset_nodup, Hn.
Qed.

(* every map inside a value has unique keys *)
Fixpoint wf_gval (v : gval) : Prop :=
  match v with
  | GSlice l => (fix all (l : list gval) : Prop := match l with [] => True | x :: r => wf_gval x /\ all r end) l
  | GMap m => NoDup (akeys m) /\
              (fix all (m : list (bytes * gval)) : Prop := match m with [] => True | kv :: r => wf_gval (snd kv) /\ all r end) m
  | _ => True
  end.
Definition wf_gmap (m : gmap) : Prop := wf_gval (GMap m).

Lemma wf_gmap_aset k v m : wf_gmap m -> wf_gval v -> wf_gmap (aset k v m).
Proof.
  unfold wf_gmap. cbn [wf_gval]. intros [Hn Ha] Hv. split; [apply aset_nodup; exact Hn|].
  clear Hn. induction m as [|[k' v'] m IH]; cbn [aset].
  - split; [exact Hv|exact I].
  - destruct Ha as [Hv' Ha]. destruct (bytes_eqb k k'); cbn [snd].
    + split; assumption.
    + split; [exact Hv'|apply IH; exact Ha].
Qed.

Fixpoint to_gval_wf (j : json) : wf_gval (to_gval j) :=
  match j return wf_gval (to_gval j) with
  | JNull => I | JBool _ => I | JNum _ => I | JStr _ => I
  | JArr l => (fix go (l : list json) : wf_gval (GSlice (map to_gval l)) :=
                 match l return wf_gval (GSlice (map to_gval l)) with
                 | [] => I
                 | x :: r => conj (to_gval_wf x) (go r)
                 end) l
  | JObj m =>
      (fix go (m : list (bytes * json)) (acc : gmap) (Hacc : wf_gmap acc) {struct m}
         : wf_gmap (fold_left (fun acc kv => aset (fst kv) (to_gval (snd kv)) acc) m acc) :=
         match m return wf_gmap (fold_left (fun acc kv => aset (fst kv) (to_gval (snd kv)) acc) m acc) with
         | [] => Hacc
         | kv :: r => go r (aset (fst kv) (to_gval (snd kv)) acc) (wf_gmap_aset _ _ _ Hacc (to_gval_wf (snd kv)))
         end) m [] (conj (NoDup_nil _) I)
  end.

Definition wf_td (td : typed_data) : Prop :=
  (forall ts, td_types td = Some ts -> NoDup (akeys ts)) /\
  (forall d, td_domain td = Some d -> wf_gmap d) /\
  (forall m, td_message td = Some m -> wf_gmap m).

Lemma fold_bind_inv {A B} (P : A -> Prop) (f : A -> B -> res A) (l : list B) :
  (forall a b a', P a -> f a b = Ok a' -> P a') ->
  forall init r, (forall a, init = Ok a -> P a) ->
    fold_left (fun acc b => do a <- acc; f a b) l init = Ok r -> P r.
Proof.
  intros Hf. induction l as [|b l IH]; intros init r Hi Hr; simpl in Hr; [apply Hi; exact Hr|].
  apply (IH _ r) in Hr; [exact Hr|]. intros a Ha. destruct init as [a0| |]; simpl in Ha; try discriminate.
  apply (Hf a0 b a); [apply Hi; reflexivity|exact Ha].
Qed.

Lemma dec_typeset_nodup cur j ts :
  (forall c, cur = Some c -> NoDup (akeys c)) -> dec_typeset cur j = Ok (Some ts) -> NoDup (akeys ts).
Proof.
  intros Hc. destruct j; simpl; try discriminate. intros Hr. apply bind_ok in Hr. destruct Hr as [ts' [Hf Hr]].
  injection Hr as <-.
  refine (fold_bind_inv (fun t : typeset => NoDup (akeys t))
            (fun ts (kv : bytes * json) => do t <- dec_type (snd kv); Ok (aset (fst kv) t ts)) m _ _ ts' _ Hf).
  - intros a b a' Ha Hb. apply bind_ok in Hb. destruct Hb as [t [_ Hb]]. injection Hb as <-. apply aset_nodup, Ha.
  - intros a Ha. injection Ha as <-. destruct cur as [c|]; [apply Hc; reflexivity|constructor].
Qed.

Lemma fold_to_gval_wf (m : list (bytes * json)) : forall acc : gmap,
  wf_gmap acc -> wf_gmap (fold_left (fun acc kv => aset (fst kv) (to_gval (snd kv)) acc) m acc).
Proof.
  induction m as [|kv m IH]; intros acc Hacc; simpl; [exact Hacc|].
  apply IH. apply wf_gmap_aset; [exact Hacc|apply to_gval_wf].
Qed.

Lemma dec_gmap_wf cur j g :
  (forall c, cur = Some c -> wf_gmap c) -> dec_gmap cur j = Ok (Some g) -> wf_gmap g.
Proof.
  intros Hc. destruct j; simpl; try discriminate. intros Hr. injection Hr as <-.
  apply fold_to_gval_wf. destruct cur as [c|]; [apply Hc; reflexivity|]. split; [constructor|exact I].
Qed.

Lemma dec_td_field_wf td kv td' : wf_td td -> dec_td_field td kv = Ok td' -> wf_td td'.
Proof.
  intros [Ht [Hd Hm]]. unfold dec_td_field. destruct kv as [k v].
  destruct (field_is F_TYPES k).
  { intros Hr. apply bind_ok in Hr. destruct Hr as [x [Hx Hr]]. injection Hr as <-.
    split; [|split]; cbn [td_types td_domain td_message]; try assumption.
    intros ts ->. apply (dec_typeset_nodup _ _ _ Ht Hx). }
  destruct (field_is F_PRIMARYTYPE k).
  { intros Hr. apply bind_ok in Hr. destruct Hr as [x [Hx Hr]]. injection Hr as <-.
    split; [|split]; cbn [td_types td_domain td_message]; assumption. }
  destruct (field_is F_DOMAIN k).
  { intros Hr. apply bind_ok in Hr. destruct Hr as [x [Hx Hr]]. injection Hr as <-.
    split; [|split]; cbn [td_types td_domain td_message]; try assumption.
    intros d ->. apply (dec_gmap_wf _ _ _ Hd Hx). }
  destruct (field_is F_MESSAGE k).
  { intros Hr. apply bind_ok in Hr. destruct Hr as [x [Hx Hr]]. injection Hr as <-.
    split; [|split]; cbn [td_types td_domain td_message]; try assumption.
    intros m ->. apply (dec_gmap_wf _ _ _ Hm Hx). }
  intros Hr. injection Hr as <-. split; [|split]; assumption.
Qed.

(* the TypedData decoded from any document: type names unique, every map in domain and message has
   unique keys (the association lists faithfully stand for Go maps) *)
Theorem decode_typed_data_wf doc td : decode_typed_data doc = Ok td -> wf_td td.
Proof.
  assert (Hz : wf_td td_zero) by (split; [|split]; intros ? Hx; discriminate Hx).
  unfold decode_typed_data, decode_typed_data_into. destruct doc; try discriminate.
  - intros Hr. injection Hr as <-. exact Hz.
  - intros Hr. refine (fold_bind_inv wf_td dec_td_field m _ _ td _ Hr).
    + intros a b a' Ha Hb. apply (dec_td_field_wf _ _ _ Ha Hb).
    + intros a Ha. injection Ha as <-. exact Hz.
Qed.
