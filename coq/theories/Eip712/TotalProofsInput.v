(* C14 — totality of the input side: json.Unmarshal of any JSON tree into a TypedData value or a
   *TypedData pointer (Input.v) never panics, and the maps it produces have unique keys. *)
From Coq Require Import List NArith ZArith Bool Lia.
From Coq Require Import Init.Byte.
From FFS Require Import Base.Res Base.Bytes Eip712.Input.
Import ListNotations.

Lemma bind_np {A B} (r : res A) (f : A -> res B) :
  r <> Panic -> (forall a, f a <> Panic) -> bind r f <> Panic.
Proof. destruct r; simpl; intros H1 H2; auto; discriminate. Qed.

(* a left fold in the result monad stays away from Panic when each step does *)
Lemma fold_bind_np {A B} (f : A -> B -> res A) (l : list B) (init : res A) :
  init <> Panic -> (forall a b, f a b <> Panic) ->
  fold_left (fun acc b => do a <- acc; f a b) l init <> Panic.
Proof.
  revert init. induction l as [|b l IH]; intros init Hi Hf; simpl; [exact Hi|].
  apply IH; [|exact Hf]. apply bind_np; [exact Hi|]. intros a. apply Hf.
Qed.

Lemma dec_string_np cur j : dec_string cur j <> Panic.
Proof. destruct j; simpl; discriminate. Qed.

Lemma dec_member_fields_np m : dec_member_fields m <> Panic.
Proof.
  unfold dec_member_fields.
  apply (fold_bind_np (fun mb (kv : bytes * json) =>
           if field_is F_NAME (fst kv) then
             do s <- dec_string (m_name mb) (snd kv); Ok (mkMember s (m_type mb))
           else if field_is F_TYPE (fst kv) then
             do s <- dec_string (m_type mb) (snd kv); Ok (mkMember (m_name mb) s)
           else Ok mb)); [discriminate|].
  intros mb kv. destruct (field_is F_NAME (fst kv)).
  - apply bind_np; [apply dec_string_np|discriminate].
  - destruct (field_is F_TYPE (fst kv)); [|discriminate].
    apply bind_np; [apply dec_string_np|discriminate].
Qed.

Lemma dec_member_np j : dec_member j <> Panic.
Proof.
  destruct j; simpl; try discriminate.
  apply bind_np; [apply dec_member_fields_np|discriminate].
Qed.

Lemma dec_list_np {A} (f : json -> res A) l : (forall j, f j <> Panic) -> dec_list f l <> Panic.
Proof.
  intros Hf. induction l as [|j l IH]; simpl; [discriminate|].
  apply bind_np; [apply Hf|]. intros a. apply bind_np; [exact IH|discriminate].
Qed.

Lemma dec_type_np j : dec_type j <> Panic.
Proof.
  destruct j; simpl; try discriminate.
  apply bind_np; [apply dec_list_np, dec_member_np|discriminate].
Qed.

Lemma dec_typeset_np cur j : dec_typeset cur j <> Panic.
Proof.
  destruct j; simpl; try discriminate.
  apply bind_np; [|discriminate].
  apply (fold_bind_np (fun ts (kv : bytes * json) => do t <- dec_type (snd kv); Ok (aset (fst kv) t ts))); [discriminate|].
  intros ts kv. apply bind_np; [apply dec_type_np|discriminate].
Qed.

Lemma dec_gmap_np cur j : dec_gmap cur j <> Panic.
Proof. destruct j; simpl; discriminate. Qed.

Lemma dec_td_field_np td kv : dec_td_field td kv <> Panic.
Proof.
  unfold dec_td_field. destruct kv as [k v].
  destruct (field_is F_TYPES k). { apply bind_np; [apply dec_typeset_np|discriminate]. }
  destruct (field_is F_PRIMARYTYPE k). { apply bind_np; [apply dec_string_np|discriminate]. }
  destruct (field_is F_DOMAIN k). { apply bind_np; [apply dec_gmap_np|discriminate]. }
  destruct (field_is F_MESSAGE k). { apply bind_np; [apply dec_gmap_np|discriminate]. }
  discriminate.
Qed.

Theorem decode_typed_data_into_total cur doc : decode_typed_data_into cur doc <> Panic.
Proof.
  destruct doc; simpl; try discriminate.
  apply (fold_bind_np dec_td_field); [discriminate|]. apply dec_td_field_np.
Qed.

Theorem decode_typed_data_total doc : decode_typed_data doc <> Panic.
Proof. apply decode_typed_data_into_total. Qed.

Theorem decode_typed_data_ptr_total doc : decode_typed_data_ptr doc <> Panic.
Proof.
  destruct doc; cbn [decode_typed_data_ptr]; try discriminate;
    (apply bind_np; [apply decode_typed_data_total|discriminate]).
Qed.
