(* C04 — the signature clause: SignTypedDataV4 signs the EIP-712 digest itself (no second hash) and
   packs R || S || V. *)
From Coq Require Import List NArith ZArith Bool Arith Lia.
From Coq Require Import Init.Byte.
From FFS Require Import Base.Res Base.Bytes Abi.Spec Eip712.Util Eip712.Input Eip712.Numeric Eip712.Coerce Eip712.Model.
Import ListNotations.

Lemma be_fixedZ_length k z : length (be_fixedZ k z) = k.
Proof.
  revert z; induction k as [|k IH]; intros z; simpl; [reflexivity|].
  rewrite app_length, IH. simpl. lia.
Qed.

Lemma fill_bytes_ok k z b : fill_bytes k z = Ok b ->
  b = be_fixedZ k (Z.abs z) /\ length b = k /\ (Z.abs z < 256 ^ Z.of_nat k)%Z.
Proof.
  unfold fill_bytes. destruct (Z.abs z <? 256 ^ Z.of_nat k)%Z eqn:E; [|discriminate].
  intros Hq; injection Hq as <-. apply Z.ltb_lt in E. repeat split; auto using be_fixedZ_length.
Qed.

Section Sign.
  Variable H : bytes -> bytes.
  Variable big_other : bytes -> option Z.
  Variable sign_direct : bytes -> option (Z * Z * Z).

  (* Whenever signing succeeds: the hash in the result is the document's digest, the signer was asked
     to sign exactly that digest, and signatureRSV is the 65 bytes be32(R) || be32(S) || byte(V). *)
  Lemma sign_shape payload res :
    SignTypedDataV4 H big_other sign_direct payload = Ok res ->
    exists digest R S V,
      EncodeTypedDataV4 H big_other payload = Ok digest /\
      sign_direct digest = Some (R, S, V) /\
      r_hash res = digest /\
      r_R res = be_fixedZ 32 (Z.abs R) /\ r_S res = be_fixedZ 32 (Z.abs S) /\ r_V res = V /\
      r_signatureRSV res = r_R res ++ r_S res ++ [n2b (Z.to_N (V mod 256))] /\
      length (r_signatureRSV res) = 65%nat.
  Proof.
    unfold SignTypedDataV4. intros Hs.
    destruct (EncodeTypedDataV4 H big_other payload) as [d| |] eqn:Ed; cbn [bind] in Hs; try discriminate.
    destruct (sign_direct d) as [[[R S] V]|] eqn:Es; try discriminate.
    destruct (fill_bytes 32 R) as [rb| |] eqn:ER; cbn [bind] in Hs; try discriminate.
    destruct (fill_bytes 32 S) as [sb| |] eqn:ES; cbn [bind] in Hs; try discriminate.
    injection Hs as <-. cbn [r_hash r_R r_S r_V r_signatureRSV].
    apply fill_bytes_ok in ER as (-> & LR & _). apply fill_bytes_ok in ES as (-> & LS & _).
    exists d, R, S, V. repeat split; auto.
    all: try (rewrite !app_length, !be_fixedZ_length; reflexivity).
  Qed.

  (* with a signer that returns V in {27,28} (the convention of secp256k1.KeyPair.SignDirect) the
     last byte is that V *)
  Lemma sign_v payload res :
    (forall m R S V, sign_direct m = Some (R, S, V) -> V = 27%Z \/ V = 28%Z) ->
    SignTypedDataV4 H big_other sign_direct payload = Ok res ->
    nth 64 (r_signatureRSV res) x00 = n2b (Z.to_N (r_V res)) /\ (r_V res = 27%Z \/ r_V res = 28%Z).
  Proof.
    intros HV Hs. destruct (sign_shape _ _ Hs) as (d & R & S & V & _ & Hsd & _ & HR & HS & HVv & Hrsv & _).
    specialize (HV _ _ _ _ Hsd). rewrite Hrsv, HVv.
    rewrite app_assoc, app_nth2; rewrite app_length, HR, HS, !be_fixedZ_length; [|lia].
    split; [|exact HV]. destruct HV as [-> | ->]; reflexivity.
  Qed.
End Sign.
