(* C04 — the slice of pkg/abi that pkg/eip712 goes through for one elementary member:
     typecomponents.go  parseABIParameterComponents on Parameter{Type: typeName} (no components)
                        parseMSuffix / isCanonicalDecimal                       -> abi_elementary_type
     inputparsing.go    getBoolAsUnsignedIntegerFromInterface, getBytesFromInterface,
                        getUintBytesFromInterface, getStringFromInterface        -> get_bool, get_bytes, ...
     abiencode.go       encodeABIUnsignedInteger, encodeABISignedInteger, encodeABIBytes (fixed)
     signedi256.go      checkSignedIntFits, SerializeInt256TwosComplementBytes
   and strconv.Atoi / ParseUint, encoding/hex.DecodeString, strings.EqualFold(s, "true"), math/big
   FillBytes as far as these use them.  Integer members are read by Numeric.integer_of_gval (C14).
   All functions are total; [Panic] marks a Go operation that would panic.  No proofs here. *)
From Coq Require Import String.
From Coq Require Import List NArith ZArith Bool Arith.
From Coq Require Import Init.Byte.
From FFS Require Import Base.Res Base.Bytes Abi.Spec Eip712.Util Eip712.Input Eip712.Numeric.
Import ListNotations.

(* error classes (the Go message family; only Ok/Err/Panic is compared with the implementation) *)
Definition EOutOfFuel : nat := 99.
Definition EBadABIType : nat := 25.        (* FF22025..FF22029 unsupported type / suffix / array spec *)
Definition ENotElementary : nat := 43.     (* FF22043 *)
Definition EBadBool : nat := 34.           (* FF22034 *)
Definition EBadHex : nat := 35.            (* FF22035 *)
Definition EBadString : nat := 33.         (* FF22033 *)
Definition ENegativeUnsigned : nat := 37.  (* FF22037 *)
Definition ETooLarge : nat := 36.          (* FF22036 *)
Definition EInsufficientData : nat := 38.  (* FF22038 *)
Definition EUnsupportedType : nat := 78.   (* FF22078 MsgEIP712UnsupportedABIType *)

(* ---------- strconv ---------- *)
(* ParseUint(s, 10, bits): non-empty, decimal digits only (no sign, no '_'), value < 2^bits *)
Definition parse_uint (bits : N) (s : bytes) : option N :=
  match undec s with
  | Some n => if (n <? 2 ^ bits)%N then Some n else None
  | None => None
  end.

(* Atoi(s) = ParseInt(s, 10, 0) on a 64-bit platform: optional '+'/'-', digits, range of int64 *)
Definition atoi (s : bytes) : option Z :=
  let '(neg, ds) := match s with
                    | b :: r => if byte_eqb b x2d then (true, r) else if byte_eqb b x2b then (false, r) else (false, s)
                    | [] => (false, [])
                    end in
  match undec ds with
  | Some n => let z := if neg then (- Z.of_N n)%Z else Z.of_N n in
              if ((- 9223372036854775808 <=? z) && (z <=? 9223372036854775807))%Z then Some z else None
  | None => None
  end.

(* ---------- elementary type strings ---------- *)
Inductive ebase := EInt | EUInt | EAddress | EBool | EFixed | EUFixed | EBytes | EFunction | EString.

(* what eip712 reads from the abi.TypeComponent of an elementary type: ElementaryType().BaseType(),
   the M dimension (tc.m; defaultM when there is no suffix: address 160, bool 8, function 24, else 0)
   and ElementarySuffix() (after alias expansion; ElementaryFixed() for bytes is suffix <> "") *)
Record etc := mkEtc { e_base : ebase; e_m : N; e_suffix : bytes }.

Definition is_lower (b : byte) : bool := (97 <=? b2n b)%N && (b2n b <=? 122)%N.
Fixpoint span_lower (s : bytes) : bytes * bytes :=
  match s with
  | b :: r => if is_lower b then let '(a, t) := span_lower r in (b :: a, t) else ([], s)
  | [] => ([], [])
  end.
(* splitElementaryTypeSuffix: up to the first '[' , and the rest *)
Fixpoint span_not_bracket (s : bytes) : bytes * bytes :=
  match s with
  | b :: r => if byte_eqb b x5b then ([], s) else let '(a, t) := span_not_bracket r in (b :: a, t)
  | [] => ([], [])
  end.

Definition base_of_name (n : bytes) : option ebase :=
  if bytes_eqb n (bs "int") then Some EInt
  else if bytes_eqb n (bs "uint") then Some EUInt
  else if bytes_eqb n (bs "address") then Some EAddress
  else if bytes_eqb n (bs "bool") then Some EBool
  else if bytes_eqb n (bs "fixed") then Some EFixed
  else if bytes_eqb n (bs "ufixed") then Some EUFixed
  else if bytes_eqb n (bs "bytes") then Some EBytes
  else if bytes_eqb n (bs "function") then Some EFunction
  else if bytes_eqb n (bs "string") then Some EString
  else None.

(* parseMSuffix with the table bounds mMin/mMax/mMod of the entry *)
Definition parse_m_suffix (mMin mMax mMod : N) (suffix : bytes) : res N :=
  match parse_uint 16 suffix with
  | None => Err EBadABIType
  | Some val =>
      if negb (bytes_eqb (dec val) suffix) then Err EBadABIType            (* isCanonicalDecimal *)
      else if (val <? mMin)%N || (mMax <? val)%N then Err EBadABIType
      else if negb (mMod =? 0)%N && negb (val mod mMod =? 0)%N then Err EBadABIType
      else Ok val
  end.

(* abiElementaryType(typeName): parse, then require an elementary component.
   "tuple" (with or without array dimensions), an unknown keyword, a bad suffix, and any array part
   (which either fails to parse or yields an array component, refused as not elementary) all end in
   an error; fixed/ufixed are parsed by the real code but refused by every caller in eip712, and only
   the error class is observable, so their MxN suffix is not modelled (Err either way in
   encodeElement; abi_elementary_type itself returns the entry with m = 0 for them). *)
Definition abi_elementary_type (typeName : bytes) : res etc :=
  let '(etStr, rest) := span_lower typeName in
  let '(suffix, arrays) := span_not_bracket rest in
  if bytes_eqb etStr (bs "tuple") then
    (match suffix with [] => Err ENotElementary | _ => Err EBadABIType end)
  else
  match base_of_name etStr with
  | None => Err EBadABIType
  | Some b =>
      do tc <-
        match b with
        | EInt | EUInt =>
            let suffix := match suffix with [] => bs "256" | _ => suffix end in
            do m <- parse_m_suffix 8 256 8 suffix; Ok (mkEtc b m suffix)
        | EBytes =>
            match suffix with
            | [] => Ok (mkEtc b 0 [])
            | _ => do m <- parse_m_suffix 1 32 0 suffix; Ok (mkEtc b m suffix)
            end
        | EAddress => match suffix with [] => Ok (mkEtc b 160 []) | _ => Err EBadABIType end
        | EBool => match suffix with [] => Ok (mkEtc b 8 []) | _ => Err EBadABIType end
        | EFunction => match suffix with [] => Ok (mkEtc b 24 []) | _ => Err EBadABIType end
        | EString => match suffix with [] => Ok (mkEtc b 0 []) | _ => Err EBadABIType end
        | EFixed | EUFixed => Ok (mkEtc b 0 (match suffix with [] => bs "128x18" | _ => suffix end))
        end;
      match arrays with
      | [] => Ok tc
      | _ => Err ENotElementary
      end
  end.

(* ---------- readers, applied after jsonNumberAsFloat64 (a json.Number has become a float64, which
   each of these readers refuses in its default branch) ---------- *)
Definition to_lower (b : byte) : byte :=
  let n := b2n b in if ((65 <=? n) && (n <=? 90))%N then n2b (n + 32) else b.
(* strings.EqualFold(s, "true"): none of t,r,u,e has a non-ASCII simple fold *)
Definition equal_fold_true (s : bytes) : bool := bytes_eqb (map to_lower s) (bs "true").

Definition get_bool (v : gval) : res Z :=
  match v with
  | GBool b => Ok (if b then 1 else 0)%Z
  | GString s => Ok (if equal_fold_true s then 1 else 0)%Z
  | GNil | GNumber _ | GSlice _ | GMap _ => Err EBadBool
  end.

Definition hexv (b : byte) : option N :=
  let n := b2n b in
  if ((48 <=? n) && (n <=? 57))%N then Some (n - 48)%N
  else if ((97 <=? n) && (n <=? 102))%N then Some (n - 87)%N
  else if ((65 <=? n) && (n <=? 70))%N then Some (n - 55)%N
  else None.
(* hex.DecodeString: pairs of hex digits, odd length or a bad digit is an error *)
Fixpoint hex_decode (s : bytes) : option bytes :=
  match s with
  | [] => Some []
  | a :: b :: r =>
      match hexv a, hexv b, hex_decode r with
      | Some x, Some y, Some t => Some (n2b (x * 16 + y) :: t)
      | _, _, _ => None
      end
  | [_] => None
  end.
Definition trim_0x (s : bytes) : bytes :=
  match s with a :: b :: r => if byte_eqb a x30 && byte_eqb b x78 then r else s | _ => s end.

Definition get_bytes (v : gval) : res bytes :=
  match v with
  | GString s => match hex_decode (trim_0x s) with Some b => Ok b | None => Err EBadHex end
  | GNil | GBool _ | GNumber _ | GSlice _ | GMap _ => Err EBadHex
  end.

Definition get_string (v : gval) : res bytes :=
  match v with
  | GString s => Ok s
  | GNil | GBool _ | GNumber _ | GSlice _ | GMap _ => Err EBadString
  end.

(* big.Int.SetBytes *)
Definition of_beZ (b : bytes) : Z := fold_left (fun acc x => acc * 256 + Z.of_N (b2n x))%Z b 0%Z.

(* ---------- encoders ---------- *)
(* x.FillBytes(buf) with len buf = k: big-endian |x|, panics when it does not fit *)
Definition fill_bytes (k : nat) (z : Z) : res bytes :=
  if (Z.abs z <? 256 ^ Z.of_nat k)%Z then Ok (be_fixedZ k (Z.abs z)) else Panic.

(* big.Int.BitLen of a non-negative value *)
Definition bitlen (z : Z) : Z := if (z =? 0)%Z then 0%Z else (Z.log2 z + 1)%Z.

Definition encode_unsigned (m : N) (z : Z) : res bytes :=
  if (z <? 0)%Z then Err ENegativeUnsigned
  else if (Z.of_N m <? bitlen z)%Z then Err ETooLarge
  else fill_bytes 32 z.

(* posMax / negMax exist for bitlen = 8, 16, ..., 256 *)
Definition has_max (m : N) : bool := (8 <=? m)%N && (m <=? 256)%N && (m mod 8 =? 0)%N.
Definition check_signed_fits (z : Z) (m : N) : bool :=
  if (z =? 0)%Z then true
  else if (0 <? z)%Z then has_max m && (z <=? 2 ^ (Z.of_N m - 1) - 1)%Z
  else has_max m && (- 2 ^ (Z.of_N m - 1) <=? z)%Z.

Definition encode_signed (m : N) (z : Z) : res bytes :=
  if negb (check_signed_fits z m) then Err ETooLarge
  else fill_bytes 32 (Z.land z (2 ^ 256 - 1)).     (* SerializeInt256TwosComplementBytes *)

(* encodeABIBytes with tc.m = m > 0 *)
Definition encode_fixed_bytes (m : N) (b : bytes) : res bytes :=
  let k := N.to_nat m in
  if (length b <? k)%nat || (32 <? k)%nat then Err EInsufficientData
  else do h <- slice b 0 k; Ok (h ++ repeat x00 (32 - k)).

(* abiEncode(tc, v) = tc.ParseExternalDesc(v) then EncodeABIDataCtx, for the component kinds the call
   sites in typed_data_v4.go pass: int<M>, uint<M>, address, bool, bytes<M> *)
Section WithOracle.
  Variable big_other : bytes -> option Z.

  Definition abi_encode (tc : etc) (v : gval) : res bytes :=
    match e_base tc with
    | EInt => do z <- integer_of_gval big_other v; encode_signed (e_m tc) z
    | EUInt => do z <- integer_of_gval big_other v; encode_unsigned (e_m tc) z
    | EAddress => do b <- get_bytes v; encode_unsigned (e_m tc) (of_beZ b)
    | EBool => do z <- get_bool v; encode_unsigned (e_m tc) z
    | EBytes => do b <- get_bytes v; encode_fixed_bytes (e_m tc) b
    | EFunction | EString | EFixed | EUFixed => Err EUnsupportedType   (* never passed by eip712 *)
    end.
End WithOracle.
