(* C04 composed with C14 and C05 at once: a document given as JSON text-level values (ComposeJson.v),
   signed by C05's model of KeyPair.SignDirect (ComposeSign.v). *)
From Coq Require Import List NArith ZArith Bool Arith Lia.
From Coq Require Import Init.Byte.
From FFS Require Import Base.Res Base.Bytes Abi.Spec Crypto.Ecdsa.
From FFS Require Import Eip712.Util Eip712.Input Eip712.Numeric Eip712.Coerce Eip712.Model Eip712.Spec Eip712.Repr.
From FFS Require Import Eip712.ProofsSignVerify Eip712.ComposeJson Eip712.ComposeSign.
From FFS Require Secp.Model Secp.Spec Secp.Proofs.
Import ListNotations.

Theorem sign_typed_data_end_to_end_from_json
  (o : group_ops) (L : laws o) (Hn : (n o < Secp.Model.two256)%Z)
  (Hk : bytes -> bytes) (HH : forall x, length (Hk x) = 32%nat)
  (nonce : Z -> bytes -> nat -> Z) (fuel : nat) (d : Z) (Hd : (1 <= d < n o)%Z)
  (H : bytes -> bytes) (big_other : bytes -> option Z) (td : typed_data) (doc : doc) :
  represents_json td doc -> wf_doc doc -> types_dims_fit (d_types doc) ->
  let m := digest H doc in
  nonce_found o nonce fuel d m ->
  Secp.Proofs.no_overflow o nonce d m ->
  exists res sg,
    SignTypedDataV4 H big_other (key_signer o nonce fuel d) (Some td) = Ok res /\
    r_hash res = m /\
    r_signatureRSV res = r_R res ++ r_S res ++ [n2b (Z.to_N (r_V res))] /\
    length (r_R res) = 32%nat /\ length (r_S res) = 32%nat /\ length (r_signatureRSV res) = 65%nat /\
    (r_V res = 27 \/ r_V res = 28)%Z /\
    Secp.Model.DecodeCompactRSV (r_signatureRSV res) = Ok sg /\
    Secp.Model.sV sg = r_V res /\
    r_R res = Secp.Model.be_fixed 32 (Secp.Model.sR sg) /\ r_S res = Secp.Model.be_fixed 32 (Secp.Model.sS sg) /\
    (1 <= Secp.Model.sR sg < n o)%Z /\ (1 <= Secp.Model.sS sg < n o)%Z /\ (2 * Secp.Model.sS sg <= n o)%Z /\
    ecdsa_verify o (pub o d) (Secp.Model.hash_to_z m) (Secp.Model.sR sg) (Secp.Model.sS sg) = true /\
    forall c, (0 <= c <= 2 ^ 53)%Z ->
      Secp.Model.RecoverDirect o Hk sg m c = Ok (Secp.Proofs.addr_of o Hk (pub o d)).
Proof.
  intros Hr Hwf Hdims. apply sign_typed_data_end_to_end; try assumption.
  apply represents_json_represents. exact Hr.
Qed.
