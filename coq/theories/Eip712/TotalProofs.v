(* C14 — totality of typed-data hashing and signing: no value of the Go types (hence no JSON document)
   makes the model of EncodeTypedDataV4 / SignTypedDataV4 (Model.v) reach a Panic.  Every leaf is one
   of the partial Go operations of the model (nil *TypeMember dereference, slice / index expressions in
   hashArray, FillBytes, the method call on a nil TypeComponent in hashStruct), closed from the guards
   the code establishes before it. *)
From Coq Require Import String.
From Coq Require Import List NArith ZArith Bool Arith Lia.
From Coq Require Import Init.Byte.
From FFS Require Import Base.Res Base.Bytes Abi.Spec.
From FFS Require Import Eip712.Util Eip712.Input Eip712.Numeric Eip712.Coerce Eip712.Model Eip712.TotalProofsInput.
Import ListNotations.

(* ---------- Numeric.v ---------- *)
Lemma sci_value_np neg ip fp eneg ed : sci_value neg ip fp eneg ed <> Panic.
Proof.
  unfold sci_value. cbv zeta.
  repeat match goal with |- context [if ?c then _ else _] => destruct c end; discriminate.
Qed.

Lemma BigIntegerFromString_np o s : BigIntegerFromString o s <> Panic.
Proof.
  unfold BigIntegerFromString. destruct (classify s); try discriminate.
  - apply sci_value_np.
  - destruct (o s); discriminate.
Qed.

Lemma integer_of_gval_np o v : integer_of_gval o v <> Panic.
Proof. destruct v; simpl; try discriminate; apply BigIntegerFromString_np. Qed.

(* ---------- Coerce.v ---------- *)
Lemma pow256_32 : (256 ^ Z.of_nat 32 = 2 ^ 256)%Z.
Proof. reflexivity. Qed.

Lemma fill_bytes_np k z : (Z.abs z < 256 ^ Z.of_nat k)%Z -> fill_bytes k z <> Panic.
Proof.
  intros Hz. unfold fill_bytes. destruct (Z.abs z <? 256 ^ Z.of_nat k)%Z eqn:E; [discriminate|].
  apply Z.ltb_ge in E. lia.
Qed.

Lemma encode_unsigned_np m z : (m <= 256)%N -> encode_unsigned m z <> Panic.
Proof.
  intros Hm. unfold encode_unsigned.
  destruct (z <? 0)%Z eqn:E0; [discriminate|].
  destruct (Z.of_N m <? bitlen z)%Z eqn:E1; [discriminate|].
  apply Z.ltb_ge in E0, E1. apply fill_bytes_np. rewrite pow256_32.
  rewrite Z.abs_eq by lia. unfold bitlen in E1.
  destruct (z =? 0)%Z eqn:Ez.
  - apply Z.eqb_eq in Ez. subst z. reflexivity.
  - apply Z.eqb_neq in Ez. apply Z.log2_lt_pow2; lia.
Qed.

Lemma encode_signed_np m z : encode_signed m z <> Panic.
Proof.
  unfold encode_signed. destruct (negb (check_signed_fits z m)); [discriminate|].
  apply fill_bytes_np. rewrite pow256_32.
  replace (2 ^ 256 - 1)%Z with (Z.ones 256) by reflexivity.
  rewrite Z.land_ones by lia.
  pose proof (Z.mod_pos_bound z (2 ^ 256)%Z ltac:(lia)) as Hb.
  rewrite Z.abs_eq by lia. lia.
Qed.

Lemma encode_fixed_bytes_np m b : encode_fixed_bytes m b <> Panic.
Proof.
  unfold encode_fixed_bytes. cbv zeta.
  destruct ((length b <? N.to_nat m)%nat || (32 <? N.to_nat m)%nat) eqn:E; [discriminate|].
  apply orb_false_iff in E. destruct E as [E1 E2]. apply Nat.ltb_ge in E1.
  rewrite slice_ok by lia. simpl. discriminate.
Qed.

Lemma get_bytes_np v : get_bytes v <> Panic.
Proof. destruct v; simpl; try discriminate. destruct (hex_decode (trim_0x s)); discriminate. Qed.
Lemma get_string_np v : get_string v <> Panic.
Proof. destruct v; simpl; discriminate. Qed.
Lemma get_bool_np v : get_bool v <> Panic.
Proof. destruct v; simpl; discriminate. Qed.

Lemma abi_encode_np o tc v : (e_m tc <= 256)%N -> abi_encode o tc v <> Panic.
Proof.
  intros Hm. unfold abi_encode. destruct (e_base tc); try discriminate.
  - apply bind_np; [apply integer_of_gval_np|]. intros z. apply encode_signed_np.
  - apply bind_np; [apply integer_of_gval_np|]. intros z. apply encode_unsigned_np; exact Hm.
  - apply bind_np; [apply get_bytes_np|]. intros b. apply encode_unsigned_np; exact Hm.
  - apply bind_np; [apply get_bool_np|]. intros z. apply encode_unsigned_np; exact Hm.
  - apply bind_np; [apply get_bytes_np|]. intros b. apply encode_fixed_bytes_np.
Qed.

Lemma parse_m_suffix_bound mMin mMax mMod s v : parse_m_suffix mMin mMax mMod s = Ok v -> (v <= mMax)%N.
Proof.
  unfold parse_m_suffix. destruct (parse_uint 16 s) as [val|]; [|discriminate].
  destruct (negb (bytes_eqb (dec val) s)); [discriminate|].
  destruct ((val <? mMin)%N || (mMax <? val)%N) eqn:E; [discriminate|].
  destruct (negb (mMod =? 0)%N && negb (val mod mMod =? 0)%N); [discriminate|].
  intros H; injection H as <-. apply orb_false_iff in E. destruct E as [_ E]. apply N.ltb_ge in E. exact E.
Qed.

Lemma parse_m_suffix_np mMin mMax mMod s : parse_m_suffix mMin mMax mMod s <> Panic.
Proof.
  unfold parse_m_suffix. destruct (parse_uint 16 s) as [val|]; [|discriminate].
  repeat match goal with |- context [if ?c then _ else _] => destruct c end; discriminate.
Qed.

(* the M dimension of every elementary type the parser returns is at most 256 *)
Lemma abi_elementary_type_m tn tc : abi_elementary_type tn = Ok tc -> (e_m tc <= 256)%N.
Proof.
  unfold abi_elementary_type.
  destruct (span_lower tn) as [etStr rest]. destruct (span_not_bracket rest) as [suffix arrays].
  destruct (bytes_eqb etStr (bs "tuple")). { destruct suffix; discriminate. }
  destruct (base_of_name etStr) as [b|]; [|discriminate].
  intros H. apply bind_ok in H. destruct H as [tc0 [H0 H1]].
  assert (Hm : (e_m tc0 <= 256)%N).
  { destruct b.
    - apply bind_ok in H0. destruct H0 as [m [Hp Hr]]. injection Hr as <-. simpl.
      apply parse_m_suffix_bound in Hp. exact Hp.
    - apply bind_ok in H0. destruct H0 as [m [Hp Hr]]. injection Hr as <-. simpl.
      apply parse_m_suffix_bound in Hp. exact Hp.
    - destruct suffix; [|discriminate]. injection H0 as <-. simpl. lia.
    - destruct suffix; [|discriminate]. injection H0 as <-. simpl. lia.
    - injection H0 as <-. simpl. lia.
    - injection H0 as <-. simpl. lia.
    - destruct suffix.
      + injection H0 as <-. simpl. lia.
      + apply bind_ok in H0. destruct H0 as [m [Hp Hr]]. injection Hr as <-. simpl.
        apply parse_m_suffix_bound in Hp. lia.
    - destruct suffix; [|discriminate]. injection H0 as <-. simpl. lia.
    - destruct suffix; [|discriminate]. injection H0 as <-. simpl. lia. }
  destruct arrays; [|discriminate]. injection H1 as <-. exact Hm.
Qed.

Lemma abi_elementary_type_np tn : abi_elementary_type tn <> Panic.
Proof.
  unfold abi_elementary_type.
  destruct (span_lower tn) as [etStr rest]. destruct (span_not_bracket rest) as [suffix arrays].
  destruct (bytes_eqb etStr (bs "tuple")). { destruct suffix; discriminate. }
  destruct (base_of_name etStr) as [b|]; [|discriminate].
  apply bind_np.
  - destruct b; try (destruct suffix; discriminate); try discriminate.
    + apply bind_np; [apply parse_m_suffix_np|discriminate].
    + apply bind_np; [apply parse_m_suffix_np|discriminate].
    + destruct suffix; [discriminate|]. apply bind_np; [apply parse_m_suffix_np|discriminate].
  - intros tc. destruct arrays; discriminate.
Qed.

(* ---------- association lists ---------- *)
Lemma alookup_aset {V} (k k' : bytes) (v : V) m :
  alookup k' (aset k v m) = if bytes_eqb k' k then Some v else alookup k' m.
Proof.
  induction m as [|[k0 v0] m IH]; simpl.
  - destruct (bytes_eqb k' k); reflexivity.
  - destruct (bytes_eqb_spec k k0) as [->|Hne]; simpl.
    + destruct (bytes_eqb k' k0); reflexivity.
    + destruct (bytes_eqb_spec k' k0) as [->|Hne'].
      * destruct (bytes_eqb_spec k0 k) as [E|_]; [congruence|reflexivity].
      * exact IH.
Qed.

(* ---------- TypeSet.Encode on sets without nil members ---------- *)
Definition no_nil (t : option gtype) : Prop := Forall (fun m : option member => m <> None) (members_of t).
Definition clean (ts : typeset) : Prop := forall k t, tlookup k ts = Some t -> no_nil t.

Lemma clean_nil : clean [].
Proof. intros k t H; discriminate. Qed.

Lemma clean_aset k t ts : clean ts -> no_nil t -> clean (aset k t ts).
Proof.
  intros Hc Ht k' t' H. unfold tlookup in H. rewrite alookup_aset in H.
  destruct (bytes_eqb k' k); [injection H as <-; exact Ht|]. apply (Hc k' t' H).
Qed.

Lemma clean_tget ts k : clean ts -> no_nil (tget k ts).
Proof.
  intros Hc. unfold tget. destruct (tlookup k ts) as [t|] eqn:E; [apply (Hc k t E)|]. constructor.
Qed.

Lemma Type_Encode_members_np first l :
  Forall (fun m : option member => m <> None) l -> Type_Encode_members first l <> Panic.
Proof.
  revert first. induction l as [|tm r IH]; intros first Hf; simpl; [discriminate|].
  inversion Hf as [|? ? Htm Hr]; subst.
  apply bind_np. { destruct tm; [discriminate|congruence]. }
  intros s. apply bind_np; [apply IH; exact Hr|discriminate].
Qed.

Lemma Type_Encode_np name t : no_nil t -> Type_Encode name t <> Panic.
Proof. intros Hn. unfold Type_Encode. apply bind_np; [apply Type_Encode_members_np; exact Hn|discriminate]. Qed.

Lemma Type_Encode_all_np ts names : clean ts -> Type_Encode_all ts names <> Panic.
Proof.
  intros Hc. induction names as [|n r IH]; simpl; [discriminate|].
  apply bind_np; [apply Type_Encode_np, clean_tget, Hc|]. intros s.
  apply bind_np; [exact IH|discriminate].
Qed.

Lemma TypeSet_Encode_np ts primary : clean ts -> TypeSet_Encode ts primary <> Panic.
Proof.
  intros Hc. unfold TypeSet_Encode, TypeSet_Encode_keys.
  apply bind_np; [apply Type_Encode_np, clean_tget, Hc|]. intros p.
  apply bind_np; [apply Type_Encode_all_np, Hc|discriminate].
Qed.

(* ---------- addNestedTypes ---------- *)
Definition ant_loop (rec : bytes -> typeset -> res typeset) :=
  fix loop (ms : gtype) (typeSet : typeset) {struct ms} : res typeset :=
    match ms with
    | [] => Ok typeSet
    | None :: _ => Err ENullTypeMember
    | Some tm :: r => do typeSet' <- rec (m_type tm) typeSet; loop r typeSet'
    end.

Lemma addNestedTypes_S f typeName allTypes typeSet :
  addNestedTypes (S f) typeName allTypes typeSet =
  let typeName := strip_array typeName in
  match tlookup typeName allTypes with
  | Some t =>
      if is_nil_type (tget typeName typeSet) then
        ant_loop (fun n s => addNestedTypes f n allTypes s) (members_of t) (aset typeName t typeSet)
      else Ok typeSet
  | None => Ok typeSet
  end.
Proof. reflexivity. Qed.

Lemma ant_loop_ok_no_nil rec ms ts ts' :
  ant_loop rec ms ts = Ok ts' -> Forall (fun m : option member => m <> None) ms.
Proof.
  revert ts. induction ms as [|[tm|] r IH]; intros ts H; simpl in H.
  - constructor.
  - apply bind_ok in H. destruct H as [ts1 [_ H]]. constructor; [discriminate|]. apply (IH ts1 H).
  - discriminate.
Qed.

Lemma ant_loop_clean rec ms ts ts' :
  (forall n s s', rec n s = Ok s' -> clean s -> clean s') ->
  ant_loop rec ms ts = Ok ts' -> clean ts -> clean ts'.
Proof.
  intros Hrec. revert ts. induction ms as [|[tm|] r IH]; intros ts H Hc; simpl in H.
  - injection H as <-. exact Hc.
  - apply bind_ok in H. destruct H as [ts1 [H1 H]]. apply (IH ts1 H). apply (Hrec _ _ _ H1 Hc).
  - discriminate.
Qed.

Lemma addNestedTypes_clean fuel : forall typeName allTypes ts ts',
  addNestedTypes fuel typeName allTypes ts = Ok ts' -> clean ts -> clean ts'.
Proof.
  induction fuel as [|f IH]; intros typeName allTypes ts ts' H Hc; [discriminate|].
  rewrite addNestedTypes_S in H. cbv zeta in H.
  destruct (tlookup (strip_array typeName) allTypes) as [t|]; [|injection H as <-; exact Hc].
  destruct (is_nil_type (tget (strip_array typeName) ts)); [|injection H as <-; exact Hc].
  pose proof (ant_loop_ok_no_nil _ _ _ _ H) as Hnn.
  refine (ant_loop_clean _ _ _ _ _ H _).
  - intros n s s' Hr Hs. apply (IH n allTypes s s' Hr Hs).
  - apply clean_aset; [exact Hc|exact Hnn].
Qed.

Lemma ant_loop_np rec ms ts : (forall n s, rec n s <> Panic) -> ant_loop rec ms ts <> Panic.
Proof.
  intros Hrec. revert ts. induction ms as [|[tm|] r IH]; intros ts; simpl; try discriminate.
  apply bind_np; [apply Hrec|]. intros s. apply IH.
Qed.

Lemma addNestedTypes_np fuel : forall typeName allTypes ts, addNestedTypes fuel typeName allTypes ts <> Panic.
Proof.
  induction fuel as [|f IH]; intros typeName allTypes ts; [discriminate|].
  rewrite addNestedTypes_S. cbv zeta.
  destruct (tlookup (strip_array typeName) allTypes) as [t|]; [|discriminate].
  destruct (is_nil_type (tget (strip_array typeName) ts)); [|discriminate].
  apply ant_loop_np. intros n s. apply IH.
Qed.

(* ---------- strings.LastIndex ---------- *)
Lemma last_index_byte_some c s i :
  last_index_byte c s = Some i -> (i < length s)%nat /\ nth_error s i = Some c.
Proof.
  revert i. induction s as [|x t IH]; intros i H; simpl in H; [discriminate|].
  destruct (last_index_byte c t) as [j|] eqn:E.
  - injection H as <-. destruct (IH j eq_refl) as [Hl Hn]. simpl. split; [lia|exact Hn].
  - destruct (byte_eqb_spec x c) as [->|]; [|discriminate]. injection H as <-. simpl. split; [lia|reflexivity].
Qed.

Section Total.
  Variable H : bytes -> bytes.
  Variable big_other : bytes -> option Z.

  (* bind with access to the value actually produced *)
  Lemma bind_np' {A B} (r : res A) (f : A -> res B) :
    r <> Panic -> (forall a, r = Ok a -> f a <> Panic) -> bind r f <> Panic.
  Proof. apply bind_not_panic. Qed.

  Lemma encodeType_np allTypes typeName : encodeType allTypes typeName <> Panic.
  Proof.
    unfold encodeType. destruct (tget typeName allTypes) as [t|]; [|discriminate].
    apply bind_np'; [apply addNestedTypes_np|]. intros depSet E.
    apply bind_np; [|discriminate]. apply TypeSet_Encode_np.
    apply (addNestedTypes_clean _ _ _ _ _ E), clean_nil.
  Qed.

  Definition ed_loop (enc : bytes -> gval -> res bytes) (vMap : gmap) :=
    fix loop (ms : gtype) : res bytes :=
      match ms with
      | [] => Ok []
      | None :: _ => Err ENullTypeMember
      | Some tm :: r =>
          do b <- enc (m_type tm) (glookup (m_name tm) vMap);
          do rest <- loop r;
          Ok (b ++ rest)
      end.

  Lemma ed_loop_np enc vMap ms : (forall tn v, enc tn v <> Panic) -> ed_loop enc vMap ms <> Panic.
  Proof.
    intros Henc. induction ms as [|[tm|] r IH]; simpl; try discriminate.
    apply bind_np; [apply Henc|]. intros b. apply bind_np; [exact IH|discriminate].
  Qed.

  Lemma encodeData_np allTypes enc typeName v :
    (forall tn v, enc tn v <> Panic) -> encodeData H allTypes enc typeName v <> Panic.
  Proof.
    intros Henc. unfold encodeData. apply bind_np; [apply encodeType_np|]. intros [t typeEncoded].
    destruct v; try discriminate.
    apply bind_np; [|discriminate]. apply (ed_loop_np enc m t Henc).
  Qed.

  Lemma bytes32_ok : exists tc, abi_elementary_type (bs "bytes32") = Ok tc /\ (e_m tc <= 256)%N.
  Proof. eexists. split; [vm_compute; reflexivity|]. simpl. lia. Qed.

  Lemma hashStruct_np allTypes enc typeName v :
    (forall tn v, enc tn v <> Panic) -> hashStruct H big_other allTypes enc typeName v <> Panic.
  Proof.
    intros Henc. unfold hashStruct. apply bind_np; [apply encodeData_np; exact Henc|]. intros [e|]; [discriminate|].
    destruct bytes32_ok as [tc [E Hm]]. rewrite E.
    pose proof (abi_encode_np big_other tc (GString zero_hex) Hm) as Hnp.
    destruct (abi_encode big_other tc (GString zero_hex)); try discriminate. congruence.
  Qed.

  Definition ha_loop (enc : bytes -> gval -> res bytes) (trimmed : bytes) :=
    fix loop (l : list gval) : res bytes :=
      match l with
      | [] => Ok []
      | ve :: r => do b <- enc trimmed ve; do rest <- loop r; Ok (b ++ rest)
      end.

  Lemma ha_loop_np enc trimmed l : (forall tn v, enc tn v <> Panic) -> ha_loop enc trimmed l <> Panic.
  Proof.
    intros Henc. induction l as [|ve r IH]; simpl; [discriminate|].
    apply bind_np; [apply Henc|]. intros b. apply bind_np; [exact IH|discriminate].
  Qed.

  Lemma hashArray_np enc typeName v :
    (forall tn v, enc tn v <> Panic) -> hashArray H enc typeName v <> Panic.
  Proof.
    intros Henc. unfold hashArray. cbv zeta.
    destruct (last_index_byte x5b typeName) as [[|p]|] eqn:E; try discriminate.
    destruct (last_index_byte_some _ _ _ E) as [Hlt Hnth].
    (* typeName[len-1] is in bounds: the string is not empty *)
    unfold index at 1.
    destruct (nth_error typeName (length typeName - 1)) as [lastb|] eqn:El.
    2:{ apply nth_error_None in El. lia. }
    cbn [bind].
    destruct (byte_eqb_spec lastb x5d) as [->|Hne]; cbn [negb]; [|discriminate].
    (* the last byte is ']' while typeName[openPos] is '[': openPos < len-1, so both slices are in range *)
    assert (Hp : (S p < length typeName - 1)%nat).
    { destruct (Nat.eq_dec (S p) (length typeName - 1)) as [Eq|Ne]; [|lia].
      rewrite Eq in Hnth. rewrite Hnth in El. discriminate. }
    rewrite slice_ok by lia. cbn [bind].
    rewrite slice_ok by lia. cbn [bind].
    destruct v; try discriminate.
    apply bind_np.
    - destruct (firstn (length typeName - 1 - (S p + 1)) (skipn (S p + 1) typeName)); [discriminate|].
      destruct (atoi _); [|discriminate]. destruct (_ =? _)%Z; discriminate.
    - intros _. apply bind_np; [|discriminate].
      apply (ha_loop_np enc _ l Henc).
  Qed.

  Lemma encodeElement_np allTypes fuel : forall typeName v,
    encodeElement H big_other allTypes fuel typeName v <> Panic.
  Proof.
    induction fuel as [|f IH]; intros typeName v; [discriminate|].
    cbn [encodeElement].
    destruct (ends_with x5d typeName). { apply hashArray_np. exact IH. }
    destruct (is_some (tlookup typeName allTypes)). { apply hashStruct_np. exact IH. }
    apply bind_np'; [apply abi_elementary_type_np|]. intros tc Etc.
    pose proof (abi_elementary_type_m _ _ Etc) as Hm.
    destruct (e_base tc); try discriminate; try (apply abi_encode_np; exact Hm).
    - destruct (e_suffix tc); [|apply abi_encode_np; exact Hm].
      apply bind_np; [apply get_bytes_np|discriminate].
    - apply bind_np; [apply get_string_np|discriminate].
  Qed.

  Lemma HashStruct_np typeName v allTypes : HashStruct H big_other typeName v allTypes <> Panic.
  Proof. unfold HashStruct. apply hashStruct_np. apply encodeElement_np. Qed.

  (* EncodeTypedDataV4 on any payload pointer: a digest or an error *)
  Theorem EncodeTypedDataV4_total (payload : option typed_data) :
    EncodeTypedDataV4 H big_other payload <> Panic.
  Proof.
    unfold EncodeTypedDataV4. destruct payload as [p|]; [|discriminate]. cbv zeta.
    destruct (td_primary p); [discriminate|].
    apply bind_np; [apply HashStruct_np|]. intros dh.
    destruct (negb _); [|discriminate].
    apply bind_np; [apply HashStruct_np|discriminate].
  Qed.

  (* SignTypedDataV4: the only partial operations after hashing are the two FillBytes(32) of the
     signature's R and S, in range for every signature the signer can return *)
  Definition signer_in_range (sign_direct : bytes -> option (Z * Z * Z)) : Prop :=
    forall msg r s v, sign_direct msg = Some (r, s, v) -> (Z.abs r < 2 ^ 256 /\ Z.abs s < 2 ^ 256)%Z.

  Theorem SignTypedDataV4_total sign_direct (payload : option typed_data) :
    signer_in_range sign_direct -> SignTypedDataV4 H big_other sign_direct payload <> Panic.
  Proof.
    intros Hs. unfold SignTypedDataV4.
    apply bind_np; [apply EncodeTypedDataV4_total|]. intros d.
    destruct (sign_direct d) as [[[r s] v]|] eqn:E; [|discriminate].
    destruct (Hs _ _ _ _ E) as [Hr Hs'].
    apply bind_np; [apply fill_bytes_np; rewrite pow256_32; exact Hr|]. intros rb.
    apply bind_np; [apply fill_bytes_np; rewrite pow256_32; exact Hs'|discriminate].
  Qed.

  (* ---- from any JSON tree offered as the document, both decode paths ---- *)
  Theorem hash_document_total (doc : json) :
    (do td <- decode_typed_data doc; EncodeTypedDataV4 H big_other (Some td)) <> Panic.
  Proof. apply bind_np; [apply decode_typed_data_total|]. intros td. apply EncodeTypedDataV4_total. Qed.

  Theorem sign_document_total sign_direct (doc : json) :
    signer_in_range sign_direct ->
    (do p <- decode_typed_data_ptr doc; SignTypedDataV4 H big_other sign_direct p) <> Panic.
  Proof.
    intros Hs. apply bind_np; [apply decode_typed_data_ptr_total|]. intros p. apply SignTypedDataV4_total; exact Hs.
  Qed.
End Total.
