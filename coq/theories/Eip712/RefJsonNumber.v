(* C14, answers to the referee (issues 2 and 4).

   1. The RFC 8259 number grammar, written declaratively from the RFC text
          number = [ minus ] int [ frac ] [ exp ]      int = zero / ( digit1-9 *DIGIT )
          frac = decimal-point 1*DIGIT                 exp = e [ minus / plus ] 1*DIGIT
      and the proof that every such text is inside the grammars the model of BigIntegerFromString
      treats itself ([classify t <> COther]): for a JSON number the math/big oracle is never asked.
   2. An independent positional reading of digit strings (sum of digit * base^position) and the proof
      that the model's Horner folds [dec_value] / [hex_value] compute it. *)
From Coq Require Import String.
From Coq Require Import List NArith ZArith Bool Arith Lia.
From Coq Require Import Init.Byte.
From FFS Require Import Base.Res Base.Bytes Abi.Spec.
From FFS Require Import Eip712.Util Eip712.Input Eip712.Numeric Eip712.Coerce Eip712.Model.
From FFS Require Import Eip712.NumericProofs Eip712.SpellingProofs.
Import ListNotations.

(* ---------- RFC 8259 section 6 ---------- *)
Definition all_digits (l : bytes) : Prop := forallb Numeric.is_digit l = true.

Definition json_int (ip : bytes) : Prop :=
  ip = [x30] \/ exists d r, ip = d :: r /\ (49 <= b2n d <= 57)%N /\ all_digits r.
Definition json_frac (fr : bytes) : Prop :=
  fr = [] \/ exists fd, fr = x2e :: fd /\ fd <> [] /\ all_digits fd.
Definition json_exp (ex : bytes) : Prop :=
  ex = [] \/ exists e sg ed, ex = e :: sg ++ ed /\ (e = x65 \/ e = x45) /\
                             (sg = [] \/ sg = [x2b] \/ sg = [x2d]) /\ ed <> [] /\ all_digits ed.
Definition json_number (t : bytes) : Prop :=
  exists mi ip fr ex, t = mi ++ ip ++ fr ++ ex /\ (mi = [] \/ mi = [x2d]) /\
                      json_int ip /\ json_frac fr /\ json_exp ex.

(* ---------- the scanner of the model on such texts ---------- *)
Lemma is_digit_range b : Numeric.is_digit b = true -> (48 <= b2n b <= 57)%N.
Proof.
  unfold Numeric.is_digit. cbv zeta. intros Hb. apply andb_true_iff in Hb. destruct Hb as [H1 H2].
  apply N.leb_le in H1, H2. lia.
Qed.

Lemma digit_not k b : Numeric.is_digit b = true -> (k < 48 \/ 57 < k)%N -> byte_is k b = false.
Proof. intros Hb Hk. apply is_digit_range in Hb. unfold byte_is. apply N.eqb_neq. lia. Qed.

(* what may follow a digit run inside a JSON number: nothing, or a byte that is not a digit *)
Definition stops (r : bytes) : Prop := match r with [] => True | b :: _ => Numeric.is_digit b = false end.

Lemma span_digits_app ds r : all_digits ds -> stops r -> span_digits (ds ++ r) = (ds, r).
Proof.
  unfold all_digits. induction ds as [|b t IH]; intros Hd Hr.
  - cbn [app]. destruct r as [|c r']; [reflexivity|]. cbn [span_digits]. cbn in Hr. rewrite Hr. reflexivity.
  - cbn [forallb] in Hd. apply andb_true_iff in Hd. destruct Hd as [Hb Ht].
    cbn [app span_digits]. rewrite Hb, (IH Ht Hr). reflexivity.
Qed.

Lemma scan_exp_nil : scan_exp [] = Some (false, []).
Proof. reflexivity. Qed.

Lemma scan_exp_json e sg ed :
  (e = x65 \/ e = x45) -> (sg = [] \/ sg = [x2b] \/ sg = [x2d]) -> ed <> [] -> all_digits ed ->
  exists eneg, scan_exp (e :: sg ++ ed) = Some (eneg, ed).
Proof.
  intros He Hsg Hne Hd.
  assert (Hsp : span_digits ed = (ed, [])) by (apply span_digits_all; exact Hd).
  assert (E1 : byte_is 101 e || byte_is 69 e = true) by (destruct He as [-> | ->]; reflexivity).
  unfold scan_exp. rewrite E1.
  destruct Hsg as [-> | [-> | ->]].
  - cbn [app]. destruct ed as [|d ed']; [congruence|].
    assert (Hdig : Numeric.is_digit d = true).
    { unfold all_digits in Hd. cbn [forallb] in Hd. apply andb_true_iff in Hd. tauto. }
    rewrite (digit_not 45 d Hdig) by lia. rewrite (digit_not 43 d Hdig) by lia.
    rewrite Hsp. exists false. reflexivity.
  - cbn [app]. change (byte_is 45 x2b) with false. change (byte_is 43 x2b) with true. cbv iota.
    rewrite Hsp. destruct ed; [congruence|]. exists false. reflexivity.
  - cbn [app]. change (byte_is 45 x2d) with true. cbv iota.
    rewrite Hsp. destruct ed; [congruence|]. exists true. reflexivity.
Qed.

Lemma json_exp_stops ex : json_exp ex -> stops ex.
Proof. intros [-> | [e [sg [ed [-> [[-> | ->] _]]]]]]; cbn; reflexivity. Qed.

Lemma json_exp_scan ex : json_exp ex -> exists eneg ed, scan_exp ex = Some (eneg, ed) /\ (ex <> [] -> ed <> []).
Proof.
  intros [-> | [e [sg [ed [-> [He [Hsg [Hne Hd]]]]]]]].
  - exists false, []. split; [reflexivity|congruence].
  - destruct (scan_exp_json e sg ed He Hsg Hne Hd) as [eneg E]. exists eneg, ed. split; [exact E|auto].
Qed.

(* the hexadecimal branch of classify_unsigned is not taken: after the integer part of a JSON number
   comes nothing, '.', 'e' or 'E' — never 'x' / 'X' *)
Definition hex_branch (neg : bool) (r : bytes) : option numclass :=
  match r with
  | z :: x :: h =>
      if byte_is 48 z && (byte_is 120 x || byte_is 88 x) then
        Some (match h with _ :: _ => if forallb is_hex h then CHex neg h else COther | [] => COther end)
      else None
  | _ => None
  end.

Definition after_int (r : bytes) : Prop :=
  match r with [] => True | c :: _ => Numeric.is_digit c = false /\ byte_is 120 c = false /\ byte_is 88 c = false end.

Lemma hex_branch_none neg ip rest : json_int ip -> after_int rest -> hex_branch neg (ip ++ rest) = None.
Proof.
  intros [-> | [d [r [-> [Hd Hr]]]]] Ha.
  - cbn [app]. destruct rest as [|c rest']; [reflexivity|]. destruct Ha as [_ [H1 H2]].
    unfold hex_branch. rewrite H1, H2. rewrite andb_false_r. reflexivity.
  - assert (H48 : byte_is 48 d = false) by (unfold byte_is; apply N.eqb_neq; lia).
    cbn [app]. unfold hex_branch. destruct (r ++ rest) as [|x h]; [reflexivity|]. rewrite H48. reflexivity.
Qed.

Lemma json_int_digits ip : json_int ip -> all_digits ip /\ int_part_ok ip = true.
Proof.
  intros [-> | [d [r [-> [Hd Hr]]]]]; [split; reflexivity|].
  split.
  - unfold all_digits in *. cbn [forallb]. rewrite Hr. rewrite andb_true_r.
    unfold Numeric.is_digit. cbv zeta. apply andb_true_iff. split; apply N.leb_le; lia.
  - destruct r; [reflexivity|]. cbn [int_part_ok]. unfold byte_is.
    replace (b2n d =? 48)%N with false by (symmetry; apply N.eqb_neq; lia). reflexivity.
Qed.

Lemma json_tail_after_int fr ex : json_frac fr -> json_exp ex -> after_int (fr ++ ex) /\ stops (fr ++ ex).
Proof.
  intros [-> | [fd [-> _]]] Hex.
  - cbn [app]. destruct Hex as [-> | [e [sg [ed [-> [[-> | ->] _]]]]]]; cbn; repeat split; reflexivity.
  - cbn; repeat split; reflexivity.
Qed.

Lemma classify_unsigned_json neg ip fr ex :
  json_int ip -> json_frac fr -> json_exp ex -> classify_unsigned neg (ip ++ fr ++ ex) <> COther.
Proof.
  intros Hip Hfr Hex.
  destruct (json_tail_after_int fr ex Hfr Hex) as [Hafter Hstops].
  destruct (json_int_digits ip Hip) as [Hdig Hok].
  unfold classify_unsigned. fold (hex_branch neg (ip ++ fr ++ ex)).
  rewrite (hex_branch_none neg ip (fr ++ ex) Hip Hafter).
  rewrite (span_digits_app ip (fr ++ ex) Hdig Hstops). rewrite Hok. cbn [negb].
  destruct Hfr as [-> | [fd [-> [Hfne Hfd]]]].
  - cbn [app]. destruct Hex as [-> | [e [sg [ed [-> [He [Hsg [Hne Hd]]]]]]]]; [discriminate|].
    destruct (scan_exp_json e sg ed He Hsg Hne Hd) as [eneg Esc].
    assert (H46 : byte_is 46 e = false) by (destruct He as [-> | ->]; reflexivity).
    cbv iota. rewrite H46. rewrite Esc. destruct ed; [congruence|discriminate].
  - destruct (json_exp_scan ex Hex) as [eneg [ed [Esc Hne]]].
    cbn [app]. change (byte_is 46 x2e) with true. cbv iota.
    rewrite (span_digits_app fd ex Hfd (json_exp_stops ex Hex)).
    destruct fd as [|f0 fd']; [congruence|]. rewrite Esc. discriminate.
Qed.

(* Every JSON number lies inside the modelled grammars: it is classified as a decimal integer or as
   a scientific text, never handed to the math/big oracle. *)
Theorem json_number_classified t : json_number t -> classify t <> COther.
Proof.
  intros [mi [ip [fr [ex [-> [Hmi [Hip [Hfr Hex]]]]]]]].
  destruct Hmi as [-> | ->].
  - cbn [app]. pose proof (classify_unsigned_json false ip fr ex Hip Hfr Hex) as Hc.
    destruct (json_int_digits ip Hip) as [Hdig _].
    unfold classify. destruct (ip ++ fr ++ ex) as [|b r] eqn:E.
    + destruct Hip as [-> | [d [r [-> _]]]]; discriminate.
    + assert (Hb : Numeric.is_digit b = true).
      { destruct Hip as [-> | [d [r0 [-> _]]]]; cbn [app] in E; injection E as <- _.
        - reflexivity.
        - unfold all_digits in Hdig. cbn [forallb] in Hdig. apply andb_true_iff in Hdig. tauto. }
      rewrite (digit_not 45 b Hb) by lia. rewrite (digit_not 43 b Hb) by lia. exact Hc.
  - cbn [app classify]. change (byte_is 45 x2d) with true. cbv iota.
    apply classify_unsigned_json; assumption.
Qed.

Section Element.
  Variable H : bytes -> bytes.
  Variable big_other : bytes -> option Z.
  Variable allTypes : typeset.

  (* A JSON number at an integer member that is hashed at all was read as exactly the integer the
     text denotes, that integer is in range, and the bytes are its word — no side condition on the
     text, no oracle. *)
  Theorem json_number_member_exact fuel tn tc t w :
    integer_member_type allTypes tn tc -> json_number t ->
    encodeElement H big_other allTypes (S fuel) tn (GNumber t) = Ok w ->
    exists z, text_denotes t z /\ in_range (is_signed (e_base tc)) (e_m tc) z = true /\ w = word z.
  Proof.
    intros Hty Hj Hw.
    destruct (integer_member_sound H big_other allTypes fuel tn tc _ w Hty Hw) as [z [Hz [Hr Hword]]].
    exists z. repeat split; try assumption.
    apply (BigIntegerFromString_sound big_other t z (json_number_classified t Hj) Hz).
  Qed.

  (* The result does not depend on the oracle at all. *)
  Theorem json_number_member_oracle_free o2 fuel tn tc t :
    integer_member_type allTypes tn tc -> json_number t ->
    encodeElement H big_other allTypes (S fuel) tn (GNumber t) =
    encodeElement H o2 allTypes (S fuel) tn (GNumber t).
  Proof.
    intros Hty Hj.
    rewrite (encodeElement_integer H big_other allTypes fuel tn tc _ Hty).
    rewrite (encodeElement_integer H o2 allTypes fuel tn tc _ Hty).
    cbn [integer_of_gval]. unfold BigIntegerFromString.
    pose proof (json_number_classified t Hj) as Hc. destruct (classify t); try reflexivity. congruence.
  Qed.
End Element.

(* non-vacuity: texts of the grammar, and texts outside it *)
Example json_number_examples :
  json_number (bs "0") /\ json_number (bs "-12") /\ json_number (bs "-1.50E+3") /\ json_number (bs "1e77") /\
  ~ json_number (bs "010") /\ ~ json_number (bs "0x1F") /\ ~ json_number (bs "+5") /\ ~ json_number (bs "1_0").
Proof.
  repeat split.
  - exists [], (bs "0"), [], []. repeat split; try (left; reflexivity).
  - exists (bs "-"), (bs "12"), [], []. repeat split; try (left; reflexivity); try (right; reflexivity).
    right. exists x31, (bs "2"). repeat split; vm_compute; congruence.
  - exists (bs "-"), (bs "1"), (bs ".50"), (bs "E+3"). repeat split; try (right; reflexivity).
    + right. exists x31, []. repeat split; vm_compute; congruence.
    + right. exists (bs "50"). repeat split; try reflexivity. discriminate.
    + right. exists x45, [x2b], (bs "3"). repeat split; try reflexivity; try tauto. discriminate.
  - exists [], (bs "1"), [], (bs "e77"). repeat split; try (left; reflexivity).
    + right. exists x31, []. repeat split; vm_compute; congruence.
    + right. exists x65, [], (bs "77"). repeat split; try reflexivity; try tauto. discriminate.
  - intros Hj. apply (json_number_classified _ Hj). vm_compute. reflexivity.
  - intros Hj. pose proof (json_number_classified _ Hj) as Hc.
    destruct Hj as [mi [ip [fr [ex [E [Hmi [Hip [Hfr Hex]]]]]]]].
    (* "0x1F" is hexadecimal for the model; it is not a JSON number because after "0" comes 'x' *)
    destruct Hmi as [-> | ->]; [|discriminate E]. cbn [app] in E.
    destruct Hip as [-> | [d [r [-> [Hd _]]]]].
    + cbn [app] in E. injection E as E.
      destruct Hfr as [-> | [fd [-> _]]]; [|discriminate E]. cbn [app] in E.
      destruct Hex as [-> | [e [sg [ed [-> [[-> | ->] _]]]]]]; discriminate E.
    + cbn [app] in E. injection E as <- _. vm_compute in Hd. destruct Hd as [Hd _]. apply Hd. reflexivity.
  - intros Hj. destruct Hj as [mi [ip [fr [ex [E [Hmi [Hip [Hfr Hex]]]]]]]].
    destruct Hmi as [-> | ->]; [|discriminate E]. cbn [app] in E.
    destruct Hip as [-> | [d [r [-> [Hd _]]]]]; [discriminate E|].
    cbn [app] in E. injection E as <- _. vm_compute in Hd. destruct Hd as [Hd _]. apply Hd. reflexivity.
  - intros Hj. apply (json_number_classified _ Hj). vm_compute. reflexivity.
Qed.

(* ---------- issue 4: positional value, independent of the Horner fold ---------- *)
(* the value of a digit string: sum over the positions of digit value * base ^ (number of digits
   to the right) *)
Fixpoint pos_value (base : Z) (val : byte -> Z) (ds : bytes) : Z :=
  match ds with
  | [] => 0
  | b :: r => val b * base ^ Z.of_nat (length r) + pos_value base val r
  end.

Lemma horner_pos base val ds : forall a,
  fold_left (fun acc b => acc * base + val b)%Z ds a = (a * base ^ Z.of_nat (length ds) + pos_value base val ds)%Z.
Proof.
  induction ds as [|b r IH]; intros a.
  - cbn [fold_left length pos_value]. change (Z.of_nat 0) with 0%Z. rewrite Z.pow_0_r. lia.
  - cbn [fold_left pos_value]. rewrite IH. cbn [length]. rewrite Nat2Z.inj_succ, Z.pow_succ_r by lia. ring.
Qed.

(* the value of one decimal / hexadecimal digit, as a table *)
Definition dec_digit_value (b : byte) : Z := Z.of_N (b2n b) - 48.
Definition hex_digit_value (b : byte) : Z :=
  let n := b2n b in
  if ((48 <=? n) && (n <=? 57))%N then Z.of_N n - 48            (* '0'..'9' *)
  else if ((97 <=? n) && (n <=? 102))%N then Z.of_N n - 97 + 10  (* 'a'..'f' *)
  else if ((65 <=? n) && (n <=? 70))%N then Z.of_N n - 65 + 10   (* 'A'..'F' *)
  else 0.

Theorem dec_value_positional ds : dec_value ds = pos_value 10 dec_digit_value ds.
Proof. unfold dec_value. rewrite (horner_pos 10 digit_val ds 0). reflexivity. Qed.

Theorem hex_value_positional ds : hex_value ds = pos_value 16 hex_digit_value ds.
Proof.
  unfold hex_value.
  rewrite (horner_pos 16 (fun b => match hex_val b with Some d => d | None => 0%Z end) ds 0).
  cbn [Z.mul Z.add]. induction ds as [|b r IH]; [reflexivity|]. cbn [pos_value]. rewrite IH. f_equal. f_equal.
  unfold hex_val, hex_digit_value. cbv zeta.
  destruct ((48 <=? b2n b) && (b2n b <=? 57))%N; [reflexivity|].
  destruct ((97 <=? b2n b) && (b2n b <=? 102))%N; [lia|].
  destruct ((65 <=? b2n b) && (b2n b <=? 70))%N; [lia|reflexivity].
Qed.

(* What BigIntegerFromString returns for a text "sign digits" / "sign 0x hexdigits" is the positional
   value of the digits with the sign applied — stated on the text itself. *)
Theorem BigIntegerFromString_positional o t z :
  BigIntegerFromString o t = Ok z ->
  (forall neg ds, classify t = CDec neg ds ->
     exists sgn, t = sgn ++ ds /\ is_sign sgn neg /\ z = signed neg (pos_value 10 dec_digit_value ds)) /\
  (forall neg ds, classify t = CHex neg ds ->
     exists sgn x, t = sgn ++ x30 :: x :: ds /\ is_sign sgn neg /\ (x = x78 \/ x = x58) /\
                   z = signed neg (pos_value 16 hex_digit_value ds)).
Proof.
  intros Hz. destruct (classify_faithful t) as [Hd [Hh _]]. split.
  - intros neg ds Hc. destruct (Hd neg ds Hc) as [sgn [Et [Hs _]]]. exists sgn. repeat split; try assumption.
    unfold BigIntegerFromString in Hz. rewrite Hc in Hz. injection Hz as <-. rewrite dec_value_positional. reflexivity.
  - intros neg ds Hc. destruct (Hh neg ds Hc) as [sgn [x [Et [Hs [Hx _]]]]]. exists sgn, x. repeat split; try assumption.
    unfold BigIntegerFromString in Hz. rewrite Hc in Hz. injection Hz as <-. rewrite hex_value_positional. reflexivity.
Qed.

Example positional_example :
  pos_value 10 dec_digit_value (bs "907") = 907%Z /\ pos_value 16 hex_digit_value (bs "fF0") = 4080%Z.
Proof. split; vm_compute; reflexivity. Qed.

(* ---------- a boolean recogniser of the same grammar (used by the evaluator RunC14.v on every
   number token the encoding/json lexer hands over), sound for [json_number] ---------- *)
Fixpoint take_digits (l : bytes) : bytes :=
  match l with b :: r => if Numeric.is_digit b then b :: take_digits r else [] | [] => [] end.
Fixpoint skip_digits (l : bytes) : bytes :=
  match l with b :: r => if Numeric.is_digit b then skip_digits r else l | [] => [] end.

Definition json_exp_b (r : bytes) : bool :=
  match r with
  | [] => true
  | e :: r1 =>
      (byte_is 101 e || byte_is 69 e) &&
      let r2 := match r1 with
                | s :: r2 => if byte_is 43 s || byte_is 45 s then r2 else r1
                | [] => r1
                end in
      match r2 with
      | d :: _ => Numeric.is_digit d && match skip_digits r2 with [] => true | _ :: _ => false end
      | [] => false
      end
  end.

Definition json_frac_exp_b (r : bytes) : bool :=
  match r with
  | [] => true
  | c :: r1 =>
      if byte_is 46 c then
        match r1 with d :: _ => Numeric.is_digit d && json_exp_b (skip_digits r1) | [] => false end
      else json_exp_b r
  end.

Definition json_unsigned_b (r : bytes) : bool :=
  match r with
  | [] => false
  | d :: r1 => if byte_is 48 d then json_frac_exp_b r1
               else Numeric.is_digit d && json_frac_exp_b (skip_digits r1)
  end.

Definition json_number_b (t : bytes) : bool :=
  match t with
  | [] => false
  | m :: r => if byte_is 45 m then json_unsigned_b r else json_unsigned_b t
  end.

Lemma take_skip l : l = take_digits l ++ skip_digits l /\ all_digits (take_digits l).
Proof.
  unfold all_digits. induction l as [|b r [IH1 IH2]]; [split; reflexivity|].
  cbn [take_digits skip_digits]. destruct (Numeric.is_digit b) eqn:Eb.
  - split; [cbn [app]; f_equal; exact IH1|]. cbn [forallb]. rewrite Eb, IH2. reflexivity.
  - split; reflexivity.
Qed.

Lemma json_exp_b_sound r : json_exp_b r = true -> json_exp r.
Proof.
  destruct r as [|e r1]; [left; reflexivity|]. intros Hb. right. cbn [json_exp_b] in Hb.
  apply andb_true_iff in Hb. destruct Hb as [He Hb].
  assert (He' : e = x65 \/ e = x45).
  { apply orb_true_iff in He. destruct He as [He|He]; apply byte_is_true in He; [left|right]; exact He. }
  assert (Hgen : forall sg r2, r1 = sg ++ r2 -> (sg = [] \/ sg = [x2b] \/ sg = [x2d]) ->
            match r2 with
            | d :: _ => Numeric.is_digit d && match skip_digits r2 with [] => true | _ :: _ => false end
            | [] => false end = true ->
            exists e0 sg0 ed, e :: r1 = e0 :: sg0 ++ ed /\ (e0 = x65 \/ e0 = x45) /\
                              (sg0 = [] \/ sg0 = [x2b] \/ sg0 = [x2d]) /\ ed <> [] /\ all_digits ed).
  { intros sg r2 -> Hsg Hd. exists e, sg, r2. split; [reflexivity|]. split; [exact He'|]. split; [exact Hsg|].
    destruct r2 as [|d r2']; [discriminate|]. split; [discriminate|].
    apply andb_true_iff in Hd. destruct Hd as [_ Hs].
    destruct (take_skip (d :: r2')) as [E A]. destruct (skip_digits (d :: r2')); [|discriminate].
    rewrite app_nil_r in E. rewrite E. exact A. }
  destruct r1 as [|s r2].
  - discriminate.
  - destruct (byte_is 43 s || byte_is 45 s) eqn:Es.
    + apply orb_true_iff in Es. destruct Es as [Es|Es]; apply byte_is_true in Es; subst s.
      * apply (Hgen [x2b] r2 eq_refl); [tauto|exact Hb].
      * apply (Hgen [x2d] r2 eq_refl); [tauto|exact Hb].
    + apply (Hgen [] (s :: r2) eq_refl); [tauto|exact Hb].
Qed.

Lemma json_frac_exp_b_sound r :
  json_frac_exp_b r = true -> exists fr ex, r = fr ++ ex /\ json_frac fr /\ json_exp ex.
Proof.
  destruct r as [|c r1]; [exists [], []; repeat split; left; reflexivity|].
  cbn [json_frac_exp_b]. destruct (byte_is 46 c) eqn:Ec.
  - apply byte_is_true in Ec. change (n2b 46) with x2e in Ec. subst c.
    destruct r1 as [|d r1']; [discriminate|]. intros Hb. apply andb_true_iff in Hb. destruct Hb as [Hd Hx].
    destruct (take_skip (d :: r1')) as [E A].
    exists (x2e :: take_digits (d :: r1')), (skip_digits (d :: r1')). split; [cbn [app]; f_equal; exact E|].
    split; [|apply json_exp_b_sound; exact Hx].
    right. exists (take_digits (d :: r1')). split; [reflexivity|]. split; [|exact A].
    cbn [take_digits]. rewrite Hd. discriminate.
  - intros Hb. exists [], (c :: r1). split; [reflexivity|]. split; [left; reflexivity|apply json_exp_b_sound; exact Hb].
Qed.

Lemma json_unsigned_b_sound r :
  json_unsigned_b r = true ->
  exists ip fr ex, r = ip ++ fr ++ ex /\ json_int ip /\ json_frac fr /\ json_exp ex.
Proof.
  destruct r as [|d r1]; [discriminate|]. cbn [json_unsigned_b]. destruct (byte_is 48 d) eqn:E0.
  - apply byte_is_true in E0. change (n2b 48) with x30 in E0. subst d. intros Hb.
    destruct (json_frac_exp_b_sound r1 Hb) as [fr [ex [-> [Hfr Hex]]]].
    exists [x30], fr, ex. repeat split; try assumption. left. reflexivity.
  - intros Hb. apply andb_true_iff in Hb. destruct Hb as [Hd Hb].
    destruct (json_frac_exp_b_sound _ Hb) as [fr [ex [E [Hfr Hex]]]].
    destruct (take_skip r1) as [E1 A1].
    exists (d :: take_digits r1), fr, ex. split; [cbn [app]; f_equal; rewrite <- E; exact E1|].
    repeat split; try assumption. right. exists d, (take_digits r1). split; [reflexivity|]. split; [|exact A1].
    apply is_digit_range in Hd. unfold byte_is in E0. apply N.eqb_neq in E0. lia.
Qed.

Theorem json_number_b_sound t : json_number_b t = true -> json_number t.
Proof.
  destruct t as [|m r]; [discriminate|]. cbn [json_number_b]. destruct (byte_is 45 m) eqn:Em.
  - apply byte_is_true in Em. change (n2b 45) with x2d in Em. subst m. intros Hb.
    destruct (json_unsigned_b_sound r Hb) as [ip [fr [ex [-> H3]]]].
    exists [x2d], ip, fr, ex. split; [reflexivity|]. split; [right; reflexivity|exact H3].
  - intros Hb. destruct (json_unsigned_b_sound (m :: r) Hb) as [ip [fr [ex [E H3]]]].
    exists [], ip, fr, ex. split; [exact E|]. split; [left; reflexivity|exact H3].
Qed.

(* all number tokens of a JSON tree *)
Fixpoint json_numbers_ok (j : json) : bool :=
  match j with
  | JNum t => json_number_b t
  | JArr l => forallb json_numbers_ok l
  | JObj m => forallb (fun kv => json_numbers_ok (snd kv)) m
  | JNull | JBool _ | JStr _ => true
  end.

Example json_number_b_examples :
  json_number_b (bs "0") = true /\ json_number_b (bs "-1.50E+3") = true /\ json_number_b (bs "1e77") = true /\
  json_number_b (bs "-0.0e-0") = true /\
  json_number_b (bs "010") = false /\ json_number_b (bs "+5") = false /\ json_number_b (bs "1.") = false /\
  json_number_b (bs ".5") = false /\ json_number_b (bs "1e") = false /\ json_number_b (bs "0x1F") = false /\
  json_number_b (bs "-") = false /\ json_number_b (bs "1_0") = false /\ json_number_b (bs "1e+") = false.
Proof. vm_compute. repeat split; reflexivity. Qed.
