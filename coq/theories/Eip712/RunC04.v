(* Evaluator for the correspondence check of C04: runs the model of pkg/eip712 (with the executable
   Keccak-256 plugged in) and the EIP-712 spec on the cases written by harness/cmd/c04 and reports
   where they differ from what the implementation did.
   Result codes: 0 agree; 1..9 the model differs from the implementation (or the evaluator's own
   Keccak / the spec's published anchor fails); >= 10 the implementation breaks the property. *)
From Coq Require Import String.
From Coq Require Import List NArith ZArith Bool Arith.
From Coq Require Import Init.Byte.
From FFS Require Import Base.Res Base.Bytes Base.Lit Base.Keccak.
From FFS Require Import Eip712.Util Eip712.Input Eip712.Numeric Eip712.Coerce Eip712.Model Eip712.Spec Eip712.Parse.
Import ListNotations.

(* ---- documents as written by the harness: leaves in the byte-DSL ---- *)
Inductive dval :=
| DNil | DBool (b : bool) | DNumber (t : bdsl) | DString (s : bdsl)
| DSlice (l : list dval) | DMap (m : list (bdsl * dval)).

Fixpoint expand_val (d : dval) : gval :=
  match d with
  | DNil => GNil | DBool b => GBool b | DNumber t => GNumber (bexpand t) | DString s => GString (bexpand s)
  | DSlice l => GSlice (map expand_val l)
  | DMap m => GMap (map (fun kv : bdsl * dval => (bexpand (fst kv), expand_val (snd kv))) m)
  end.

Definition dmember := option (bdsl * bdsl).            (* (name, type); None = nil *TypeMember *)
Definition dtypeset := list (bdsl * option (list dmember)).
Definition expand_member (m : dmember) : option member :=
  match m with Some (n, t) => Some (mkMember (bexpand n) (bexpand t)) | None => None end.
Definition expand_types (ts : dtypeset) : typeset :=
  map (fun nt : bdsl * option (list dmember) =>
         (bexpand (fst nt), match snd nt with Some l => Some (map expand_member l) | None => None end)) ts.
Definition dmap := list (bdsl * dval).
Definition expand_map (m : dmap) : gmap :=
  map (fun kv : bdsl * dval => (bexpand (fst kv), expand_val (snd kv))) m.

Inductive ddoc := DDoc (types : option dtypeset) (primary : bdsl) (domain message : option dmap).
Definition expand_doc (d : ddoc) : typed_data :=
  match d with
  | DDoc ts p dom msg =>
      mkTD (option_map expand_types ts) (bexpand p) (option_map expand_map dom) (option_map expand_map msg)
  end.

Inductive datc :=
| DElem (base : ebase) (suffix : bdsl)
| DFixedArr (c : datc) (n : N)
| DDynArr (c : datc)
| DTuple (internalType : bdsl) (children : list (bdsl * datc)).
Fixpoint expand_atc (d : datc) : atc :=
  match d with
  | DElem b s => TCElem b (bexpand s)
  | DFixedArr c n => TCFixedArr (expand_atc c) n
  | DDynArr c => TCDynArr (expand_atc c)
  | DTuple it ch => TCTuple (bexpand it) (map (fun kc : bdsl * datc => (bexpand (fst kc), expand_atc (snd kc))) ch)
  end.

(* finite oracle tables written by the harness (filled by calling math/big / regexp directly) *)
Definition table {A} (t : list (bdsl * option A)) (k : bytes) : option A :=
  match find (fun e : bdsl * option A => bytes_eqb (bexpand (fst e)) k) t with
  | Some (_, r) => r
  | None => None
  end.

Inductive case :=
(* document (None = nil *TypedData), math/big table, observed class, digest, independently
   published digest if there is one *)
| CDoc (d : option ddoc) (big : list (bdsl * option Z)) (cls : nat) (digest : bdsl) (published : option bdsl)
       (with_spec : bool)    (* false: model only (variants whose digest the harness compares with the base document's) *)
(* SignTypedDataV4: document, table, what SignDirect returns for the digest (R,S,V), observed class,
   hash, signatureRSV, V, R, S *)
| CSign (d : option ddoc) (big : list (bdsl * option Z)) (sig : option (Z * Z * Z)) (cls : nat)
        (hash rsv : bdsl) (v : Z) (r s : bdsl)
(* ABItoTypedDataV4: component tree, regexp table, observed class, primary type, type set *)
| CAbi (tc : datc) (re : list (bdsl * option bdsl)) (cls : nat) (primary : bdsl) (ts : dtypeset)
(* Keccak-256 of the evaluator against golang.org/x/crypto/sha3 *)
| CKeccak (input digest : bdsl).

Definition member_eqb (a b : option member) : bool :=
  match a, b with
  | Some x, Some y => bytes_eqb (m_name x) (m_name y) && bytes_eqb (m_type x) (m_type y)
  | None, None => true
  | _, _ => false
  end.
Fixpoint list_eqb {A} (f : A -> A -> bool) (a b : list A) : bool :=
  match a, b with
  | [], [] => true
  | x :: a', y :: b' => f x y && list_eqb f a' b'
  | _, _ => false
  end.
Definition gtype_eqb (a b : option gtype) : bool :=
  match a, b with
  | Some x, Some y => list_eqb member_eqb x y
  | None, None => true
  | _, _ => false
  end.
(* equal as maps *)
Definition typeset_eqb (a b : typeset) : bool :=
  (length a =? length b)%nat &&
  forallb (fun nt : bytes * option gtype =>
             match tlookup (fst nt) b with Some t => gtype_eqb (snd nt) t | None => false end) a.

Definition run_doc (big : list (bdsl * option Z)) (d : option ddoc) : res bytes :=
  EncodeTypedDataV4 keccak256 (table big) (option_map expand_doc d).

(* the property oracle: Some digest when the document is well formed *)
Definition spec_digest (big : list (bdsl * option Z)) (d : option ddoc) : option bytes :=
  match d with
  | None => None
  | Some dd =>
      match parse_doc (table big) (expand_doc dd) with
      | Some sd => if well_formed_b sd then Some (digest keccak256 sd) else None
      | None => None
      end
  end.

Definition check_case (c : case) : N :=
  match c with
  | CKeccak i d => if bytes_eqb (keccak256 (bexpand i)) (bexpand d) then 0 else 5
  | CDoc d big c dg pub ws =>
      let impl := bexpand dg in
      let sp := if ws then spec_digest big d else None in
      let anchor : N := match sp, pub with
                        | Some s, Some p => if bytes_eqb s (bexpand p) then 0%N else 6%N       (* the spec misses its anchor *)
                        | None, Some _ => 6%N
                        | _, None => 0%N
                        end in
      let prop : N := match sp with
                      | Some s => if negb (c =? 0)%nat then 11%N                             (* well-formed document refused / panicked *)
                                  else if negb (bytes_eqb s impl) then 10%N else 0%N           (* digest <> EIP-712 *)
                      | None => 0%N
                      end in
      let corr : N := match run_doc big d with
                      | Ok m => if (c =? 0)%nat then (if bytes_eqb m impl then 0%N else 2%N) else 1%N
                      | Err _ => if (c =? 1)%nat then 0%N else 1%N
                      | Panic => if (c =? 2)%nat then 0%N else 1%N
                      end in
      (* a failing property oracle is reported first (it is a concrete failing input), then a spec that
         misses its anchor, then a model/implementation difference *)
      if negb (prop =? 0)%N then prop else if negb (anchor =? 0)%N then anchor else corr
  | CSign d big sig c h rsv v r s =>
      match SignTypedDataV4 keccak256 (table big) (fun _ => sig) (option_map expand_doc d) with
      | Ok res =>
          if (c =? 0)%nat && bytes_eqb (r_hash res) (bexpand h) && bytes_eqb (r_signatureRSV res) (bexpand rsv)
             && (r_V res =? v)%Z && bytes_eqb (r_R res) (bexpand r) && bytes_eqb (r_S res) (bexpand s)
          then 0 else 3
      | Err _ => if (c =? 1)%nat then 0 else 3
      | Panic => if (c =? 2)%nat then 0 else 3
      end
  | CAbi tc re c p ts =>
      match ABItoTypedDataV4 (fun k => option_map bexpand (table re k)) (expand_atc tc) with
      | Ok (p', ts') => if (c =? 0)%nat && bytes_eqb p' (bexpand p) && typeset_eqb ts' (expand_types ts) then 0 else 4
      | Err _ => if (c =? 1)%nat then 0 else 4
      | Panic => if (c =? 2)%nat then 0 else 4
      end
  end.

Fixpoint mismatches_go (i : N) (l : list case) : list (N * N) :=
  match l with
  | [] => []
  | c :: t => let r := check_case c in
              if (r =? 0)%N then mismatches_go (i + 1) t else (i, r) :: mismatches_go (i + 1) t
  end.
Definition mismatches (l : list case) : list (N * N) := firstn 20 (mismatches_go 0 l).
