(* C04 / C14 — executable model of
     pkg/eip712/typed_data_v4.go     EncodeTypedDataV4, TypeSet.Encode, Type.Encode, TypeMember.Encode,
                                     addNestedTypes, encodeType, encodeData, HashStruct/hashStruct,
                                     encodeElement, abiElementaryType, abiEncode, hashArray
     pkg/eip712/abi_to_typed_data.go ABItoTypedDataV4, mapABIType, mapElementaryABIType,
                                     extractSolidityTypeName, addABITypes
     pkg/ethsigner/typed_data.go     SignTypedDataV4
   as they stand after the repairs 8fa74c7 (nil payload), b9ca7d3 + d7c8b02 (nil member) and 3869019
   (UseNumber).
   One definition per Go function, same order of checks.  Go values are the types of Eip712/Input.v;
   every nil dereference / type assertion / index / FillBytes that could panic is an explicit [Panic].
   External behaviour is a Section variable: the hash [H] (keccak256), the math/big oracle
   [big_other] of Numeric.v, the regular expression of extractSolidityTypeName, the signer.
   Recursion over values is fuel-bounded (fuel computed from the value, see [fuel_of]); the
   dependency DFS has fuel S |types|.  No proofs in this file. *)
From Coq Require Import String.
From Coq Require Import List NArith ZArith Bool Arith.
From Coq Require Import Init.Byte.
From FFS Require Import Base.Res Base.Bytes Abi.Spec Eip712.Util Eip712.Input Eip712.Numeric Eip712.Coerce.
Import ListNotations.

(* error classes *)
Definition EPrimaryTypeRequired : nat := 80.   (* FF22080 *)
Definition ETypeNotFound : nat := 81.          (* FF22081 *)
Definition EValueNotMap : nat := 82.           (* FF22082 *)
Definition EInvalidArraySuffix : nat := 83.    (* FF22083 *)
Definition EValueNotArray : nat := 84.         (* FF22084 *)
Definition EInvalidArrayLen : nat := 85.       (* FF22085 *)
Definition ENullTypeMember : nat := 92.        (* FF22092 *)
Definition EPrimaryNotTuple : nat := 76.       (* FF22076 *)
Definition EBadInternalType : nat := 77.       (* FF22077 *)
Definition ESigner : nat := 90.                (* any error returned by the signer *)

Definition EIP712Domain : bytes := bs "EIP712Domain".

(* ts[name] on a TypeSet: a missing key reads as the nil Type *)
Definition tget (k : bytes) (ts : typeset) : option gtype :=
  match tlookup k ts with Some t => t | None => None end.

(* range over a Type: a nil slice has no elements *)
Definition members_of (t : option gtype) : gtype := match t with Some l => l | None => [] end.

(* ---------- TypeMember.Encode / Type.Encode / TypeSet.Encode ---------- *)
(* tm.Type + " " + tm.Name ; a nil *TypeMember would be dereferenced *)
Definition TypeMember_Encode (tm : option member) : res bytes :=
  match tm with
  | Some m => Ok (m_type m ++ bs " " ++ m_name m)
  | None => Panic
  end.

Fixpoint Type_Encode_members (first : bool) (l : gtype) : res bytes :=
  match l with
  | [] => Ok []
  | tm :: r =>
      do s <- TypeMember_Encode tm;
      do rest <- Type_Encode_members false r;
      Ok ((if first then [] else bs ",") ++ s ++ rest)
  end.

Definition Type_Encode (name : bytes) (t : option gtype) : res bytes :=
  do body <- Type_Encode_members true (members_of t);
  Ok (name ++ bs "(" ++ body ++ bs ")").

Fixpoint Type_Encode_all (ts : typeset) (names : list bytes) : res bytes :=
  match names with
  | [] => Ok []
  | n :: r => do s <- Type_Encode n (tget n ts); do rest <- Type_Encode_all ts r; Ok (s ++ rest)
  end.

(* TypeSet.Encode(primaryType) with the order in which `range ts` delivered the keys made explicit
   (Go randomises it); the keys are sorted before use *)
Definition TypeSet_Encode_keys (range_keys : list bytes) (ts : typeset) (primaryType : bytes) : res bytes :=
  do p <- Type_Encode primaryType (tget primaryType ts);
  let referenceTypes := sort (filter (fun k => negb (bytes_eqb k primaryType)) range_keys) in
  do rest <- Type_Encode_all ts referenceTypes;
  Ok (p ++ rest).
Definition TypeSet_Encode (ts : typeset) (primaryType : bytes) : res bytes :=
  TypeSet_Encode_keys (map fst ts) ts primaryType.

(* ---------- addNestedTypes: DFS with the visited map threaded ---------- *)
Definition strip_array (typeName : bytes) : bytes :=
  match index_byte x5b typeName with Some i => firstn i typeName | None => typeName end.

Definition is_nil_type (t : option gtype) : bool := match t with None => true | Some _ => false end.

Fixpoint addNestedTypes (fuel : nat) (typeName : bytes) (allTypes typeSet : typeset) : res typeset :=
  match fuel with
  | O => Err EOutOfFuel
  | S f =>
      let typeName := strip_array typeName in
      match tlookup typeName allTypes with
      | Some t =>
          if is_nil_type (tget typeName typeSet) then
            (fix loop (ms : gtype) (typeSet : typeset) {struct ms} : res typeset :=
               match ms with
               | [] => Ok typeSet
               | None :: _ => Err ENullTypeMember
               | Some tm :: r =>
                   do typeSet' <- addNestedTypes f (m_type tm) allTypes typeSet;
                   loop r typeSet'
               end) (members_of t) (aset typeName t typeSet)
          else Ok typeSet
      | None => Ok typeSet
      end
  end.

Section WithHash.
  Variable H : bytes -> bytes.                   (* keccak256 *)
  Variable big_other : bytes -> option Z.        (* math/big oracle of Numeric.v *)

  Section WithTypes.
    Variable allTypes : typeset.

    (* encodeType(typeName, allTypes) -> (t, typeEncoded) *)
    Definition encodeType (typeName : bytes) : res (gtype * bytes) :=
      match tget typeName allTypes with
      | None => Err ETypeNotFound
      | Some t =>
          do depSet <- addNestedTypes (S (length allTypes)) typeName allTypes [];
          do typeEncoded <- TypeSet_Encode depSet typeName;
          Ok (t, typeEncoded)
      end.

    (* the functions below call encodeElement; [enc] is that recursive callee (with less fuel) *)
    Section Open.
      Variable enc : bytes -> gval -> res bytes.

      (* encodeData: Ok None is the (nil, nil) return for an absent value *)
      Definition encodeData (typeName : bytes) (v : gval) : res (option bytes) :=
        do (t, typeEncoded) <- encodeType typeName;
        match v with
        | GNil => Ok None
        | GMap vMap =>
            let typeHashed := H typeEncoded in
            do body <-
              (fix loop (ms : gtype) : res bytes :=
                 match ms with
                 | [] => Ok []
                 | None :: _ => Err ENullTypeMember                      (* if tm == nil (d7c8b02) *)
                 | Some tm :: r =>
                     do b <- enc (m_type tm) (glookup (m_name tm) vMap);
                     do rest <- loop r;
                     Ok (b ++ rest)
                 end) t;
            Ok (Some (typeHashed ++ body))
        | GBool _ | GNumber _ | GString _ | GSlice _ => Err EValueNotMap
        end.

      (* the literal the nil branch of hashStruct encodes: "0x" followed by 64 zeros *)
      Definition zero_hex : bytes := bs "0x" ++ repeat x30 64.

      Definition hashStruct (typeName : bytes) (v : gval) : res bytes :=
        do encoded <- encodeData typeName v;
        match encoded with
        | None =>
            (* bytes32Enc, _ := abiElementaryType("bytes32"); encoded, _ = abiEncode(bytes32Enc, "0x00..") *)
            match abi_elementary_type (bs "bytes32") with
            | Ok tc => match abi_encode big_other tc (GString zero_hex) with
                       | Ok b => Ok b
                       | Err _ => Ok []
                       | Panic => Panic
                       end
            | _ => Panic                                                (* method call on a nil TypeComponent *)
            end
        | Some e => Ok (H e)
        end.

      (* hashArray: only called when the last byte of the type is ']' *)
      Definition hashArray (typeName : bytes) (v : gval) : res bytes :=
        let n := length typeName in
        match last_index_byte x5b typeName with
        | None | Some O => Err EInvalidArraySuffix                       (* openPos <= 0 *)
        | Some openPos =>
            do lastb <- index typeName (n - 1);
            if negb (byte_eqb lastb x5d) then Err EInvalidArraySuffix else
            do dimStr <- slice typeName (openPos + 1) (n - 1);
            do trimmedTypeName <- slice typeName 0 openPos;
            match v with
            | GSlice va =>
                do _ <- match dimStr with
                        | [] => Ok tt
                        | _ => match atoi dimStr with
                               | None => Err EInvalidArraySuffix
                               | Some dim => if (Z.of_nat (length va) =? dim)%Z then Ok tt else Err EInvalidArrayLen
                               end
                        end;
                do buf <-
                  (fix loop (l : list gval) : res bytes :=
                     match l with
                     | [] => Ok []
                     | ve :: r => do b <- enc trimmedTypeName ve; do rest <- loop r; Ok (b ++ rest)
                     end) va;
                Ok (H buf)
            | GNil | GBool _ | GNumber _ | GString _ | GMap _ => Err EValueNotArray
            end
        end.
    End Open.

    Definition is_some {A} (o : option A) : bool := match o with Some _ => true | None => false end.

    Fixpoint encodeElement (fuel : nat) (typeName : bytes) (v : gval) : res bytes :=
      match fuel with
      | O => Err EOutOfFuel
      | S f =>
          if ends_with x5d typeName then hashArray (encodeElement f) typeName v
          else if is_some (tlookup typeName allTypes) then hashStruct (encodeElement f) typeName v
          else
            do tc <- abi_elementary_type typeName;
            (* for base types other than int/uint a json.Number is first turned into a float64
               (jsonNumberAsFloat64), which the readers of Coerce.v refuse: they take the gval *)
            match e_base tc with
            | EAddress | EBool | EInt | EUInt => abi_encode big_other tc v
            | EBytes =>
                match e_suffix tc with
                | _ :: _ => abi_encode big_other tc v                    (* ElementaryFixed() *)
                | [] => do b <- get_bytes v; Ok (H b)
                end
            | EString => do s <- get_string v; Ok (H s)
            | EFixed | EUFixed | EFunction => Err EUnsupportedType
            end
      end.
  End WithTypes.

  (* recursion depth of a value: every descent into a map member or an array element costs one *)
  Fixpoint gdepth (v : gval) : nat :=
    match v with
    | GSlice l => S (fold_right (fun x a => Nat.max (gdepth x) a) O l)
    | GMap m => S (fold_right (fun kv a => Nat.max (gdepth (snd kv)) a) O m)
    | _ => O
    end.
  Definition fuel_of (v : gval) : nat := S (gdepth v).

  (* exported HashStruct(typeName, v, allTypes) *)
  Definition HashStruct (typeName : bytes) (v : gval) (allTypes : typeset) : res bytes :=
    hashStruct allTypes (encodeElement allTypes (fuel_of v)) typeName v.

  (* a nil map[string]interface{} passed as interface{} takes the map case with vMap == nil, which
     returns like an absent value *)
  Definition map_arg (m : option gmap) : gval := match m with Some g => GMap g | None => GNil end.

  Definition EncodeTypedDataV4 (payload : option typed_data) : res bytes :=
    match payload with
    | None => Err EPrimaryTypeRequired
    | Some p =>
        let types := match td_types p with Some ts => ts | None => [] end in
        let types := if is_some (tlookup EIP712Domain types) then types else aset EIP712Domain (Some []) types in
        let domain := match td_domain p with Some d => d | None => [] end in
        match td_primary p with
        | [] => Err EPrimaryTypeRequired
        | _ =>
            do domainHash <- HashStruct EIP712Domain (GMap domain) types;
            if negb (bytes_eqb (td_primary p) EIP712Domain) then
              do structHash <- HashStruct (td_primary p) (map_arg (td_message p)) types;
              Ok (H ([x19; x01] ++ domainHash ++ structHash))
            else Ok (H ([x19; x01] ++ domainHash))
        end
    end.

  (* ---------- pkg/ethsigner/typed_data.go ---------- *)
  Record EIP712Result := mkResult {
    r_hash : bytes; r_signatureRSV : bytes; r_V : Z; r_R : bytes; r_S : bytes }.

  Section Sign.
    (* signer.SignDirect(message) -> (R, S, V) or an error *)
    Variable sign_direct : bytes -> option (Z * Z * Z).

    Definition SignTypedDataV4 (payload : option typed_data) : res EIP712Result :=
      do encodedData <- EncodeTypedDataV4 payload;
      match sign_direct encodedData with
      | None => Err ESigner
      | Some (sigR, sigS, sigV) =>
          do rb <- fill_bytes 32 sigR;
          do sb <- fill_bytes 32 sigS;
          let vb := n2b (Z.to_N (sigV mod 256)) in                       (* byte(sig.V.Int64()) *)
          Ok (mkResult encodedData (rb ++ sb ++ [vb]) sigV rb sb)
      end.
  End Sign.
End WithHash.

(* ---------- pkg/eip712/abi_to_typed_data.go ---------- *)
(* what the functions read from an abi.TypeComponent *)
Inductive atc :=
| TCElem (base : ebase) (suffix : bytes)          (* ElementaryType().BaseType(), ElementarySuffix() *)
| TCFixedArr (child : atc) (len : N)
| TCDynArr (child : atc)
| TCTuple (internalType : bytes) (children : list (bytes * atc)).   (* Parameter().InternalType; (KeyName, child) *)

Definition base_name (b : ebase) : bytes :=
  match b with
  | EInt => bs "int" | EUInt => bs "uint" | EAddress => bs "address" | EBool => bs "bool"
  | EFixed => bs "fixed" | EUFixed => bs "ufixed" | EBytes => bs "bytes" | EFunction => bs "function"
  | EString => bs "string"
  end.

Section WithRegex.
  (* internalTypeStructExtractor.FindStringSubmatch(s): group 2 of
     ^struct (.*\.)?([^.\[\]]+)(\[\d*\])*$   or no match *)
  Variable struct_name_of : bytes -> option bytes.

  Definition extractSolidityTypeName (internalType : bytes) : res bytes :=
    match struct_name_of internalType with
    | None => Err EBadInternalType
    | Some n => Ok n
    end.

  Definition mapElementaryABIType (tc : atc) : res bytes :=
    match tc with
    | TCElem b suffix =>
        match b with
        | EAddress | EBool | EString | EInt | EUInt => Ok (base_name b ++ suffix)
        | EBytes => Ok (base_name b ++ suffix)       (* fixed: with the suffix; dynamic: the suffix is "" *)
        | EFixed | EUFixed | EFunction => Err EUnsupportedType
        end
    | _ => Err ENotElementary
    end.

  Fixpoint mapABIType (tc : atc) : res bytes :=
    match tc with
    | TCTuple it _ => extractSolidityTypeName it
    | TCFixedArr c n => do child <- mapABIType c; Ok (child ++ bs "[" ++ dec n ++ bs "]")
    | TCDynArr c => do child <- mapABIType c; Ok (child ++ bs "[]")
    | TCElem _ _ => mapElementaryABIType tc
    end.

  Fixpoint addABITypes (tc : atc) (typeSet : typeset) : res typeset :=
    match tc with
    | TCTuple it children =>
        do typeName <- extractSolidityTypeName it;
        if is_some (tlookup typeName typeSet) then Ok typeSet else
        do t <- (fix members (l : list (bytes * atc)) : res gtype :=
                   match l with
                   | [] => Ok []
                   | (k, c) :: r => do ts <- mapABIType c; do rest <- members r;
                                    Ok (Some (mkMember k ts) :: rest)
                   end) children;
        (fix recurse (l : list (bytes * atc)) (typeSet : typeset) : res typeset :=
           match l with
           | [] => Ok typeSet
           | (_, c) :: r => do ts' <- addABITypes c typeSet; recurse r ts'
           end) children (aset typeName (Some t) typeSet)
    | TCFixedArr c _ | TCDynArr c => addABITypes c typeSet
    | TCElem _ _ => Ok typeSet
    end.

  Definition ABItoTypedDataV4 (tc : atc) : res (bytes * typeset) :=
    match tc with
    | TCTuple it _ =>
        do primaryType <- extractSolidityTypeName it;
        do typeSet <- addABITypes tc [];
        Ok (primaryType, typeSet)
    | _ => Err EPrimaryNotTuple
    end.
End WithRegex.
