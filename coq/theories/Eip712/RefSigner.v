(* C14, answer to the referee (issue 5b): the hypothesis [signer_in_range] of the signing half of
   C14_total is discharged for C05's model of KeyPair.SignDirect (Secp/Model.v, through
   ProofsSignVerify.key_signer) over every group satisfying Crypto.Ecdsa.laws whose order fits 32
   bytes: R and S are in [1, n-1].  So signing any JSON document with that signer never panics. *)
From Coq Require Import List NArith ZArith Bool Arith Lia.
From Coq Require Import Init.Byte.
From FFS Require Import Base.Res Base.Bytes Abi.Spec Crypto.Ecdsa.
From FFS Require Import Eip712.Util Eip712.Input Eip712.Numeric Eip712.Coerce Eip712.Model.
From FFS Require Import Eip712.TotalProofsInput Eip712.TotalProofs Eip712.ProofsSignVerify.
From FFS Require Secp.Model Secp.Proofs.
Import ListNotations.

Theorem key_signer_in_range (o : group_ops) (L : laws o) (Hn : (n o < Secp.Model.two256)%Z)
        (nonce : Z -> bytes -> nat -> Z) (fuel : nat) (d : Z) :
  signer_in_range (key_signer o nonce fuel d).
Proof.
  intros msg r s v E. unfold key_signer in E.
  destruct (Secp.Model.SignDirect o nonce fuel d msg) as [sg| |] eqn:Es; try discriminate.
  injection E as <- <- <-.
  destruct (Secp.Proofs.SignDirect_shape o L Hn nonce fuel d msg sg Es) as (_ & HR & HS & _).
  unfold Secp.Model.two256 in Hn. rewrite !Z.abs_eq by lia. lia.
Qed.

Theorem sign_document_total_key_signer (o : group_ops) (L : laws o) (Hn : (n o < Secp.Model.two256)%Z)
        (H : bytes -> bytes) (big_other : bytes -> option Z)
        (nonce : Z -> bytes -> nat -> Z) (fuel : nat) (d : Z) (doc : json) :
  (do p <- decode_typed_data_ptr doc; SignTypedDataV4 H big_other (key_signer o nonce fuel d) p) <> Panic.
Proof. apply sign_document_total. apply key_signer_in_range; assumption. Qed.
