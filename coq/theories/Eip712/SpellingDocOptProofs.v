(* C14 (round 3) — the document-level agreement of spellings without the restriction to documents that
   carry both a domain and a message.  A typed-data document may omit either (or give it as null): the
   decoded payload then has a nil map there.  [opt_members_rel] relates two optional maps: both absent,
   or both present and related member by member as in SpellingDocProofs. *)
From Coq Require Import String.
From Coq Require Import List NArith ZArith Bool Arith Lia.
From Coq Require Import Init.Byte.
From FFS Require Import Base.Res Base.Bytes Abi.Spec.
From FFS Require Import Eip712.Util Eip712.Input Eip712.Numeric Eip712.Coerce Eip712.Model.
From FFS Require Import Eip712.TotalProofsInput Eip712.TotalProofs Eip712.NumericProofs Eip712.SpellingProofs Eip712.ExactSpellingProofs Eip712.SpellingDocProofs.
Import ListNotations.

Definition opt_members_rel (ts : typeset) (t : gtype) (o1 o2 : option gmap) : Prop :=
  match o1, o2 with
  | None, None => True
  | Some m1, Some m2 => members_rel (respelled ts (fuel_of (GMap m1))) t m1 m2
  | _, _ => False
  end.

Theorem EncodeTypedDataV4_respelled_opt H big_other types primary od1 od2 om1 om2 :
  let ts := effective_types types in
  opt_members_rel ts (members_of (tget EIP712Domain ts)) od1 od2 ->
  opt_members_rel ts (members_of (tget primary ts)) om1 om2 ->
  EncodeTypedDataV4 H big_other (Some (mkTD types primary od1 om1)) =
  EncodeTypedDataV4 H big_other (Some (mkTD types primary od2 om2)).
Proof.
  cbv zeta. intros Hd Hm.
  destruct od1 as [d1|], od2 as [d2|]; cbn [opt_members_rel] in Hd; try contradiction;
  destruct om1 as [m1|], om2 as [m2|]; cbn [opt_members_rel] in Hm; try contradiction;
  unfold EncodeTypedDataV4; cbn [td_types td_primary td_domain td_message map_arg];
  fold (effective_types types);
  (destruct primary as [|b r]; [reflexivity|]);
  try rewrite (HashStruct_respelled H big_other _ _ _ _ Hd);
  (match goal with |- context [HashStruct H big_other EIP712Domain ?g (effective_types types)] =>
     destruct (HashStruct H big_other EIP712Domain g (effective_types types)); try reflexivity end);
  cbn [bind];
  (destruct (negb (bytes_eqb (b :: r) EIP712Domain)); [|reflexivity]);
  try rewrite (HashStruct_respelled H big_other _ _ _ _ Hm); reflexivity.
Qed.

(* non-vacuity: a document without "domain" whose message is re-spelled; and a document without
   "message" (primary type = the domain type) whose domain is re-spelled *)
Example respelled_documents_opt :
  let ts := effective_types (Some ex_types) in
  opt_members_rel ts (members_of (tget EIP712Domain ts)) None None /\
  opt_members_rel ts (members_of (tget (bs "A") ts)) (Some ex_m1) (Some ex_m2) /\
  opt_members_rel ts (members_of (tget EIP712Domain ts)) (Some ex_d1) (Some ex_d2) /\
  opt_members_rel ts (members_of (tget EIP712Domain ts)) None None /\
  ex_m1 <> ex_m2 /\ ex_d1 <> ex_d2.
Proof.
  pose proof respelled_documents as [Hd [Hm Hne]]. cbv zeta in *.
  repeat split; try exact I; try assumption. discriminate.
Qed.

(* the relation also covers the other exact spellings: at a uint256 position the JSON number 1e77 and
   the 0x-hex string of 10^77 are related, so documents differing this way hash alike *)
Example respelled_exact_example :
  respelled [] 1 (bs "uint256") (GNumber (bs "1e77")) (GString (hex_text (10 ^ 77))) /\
  GNumber (bs "1e77") <> GString (hex_text (10 ^ 77)).
Proof.
  split; [|discriminate].
  apply (respelled_int [] 0 (bs "uint256") (mkEtc EUInt 256 (bs "256")) (10 ^ 77)).
  - repeat split; vm_compute; reflexivity.
  - apply sp_exact_num; apply ex_1e77.
  - constructor.
Qed.
