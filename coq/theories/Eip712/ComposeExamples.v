(* C04 — non-vacuity of the composed theorems (ComposeJson.v, ComposeSign.v) on the Mail example
   published in EIP-712, given as JSON text-level values with the chain id spelled "1.0e0", plus an
   order document whose amount is spelled 1e18:
     * the specification document [mail_doc] is written out by hand (typed values: integers, byte
       strings), the Go-level document [mail_td] holds the JSON texts; [represents_json] holds, the
       document is well formed, and with the executable Keccak-256 the specification digest is the one
       published in the EIP (0xbe609aee...7bd2);
     * the same document with the chain id spelled 1.5 (no integer) or 1e78 (beyond uint256) is
       rejected;
     * the toy group of Crypto/Ecdsa.v (which satisfies the laws) signs the Mail digest end to end. *)
From Coq Require Import String.
From Coq Require Import List NArith ZArith Bool Arith Lia.
From Coq Require Import Init.Byte.
From FFS Require Import Base.Res Base.Bytes Base.Lit Base.Keccak Abi.Spec Crypto.Ecdsa.
From FFS Require Import Eip712.Util Eip712.Input Eip712.Numeric Eip712.Coerce Eip712.Model Eip712.Spec Eip712.Repr.
From FFS Require Import Eip712.Parse Eip712.ProofsParse Eip712.ProofsMain Eip712.ProofsSignVerify.
From FFS Require Import Eip712.NumericProofs Eip712.SpellingProofs Eip712.ExactSpellingProofs Eip712.SpellingDocProofs.
From FFS Require Import Eip712.ComposeJson Eip712.ComposeSign.
From FFS Require Secp.Model Secp.Proofs.
Import ListNotations.

Definition mem (n t : string) : option member := Some (mkMember (bs n) (bs t)).

(* ---------- the document as JSON text-level values ---------- *)
Definition mail_types : typeset :=
  [ (bs "EIP712Domain", Some [mem "name" "string"; mem "version" "string"; mem "chainId" "uint256";
                              mem "verifyingContract" "address"]);
    (bs "Person", Some [mem "name" "string"; mem "wallet" "address"]);
    (bs "Mail", Some [mem "from" "Person"; mem "to" "Person"; mem "contents" "string"]) ].

Definition mail_domain (chainId : gval) : gmap :=
  [ (bs "name", GString (bs "Ether Mail")); (bs "version", GString (bs "1")); (bs "chainId", chainId);
    (bs "verifyingContract", GString (bs "0xCcCCccccCCCCcCCCCCCcCcCccCcCCCcCcccccccC")) ].

Definition mail_message : gmap :=
  [ (bs "from", GMap [(bs "name", GString (bs "Cow"));
                      (bs "wallet", GString (bs "0xCD2a3d9F938E13CD947Ec05AbC7FE734Df8DD826"))]);
    (bs "to", GMap [(bs "name", GString (bs "Bob"));
                    (bs "wallet", GString (bs "0xbBbBBBBbbBBBbbbBbbBbbbbBBbBbbbbBbBbbBBbB"))]);
    (bs "contents", GString (bs "Hello, Bob!")) ].

Definition mail_td_with (chainId : gval) : typed_data :=
  mkTD (Some mail_types) (bs "Mail") (Some (mail_domain chainId)) (Some mail_message).

(* the chain id as the JSON number 1.0e0 *)
Definition mail_td : typed_data := mail_td_with (GNumber (bs "1.0e0")).

(* ---------- the EIP-712 document it denotes, written out ---------- *)
Definition sm (n : string) (t : mty) : smember := {| sm_name := bs n; sm_ty := t |}.
Definition mail_sts : types :=
  [ (bs "EIP712Domain", [sm "name" (Atomic AString); sm "version" (Atomic AString); sm "chainId" (Atomic (AUint 256));
                         sm "verifyingContract" (Atomic AAddress)]);
    (bs "Person", [sm "name" (Atomic AString); sm "wallet" (Atomic AAddress)]);
    (bs "Mail", [sm "from" (Struct (bs "Person")); sm "to" (Struct (bs "Person")); sm "contents" (Atomic AString)]) ].

Definition mail_doc : doc :=
  {| d_types := mail_sts;
     d_primary := bs "Mail";
     d_domain := VStruct [VBytes (bs "Ether Mail"); VBytes (bs "1"); VInt 1;
                          VInt 0xCcCCccccCCCCcCCCCCCcCcCccCcCCCcCcccccccC%Z];
     d_message := VStruct [ VStruct [VBytes (bs "Cow"); VInt 0xCD2a3d9F938E13CD947Ec05AbC7FE734Df8DD826%Z];
                            VStruct [VBytes (bs "Bob"); VInt 0xbBbBBBBbbBBBbbbBbbBbbbbBBbBbbbbBbBbbBBbB%Z];
                            VBytes (bs "Hello, Bob!") ] |}.

(* ---------- introduction rules for [repr_json] derivations ---------- *)
Lemma rj_string_intro sts s : repr_json sts (Atomic AString) (GString s) (VBytes s).
Proof. apply RJ_atomic. exists s. split; reflexivity. Qed.

Lemma rj_address_intro sts s b z :
  get_bytes (GString s) = Ok b -> of_beZ b = z -> repr_json sts (Atomic AAddress) (GString s) (VInt z).
Proof.
  intros Hg <-. apply RJ_atomic. exists s, b. split; [reflexivity|]. split; [apply get_bytes_exact; exact Hg|reflexivity].
Qed.

Lemma rj_uint_num_intro sts bits t z :
  text_denotes t z -> exponent_moderate t -> repr_json sts (Atomic (AUint bits)) (GNumber t) (VInt z).
Proof. intros Hd Hm. apply RJ_atomic. exists z. split; [apply sp_exact_num; assumption|reflexivity]. Qed.

Lemma rj_uint_str_intro sts bits t z :
  text_denotes t z -> exponent_moderate t -> repr_json sts (Atomic (AUint bits)) (GString t) (VInt z).
Proof. intros Hd Hm. apply RJ_atomic. exists z. split; [apply sp_exact_str; assumption|reflexivity]. Qed.

Lemma person_repr name wallet b z :
  get_bytes (GString wallet) = Ok b -> of_beZ b = z ->
  repr_json mail_sts (Struct (bs "Person"))
            (GMap [(bs "name", GString name); (bs "wallet", GString wallet)])
            (VStruct [VBytes name; VInt z]).
Proof.
  intros Hg Hz. eapply RJ_struct; [vm_compute; reflexivity|].
  apply RJM_cons; [apply rj_string_intro|].
  apply RJM_cons; [exact (rj_address_intro _ _ _ _ Hg Hz)|]. apply RJM_nil.
Qed.

Lemma mail_represents_json : represents_json mail_td mail_doc.
Proof.
  split; [|split; [reflexivity|split; [|right]]].
  - apply parse_types_repr; [vm_compute; reflexivity|].
    apply wf_types_b_ok. vm_compute. reflexivity.
  - eapply RJ_struct; [vm_compute; reflexivity|].
    apply RJM_cons; [apply rj_string_intro|].
    apply RJM_cons; [apply rj_string_intro|].
    apply RJM_cons.
    { apply (rj_uint_num_intro _ 256 (bs "1.0e0") 1); [vm_compute; reflexivity|].
      vm_compute. split; [reflexivity|discriminate]. }
    apply RJM_cons; [eapply rj_address_intro; vm_compute; reflexivity|]. apply RJM_nil.
  - eapply RJ_struct; [vm_compute; reflexivity|].
    apply RJM_cons; [eapply person_repr; [vm_compute; reflexivity|vm_compute; reflexivity]|].
    apply RJM_cons; [eapply person_repr; [vm_compute; reflexivity|vm_compute; reflexivity]|].
    apply RJM_cons; [apply rj_string_intro|]. apply RJM_nil.
Qed.

Lemma mail_well_formed : wf_doc mail_doc /\ types_dims_fit (d_types mail_doc).
Proof. split; [apply wf_doc_b_ok|apply types_dims_fit_b_ok]; vm_compute; reflexivity. Qed.

(* with the executable Keccak-256 the specification digest of [mail_doc] is the published one *)
Lemma mail_published_digest :
  digest keccak256 mail_doc = unhex "be609aee343fb3c4b28e1df9e632fca64fcfaede20f02e86244efddf30957bd2".
Proof.
  apply (reflect_iff _ _ (bytes_eqb_spec _ _)). vm_compute. reflexivity.
Qed.

Theorem mail_from_json :
  represents_json mail_td mail_doc /\ wf_doc mail_doc /\ types_dims_fit (d_types mail_doc) /\
  (forall H big_other, EncodeTypedDataV4 H big_other (Some mail_td) = Ok (digest H mail_doc)) /\
  (forall big_other, EncodeTypedDataV4 keccak256 big_other (Some mail_td) =
                     Ok (unhex "be609aee343fb3c4b28e1df9e632fca64fcfaede20f02e86244efddf30957bd2")).
Proof.
  destruct mail_well_formed as [Hwf Hd].
  split; [exact mail_represents_json|]. split; [exact Hwf|]. split; [exact Hd|]. split.
  - intros H big_other. exact (digest_is_spec_from_json H big_other _ _ mail_represents_json Hwf Hd).
  - intros big_other. rewrite <- mail_published_digest.
    exact (digest_is_spec_from_json keccak256 big_other _ _ mail_represents_json Hwf Hd).
Qed.

(* ---------- rejection: the chain id spelled 1.5, or 1e78 ---------- *)
Lemma uint256_member : integer_member_type (effective_types (Some mail_types)) (bs "uint256") (mkEtc EUInt 256 (bs "256")).
Proof. repeat split; vm_compute; reflexivity. Qed.

Lemma one_and_half_no_integer tc : no_integer_in_range tc (bs "1.5").
Proof.
  split; [vm_compute; discriminate|]. intros z Hz. exfalso. exact (ex_fraction z Hz).
Qed.

Lemma e78_out_of_range : no_integer_in_range (mkEtc EUInt 256 (bs "256")) (bs "1e78").
Proof.
  split; [vm_compute; discriminate|]. intros z Hz.
  assert (D : text_denotes (bs "1e78") (10 ^ 78)) by (vm_compute; reflexivity).
  assert (M : exponent_moderate (bs "1e78")) by (vm_compute; split; [reflexivity|discriminate]).
  pose proof (BigIntegerFromString_complete (fun _ => None) _ _ Hz M) as E1.
  pose proof (BigIntegerFromString_complete (fun _ => None) _ _ D M) as E2.
  rewrite E1 in E2. injection E2 as ->. vm_compute. reflexivity.
Qed.

Lemma chainId_reached t :
  doc_reaches (mail_td_with (GNumber t)) 2 (bs "uint256") (GNumber t).
Proof.
  left. exists (mkMember (bs "chainId") (bs "uint256")). split.
  - vm_compute. right; right; left. reflexivity.
  - apply rc_here.
Qed.

Theorem mail_inexact_rejected (H : bytes -> bytes) (big_other : bytes -> option Z) :
  (exists e, EncodeTypedDataV4 H big_other (Some (mail_td_with (GNumber (bs "1.5")))) = Err e) /\
  (exists e, EncodeTypedDataV4 H big_other (Some (mail_td_with (GNumber (bs "1e78")))) = Err e).
Proof.
  split.
  - exact (rejects_inexact_from_json H big_other _ _ _ _ _ _ (chainId_reached _) (or_introl eq_refl)
             uint256_member (one_and_half_no_integer _)).
  - exact (rejects_inexact_from_json H big_other _ _ _ _ _ _ (chainId_reached _) (or_introl eq_refl)
             uint256_member e78_out_of_range).
Qed.

(* ---------- signing end to end: the toy group, key 5, constant nonce 3 ---------- *)
Definition toyH (x : bytes) : bytes := firstn 32 (x ++ repeat x00 32).
Lemma toyH_len x : length (toyH x) = 32%nat.
Proof. unfold toyH. rewrite firstn_length, app_length, repeat_length. apply Nat.min_l. apply Nat.le_add_l. Qed.
Definition toyNonce : Z -> bytes -> nat -> Z := fun _ _ _ => 3%Z.

Theorem mail_signed_end_to_end :
  laws Toy.ops /\
  exists res sg,
    SignTypedDataV4 keccak256 (fun _ => None) (key_signer Toy.ops toyNonce 1 5%Z) (Some mail_td) = Ok res /\
    r_hash res = unhex "be609aee343fb3c4b28e1df9e632fca64fcfaede20f02e86244efddf30957bd2" /\
    length (r_signatureRSV res) = 65%nat /\ (r_V res = 27 \/ r_V res = 28)%Z /\
    Secp.Model.DecodeCompactRSV (r_signatureRSV res) = Ok sg /\
    (2 * Secp.Model.sS sg <= n Toy.ops)%Z /\
    Secp.Model.RecoverDirect Toy.ops toyH sg (r_hash res) 1 = Ok (Secp.Proofs.addr_of Toy.ops toyH (pub Toy.ops 5)).
Proof.
  split; [exact Toy.toy_laws|].
  destruct mail_well_formed as [Hwf Hd].
  assert (Hd5 : (1 <= 5 < n Toy.ops)%Z) by (split; [discriminate|reflexivity]).
  assert (Hnf : nonce_found Toy.ops toyNonce 1 5 (digest keccak256 mail_doc)).
  { exists 0%nat. split; [lia|]. rewrite mail_published_digest. vm_compute. discriminate. }
  assert (Hno : Secp.Proofs.no_overflow Toy.ops toyNonce 5 (digest keccak256 mail_doc)).
  { intros j. unfold toyNonce. vm_compute. reflexivity. }
  destruct (sign_typed_data_end_to_end Toy.ops Toy.toy_laws eq_refl toyH toyH_len toyNonce 1 5%Z Hd5
              keccak256 (fun _ => None) mail_td mail_doc
              (represents_json_represents _ _ _ mail_represents_json) Hwf Hd Hnf Hno)
    as (res & sg & Hs & Hh & _ & _ & _ & Hlen & HV & Hdec & _ & _ & _ & _ & _ & Hlow & _ & Hrec).
  exists res, sg. rewrite mail_published_digest in Hh.
  split; [exact Hs|]. split; [exact Hh|]. split; [exact Hlen|]. split; [exact HV|]. split; [exact Hdec|].
  split; [exact Hlow|]. rewrite Hh, <- mail_published_digest. apply Hrec. split; discriminate.
Qed.

(* ---------- a document with an array of integers: 10^18 in four spellings, a bytes4, no domain ---------- *)
Definition order_types : typeset :=
  [ (bs "Order", Some [mem "maker" "address"; mem "amounts" "uint256[]"; mem "tag" "bytes4"]) ].
Definition order_message (amounts : list gval) (tag : gval) : gmap :=
  [ (bs "maker", GString (bs "0xCD2a3d9F938E13CD947Ec05AbC7FE734Df8DD826"));
    (bs "amounts", GSlice amounts); (bs "tag", tag) ].
Definition order_td_with (amounts : list gval) (tag : gval) : typed_data :=
  mkTD (Some order_types) (bs "Order") None (Some (order_message amounts tag)).
Definition order_amounts : list gval :=
  [ GNumber (bs "1e18"); GString (bs "0xde0b6b3a7640000"); GNumber (bs "1000000000000000000.0"); GString (bs "+1E18") ].
Definition order_td : typed_data := order_td_with order_amounts (GString (bs "0xdeadBEEF")).

Definition order_sts : types :=
  [ (bs "Order", [sm "maker" (Atomic AAddress); sm "amounts" (Arr (Atomic (AUint 256)) None); sm "tag" (Atomic (ABytesN 4))]);
    (bs "EIP712Domain", []) ].
Definition order_doc : doc :=
  {| d_types := order_sts; d_primary := bs "Order"; d_domain := VStruct [];
     d_message := VStruct [ VInt 0xCD2a3d9F938E13CD947Ec05AbC7FE734Df8DD826%Z;
                            VArr [VInt (10 ^ 18); VInt (10 ^ 18); VInt (10 ^ 18); VInt (10 ^ 18)];
                            VBytes (unhex "deadbeef") ] |}.

Lemma rj_bytesN_intro sts k s b :
  get_bytes (GString s) = Ok b -> repr_json sts (Atomic (ABytesN k)) (GString s) (VBytes b).
Proof.
  intros Hg. apply RJ_atomic. exists s, b. split; [reflexivity|]. split; [apply get_bytes_exact; exact Hg|reflexivity].
Qed.

Lemma order_represents_json : represents_json order_td order_doc.
Proof.
  split; [|split; [reflexivity|split; [|right]]].
  - apply parse_types_repr; [vm_compute; reflexivity|].
    apply wf_types_b_ok. vm_compute. reflexivity.
  - eapply RJ_struct; [vm_compute; reflexivity|]. apply RJM_nil.
  - eapply RJ_struct; [vm_compute; reflexivity|].
    apply RJM_cons; [eapply rj_address_intro; vm_compute; reflexivity|].
    apply RJM_cons.
    { apply RJ_arr.
      apply RJE_cons; [apply rj_uint_num_intro; [vm_compute; reflexivity|vm_compute; split; [reflexivity|discriminate]]|].
      apply RJE_cons; [apply rj_uint_str_intro; [vm_compute; reflexivity|vm_compute; exact I]|].
      apply RJE_cons; [apply rj_uint_num_intro; [vm_compute; reflexivity|vm_compute; split; [reflexivity|discriminate]]|].
      apply RJE_cons; [apply rj_uint_str_intro; [vm_compute; reflexivity|vm_compute; split; [reflexivity|discriminate]]|].
      apply RJE_nil. }
    apply RJM_cons; [apply rj_bytesN_intro; vm_compute; reflexivity|]. apply RJM_nil.
Qed.

Theorem order_from_json :
  represents_json order_td order_doc /\ wf_doc order_doc /\ types_dims_fit (d_types order_doc) /\
  (forall H big_other, EncodeTypedDataV4 H big_other (Some order_td) = Ok (digest H order_doc)).
Proof.
  assert (Hwf : wf_doc order_doc) by (apply wf_doc_b_ok; vm_compute; reflexivity).
  assert (Hd : types_dims_fit (d_types order_doc)) by (apply types_dims_fit_b_ok; vm_compute; reflexivity).
  split; [exact order_represents_json|]. split; [exact Hwf|]. split; [exact Hd|].
  intros H big_other. exact (digest_is_spec_from_json H big_other _ _ order_represents_json Hwf Hd).
Qed.

(* an element 1e-1 inside the array, or a tag that is not hex, makes the document an error *)
Lemma order_uint256 :
  integer_member_type (effective_types (Some order_types)) (bs "uint256") (mkEtc EUInt 256 (bs "256")).
Proof. repeat split; vm_compute; reflexivity. Qed.

Lemma order_bytes4 : hex_member_type (effective_types (Some order_types)) (bs "bytes4") (mkEtc EBytes 4 (bs "4")).
Proof. split; [|split; [|split]]; try (vm_compute; reflexivity). right. reflexivity. Qed.

Lemma tenth_no_integer tc : no_integer_in_range tc (bs "1e-1").
Proof.
  split; [vm_compute; discriminate|]. intros z Hz. exfalso. unfold text_denotes in Hz.
  assert (E : classify (bs "1e-1") = CSci false (bs "1") [] true (bs "1")) by (vm_compute; reflexivity).
  rewrite E in Hz. unfold sci_denotes in Hz. cbv zeta in Hz.
  assert (Em : dec_value (bs "1" ++ []) = 1%Z) by (vm_compute; reflexivity).
  assert (En : (signed true (dec_value (bs "1")) - Z.of_nat (length (@nil byte)) = -1)%Z) by (vm_compute; reflexivity).
  rewrite Em, En in Hz. change (0 <=? -1)%Z with false in Hz. change (10 ^ (- -1))%Z with 10%Z in Hz.
  unfold signed in Hz. lia.
Qed.

Theorem order_bad_rejected (H : bytes -> bytes) (big_other : bytes -> option Z) :
  (exists e, EncodeTypedDataV4 H big_other
               (Some (order_td_with [GNumber (bs "1e18"); GNumber (bs "1e-1")] (GString (bs "0xdeadBEEF")))) = Err e) /\
  (exists e, EncodeTypedDataV4 H big_other (Some (order_td_with order_amounts (GString (bs "0xdeadbeeg")))) = Err e).
Proof.
  split.
  - apply (rejects_inexact_from_json H big_other _ 2 (bs "uint256") (mkEtc EUInt 256 (bs "256")) (bs "1e-1") (GNumber (bs "1e-1")));
      [|left; reflexivity|exact order_uint256|apply tenth_no_integer].
    right. split; [vm_compute; reflexivity|].
    eexists. exists (mkMember (bs "amounts") (bs "uint256[]")). split; [reflexivity|]. split; [vm_compute; auto|].
    eapply (rc_elem _ 2 (bs "uint256[]") 6 (bs "uint256")); try (vm_compute; reflexivity).
    + right. left. reflexivity.
    + apply rc_here.
  - apply (rejects_bad_hex_from_json H big_other _ 3 (bs "bytes4") (mkEtc EBytes 4 (bs "4")) (GString (bs "0xdeadbeeg")));
      [|exact order_bytes4|].
    + right. split; [vm_compute; reflexivity|].
      eexists. exists (mkMember (bs "tag") (bs "bytes4")). split; [reflexivity|]. split; [vm_compute; auto|].
      apply rc_here.
    + intros s b Es Hd. injection Es as <-. apply get_bytes_exact in Hd.
      assert (E : get_bytes (GString (bs "0xdeadbeeg")) = Err EBadHex) by (vm_compute; reflexivity).
      rewrite E in Hd. discriminate.
Qed.
