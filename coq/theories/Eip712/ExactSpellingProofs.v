(* C14 (round 3) — every exact spelling, not only the three canonical ones.  The converse of
   [sci_value_exact] / [BigIntegerFromString_sound]: a text in the decimal / 0x-hex / scientific
   grammars that denotes the integer z ([text_denotes], stated in Z by cross-multiplication) is read as
   exactly z, provided its decimal exponent is one math/big expands ([exponent_moderate]: the written
   exponent fits int64 and the effective exponent e - |fraction| is at most 10^6 in magnitude — the
   limits of scanExponent and Rat.SetString mirrored by the model).  Hence at an integer member "1e77",
   "100.0", "1.5e1", "+0x1F" ... give the word of the integer they denote when it is in range, and the
   range error otherwise — the same outcome as the canonical spellings of that integer. *)
From Coq Require Import String.
From Coq Require Import List NArith ZArith Bool Arith Lia.
From Coq Require Import Init.Byte.
From FFS Require Import Base.Res Base.Bytes Abi.Spec.
From FFS Require Import Eip712.Util Eip712.Input Eip712.Numeric Eip712.Coerce Eip712.Model.
From FFS Require Import Eip712.TotalProofsInput Eip712.TotalProofs Eip712.NumericProofs Eip712.SpellingProofs.
Import ListNotations.
Local Open Scope Z_scope.

Definition exponent_moderate (t : bytes) : Prop :=
  match classify t with
  | CSci neg ip fp eneg ed =>
      let e := signed eneg (dec_value ed) in
      int64_ok e = true /\ Z.abs (e - Z.of_nat (length fp)) <= 1000000
  | COther => False
  | _ => True
  end.

Lemma sci_value_complete neg ip fp eneg ed z :
  int64_ok (signed eneg (dec_value ed)) = true ->
  Z.abs (signed eneg (dec_value ed) - Z.of_nat (length fp)) <= 1000000 ->
  sci_denotes neg ip fp eneg ed z -> sci_value neg ip fp eneg ed = Ok z.
Proof.
  unfold sci_value, sci_denotes. cbv zeta.
  set (m := dec_value (ip ++ fp)). set (e := signed eneg (dec_value ed)).
  set (n := e - Z.of_nat (length fp)).
  intros H64 Hn Hd. rewrite H64. cbn [negb].
  destruct (m =? 0) eqn:Em.
  - apply Z.eqb_eq in Em. rewrite Em in Hd.
    destruct (0 <=? n) eqn:En.
    + subst z. f_equal. unfold signed. destruct neg; simpl; lia.
    + apply Z.leb_gt in En.
      assert (Hp : 0 < 10 ^ (- n)) by (apply Z.pow_pos_nonneg; lia).
      f_equal. unfold signed in Hd. destruct neg; simpl in Hd; nia.
  - destruct (Z.abs n >? 1000000) eqn:Eb; [apply Z.gtb_lt in Eb; lia|].
    destruct (0 <=? n) eqn:En.
    + subst z. reflexivity.
    + apply Z.leb_gt in En.
      assert (Hp : 0 < 10 ^ (- n)) by (apply Z.pow_pos_nonneg; lia).
      set (d := 10 ^ (- n)) in *.
      assert (Hm : m = signed neg z * d).
      { unfold signed in *. destruct neg; lia. }
      assert (Hmod : m mod d = 0) by (rewrite Hm; apply Z.mod_mul; lia).
      rewrite Hmod. cbn [Z.eqb]. f_equal.
      rewrite Hm, Z.div_mul by lia. unfold signed. destruct neg; lia.
Qed.

Theorem BigIntegerFromString_complete o t z :
  text_denotes t z -> exponent_moderate t -> BigIntegerFromString o t = Ok z.
Proof.
  unfold text_denotes, exponent_moderate, BigIntegerFromString.
  destruct (classify t); intros Hd Hm.
  - subst z. reflexivity.
  - subst z. reflexivity.
  - destruct Hm as [H64 Hn]. apply sci_value_complete; assumption.
  - contradiction.
Qed.

Section Element.
  Variable H : bytes -> bytes.
  Variable big_other : bytes -> option Z.
  Variable allTypes : typeset.

  (* any exact spelling, as a JSON number or inside a JSON string *)
  Theorem exact_spelling_element fuel tn tc t z :
    integer_member_type allTypes tn tc -> text_denotes t z -> exponent_moderate t ->
    let r := if in_range (is_signed (e_base tc)) (e_m tc) z then Ok (word z)
             else Err (if is_signed (e_base tc) then ETooLarge
                       else if (z <? 0)%Z then ENegativeUnsigned else ETooLarge) in
    encodeElement H big_other allTypes (S fuel) tn (GNumber t) = r /\
    encodeElement H big_other allTypes (S fuel) tn (GString t) = r.
  Proof.
    intros Hty Hd Hm. cbv zeta.
    pose proof (BigIntegerFromString_complete big_other t z Hd Hm) as Hz.
    split; apply integer_member_exact; try exact Hty; cbn [integer_of_gval]; exact Hz.
  Qed.

  (* two exact spellings of the same integer give the same outcome *)
  Corollary exact_spellings_agree fuel tn tc t1 t2 z :
    integer_member_type allTypes tn tc ->
    text_denotes t1 z -> exponent_moderate t1 -> text_denotes t2 z -> exponent_moderate t2 ->
    encodeElement H big_other allTypes (S fuel) tn (GNumber t1) = encodeElement H big_other allTypes (S fuel) tn (GString t2) /\
    encodeElement H big_other allTypes (S fuel) tn (GNumber t1) = encodeElement H big_other allTypes (S fuel) tn (GNumber t2) /\
    encodeElement H big_other allTypes (S fuel) tn (GString t1) = encodeElement H big_other allTypes (S fuel) tn (GString t2).
  Proof.
    intros Hty D1 M1 D2 M2.
    destruct (exact_spelling_element fuel tn tc t1 z Hty D1 M1) as [A1 B1].
    destruct (exact_spelling_element fuel tn tc t2 z Hty D2 M2) as [A2 B2].
    cbv zeta in *. rewrite A1, A2, B1, B2. repeat split; reflexivity.
  Qed.
End Element.

(* non-vacuity: 1e77 (between 2^255 and 2^256), 100.0, 1.5e1, -120E-1, +0x1F, a canonical spelling;
   1.5 denotes no integer; 1e1000001 is beyond the exponents math/big expands *)
Example ex_1e77 : text_denotes (bs "1e77") (10 ^ 77) /\ exponent_moderate (bs "1e77") /\
  in_range false 256 (10 ^ 77) = true /\ in_range true 256 (10 ^ 77) = false.
Proof.
  split; [vm_compute; reflexivity|]. split; [vm_compute; split; [reflexivity|discriminate]|].
  split; vm_compute; reflexivity.
Qed.
Example ex_dot_zero : text_denotes (bs "100.0") 100 /\ exponent_moderate (bs "100.0").
Proof. split; [vm_compute; reflexivity|]. vm_compute. split; [reflexivity|discriminate]. Qed.
Example ex_sci : text_denotes (bs "1.5e1") 15 /\ exponent_moderate (bs "1.5e1").
Proof. split; [vm_compute; reflexivity|]. vm_compute. split; [reflexivity|discriminate]. Qed.
Example ex_neg_exp : text_denotes (bs "-120E-1") (-12) /\ exponent_moderate (bs "-120E-1").
Proof. split; [vm_compute; reflexivity|]. vm_compute. split; [reflexivity|discriminate]. Qed.
Example ex_hex : text_denotes (bs "+0x1F") 31 /\ exponent_moderate (bs "+0x1F").
Proof. split; [vm_compute; reflexivity|]. vm_compute. exact I. Qed.
Example ex_fraction : forall z, ~ text_denotes (bs "1.5") z.
Proof.
  intros z Hz. unfold text_denotes in Hz.
  assert (E : classify (bs "1.5") = CSci false (bs "1") (bs "5") false []) by (vm_compute; reflexivity).
  rewrite E in Hz. unfold sci_denotes in Hz. cbv zeta in Hz.
  assert (Em : dec_value (bs "1" ++ bs "5") = 15) by (vm_compute; reflexivity).
  assert (En : signed false (dec_value []) - Z.of_nat (length (bs "5")) = -1) by (vm_compute; reflexivity).
  rewrite Em, En in Hz. change (0 <=? -1) with false in Hz. change (10 ^ (- -1)) with 10 in Hz.
  unfold signed in Hz. lia.
Qed.
Example ex_huge_exponent : ~ exponent_moderate (bs "1e1000001").
Proof. intros Hm. vm_compute in Hm. destruct Hm as [_ Hc]. apply Hc. reflexivity. Qed.

(* at a uint256 member the JSON number 1e77 is the word of 10^77; at an int256 member it is refused *)
Example ex_1e77_member :
  encodeElement (fun _ => []) (fun _ => None) [] 1 (bs "uint256") (GNumber (bs "1e77")) = Ok (word (10 ^ 77)) /\
  encodeElement (fun _ => []) (fun _ => None) [] 1 (bs "int256") (GNumber (bs "1e77")) = Err ETooLarge.
Proof. split; vm_compute; reflexivity. Qed.
