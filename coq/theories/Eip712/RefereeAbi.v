(* C04 — answer to the referee report (design/reviews/C04.md), issue I2(a): the ABI clause at the level
   of the whole document.  C04_abi_typeset_equiv speaks about HashStruct of the primary struct; here
   the type set derived by ABItoTypedDataV4 (which carries no EIP712Domain entry: EncodeTypedDataV4
   fills in the empty domain type) is put into a TypedData document and the full EIP-712 digest is the
   specification digest of the document whose types are the ABI's structs plus the empty domain
   struct — the same digest as with any hand-written type set for the same structs.
   Guard: no struct of the ABI is itself called EIP712Domain. *)
From Coq Require Import String.
From Coq Require Import List NArith ZArith Bool Arith Lia Permutation.
From Coq Require Import Init.Byte.
From FFS Require Import Base.Res Base.Bytes Abi.Spec.
From FFS Require Import Eip712.Util Eip712.Input Eip712.Numeric Eip712.Coerce Eip712.Model Eip712.Spec Eip712.Repr.
From FFS Require Import Eip712.ProofsUtil Eip712.ProofsDeps Eip712.ProofsMain Eip712.ProofsInvariance Eip712.ProofsParse
                        Eip712.ProofsAbi.
Import ListNotations.

Lemma assoc_app_l {A} k (l1 l2 : list (bytes * A)) v : assoc k l1 = Some v -> assoc k (l1 ++ l2) = Some v.
Proof.
  induction l1 as [|[k' v'] l1 IH]; simpl; [discriminate|]. destruct (bytes_eqb k k'); [auto|exact IH].
Qed.

Lemma assoc_app_r {A} k (l1 l2 : list (bytes * A)) : assoc k l1 = None -> assoc k (l1 ++ l2) = assoc k l2.
Proof.
  induction l1 as [|[k' v'] l1 IH]; simpl; [reflexivity|]. destruct (bytes_eqb k k'); [discriminate|exact IH].
Qed.

Lemma assoc_none_keys {A} k (l : list (bytes * A)) : ~ In k (keys l) -> assoc k l = None.
Proof.
  intros Hn. destruct (assoc k l) as [v|] eqn:E; [|reflexivity]. exfalso. apply Hn. apply assoc_keys. eauto.
Qed.

(* the document types: the structs plus the empty domain struct *)
Definition with_empty_domain (sts : types) : types := sts ++ [(domain_name, [])].

Section Dom.
  Variable sts : types.
  Hypothesis Hwf : wf_types sts.
  Hypothesis Hnodom : ~ In domain_name (keys sts).

  Lemma assoc_dom_dom : assoc domain_name (with_empty_domain sts) = Some [].
  Proof.
    unfold with_empty_domain. rewrite assoc_app_r by (apply assoc_none_keys; exact Hnodom).
    cbn [assoc]. rewrite (proj2 (bytes_eqb_eq domain_name domain_name) eq_refl). reflexivity.
  Qed.

  Lemma assoc_dom_other n : n <> domain_name -> assoc n (with_empty_domain sts) = assoc n sts.
  Proof.
    intros Hn. unfold with_empty_domain. destruct (assoc n sts) as [def|] eqn:E.
    - apply assoc_app_l. exact E.
    - rewrite assoc_app_r by exact E. cbn [assoc].
      destruct (bytes_eqb n domain_name) eqn:Eq; [apply bytes_eqb_eq in Eq; contradiction|reflexivity].
  Qed.

  Lemma keys_with_dom : keys (with_empty_domain sts) = keys sts ++ [domain_name].
  Proof. unfold with_empty_domain, keys. rewrite map_app. reflexivity. Qed.

  Lemma repr_types_with_domain (ts : typeset) :
    repr_types ts sts -> tlookup domain_name ts = None ->
    repr_types (with_domain_type (Some ts)) (with_empty_domain sts).
  Proof.
    intros [Hr Ha] Hnone. unfold with_domain_type. rewrite Hnone. split.
    - intros n def Hn. destruct (bytes_dec n domain_name) as [->|Hne].
      + rewrite assoc_dom_dom in Hn. injection Hn as <-. unfold tlookup. rewrite alookup_aset_same. reflexivity.
      + rewrite (assoc_dom_other _ Hne) in Hn. unfold tlookup. rewrite alookup_aset_other by exact Hne.
        apply Hr. exact Hn.
    - intros a Hwa. unfold tlookup. rewrite alookup_aset_other by (apply domain_name_not_atomic).
      apply Ha. exact Hwa.
  Qed.

  Lemma wf_mty_with_dom t : wf_mty sts t = true -> wf_mty (with_empty_domain sts) t = true.
  Proof.
    induction t as [a|n|t IH k]; cbn [wf_mty]; auto.
    intros Hb. apply bmem_In in Hb. apply bmem_In. rewrite keys_with_dom. apply in_or_app. left. exact Hb.
  Qed.

  Lemma wf_types_with_dom : wf_types (with_empty_domain sts).
  Proof.
    destruct Hwf as [Hnd Hall]. split.
    - rewrite keys_with_dom. apply (Permutation_NoDup (Permutation_cons_append _ _)).
      constructor; assumption.
    - unfold with_empty_domain. apply Forall_app. split.
      + eapply Forall_impl; [|exact Hall]. intros [n def] (Hn & Hat & Hm). cbn [fst snd] in *.
        split; [exact Hn|]. split; [exact Hat|].
        eapply Forall_impl; [|exact Hm]. intros m. apply wf_mty_with_dom.
      + constructor; [|constructor]. cbn [fst snd]. split; [reflexivity|]. split; [|constructor].
        intros a _ E. apply (domain_name_not_atomic a). symmetry. exact E.
  Qed.

  Lemma dims_with_dom : types_dims_fit sts -> types_dims_fit (with_empty_domain sts).
  Proof.
    intros Hd. unfold types_dims_fit, with_empty_domain. apply Forall_app. split; [exact Hd|].
    constructor; [constructor|constructor].
  Qed.
End Dom.

Theorem abi_document_digest H big_other (re : bytes -> option bytes) sts tc primary hand dom msg v :
  wf_types sts -> types_dims_fit sts ->
  describes re sts tc (Struct primary) ->
  (forall n, In n (keys sts) -> reachable sts primary n) ->
  ~ In domain_name (keys sts) ->
  repr_types hand sts -> tlookup domain_name hand = None ->
  let d := {| d_types := with_empty_domain sts; d_primary := primary; d_domain := VStruct []; d_message := v |} in
  repr big_other (with_empty_domain sts) (Struct primary) (match msg with Some m => GMap m | None => GNil end) v ->
  well_typed (with_empty_domain sts) (Struct primary) v = true ->
  exists ts, ABItoTypedDataV4 re tc = Ok (primary, ts) /\ tlookup domain_name ts = None /\
    wf_doc d /\
    EncodeTypedDataV4 H big_other (Some (mkTD (Some ts) primary dom msg)) = Ok (digest H d) /\
    EncodeTypedDataV4 H big_other (Some (mkTD (Some hand) primary dom msg)) = Ok (digest H d).
Proof.
  intros Hwf Hdims Hd Hreach Hnodom Hhand Hhnone d Hr Ht.
  destruct (ABItoTypedDataV4_ok re sts Hwf tc primary Hd Hreach) as (ts & E & Hrep).
  (* the derived set declares only structs of sts *)
  assert (Hgood : Good sts ts).
  { destruct tc as [| | |it ch]; try contradiction.
    assert (Hg0 : Good sts []) by (intros n t Hq; discriminate).
    destruct (addABITypes_ok re sts _ _ [] Hd Hg0) as (ts2 & E2 & Hg & _).
    pose proof Hd as Hd0. apply describes_tuple in Hd0 as (Hn & _).
    unfold ABItoTypedDataV4, extractSolidityTypeName in E. rewrite Hn in E. cbn [bind] in E. rewrite E2 in E.
    cbn [bind] in E. injection E as <-. exact Hg. }
  assert (Hnone : tlookup domain_name ts = None).
  { destruct (tlookup domain_name ts) as [t|] eqn:Et; [|reflexivity]. exfalso.
    destruct (Hgood _ _ Et) as (def & Hdef & _). apply Hnodom. apply assoc_keys. eauto. }
  assert (Hp : In primary (keys sts)).
  { destruct tc; try contradiction. apply describes_tuple in Hd as (_ & def & Hdef & _). apply assoc_keys; eauto. }
  assert (Hwd : wf_doc d).
  { split; [apply wf_types_with_dom; assumption|]. cbn [d d_types d_primary d_domain d_message].
    split; [rewrite keys_with_dom; apply in_or_app; right; left; reflexivity|].
    split; [rewrite keys_with_dom; apply in_or_app; left; exact Hp|].
    split; [|right; exact Ht].
    cbn [well_typed]. rewrite (assoc_dom_dom sts Hnodom). reflexivity. }
  assert (Hrepr : forall set, repr_types set sts -> tlookup domain_name set = None ->
                    represents big_other (mkTD (Some set) primary dom msg) d).
  { intros set Hs Hsn. split; [cbn [td_types d d_types]; apply repr_types_with_domain; assumption|].
    split; [reflexivity|]. cbn [td_domain td_message d d_types d_primary d_domain d_message].
    split; [|right; exact Hr].
    eapply R_struct; [apply (assoc_dom_dom sts Hnodom)|constructor]. }
  exists ts. split; [exact E|]. split; [exact Hnone|]. split; [exact Hwd|].
  split; apply digest_is_spec; try exact Hwd; try (apply dims_with_dom; exact Hdims); apply Hrepr; assumption.
Qed.
