(* C04 — the model's encodeElement / hashStruct / EncodeTypedDataV4 compute the EIP-712 encodings of
   Spec.v on every document that represents a well-formed Spec.doc. *)
From Coq Require Import String.
From Coq Require Import List NArith ZArith Bool Arith Lia Permutation.
From Coq Require Import Init.Byte.
From FFS Require Import Base.Res Base.Bytes Abi.Spec Eip712.Util Eip712.Input Eip712.Numeric Eip712.Coerce Eip712.Model
  Eip712.Spec Eip712.Repr Eip712.ProofsUtil Eip712.ProofsNames Eip712.ProofsDeps.
Import ListNotations.

(* ---------- words ---------- *)
Lemma pow256_32 : (256 ^ Z.of_nat 32 = 2 ^ 256)%Z.
Proof. reflexivity. Qed.

Lemma fill_bytes_word z : (0 <= z < 2 ^ 256)%Z -> fill_bytes 32 z = Ok (word z).
Proof.
  intros Hz. unfold fill_bytes, word, two. rewrite pow256_32.
  rewrite Z.abs_eq by lia. replace (z <? 2 ^ 256)%Z with true by (symmetry; apply Z.ltb_lt; lia).
  change (Z.of_N 256) with 256%Z. rewrite Z.mod_small by lia. reflexivity.
Qed.

Lemma bitlen_le z m : (0 <= z < 2 ^ Z.of_N m)%Z -> (bitlen z <= Z.of_N m)%Z.
Proof.
  intros Hz. unfold bitlen. destruct (Z.eqb_spec z 0); [lia|].
  assert (Z.log2 z < Z.of_N m)%Z; [|lia]. apply Z.log2_lt_pow2; lia.
Qed.

Lemma pow2_mono a b : (0 <= a <= b)%Z -> (2 ^ a <= 2 ^ b)%Z.
Proof. intros. apply Z.pow_le_mono_r; lia. Qed.

Lemma encode_unsigned_word m z : (m <= 256)%N -> (0 <= z < 2 ^ Z.of_N m)%Z ->
  encode_unsigned m z = Ok (word z).
Proof.
  intros Hm Hz. unfold encode_unsigned.
  replace (z <? 0)%Z with false by (symmetry; apply Z.ltb_ge; lia).
  pose proof (bitlen_le z m Hz).
  replace (Z.of_N m <? bitlen z)%Z with false by (symmetry; apply Z.ltb_ge; lia).
  apply fill_bytes_word. pose proof (pow2_mono (Z.of_N m) 256). lia.
Qed.

Lemma encode_signed_word m z : has_max m = true ->
  (- 2 ^ (Z.of_N m - 1) <= z < 2 ^ (Z.of_N m - 1))%Z -> encode_signed m z = Ok (word z).
Proof.
  intros Hm Hz. unfold encode_signed, check_signed_fits. rewrite Hm.
  assert (Hfit : (if (z =? 0)%Z then true
                  else if (0 <? z)%Z then true && (z <=? 2 ^ (Z.of_N m - 1) - 1)%Z
                       else true && (- 2 ^ (Z.of_N m - 1) <=? z)%Z) = true).
  { destruct (Z.eqb_spec z 0); [reflexivity|]. destruct (Z.ltb_spec 0 z); simpl; apply Z.leb_le; lia. }
  rewrite Hfit. cbn [negb].
  replace (2 ^ 256 - 1)%Z with (Z.ones 256) by reflexivity. rewrite Z.land_ones by lia.
  rewrite fill_bytes_word by (apply Z.mod_pos_bound; reflexivity).
  unfold word, two. change (Z.of_N 256) with 256%Z. rewrite Z.mod_mod by discriminate. reflexivity.
Qed.

Lemma get_bool_01 g z : get_bool g = Ok z -> z = 0%Z \/ z = 1%Z.
Proof.
  destruct g; simpl; try discriminate; intros Hq; injection Hq as <-.
  - destruct b; auto.
  - destruct (equal_fold_true s); auto.
Qed.

(* the nil branch of hashStruct *)
Lemma zero_word_ok big_other :
  match abi_elementary_type (bs "bytes32") with
  | Ok tc => match abi_encode big_other tc (GString zero_hex) with
             | Ok b => Ok b
             | Err _ => Ok []
             | Panic => Panic
             end
  | _ => Panic
  end = Ok (repeat x00 32).
Proof. vm_compute. reflexivity. Qed.

(* ---------- depth ---------- *)
Lemma gdepth_glookup k m :
  (Model.gdepth (glookup k m) <= fold_right (fun kv a => Nat.max (Model.gdepth (snd kv)) a) O m)%nat.
Proof.
  unfold glookup. induction m as [|[k' v] m IH]; simpl; [lia|].
  destruct (bytes_eqb k k'); [lia|]. destruct (alookup k m); simpl in *; lia.
Qed.

Section Main.
  Variable H : bytes -> bytes.
  Variable big_other : bytes -> option Z.
  Variable all : typeset.
  Variable sts : types.
  Hypothesis Hrep : repr_types all sts.
  Hypothesis Hwf : wf_types sts.
  Hypothesis Hdims : types_dims_fit sts.

  Notation encEl := (encodeElement H big_other all).

  Definition ed_loop (enc : bytes -> gval -> res bytes) (vMap : gmap) :=
    fix loop (ms : gtype) : res bytes :=
      match ms with
      | [] => Ok []
      | None :: _ => Err ENullTypeMember
      | Some tm :: r => do b <- enc (m_type tm) (glookup (m_name tm) vMap); do rest <- loop r; Ok (b ++ rest)
      end.
  Definition ha_loop (enc : bytes -> gval -> res bytes) (ty : bytes) :=
    fix loop (l : list gval) : res bytes :=
      match l with
      | [] => Ok []
      | ve :: r => do b <- enc ty ve; do rest <- loop r; Ok (b ++ rest)
      end.

  Fixpoint enc_fields (ms : list smember) (l : list value) : bytes :=
    match ms, l with
    | m :: ms', x :: l' => enc_member H sts (sm_ty m) x ++ enc_fields ms' l'
    | _, _ => []
    end.
  Fixpoint typed_fields (ms : list smember) (l : list value) : bool :=
    match ms, l with
    | [], [] => true
    | m :: ms', x :: l' => well_typed sts (sm_ty m) x && typed_fields ms' l'
    | _, _ => false
    end.

  Lemma enc_member_atomic a v : enc_member H sts (Atomic a) v = enc_atomic H a v.
  Proof. destruct v; reflexivity. Qed.
  Lemma well_typed_atomic a v : well_typed sts (Atomic a) v = atomic_typed a v.
  Proof. destruct v; reflexivity. Qed.

  Lemma enc_member_struct n l :
    enc_member H sts (Struct n) (VStruct l) = H (H (Spec.encodeType sts n) ++ enc_fields (def_of sts n) l).
  Proof.
    cbn [enc_member]. do 2 f_equal. generalize (def_of sts n). intros ms. revert ms.
    induction l as [|x l IH]; intros [|m ms]; try reflexivity. cbn [enc_fields]. rewrite <- IH. reflexivity.
  Qed.
  Lemma well_typed_struct n l def : assoc n sts = Some def ->
    well_typed sts (Struct n) (VStruct l) = typed_fields def l.
  Proof.
    intros Hd. cbn [well_typed]. rewrite Hd. revert def Hd. intros def _. revert def.
    induction l as [|x l IH]; intros [|m ms]; try reflexivity. cbn [typed_fields]. rewrite <- IH. reflexivity.
  Qed.

  Lemma hashStruct_unfold enc n g :
    Model.hashStruct H big_other all enc n g =
    do encoded <- (do tt' <- Model.encodeType all n;
                   let '(t, typeEncoded) := tt' in
                   match g with
                   | GNil => Ok None
                   | GMap vMap => do body <- ed_loop enc vMap t; Ok (Some (H typeEncoded ++ body))
                   | _ => Err EValueNotMap
                   end);
    match encoded with
    | None => match abi_elementary_type (bs "bytes32") with
              | Ok tc => match abi_encode big_other tc (GString zero_hex) with
                         | Ok b => Ok b | Err _ => Ok [] | Panic => Panic end
              | _ => Panic
              end
    | Some e => Ok (H e)
    end.
  Proof.
    unfold Model.hashStruct, encodeData. destruct (Model.encodeType all n) as [[t te]| |]; cbn [bind]; try reflexivity;
    destruct g; reflexivity.
  Qed.

  Lemma tlookup_atomic a : wf_atomic a = true -> tlookup (atomic_name a) all = None.
  Proof. apply Hrep. Qed.

  Lemma member_dims n def m : assoc n sts = Some def -> In m def -> dims_fit (sm_ty m).
  Proof.
    intros Hd Hm. apply assoc_In in Hd. unfold types_dims_fit in Hdims. rewrite Forall_forall in Hdims.
    specialize (Hdims _ Hd). simpl in Hdims. rewrite Forall_forall in Hdims. apply Hdims. exact Hm.
  Qed.

  (* atomic members *)
  Lemma atomic_ok a g v f : wf_atomic a = true -> repr_atomic big_other a g v -> atomic_typed a v = true ->
    encEl (S f) (atomic_name a) g = Ok (enc_atomic H a v).
  Proof.
    intros Hw Hr Ht. cbn [encodeElement].
    rewrite (ends_with_nobr _ (atomic_name_nobr a)), (tlookup_atomic a Hw). cbn [is_some].
    rewrite (abi_elementary_type_atomic a Hw). cbn [bind].
    destruct a as [m|m| | |n| |]; cbn [etc_of e_base e_suffix] in *; unfold abi_encode; cbn [e_base e_m].
    - destruct Hr as (z & -> & ->). cbn [bind]. simpl in Ht. apply andb_prop in Ht as [H1 H2].
      apply Z.leb_le in H1. apply Z.ltb_lt in H2. unfold two in H2.
      simpl in Hw. apply andb_prop in Hw as [Hw _]. apply andb_prop in Hw as [_ Hw]. apply N.leb_le in Hw.
      apply encode_unsigned_word; [exact Hw | lia].
    - destruct Hr as (z & -> & ->). cbn [bind]. simpl in Ht. apply andb_prop in Ht as [H1 H2].
      apply Z.leb_le in H1. apply Z.ltb_lt in H2. unfold two in H1, H2.
      assert (Hm8 : (8 <= m)%N).
      { simpl in Hw. apply andb_prop in Hw as [Hw _]. apply andb_prop in Hw as [Hw _]. apply N.leb_le in Hw. exact Hw. }
      replace (Z.of_N (m - 1)) with (Z.of_N m - 1)%Z in H1, H2 by lia.
      apply encode_signed_word; [exact Hw | lia].
    - destruct Hr as (z & Hg & ->). rewrite Hg. cbn [bind]. destruct (get_bool_01 _ _ Hg) as [-> | ->].
      + vm_compute. reflexivity.
      + vm_compute. reflexivity.
    - destruct Hr as (b & -> & ->). cbn [bind]. simpl in Ht. apply andb_prop in Ht as [H1 H2].
      apply Z.leb_le in H1. apply Z.ltb_lt in H2. unfold two in H2.
      apply encode_unsigned_word; [lia | lia].
    - destruct (dec n) as [|d0 dr] eqn:Ed; [exfalso; eapply dec_nonempty; eauto|].
      destruct Hr as (b & -> & ->). cbn [bind]. simpl in Ht. apply N.eqb_eq in Ht.
      simpl in Hw. apply andb_prop in Hw as [_ Hw]. apply N.leb_le in Hw.
      unfold encode_fixed_bytes. replace (N.to_nat n) with (length b) by lia.
      rewrite Nat.ltb_irrefl. replace (32 <? length b)%nat with false by (symmetry; apply Nat.ltb_ge; lia).
      cbn [orb]. pose proof (slice_prefix b []) as Hs. rewrite app_nil_r in Hs. rewrite Hs. reflexivity.
    - destruct Hr as (b & -> & ->). reflexivity.
    - destruct Hr as (s & -> & ->). reflexivity.
  Qed.

  Definition maxdepth_map (m : gmap) : nat := fold_right (fun kv a => Nat.max (Model.gdepth (snd kv)) a) O m.
  Definition maxdepth_list (l : list gval) : nat := fold_right (fun x a => Nat.max (Model.gdepth x) a) O l.

  Lemma main_mut :
    (forall t g v, repr big_other sts t g v ->
       wf_mty sts t = true -> dims_fit t -> well_typed sts t v = true ->
       forall f, (Model.gdepth g < f)%nat -> encEl f (ty_name t) g = Ok (enc_member H sts t v)) /\
    (forall def m vs, repr_members big_other sts def m vs ->
       Forall (fun sm => wf_mty sts (sm_ty sm) = true) def -> Forall (fun sm => dims_fit (sm_ty sm)) def ->
       typed_fields def vs = true ->
       forall f, (maxdepth_map m < f)%nat -> ed_loop (encEl f) m (map render_member def) = Ok (enc_fields def vs)) /\
    (forall t gs vs, repr_elems big_other sts t gs vs ->
       wf_mty sts t = true -> dims_fit t -> forallb (well_typed sts t) vs = true ->
       forall f, (maxdepth_list gs < f)%nat ->
         ha_loop (encEl f) (ty_name t) gs = Ok (concat (map (enc_member H sts t) vs)) /\ length gs = length vs).
  Proof.
    apply repr_mutind.
    - (* atomic *)
      intros a g v Hr Hw _ Ht f Hf. destruct f as [|f]; [lia|].
      cbn [ty_name]. rewrite enc_member_atomic. rewrite well_typed_atomic in Ht. apply atomic_ok; auto.
    - (* absent struct *)
      intros n Hw _ _ f Hf. destruct f as [|f]; [lia|]. cbn [ty_name encodeElement].
      simpl in Hw. apply bmem_In in Hw. destruct (declared_assoc sts n Hw) as (def & Hd).
      destruct (wf_lookup sts Hwf _ _ Hd) as (Hname & _ & _). apply wf_name_nobr in Hname as [Hnb _].
      rewrite (ends_with_nobr _ Hnb), (tlookup_all all sts Hrep _ _ Hd). cbn [is_some].
      rewrite hashStruct_unfold, (encodeType_ok all sts Hrep Hwf n def Hd). cbn [bind].
      rewrite zero_word_ok. reflexivity.
    - (* struct *)
      intros n m def vs Hd Hrm IH Hw _ Ht f Hf. destruct f as [|f]; [lia|]. cbn [ty_name encodeElement].
      destruct (wf_lookup sts Hwf _ _ Hd) as (Hname & _ & Hwfm). apply wf_name_nobr in Hname as [Hnb _].
      rewrite (ends_with_nobr _ Hnb), (tlookup_all all sts Hrep _ _ Hd). cbn [is_some].
      rewrite hashStruct_unfold, (encodeType_ok all sts Hrep Hwf n def Hd). cbn [bind].
      rewrite (well_typed_struct n vs def Hd) in Ht.
      assert (Hdm : Forall (fun sm => dims_fit (sm_ty sm)) def).
      { apply Forall_forall. intros sm Hsm. eapply member_dims; eassumption. }
      rewrite (IH Hwfm Hdm Ht f) by (simpl in Hf; unfold maxdepth_map; lia). cbn [bind].
      rewrite enc_member_struct. unfold def_of. rewrite Hd. reflexivity.
    - (* array *)
      intros t k gs vs Hre IH Hw Hd Ht f Hf. destruct f as [|f]; [lia|].
      cbn [encodeElement]. rewrite ends_with_arr.
      simpl in Hw. assert (Hd' : dims_fit t) by (destruct k; simpl in Hd; tauto).
      cbn [well_typed] in Ht. apply andb_prop in Ht as [Hlen Ht].
      destruct (IH Hw Hd' Ht f) as [Hloop Hl]; [simpl in Hf; unfold maxdepth_list; lia|].
      destruct (hashArray_split t k (wf_mty_names sts Hwf t Hw)) as (op & Hli & Hop & Hidx & Hs1 & Hs2).
      unfold hashArray. rewrite Hli, Hidx. cbn [bind]. rewrite byte_eqb_refl. cbn [negb].
      rewrite Hs1, Hs2. cbn [bind].
      assert (Hdim : match dim_str k with
                     | [] => Ok tt
                     | _ :: _ => match atoi (dim_str k) with
                                 | Some dim => if (Z.of_nat (length gs) =? dim)%Z then Ok tt else Err EInvalidArrayLen
                                 | None => Err EInvalidArraySuffix
                                 end
                     end = Ok tt).
      { destruct k as [n|]; [|reflexivity]. cbn [dim_str].
        destruct (dec n) as [|d0 dr] eqn:Ed; [exfalso; eapply dec_nonempty; eauto|]. rewrite <- Ed.
        simpl in Hd. rewrite atoi_dec by tauto. apply N.eqb_eq in Hlen.
        replace (Z.of_nat (length gs) =? Z.of_N n)%Z with true; [reflexivity|].
        symmetry. apply Z.eqb_eq. rewrite Hl. lia. }
      destruct (dim_str k) as [|d0 dr] eqn:Ek.
      + cbn [bind]. fold (ha_loop (encEl f) (ty_name t)). rewrite Hloop. reflexivity.
      + rewrite Hdim. cbn [bind]. fold (ha_loop (encEl f) (ty_name t)). rewrite Hloop. reflexivity.
    - (* members nil *)
      intros m _ _ Ht f Hf. reflexivity.
    - (* members cons *)
      intros sm ms m v vs Hr IHr Hrm IHm Hw Hd Ht f Hf.
      inversion Hw as [|? ? Hw1 Hw2]; inversion Hd as [|? ? Hd1 Hd2]; subst.
      cbn [typed_fields] in Ht. apply andb_prop in Ht as [Ht1 Ht2].
      cbn [map render_member ed_loop m_type m_name enc_fields].
      rewrite (IHr Hw1 Hd1 Ht1 f) by (pose proof (gdepth_glookup (sm_name sm) m); unfold maxdepth_map in Hf; lia).
      cbn [bind]. fold (ed_loop (encEl f) m). rewrite (IHm Hw2 Hd2 Ht2 f Hf). reflexivity.
    - (* elems nil *)
      intros t _ _ _ f Hf. split; reflexivity.
    - (* elems cons *)
      intros t g gs v vs Hr IHr Hre IHe Hw Hd Ht f Hf.
      cbn [forallb] in Ht. apply andb_prop in Ht as [Ht1 Ht2].
      assert (Hf' : (Model.gdepth g < f)%nat /\ (maxdepth_list gs < f)%nat)
        by (unfold maxdepth_list in *; cbn [fold_right] in Hf; lia).
      destruct Hf' as [Hf1 Hf2].
      destruct (IHe Hw Hd Ht2 f Hf2) as [Hl1 Hl2].
      split; [|simpl; rewrite Hl2; reflexivity].
      cbn [ha_loop map concat]. rewrite (IHr Hw Hd Ht1 f Hf1). cbn [bind].
      fold (ha_loop (encEl f) (ty_name t)). rewrite Hl1. reflexivity.
  Qed.

  (* hashStruct called directly (top level) *)
  Lemma hashStruct_top n g v : In n (keys sts) ->
    repr big_other sts (Struct n) g v -> well_typed sts (Struct n) v = true ->
    HashStruct H big_other n g all = Ok (Spec.hashStruct H sts n v).
  Proof.
    intros Hn Hr Ht. unfold HashStruct, Spec.hashStruct.
    assert (Hw : wf_mty sts (Struct n) = true) by (simpl; apply bmem_In; exact Hn).
    destruct main_mut as [Hm _].
    specialize (Hm _ _ _ Hr Hw I Ht (S (fuel_of g))). cbn [ty_name encodeElement] in Hm.
    destruct (declared_assoc sts n Hn) as (def & Hd).
    destruct (wf_lookup sts Hwf _ _ Hd) as (Hname & _ & _). apply wf_name_nobr in Hname as [Hnb _].
    rewrite (ends_with_nobr _ Hnb), (tlookup_all all sts Hrep _ _ Hd) in Hm. cbn [is_some] in Hm.
    apply Hm. unfold fuel_of. lia.
  Qed.
End Main.

(* ---------- the digest ---------- *)
Theorem digest_is_spec H big_other td d :
  represents big_other td d -> wf_doc d -> types_dims_fit (d_types d) ->
  EncodeTypedDataV4 H big_other (Some td) = Ok (digest H d).
Proof.
  intros (Hrep & Hprim & Hdom & Hmsg) (Hwf & Hdn & Hpn & Htd & Htm) Hdims.
  unfold EncodeTypedDataV4.
  set (types0 := match td_types td with Some ts => ts | None => [] end).
  assert (Etypes : (if is_some (tlookup EIP712Domain types0) then types0 else aset EIP712Domain (Some []) types0)
                   = with_domain_type (td_types td)).
  { unfold with_domain_type. fold types0. change domain_name with EIP712Domain.
    destruct (tlookup EIP712Domain types0); reflexivity. }
  rewrite Etypes. clear Etypes types0.
  rewrite Hprim.
  destruct (declared_assoc _ _ Hpn) as (pdef & Hpd).
  destruct (wf_lookup _ Hwf _ _ Hpd) as (Hpname & _ & _). apply wf_name_nobr in Hpname as [_ Hpne].
  assert (Hmatch : forall (A : Type) (l : bytes) (a b : A), l <> [] -> match l with [] => a | _ :: _ => b end = b)
    by (intros A [|x l] a b Hne; congruence).
  rewrite Hmatch by exact Hpne. cbv zeta.
  change EIP712Domain with domain_name.
  destruct (td_domain td) as [dm|]; destruct (td_message td) as [mm|]; cbn [map_arg] in *;
  rewrite (hashStruct_top H big_other _ _ Hrep Hwf Hdims domain_name _ _ Hdn Hdom Htd); cbn [bind].
  all: unfold digest; destruct (bytes_eqb (d_primary d) domain_name) eqn:Eq; cbn [negb].
  all: try (rewrite app_nil_r; reflexivity).
  all: destruct Hmsg as [Hmsg|Hmsg]; [congruence|]; destruct Htm as [Htm|Htm]; [congruence|].
  all: rewrite (hashStruct_top H big_other _ _ Hrep Hwf Hdims (d_primary d) _ _ Hpn Hmsg Htm); reflexivity.
Qed.
