(* C14/C04 — the input side of EIP-712 typed data: JSON document trees as the encoding/json lexer
   delivers them (the lexer is an oracle: numbers are kept as their text, strings are already
   unquoted), the Go values they are decoded into, and the model of
       json.Unmarshal(doc, &TypedData{})      (pkg/eip712/typed_data_v4.go: TypedData, TypeSet, Type,
                                               TypeMember, TypedData.UnmarshalJSON)
   Data types and decoding only — no hashing (Eip712/Model.v), no proofs (Eip712/InputProofs.v). *)
From Coq Require Import List NArith ZArith Bool.
From Coq Require Import Init.Byte.
From FFS Require Import Base.Res Base.Bytes.
Import ListNotations.

(* ---------- JSON trees (lexer output) ---------- *)
(* object members in document order, duplicate keys possible; number = the literal's text *)
Inductive json :=
| JNull
| JBool (b : bool)
| JNum (text : bytes)
| JStr (s : bytes)
| JArr (l : list json)
| JObj (m : list (bytes * json)).

(* ---------- Go values: interface{} as produced by a decoder with UseNumber ---------- *)
Inductive gval :=
| GNil
| GBool (b : bool)
| GNumber (text : bytes)            (* json.Number: the exact text of the JSON number *)
| GString (s : bytes)
| GSlice (l : list gval)            (* []interface{} *)
| GMap (m : list (bytes * gval)).   (* map[string]interface{}; keys unique (see InputProofs) *)

Definition gmap := list (bytes * gval).

(* TypeMember / Type / TypeSet / TypedData.  A nil *TypeMember is None, a nil Type (JSON null for a
   member list) is None; a nil map is None. *)
Record member := mkMember { m_name : bytes; m_type : bytes }.
Definition gtype := list (option member).
Definition typeset := list (bytes * option gtype).
Record typed_data := mkTD {
  td_types : option typeset;
  td_primary : bytes;
  td_domain : option gmap;
  td_message : option gmap
}.
Definition td_zero : typed_data := mkTD None [] None None.

(* ---------- association lists standing for Go maps ---------- *)
Section Assoc.
  Context {V : Type}.
  Fixpoint alookup (k : bytes) (m : list (bytes * V)) : option V :=
    match m with
    | [] => None
    | (k', v) :: r => if bytes_eqb k k' then Some v else alookup k r
    end.
  (* m[k] = v : replace in place when present, otherwise append *)
  Fixpoint aset (k : bytes) (v : V) (m : list (bytes * V)) : list (bytes * V) :=
    match m with
    | [] => [(k, v)]
    | (k', v') :: r => if bytes_eqb k k' then (k, v) :: r else (k', v') :: aset k v r
    end.
End Assoc.

(* vMap[name] on map[string]interface{}: a missing key reads as nil *)
Definition glookup (k : bytes) (m : gmap) : gval :=
  match alookup k m with Some v => v | None => GNil end.
(* allTypes[name]: outer None = key absent, Some None = present with a nil Type *)
Definition tlookup (k : bytes) (ts : typeset) : option (option gtype) := alookup k ts.

(* ---------- encoding/json: matching an object key to a struct field ---------- *)
(* decode.go: exact match first, then foldName(key) against the folded field names.  All field names
   here are ASCII, so a key matches a field iff its fold equals the upper-cased field name.
   foldName = ASCII letters to upper case, every other rune to the smallest rune of its simple-fold
   orbit; the only non-ASCII runes whose orbit contains an ASCII letter are U+017F (long s, bytes
   c5 bf) -> 'S' and U+212A (Kelvin sign, bytes e2 84 aa) -> 'K'; other non-ASCII bytes can never
   become ASCII and are left alone. *)
Definition upper_byte (b : byte) : byte :=
  let n := b2n b in if ((97 <=? n) && (n <=? 122))%N then n2b (n - 32) else b.

Fixpoint fold_name (k : bytes) : bytes :=
  match k with
  | [] => []
  | b :: r =>
      let n := b2n b in
      if (n =? 197)%N then   (* c5 *)
        match r with
        | b2 :: r2 => if (b2n b2 =? 191)%N then x53 :: fold_name r2 else b :: fold_name r
        | [] => [b]
        end
      else if (n =? 226)%N then   (* e2 *)
        match r with
        | b2 :: b3 :: r3 =>
            if ((b2n b2 =? 132) && (b2n b3 =? 170))%N then x4b :: fold_name r3 else b :: fold_name r
        | _ => b :: fold_name r
        end
      else upper_byte b :: fold_name r
  end.

Definition field_is (field_upper : bytes) (key : bytes) : bool := bytes_eqb (fold_name key) field_upper.

Definition F_TYPES : bytes := [x54; x59; x50; x45; x53].                                  (* TYPES *)
Definition F_PRIMARYTYPE : bytes := [x50; x52; x49; x4d; x41; x52; x59; x54; x59; x50; x45]. (* PRIMARYTYPE *)
Definition F_DOMAIN : bytes := [x44; x4f; x4d; x41; x49; x4e].                            (* DOMAIN *)
Definition F_MESSAGE : bytes := [x4d; x45; x53; x53; x41; x47; x45].                      (* MESSAGE *)
Definition F_NAME : bytes := [x4e; x41; x4d; x45].                                        (* NAME *)
Definition F_TYPE : bytes := [x54; x59; x50; x45].                                        (* TYPE *)

(* error class of every json.Unmarshal failure (UnmarshalTypeError) *)
Definition EUnmarshal : nat := 1.

(* ---------- decoding into interface{} (UseNumber) ---------- *)
(* objects become map[string]interface{}: a repeated key overwrites (the element is decoded afresh) *)
Fixpoint to_gval (j : json) : gval :=
  match j with
  | JNull => GNil
  | JBool b => GBool b
  | JNum t => GNumber t
  | JStr s => GString s
  | JArr l => GSlice (map to_gval l)
  | JObj m => GMap (fold_left (fun acc kv => aset (fst kv) (to_gval (snd kv)) acc) m [])
  end.

(* a Go string field: a JSON string sets it, null leaves it, anything else is a type error *)
Definition dec_string (cur : bytes) (j : json) : res bytes :=
  match j with JStr s => Ok s | JNull => Ok cur | _ => Err EUnmarshal end.

(* *TypeMember: null -> nil pointer; object -> fields Name / Type (no json tags, so the keys "name"
   and "type" match by case folding); other kinds are a type error *)
Definition dec_member_fields (m : list (bytes * json)) : res member :=
  fold_left (fun (acc : res member) (kv : bytes * json) =>
               do mb <- acc;
               if field_is F_NAME (fst kv) then
                 do s <- dec_string (m_name mb) (snd kv); Ok (mkMember s (m_type mb))
               else if field_is F_TYPE (fst kv) then
                 do s <- dec_string (m_type mb) (snd kv); Ok (mkMember (m_name mb) s)
               else Ok mb)
            m (Ok (mkMember [] [])).

Definition dec_member (j : json) : res (option member) :=
  match j with
  | JNull => Ok None
  | JObj m => do mb <- dec_member_fields m; Ok (Some mb)
  | _ => Err EUnmarshal
  end.

Fixpoint dec_list {A} (f : json -> res A) (l : list json) : res (list A) :=
  match l with
  | [] => Ok []
  | j :: r => do a <- f j; do r' <- dec_list f r; Ok (a :: r')
  end.

(* Type = []*TypeMember: null -> nil slice, array -> elements *)
Definition dec_type (j : json) : res (option gtype) :=
  match j with
  | JNull => Ok None
  | JArr l => do ms <- dec_list dec_member l; Ok (Some ms)
  | _ => Err EUnmarshal
  end.

(* TypeSet = map[string]Type decoded into the current field value: null -> nil map; an object is
   merged into the existing map (a second "types" key adds to the first), each element decoded from
   its zero value *)
Definition dec_typeset (cur : option typeset) (j : json) : res (option typeset) :=
  match j with
  | JNull => Ok None
  | JObj m =>
      do ts <- fold_left (fun (acc : res typeset) (kv : bytes * json) =>
                            do ts <- acc; do t <- dec_type (snd kv); Ok (aset (fst kv) t ts))
                         m (Ok (match cur with Some ts => ts | None => [] end));
      Ok (Some ts)
  | _ => Err EUnmarshal
  end.

(* map[string]interface{} field (domain, message): same merge rule *)
Definition dec_gmap (cur : option gmap) (j : json) : res (option gmap) :=
  match j with
  | JNull => Ok None
  | JObj m =>
      Ok (Some (fold_left (fun acc kv => aset (fst kv) (to_gval (snd kv)) acc) m
                          (match cur with Some g => g | None => [] end)))
  | _ => Err EUnmarshal
  end.

Definition dec_td_field (td : typed_data) (kv : bytes * json) : res typed_data :=
  let '(k, v) := kv in
  if field_is F_TYPES k then
    do x <- dec_typeset (td_types td) v; Ok (mkTD x (td_primary td) (td_domain td) (td_message td))
  else if field_is F_PRIMARYTYPE k then
    do x <- dec_string (td_primary td) v; Ok (mkTD (td_types td) x (td_domain td) (td_message td))
  else if field_is F_DOMAIN k then
    do x <- dec_gmap (td_domain td) v; Ok (mkTD (td_types td) (td_primary td) x (td_message td))
  else if field_is F_MESSAGE k then
    do x <- dec_gmap (td_message td) v; Ok (mkTD (td_types td) (td_primary td) (td_domain td) x)
  else Ok td.

(* json.Unmarshal(doc, &td) into a TypedData holding [cur] (a fresh variable: td_zero).
   null leaves the value untouched; an object fills the fields; any other kind is a type error.
   (encoding/json keeps decoding after an UnmarshalTypeError and reports it at the end; only the
   fact that an error is returned is modelled, the partially filled value is not used.) *)
Definition decode_typed_data_into (cur : typed_data) (doc : json) : res typed_data :=
  match doc with
  | JNull => Ok cur
  | JObj m => fold_left (fun (acc : res typed_data) kv => do td <- acc; dec_td_field td kv) m (Ok cur)
  | _ => Err EUnmarshal
  end.

Definition decode_typed_data (doc : json) : res typed_data := decode_typed_data_into td_zero doc.

(* json.Unmarshal(doc, &p) with p a nil *TypedData: null leaves the pointer nil, anything else
   allocates a zero TypedData and decodes into it *)
Definition decode_typed_data_ptr (doc : json) : res (option typed_data) :=
  match doc with
  | JNull => Ok None
  | _ => do td <- decode_typed_data doc; Ok (Some td)
  end.
