(* Round 3: a second call on the same *TypedData object.
   EncodeTypedDataV4 fills its defaults in place (payload.Types = {} when nil, an empty EIP712Domain
   type when none is declared, payload.Domain = {} when nil) before anything else.  [payload_after]
   is the object a caller holds after the call; the model gives the same result on it (digest, error
   or panic alike), so calling again with the same object is calling again with the same document.
   The harness checks the implementation accordingly (second call on every bulk document). *)
From Coq Require Import String.
From Coq Require Import List NArith ZArith Bool Arith.
From Coq Require Import Init.Byte.
From FFS Require Import Base.Res Base.Bytes.
From FFS Require Import Eip712.Util Eip712.Input Eip712.Numeric Eip712.Coerce Eip712.Model Eip712.ProofsDeps.
Import ListNotations.

Definition payload_after (p : typed_data) : typed_data :=
  let types := match td_types p with Some ts => ts | None => [] end in
  let types := if is_some (tlookup EIP712Domain types) then types else aset EIP712Domain (Some []) types in
  let domain := match td_domain p with Some d => d | None => [] end in
  mkTD (Some types) (td_primary p) (Some domain) (td_message p).

Lemma second_call_same (H : bytes -> bytes) (big_other : bytes -> option Z) (p : typed_data) :
  EncodeTypedDataV4 H big_other (Some (payload_after p)) = EncodeTypedDataV4 H big_other (Some p).
Proof.
  unfold EncodeTypedDataV4, payload_after. cbn [td_types td_primary td_domain td_message].
  set (ts0 := match td_types p with Some ts => ts | None => [] end).
  destruct (is_some (tlookup EIP712Domain ts0)) eqn:E.
  - rewrite E. reflexivity.
  - assert (Hs : is_some (tlookup EIP712Domain (aset EIP712Domain (Some []) ts0)) = true)
      by (unfold tlookup; rewrite alookup_aset_same; reflexivity).
    rewrite !Hs. reflexivity.
Qed.

Lemma payload_after_idem (p : typed_data) : payload_after (payload_after p) = payload_after p.
Proof.
  unfold payload_after. cbn [td_types td_primary td_domain td_message].
  set (ts0 := match td_types p with Some ts => ts | None => [] end).
  destruct (is_some (tlookup EIP712Domain ts0)) eqn:E.
  - rewrite E. reflexivity.
  - assert (Hs : is_some (tlookup EIP712Domain (aset EIP712Domain (Some []) ts0)) = true)
      by (unfold tlookup; rewrite alookup_aset_same; reflexivity).
    rewrite !Hs. reflexivity.
Qed.

Lemma second_call (H : bytes -> bytes) (big_other : bytes -> option Z) (p : typed_data) :
  EncodeTypedDataV4 H big_other (Some (payload_after p)) = EncodeTypedDataV4 H big_other (Some p)
  /\ payload_after (payload_after p) = payload_after p.
Proof. split; [apply second_call_same | apply payload_after_idem]. Qed.
