(* C04 — reading a Go-level typed-data document (Input.v: type strings, decoded JSON values) as an
   EIP-712 document of Spec.v (parsed member types, typed values).  This is the [parse] of
       C04_digest_is_spec : well_formed doc -> EncodeTypedDataV4 doc = Ok (digest (parse doc)).
   Type strings are accepted only in their canonical spelling (what [Spec.ty_name] prints), values
   are read with the documented coercions (Coerce.v readers, Numeric.integer_of_gval — whose
   exactness is C14's subject).  Extra message fields are ignored, unreferenced types are kept (the
   spec digest does not look at them).  Executable; used by RunC04.v as the property oracle. *)
From Coq Require Import String.
From Coq Require Import List NArith ZArith Bool Arith.
From Coq Require Import Init.Byte.
From FFS Require Import Base.Res Base.Bytes Eip712.Util Eip712.Input Eip712.Numeric Eip712.Coerce Eip712.Spec.
Import ListNotations.

(* s = prefix ++ r  ->  Some r *)
Fixpoint strip_prefix (p s : bytes) : option bytes :=
  match p, s with
  | [], _ => Some s
  | a :: p', b :: s' => if byte_eqb a b then strip_prefix p' s' else None
  | _ :: _, [] => None
  end.

(* a canonical decimal numeral *)
Definition canon_dec (s : bytes) : option N :=
  match undec s with
  | Some n => if bytes_eqb (dec n) s then Some n else None
  | None => None
  end.

Definition parse_atomic (s : bytes) : option atomic :=
  if bytes_eqb s (bs "bool") then Some ABool
  else if bytes_eqb s (bs "address") then Some AAddress
  else if bytes_eqb s (bs "string") then Some AString
  else if bytes_eqb s (bs "bytes") then Some ABytes
  else match strip_prefix (bs "bytes") s with
       | Some r => match canon_dec r with
                   | Some n => if wf_atomic (ABytesN n) then Some (ABytesN n) else None
                   | None => None
                   end
       | None =>
       match strip_prefix (bs "uint") s with
       | Some r => match canon_dec r with
                   | Some m => if wf_atomic (AUint m) then Some (AUint m) else None
                   | None => None
                   end
       | None =>
       match strip_prefix (bs "int") s with
       | Some r => match canon_dec r with
                   | Some m => if wf_atomic (AInt m) then Some (AInt m) else None
                   | None => None
                   end
       | None => None
       end end end.

(* split "T[dim]" at the last '[' when the string ends in ']' (the result is checked) *)
Definition split_array (s : bytes) : option (bytes * bytes) :=
  if ends_with x5d s then
    match last_index_byte x5b s with
    | Some i =>
        let t := firstn i s in
        let dim := firstn (length s - i - 2) (skipn (S i) s) in
        if bytes_eqb s (t ++ x5b :: dim ++ [x5d]) then Some (t, dim) else None
    | None => None
    end
  else None.

Fixpoint parse_ty (fuel : nat) (names : list bytes) (s : bytes) : option mty :=
  match fuel with
  | O => None
  | S f =>
      if ends_with x5d s then
        match split_array s with
        | Some (t, dim) =>
            match parse_ty f names t with
            | Some t' =>
                match dim with
                | [] => Some (Arr t' None)
                | _ => match canon_dec dim with Some k => Some (Arr t' (Some k)) | None => None end
                end
            | None => None
            end
        | None => None
        end
      else if bmem s names then Some (Struct s)
      else match parse_atomic s with Some a => Some (Atomic a) | None => None end
  end.

Fixpoint opt_all {A} (l : list (option A)) : option (list A) :=
  match l with
  | [] => Some []
  | Some a :: r => match opt_all r with Some r' => Some (a :: r') | None => None end
  | None :: _ => None
  end.

Definition parse_member (names : list bytes) (m : option member) : option smember :=
  match m with
  | Some m => match parse_ty (S (length (m_type m))) names (m_type m) with
              | Some t => Some {| sm_name := m_name m; sm_ty := t |}
              | None => None
              end
  | None => None
  end.

Definition parse_types (ts : typeset) : option types :=
  let names := map fst ts in
  opt_all (map (fun nt : bytes * option gtype =>
                  match snd nt with
                  | Some ms => match opt_all (map (parse_member names) ms) with
                               | Some d => Some (fst nt, d)
                               | None => None
                               end
                  | None => None
                  end) ts).

Section Values.
  Variable big_other : bytes -> option Z.
  Variable ts : types.

  Definition parse_atomic_val (a : atomic) (v : gval) : option value :=
    match a with
    | AUint _ | AInt _ => match integer_of_gval big_other v with Ok z => Some (VInt z) | _ => None end
    | ABool => match get_bool v with Ok z => Some (VBool (negb (z =? 0)%Z)) | _ => None end
    | AAddress => match get_bytes v with Ok b => Some (VInt (of_beZ b)) | _ => None end
    | ABytesN _ | ABytes => match get_bytes v with Ok b => Some (VBytes b) | _ => None end
    | AString => match get_string v with Ok s => Some (VBytes s) | _ => None end
    end.

  Fixpoint parse_val (fuel : nat) (t : mty) (v : gval) : option value :=
    match fuel with
    | O => None
    | S f =>
        match t with
        | Atomic a => parse_atomic_val a v
        | Struct n =>
            match v with
            | GNil => Some VNone
            | GMap m =>
                match assoc n ts with
                | Some def =>
                    match opt_all (map (fun sm => parse_val f (sm_ty sm) (glookup (sm_name sm) m)) def) with
                    | Some l => Some (VStruct l)
                    | None => None
                    end
                | None => None
                end
            | _ => None
            end
        | Arr t' _ =>
            match v with
            | GSlice l => match opt_all (map (parse_val f t') l) with
                          | Some l' => Some (VArr l')
                          | None => None
                          end
            | _ => None
            end
        end
    end.
End Values.

Fixpoint gdepth (v : gval) : nat :=
  match v with
  | GSlice l => S (fold_right (fun x a => Nat.max (gdepth x) a) O l)
  | GMap m => S (fold_right (fun kv a => Nat.max (gdepth (snd kv)) a) O m)
  | _ => O
  end.

(* the document as EncodeTypedDataV4 sees it: a missing EIP712Domain type is the empty struct, a
   missing domain the empty object, a missing message the absent value *)
Definition parse_doc (big_other : bytes -> option Z) (td : typed_data) : option doc :=
  let gts := match td_types td with Some t => t | None => [] end in
  let gts := match alookup domain_name gts with Some _ => gts | None => gts ++ [(domain_name, Some [])] end in
  match parse_types gts with
  | None => None
  | Some sts =>
      let dom := GMap (match td_domain td with Some d => d | None => [] end) in
      let msg := match td_message td with Some m => GMap m | None => GNil end in
      match parse_val big_other sts (S (S (gdepth dom))) (Struct domain_name) dom,
            (if bytes_eqb (td_primary td) domain_name then Some VNone      (* domain-only: not looked at *)
             else parse_val big_other sts (S (S (gdepth msg))) (Struct (td_primary td)) msg) with
      | Some d, Some m => Some {| d_types := sts; d_primary := td_primary td; d_domain := d; d_message := m |}
      | _, _ => None
      end
  end.

(* ---------- decidable well-formedness (boolean mirror of Spec.wf_doc) ---------- *)
Fixpoint nodupb (l : list bytes) : bool :=
  match l with [] => true | x :: r => negb (bmem x r) && nodupb r end.

(* a declared struct name must not be spelled like an atomic type *)
Definition wf_types_b (sts : types) : bool :=
  nodupb (keys sts) &&
  forallb (fun nd : bytes * structdef =>
             wf_name (fst nd) && forallb (fun a => negb (bytes_eqb (fst nd) (atomic_name a))) wf_atomics
             && forallb (fun m => wf_mty sts (sm_ty m)) (snd nd)) sts.

Definition wf_doc_b (d : doc) : bool :=
  wf_types_b (d_types d) && bmem domain_name (keys (d_types d)) && bmem (d_primary d) (keys (d_types d))
  && well_typed (d_types d) (Struct domain_name) (d_domain d)
  && (bytes_eqb (d_primary d) domain_name || well_typed (d_types d) (Struct (d_primary d)) (d_message d)).

(* fixed array dimensions fit Go's int *)
Fixpoint dims_fit_b (t : mty) : bool :=
  match t with
  | Arr t' (Some k) => (Z.of_N k <=? 9223372036854775807)%Z && dims_fit_b t'
  | Arr t' None => dims_fit_b t'
  | _ => true
  end.
Definition types_dims_fit_b (sts : types) : bool :=
  forallb (fun nd : bytes * structdef => forallb (fun m => dims_fit_b (sm_ty m)) (snd nd)) sts.

(* the [well_formed] of C04_digest_is_spec *)
Definition well_formed_b (d : doc) : bool := wf_doc_b d && types_dims_fit_b (d_types d).
