(* C14 — the numeric coercion an int<M>/uint<M> member of typed data goes through:
       pkg/abi/inputparsing.go   getIntegerFromInterface   (the cases a decoded JSON value can reach)
       pkg/ethtypes/integer_parsing.go   BigIntegerFromString
   Since TypedData.UnmarshalJSON decodes with UseNumber a JSON number arrives as json.Number (its text)
   and a JSON string as string; both go to BigIntegerFromString.  float64 is no longer reachable from
   a decoded document.

   BigIntegerFromString is modelled exactly on the three grammars that matter for the property:
     D  sign? int                           big.Int.SetString(s, 0), decimal
     H  sign? 0[xX] hexdigit+               big.Int.SetString(s, 0), hexadecimal
     S  sign? int frac? exp?                with a fraction and/or an exponent: SetString fails,
                                            big.ParseFloat accepts, big.Rat.SetString is exact
        where sign = '+' | '-', int = '0' | nonzero-digit digit..., frac = '.' digit+,
        exp = [eE] sign? digit+
   (S with sign '-' or none is exactly the JSON number grammar, so every json.Number is in D or S.)
   Every other text (octal/binary prefixes, '_' separators, "Inf", garbage ...) is answered by
   [big_other], an oracle for math/big that the correspondence run fills by calling math/big directly;
   no theorem assumes anything about it.  No proofs in this file. *)
From Coq Require Import List NArith ZArith Bool.
From Coq Require Import Init.Byte.
From FFS Require Import Base.Res Base.Bytes Eip712.Input.
Import ListNotations.
Local Open Scope Z_scope.

Definition EBadInteger : nat := 30.    (* FF22030 MsgInvalidIntegerABIInput (wraps FF22088 / FF22089) *)

(* ---------- digits ---------- *)
Definition is_digit (b : byte) : bool := let n := b2n b in ((48 <=? n) && (n <=? 57))%N.
Definition digit_val (b : byte) : Z := Z.of_N (b2n b) - 48.
Definition hex_val (b : byte) : option Z :=
  let n := b2n b in
  if ((48 <=? n) && (n <=? 57))%N then Some (Z.of_N n - 48)
  else if ((97 <=? n) && (n <=? 102))%N then Some (Z.of_N n - 87)
  else if ((65 <=? n) && (n <=? 70))%N then Some (Z.of_N n - 55)
  else None.
Definition is_hex (b : byte) : bool := match hex_val b with Some _ => true | None => false end.

Definition dec_value (ds : bytes) : Z := fold_left (fun acc b => acc * 10 + digit_val b) ds 0.
Definition hex_value (ds : bytes) : Z :=
  fold_left (fun acc b => acc * 16 + match hex_val b with Some d => d | None => 0 end) ds 0.

(* maximal prefix of decimal digits, and the rest *)
Fixpoint span_digits (l : bytes) : bytes * bytes :=
  match l with
  | b :: r => if is_digit b then let '(d, t) := span_digits r in (b :: d, t) else ([], l)
  | [] => ([], [])
  end.

(* ---------- classification of a numeric text ---------- *)
Inductive numclass :=
| CDec (neg : bool) (ds : bytes)
| CHex (neg : bool) (ds : bytes)
| CSci (neg : bool) (ip fp : bytes) (eneg : bool) (ed : bytes)   (* fp and ed may be empty, not both *)
| COther.

Definition byte_is (n : N) (b : byte) : bool := (b2n b =? n)%N.

(* the integer part: "0" or a non-empty digit string not starting with '0' *)
Definition int_part_ok (ip : bytes) : bool :=
  match ip with
  | [] => false
  | [b] => true
  | b :: _ => negb (byte_is 48 b)
  end.

(* ([eE][+-]?[0-9]+)? to the end of the text: Some (negative?, digits), digits = [] when absent *)
Definition scan_exp (r : bytes) : option (bool * bytes) :=
  match r with
  | [] => Some (false, [])
  | e :: r1 =>
      if byte_is 101 e || byte_is 69 e then
        let '(eneg, r2) := match r1 with
                           | s :: r2 => if byte_is 45 s then (true, r2) else if byte_is 43 s then (false, r2) else (false, r1)
                           | [] => (false, r1)
                           end in
        let '(ed, r3) := span_digits r2 in
        match ed, r3 with
        | _ :: _, [] => Some (eneg, ed)
        | _, _ => None
        end
      else None
  end.

Definition classify_unsigned (neg : bool) (r : bytes) : numclass :=
  let hex := match r with
             | z :: x :: h =>
                 if byte_is 48 z && (byte_is 120 x || byte_is 88 x) then
                   Some (match h with _ :: _ => if forallb is_hex h then CHex neg h else COther | [] => COther end)
                 else None
             | _ => None
             end in
  match hex with
  | Some c => c
  | None =>
      let '(ip, r1) := span_digits r in
      if negb (int_part_ok ip) then COther else
      match r1 with
      | [] => CDec neg ip
      | c :: r2 =>
          if byte_is 46 c then
            let '(fp, r3) := span_digits r2 in
            match fp with
            | [] => COther
            | _ :: _ => match scan_exp r3 with Some (eneg, ed) => CSci neg ip fp eneg ed | None => COther end
            end
          else
            match scan_exp r1 with
            | Some (eneg, ed) => match ed with [] => COther | _ :: _ => CSci neg ip [] eneg ed end
            | None => COther
            end
      end
  end.

Definition classify (s : bytes) : numclass :=
  match s with
  | b :: r => if byte_is 45 b then classify_unsigned true r
              else if byte_is 43 b then classify_unsigned false r
              else classify_unsigned false s
  | [] => COther
  end.

(* ---------- BigIntegerFromString ---------- *)
Definition signed (neg : bool) (z : Z) : Z := if neg then - z else z.
Definition int64_ok (z : Z) : bool := (- 9223372036854775808 <=? z) && (z <=? 9223372036854775807).

(* class S: mantissa m = digits of ip ++ fp, decimal exponent n = E - |fp|.
   scanExponent takes E with strconv.ParseInt (int64) — out of range fails both ParseFloat and Rat;
   a zero mantissa is 0 whatever the exponent; Rat.SetString refuses |n| > 10^6; otherwise the value
   is the exact rational m * 10^n and is accepted iff it is an integer. *)
Definition sci_value (neg : bool) (ip fp : bytes) (eneg : bool) (ed : bytes) : res Z :=
  let m := dec_value (ip ++ fp) in
  let e := signed eneg (dec_value ed) in
  if negb (int64_ok e) then Err EBadInteger
  else if m =? 0 then Ok 0
  else
    let n := e - Z.of_nat (length fp) in
    if Z.abs n >? 1000000 then Err EBadInteger
    else if 0 <=? n then Ok (signed neg (m * 10 ^ n))
    else let d := 10 ^ (- n) in
         if m mod d =? 0 then Ok (signed neg (m / d)) else Err EBadInteger.

Section WithOracle.
  (* math/big on the texts outside D/H/S: Some z when SetString(s,0) succeeds with z, or else
     ParseFloat(s,10,..) and Rat.SetString(s) succeed and the rational is the integer z; else None *)
  Variable big_other : bytes -> option Z.

  Definition BigIntegerFromString (s : bytes) : res Z :=
    match classify s with
    | CDec neg ds => Ok (signed neg (dec_value ds))
    | CHex neg ds => Ok (signed neg (hex_value ds))
    | CSci neg ip fp eneg ed => sci_value neg ip fp eneg ed
    | COther => match big_other s with Some z => Ok z | None => Err EBadInteger end
    end.

  (* getIntegerFromInterface on a decoded JSON value: json.Number and string are parsed; nil, bool,
     []interface{} and map[string]interface{} fall to the default branch, where they are neither
     string-convertible, nor a pointer, nor convertible to int64 -> error *)
  Definition integer_of_gval (v : gval) : res Z :=
    match v with
    | GNumber t => BigIntegerFromString t
    | GString s => BigIntegerFromString s
    | GNil | GBool _ | GSlice _ | GMap _ => Err EBadInteger
    end.
End WithOracle.
