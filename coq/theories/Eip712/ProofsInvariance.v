(* C04 — the digest of a well-formed document does not depend on the order of JSON object keys, on
   type definitions nothing refers to, or on message fields that are no members. *)
From Coq Require Import String.
From Coq Require Import List NArith ZArith Bool Arith Lia Permutation.
From Coq Require Import Init.Byte.
From FFS Require Import Base.Res Base.Bytes Eip712.Util Eip712.Input Eip712.Numeric Eip712.Coerce Eip712.Model
  Eip712.Spec Eip712.Repr Eip712.ProofsUtil Eip712.ProofsNames Eip712.ProofsDeps Eip712.ProofsMain.
Import ListNotations.

(* ---------- lookups under permutation ---------- *)
Lemma perm_alookup {V} (m m' : list (bytes * V)) k :
  NoDup (keys m) -> Permutation m m' -> alookup k m = alookup k m'.
Proof.
  intros Hnd Hp. rewrite !alookup_assoc.
  assert (Hnd' : NoDup (keys m')) by (eapply Permutation_NoDup; [apply Permutation_map; exact Hp | exact Hnd]).
  destruct (assoc k m) as [v|] eqn:E.
  - symmetry. apply In_assoc_nodup; [exact Hnd'|]. eapply Permutation_in; [exact Hp | apply assoc_In; exact E].
  - symmetry. apply assoc_None. apply assoc_None in E. intros Hin. apply E.
    eapply Permutation_in; [apply Permutation_sym, Permutation_map; exact Hp | exact Hin].
Qed.

Lemma alookup_app {V} (a b : list (bytes * V)) k :
  alookup k (a ++ b) = match alookup k a with Some v => Some v | None => alookup k b end.
Proof. induction a as [|[k' v] a IH]; simpl; [reflexivity|]. destruct (bytes_eqb k k'); [reflexivity | exact IH]. Qed.

Lemma gperm_lookup m m1 m' k :
  NoDup (keys m) -> Permutation m m1 ->
  Forall2 (fun a b : bytes * gval => fst a = fst b /\ gperm (snd a) (snd b)) m1 m' ->
  gperm (glookup k m) (glookup k m').
Proof.
  intros Hnd Hp Hf. unfold glookup. rewrite (perm_alookup m m1 k Hnd Hp). clear Hnd Hp m.
  induction Hf as [|[k1 v1] [k2 v2] m1 m' [Hk Hv] Hf IH]; simpl; [apply GP_refl|].
  simpl in Hk, Hv. subst k2. destruct (bytes_eqb k k1); [exact Hv | exact IH].
Qed.

Section Inv.
  Variable big_other : bytes -> option Z.
  Variable sts : types.

  Lemma repr_atomic_scalar a g v : repr_atomic big_other a g v ->
    match g with GSlice _ | GMap _ => False | _ => True end.
  Proof.
    destruct g; try exact (fun _ => I); destruct a; simpl; intros (x & E & _); discriminate.
  Qed.

  Lemma repr_gperm_mut :
    (forall t g v, repr big_other sts t g v -> forall g', gperm g g' -> repr big_other sts t g' v) /\
    (forall def m vs, repr_members big_other sts def m vs ->
       forall m', (forall k, gperm (glookup k m) (glookup k m')) -> repr_members big_other sts def m' vs) /\
    (forall t gs vs, repr_elems big_other sts t gs vs ->
       forall gs', Forall2 gperm gs gs' -> repr_elems big_other sts t gs' vs).
  Proof.
    apply repr_mutind.
    - intros a g v Hr g' Hp. pose proof (repr_atomic_scalar _ _ _ Hr) as Hs.
      inversion Hp; subst; try contradiction. constructor; exact Hr.
    - intros n g' Hp. inversion Hp; subst. constructor.
    - intros n m def vs Hd Hrm IH g' Hp. inversion Hp; subst.
      + econstructor; eassumption.
      + econstructor; [exact Hd|]. apply IH. intros k. eapply gperm_lookup; eassumption.
    - intros t k gs vs Hre IH g' Hp. inversion Hp; subst.
      + constructor; exact Hre.
      + constructor. apply IH. assumption.
    - intros m m' _. constructor.
    - intros sm ms m v vs Hr IHr Hrm IHm m' Hlk. constructor; [apply IHr, Hlk | apply IHm, Hlk].
    - intros t gs' Hf. inversion Hf; subst. constructor.
    - intros t g gs v vs Hr IHr Hre IHe gs' Hf. inversion Hf; subst. constructor; [apply IHr | apply IHe]; assumption.
  Qed.

  Lemma repr_same_members_mut :
    (forall t g v, repr big_other sts t g v -> forall g', same_members sts t g g' -> repr big_other sts t g' v) /\
    (forall def m vs, repr_members big_other sts def m vs ->
       forall m', Forall (fun sm => same_members sts (sm_ty sm) (glookup (sm_name sm) m) (glookup (sm_name sm) m')) def ->
       repr_members big_other sts def m' vs) /\
    (forall t gs vs, repr_elems big_other sts t gs vs ->
       forall gs', Forall2 (same_members sts t) gs gs' -> repr_elems big_other sts t gs' vs).
  Proof.
    apply repr_mutind.
    - intros a g v Hr g' Hp. inversion Hp; subst. constructor; exact Hr.
    - intros n g' Hp. inversion Hp; subst. constructor.
    - intros n m def vs Hd Hrm IH g' Hp. inversion Hp; subst.
      + econstructor; eassumption.
      + econstructor; [exact Hd|]. apply IH. congruence.
    - intros t k gs vs Hre IH g' Hp. inversion Hp; subst.
      + constructor; exact Hre.
      + constructor. apply IH. assumption.
    - intros m m' _. constructor.
    - intros sm ms m v vs Hr IHr Hrm IHm m' Hf. inversion Hf; subst. constructor; [apply IHr | apply IHm]; assumption.
    - intros t gs' Hf. inversion Hf; subst. constructor.
    - intros t g gs v vs Hr IHr Hre IHe gs' Hf. inversion Hf; subst. constructor; [apply IHr | apply IHe]; assumption.
  Qed.
End Inv.

(* ---------- type sets ---------- *)
Lemma domain_name_not_atomic a : atomic_name a <> domain_name.
Proof. destruct a; unfold atomic_name; intros E; cbn in E; discriminate E. Qed.

Lemma wdt_lookup n (X : option typeset) :
  tlookup n (with_domain_type X) =
  let ts := match X with Some t => t | None => [] end in
  if bytes_eqb n domain_name
  then match tlookup domain_name ts with Some t => Some t | None => Some (Some []) end
  else tlookup n ts.
Proof.
  unfold with_domain_type. cbv zeta. set (ts := match X with Some t => t | None => [] end).
  destruct (bytes_eqb_spec n domain_name) as [->|Hn].
  - destruct (tlookup domain_name ts) as [t|] eqn:E; [exact E|]. unfold tlookup. apply alookup_aset_same.
  - destruct (tlookup domain_name ts) as [t|] eqn:E; [reflexivity|]. unfold tlookup. apply alookup_aset_other. exact Hn.
Qed.

(* a type set that agrees with another one on the struct types of the document and still declares
   no atomic name represents the same type definitions *)
Lemma repr_types_agree X X' sts :
  repr_types (with_domain_type X) sts ->
  (forall n, In n (keys sts) ->
     tlookup n (match X' with Some t => t | None => [] end) = tlookup n (match X with Some t => t | None => [] end)) ->
  (forall a, wf_atomic a = true -> tlookup (atomic_name a) (match X' with Some t => t | None => [] end) = None) ->
  In domain_name (keys sts) ->
  repr_types (with_domain_type X') sts.
Proof.
  intros [Hd Ha] Hagree Hat Hdn. split.
  - intros n def Hn. rewrite <- (Hd n def Hn). rewrite !wdt_lookup. cbv zeta.
    assert (Hin : In n (keys sts)) by (apply assoc_keys; eauto).
    destruct (bytes_eqb n domain_name); [rewrite (Hagree _ Hdn) | rewrite (Hagree _ Hin)]; reflexivity.
  - intros a Hwa. rewrite wdt_lookup. cbv zeta.
    destruct (bytes_eqb_spec (atomic_name a) domain_name) as [E|_]; [exfalso; eapply domain_name_not_atomic; exact E|].
    apply Hat. exact Hwa.
Qed.

Section Theorems.
  Variable H : bytes -> bytes.
  Variable big_other : bytes -> option Z.

  (* any two Go-level documents that represent the same well-formed EIP-712 document have the same
     digest (both equal the spec's) *)
  Lemma same_doc_same_digest td td' d :
    represents big_other td d -> represents big_other td' d -> wf_doc d -> types_dims_fit (d_types d) ->
    EncodeTypedDataV4 H big_other (Some td') = EncodeTypedDataV4 H big_other (Some td).
  Proof. intros R R' Hw Hd. rewrite (digest_is_spec H big_other td d R Hw Hd), (digest_is_spec H big_other td' d R' Hw Hd). reflexivity. Qed.

  (* key order: the type set as any permutation of its entries, domain and message with the keys of
     every object permuted at any depth *)
  Theorem order_independent td td' d :
    represents big_other td d -> wf_doc d -> types_dims_fit (d_types d) ->
    NoDup (keys (types_of td)) -> Permutation (types_of td) (types_of td') ->
    td_primary td' = td_primary td ->
    gperm (domain_of td) (domain_of td') -> gperm (message_of td) (message_of td') ->
    EncodeTypedDataV4 H big_other (Some td') = Ok (digest H d) /\
    EncodeTypedDataV4 H big_other (Some td') = EncodeTypedDataV4 H big_other (Some td).
  Proof.
    intros R Hw Hd Hnd Hp Hprim Hdom Hmsg.
    assert (R' : represents big_other td' d).
    { destruct R as (Rt & Rp & Rd & Rm). destruct Hw as (Hwt & Hdn & Hpn & _).
      split; [|split; [congruence|split]].
      - eapply repr_types_agree; [exact Rt| | |exact Hdn].
        + intros n _. fold (types_of td') (types_of td). unfold tlookup. symmetry. apply perm_alookup; assumption.
        + intros a Hwa. fold (types_of td'). unfold tlookup. rewrite <- (perm_alookup _ _ _ Hnd Hp).
          destruct Rt as [_ Ha]. specialize (Ha a Hwa). rewrite wdt_lookup in Ha. cbv zeta in Ha.
          destruct (bytes_eqb_spec (atomic_name a) domain_name) as [E|_]; [exfalso; eapply domain_name_not_atomic; exact E|].
          exact Ha.
      - eapply (proj1 (repr_gperm_mut big_other (d_types d))); [exact Rd | exact Hdom].
      - destruct Rm as [Rm|Rm]; [left; exact Rm|right].
        eapply (proj1 (repr_gperm_mut big_other (d_types d))); [exact Rm | exact Hmsg]. }
    split; [apply digest_is_spec; assumption | eapply same_doc_same_digest; eassumption].
  Qed.

  (* unreferenced type definitions: further entries of the type set, under names that are neither
     struct types of the document nor spellings of atomic types, may be anything *)
  Theorem unreferenced_types_irrelevant td d (extra : typeset) :
    represents big_other td d -> wf_doc d -> types_dims_fit (d_types d) ->
    (forall n, In n (keys extra) -> ~ In n (keys (d_types d)) /\ forall a, wf_atomic a = true -> n <> atomic_name a) ->
    let td' := mkTD (Some (types_of td ++ extra)) (td_primary td) (td_domain td) (td_message td) in
    EncodeTypedDataV4 H big_other (Some td') = Ok (digest H d) /\
    EncodeTypedDataV4 H big_other (Some td') = EncodeTypedDataV4 H big_other (Some td).
  Proof.
    intros R Hw Hd Hex td'.
    assert (Hnone : forall n, (In n (keys (d_types d)) \/ exists a, wf_atomic a = true /\ n = atomic_name a) -> alookup n extra = None).
    { intros n Hn. rewrite alookup_assoc. apply assoc_None. intros Hin. destruct (Hex _ Hin) as [H1 H2].
      destruct Hn as [Hn|(a & Hwa & ->)]; [auto | eapply H2; [exact Hwa | reflexivity]]. }
    assert (R' : represents big_other td' d).
    { destruct R as (Rt & Rp & Rd & Rm). destruct Hw as (Hwt & Hdn & Hpn & _).
      split; [|split; [exact Rp|split; [exact Rd|exact Rm]]].
      eapply repr_types_agree; [exact Rt| | |exact Hdn].
      - intros n Hn. cbn [td' td_types]. fold (types_of td). unfold tlookup. rewrite alookup_app.
        rewrite (Hnone n (or_introl Hn)). destruct (alookup n (types_of td)); reflexivity.
      - intros a Hwa. cbn [td' td_types]. unfold tlookup. rewrite alookup_app, (Hnone _ (or_intror (ex_intro _ a (conj Hwa eq_refl)))).
        destruct Rt as [_ Ha]. specialize (Ha a Hwa). rewrite wdt_lookup in Ha. cbv zeta in Ha.
        destruct (bytes_eqb_spec (atomic_name a) domain_name) as [E|_]; [exfalso; eapply domain_name_not_atomic; exact E|].
        fold (types_of td) in Ha. unfold tlookup in Ha. rewrite Ha. reflexivity. }
    split; [apply digest_is_spec; assumption | eapply same_doc_same_digest; eassumption].
  Qed.

  (* extra fields: domain and message may carry any further keys, at any struct position *)
  Theorem extra_fields_irrelevant td td' d :
    represents big_other td d -> wf_doc d -> types_dims_fit (d_types d) ->
    td_types td' = td_types td -> td_primary td' = td_primary td ->
    same_members (d_types d) (Struct domain_name) (domain_of td) (domain_of td') ->
    same_members (d_types d) (Struct (d_primary d)) (message_of td) (message_of td') ->
    EncodeTypedDataV4 H big_other (Some td') = Ok (digest H d) /\
    EncodeTypedDataV4 H big_other (Some td') = EncodeTypedDataV4 H big_other (Some td).
  Proof.
    intros R Hw Hd Ht Hp Hdom Hmsg.
    assert (R' : represents big_other td' d).
    { destruct R as (Rt & Rp & Rd & Rm). split; [rewrite Ht; exact Rt|split; [congruence|split]].
      - eapply (proj1 (repr_same_members_mut big_other (d_types d))); [exact Rd | exact Hdom].
      - destruct Rm as [Rm|Rm]; [left; exact Rm|right].
        eapply (proj1 (repr_same_members_mut big_other (d_types d))); [exact Rm | exact Hmsg]. }
    split; [apply digest_is_spec; assumption | eapply same_doc_same_digest; eassumption].
  Qed.

  (* the simplest instance: one more key in a struct value, when no member has that name *)
  Lemma same_members_add_key sts n def m k x :
    assoc n sts = Some def -> ~ In k (map sm_name def) ->
    same_members sts (Struct n) (GMap m) (GMap ((k, x) :: m)).
  Proof.
    intros Hd Hk. econstructor; [exact Hd|]. apply Forall_forall. intros sm Hsm.
    replace (glookup (sm_name sm) ((k, x) :: m)) with (glookup (sm_name sm) m); [apply SM_same|].
    unfold glookup. simpl. destruct (bytes_eqb_spec (sm_name sm) k) as [E|_]; [|reflexivity].
    exfalso. apply Hk. rewrite <- E. apply in_map. exact Hsm.
  Qed.
End Theorems.
