(* EIP-712 "Typed structured data hashing and signing", written from the text of the EIP
   (sections "Definition of typed structured data", "Definition of hashStruct", "Definition of
   encodeType", "Definition of encodeData", "Definition of domainSeparator") plus the conventions of
   eth_signTypedData_v4 (arrays; recursive / absent struct references; domain-only documents).
   Shares no code with the model of pkg/eip712: member types are *parsed* syntax here, the model
   works on type strings.  The hash function is a parameter. *)
From Coq Require Import String.
From Coq Require Import List NArith ZArith Bool Arith Lia.
From Coq Require Import Init.Byte.
From FFS Require Import Base.Bytes Abi.Spec Eip712.Util.
Import ListNotations.

(* "atomic types" bytes1..bytes32, uint8..uint256, int8..int256, bool, address and the "dynamic
   types" bytes and string *)
Inductive atomic :=
| AUint (bits : N) | AInt (bits : N) | ABool | AAddress | ABytesN (n : N) | ABytes | AString.

(* member types: atomic/dynamic, a reference to a struct by name, or an array T[] / T[k] *)
Inductive mty :=
| Atomic (a : atomic)
| Struct (name : bytes)
| Arr (t : mty) (k : option N).

Record smember := { sm_name : bytes; sm_ty : mty }.
Definition structdef := list smember.
Definition types := list (bytes * structdef).

(* values: integers (uint/int/address), booleans, byte strings (bytes<N>, bytes, string as UTF-8),
   struct instances as the tuple of their member values in member order, the absent struct
   reference (v4), arrays *)
Inductive value :=
| VInt (z : Z)
| VBool (b : bool)
| VBytes (b : bytes)
| VNone
| VStruct (l : list value)
| VArr (l : list value).

Section value_ind'.
  Variable P : value -> Prop.
  Hypothesis HInt : forall z, P (VInt z).
  Hypothesis HBool : forall b, P (VBool b).
  Hypothesis HBytes : forall b, P (VBytes b).
  Hypothesis HNone : P VNone.
  Hypothesis HStruct : forall l, Forall P l -> P (VStruct l).
  Hypothesis HArr : forall l, Forall P l -> P (VArr l).
  Fixpoint value_ind' (v : value) : P v :=
    let go := fix go (l : list value) : Forall P l :=
      match l with [] => Forall_nil P | x :: r => Forall_cons x (value_ind' x) (go r) end in
    match v with
    | VInt z => HInt z | VBool b => HBool b | VBytes b => HBytes b | VNone => HNone
    | VStruct l => HStruct l (go l)
    | VArr l => HArr l (go l)
    end.
End value_ind'.

(* ---- type names as they appear in encodeType ---- *)
Definition atomic_name (a : atomic) : bytes :=
  match a with
  | AUint m => bs "uint" ++ dec m
  | AInt m => bs "int" ++ dec m
  | ABool => bs "bool"
  | AAddress => bs "address"
  | ABytesN n => bs "bytes" ++ dec n
  | ABytes => bs "bytes"
  | AString => bs "string"
  end.

Fixpoint ty_name (t : mty) : bytes :=
  match t with
  | Atomic a => atomic_name a
  | Struct n => n
  | Arr t' None => ty_name t' ++ bs "[]"
  | Arr t' (Some k) => ty_name t' ++ bs "[" ++ dec k ++ bs "]"
  end.

(* member1 ‖ "," ‖ member2 ...   with member = type ‖ " " ‖ name *)
Fixpoint members_str (ms : list smember) : bytes :=
  match ms with
  | [] => []
  | [m] => ty_name (sm_ty m) ++ bs " " ++ sm_name m
  | m :: r => ty_name (sm_ty m) ++ bs " " ++ sm_name m ++ bs "," ++ members_str r
  end.
(* name ‖ "(" ‖ members ‖ ")" *)
Definition struct_str (n : bytes) (def : structdef) : bytes :=
  n ++ bs "(" ++ members_str def ++ bs ")".

(* ---- the set of referenced struct types ---- *)
Fixpoint base (t : mty) : option bytes :=
  match t with Atomic _ => None | Struct n => Some n | Arr t' _ => base t' end.
Definition refs (def : structdef) : list bytes :=
  flat_map (fun m => match base (sm_ty m) with Some n => [n] | None => [] end) def.

(* "references other struct types (and these in turn reference even more struct types)": the
   reflexive-transitive closure of [refs] through defined struct types *)
Inductive reachable (ts : types) (a : bytes) : bytes -> Prop :=
| reach_refl : reachable ts a a
| reach_step b c def : reachable ts a b -> assoc b ts = Some def -> In c (refs def) -> reachable ts a c.

(* executable closure: saturate a subset of the declared names; |ts| rounds suffice (DepsProofs) *)
Definition references (ts : types) (m n : bytes) : bool :=
  match assoc m ts with Some def => bmem n (refs def) | None => false end.
Definition sat_step (ts : types) (S : list bytes) : list bytes :=
  filter (fun n => bmem n S || existsb (fun m => references ts m n) S) (keys ts).
Fixpoint sat (ts : types) (k : nat) (S : list bytes) : list bytes :=
  match k with O => S | S k' => sat ts k' (sat_step ts S) end.
(* all declared struct types reachable from n (n included when declared) *)
Definition closure (ts : types) (n : bytes) : list bytes :=
  sat ts (length ts) (filter (bytes_eqb n) (keys ts)).
(* the referenced types other than the primary one, sorted by name *)
Definition deps (ts : types) (n : bytes) : list bytes :=
  sort (filter (fun x => negb (bytes_eqb x n)) (closure ts n)).

Definition def_of (ts : types) (n : bytes) : structdef :=
  match assoc n ts with Some d => d | None => [] end.

(* encodeType: the primary type first, then the referenced types sorted by name *)
Definition encodeType (ts : types) (n : bytes) : bytes :=
  struct_str n (def_of ts n) ++ concat (map (fun x => struct_str x (def_of ts x)) (deps ts n)).

(* ---- typing of values ---- *)
Definition wf_atomic (a : atomic) : bool :=
  match a with
  | AUint m | AInt m => (8 <=? m)%N && (m <=? 256)%N && (m mod 8 =? 0)%N
  | ABytesN n => (1 <=? n)%N && (n <=? 32)%N
  | _ => true
  end.

Definition atomic_typed (a : atomic) (v : value) : bool :=
  match a, v with
  | AUint m, VInt z => (0 <=? z)%Z && (z <? two m)%Z
  | AInt m, VInt z => (- two (m - 1) <=? z)%Z && (z <? two (m - 1))%Z
  | AAddress, VInt z => (0 <=? z)%Z && (z <? two 160)%Z
  | ABool, VBool _ => true
  | ABytesN n, VBytes b => (N.of_nat (length b) =? n)%N
  | ABytes, VBytes _ | AString, VBytes _ => true
  | _, _ => false
  end.

Section WithTypes.
  Variable H : bytes -> bytes.       (* keccak256 *)
  Variable ts : types.

  Fixpoint well_typed (t : mty) (v : value) {struct v} : bool :=
    match t, v with
    | Atomic a, _ => atomic_typed a v
    | Struct n, VNone => true
    | Struct n, VStruct l =>
        match assoc n ts with
        | Some def =>
            (fix go (ms : list smember) (l : list value) {struct l} : bool :=
               match ms, l with
               | [], [] => true
               | m :: ms', x :: l' => well_typed (sm_ty m) x && go ms' l'
               | _, _ => false
               end) def l
        | None => false
        end
    | Arr t' k, VArr l =>
        match k with Some n => (N.of_nat (length l) =? n)%N | None => true end
        && forallb (well_typed t') l
    | _, _ => false
    end.

  (* ---- encodeData ---- *)
  (* atomic values "are encoded as follows: bool as uint256 0/1, address as uint160, integers
     sign-extended to 256 bit big-endian, bytes1..bytes32 zero-padded at the end to bytes32;
     bytes and string as the keccak256 hash of their contents" *)
  Definition enc_atomic (a : atomic) (v : value) : bytes :=
    match a, v with
    | AUint _, VInt z | AInt _, VInt z | AAddress, VInt z => word z
    | ABool, VBool b => word (if b then 1 else 0)
    | ABytesN _, VBytes b => b ++ repeat x00 (32 - length b)
    | ABytes, VBytes b | AString, VBytes b => H b
    | _, _ => []
    end.

  (* the 32-byte encoding of one member value.  Struct values are encoded recursively as
     hashStruct(value) = keccak256(typeHash ‖ encodeData(value)), typeHash = keccak256(encodeType);
     arrays as the keccak256 of the concatenated encodings of their elements (v4: element-wise, so
     arrays of structs and nested arrays recurse); an absent struct reference as 32 zero bytes (v4) *)
  Fixpoint enc_member (t : mty) (v : value) {struct v} : bytes :=
    match t, v with
    | Atomic a, _ => enc_atomic a v
    | Struct n, VNone => repeat x00 32
    | Struct n, VStruct l =>
        H (H (encodeType ts n) ++
           (fix go (ms : list smember) (l : list value) {struct l} : bytes :=
              match ms, l with
              | m :: ms', x :: l' => enc_member (sm_ty m) x ++ go ms' l'
              | _, _ => []
              end) (def_of ts n) l)
    | Arr t' _, VArr l => H (concat (map (enc_member t') l))
    | _, _ => []
    end.

  Definition hashStruct (n : bytes) (v : value) : bytes := enc_member (Struct n) v.
End WithTypes.

(* ---- documents ---- *)
Record doc := { d_types : types; d_primary : bytes; d_domain : value; d_message : value }.

Definition domain_name : bytes := bs "EIP712Domain".

(* "\x19\x01" ‖ domainSeparator ‖ hashStruct(message); a document whose primary type is the domain
   itself carries no message part (v4) *)
Definition digest (H : bytes -> bytes) (d : doc) : bytes :=
  H ([x19; x01] ++ hashStruct H (d_types d) domain_name (d_domain d)
     ++ (if bytes_eqb (d_primary d) domain_name then []
         else hashStruct H (d_types d) (d_primary d) (d_message d))).

(* ---- well-formed type sets and documents ---- *)
Fixpoint wf_mty (ts : types) (t : mty) : bool :=
  match t with
  | Atomic a => wf_atomic a
  | Struct n => bmem n (keys ts)
  | Arr t' _ => wf_mty ts t'
  end.

Definition is_bracket (b : byte) : bool := byte_eqb b x5b || byte_eqb b x5d.   (* '[' ']' *)

(* a struct name: non-empty, no array brackets (identifier); and (wf_types) not the name of an
   atomic type *)
Definition wf_name (n : bytes) : bool :=
  negb (existsb is_bracket n) && match n with [] => false | _ => true end.

(* every well-formed atomic type *)
Definition wf_atomics : list atomic :=
  [ABool; AAddress; ABytes; AString]
  ++ map (fun k => AUint (8 * N.of_nat k)) (seq 1 32)
  ++ map (fun k => AInt (8 * N.of_nat k)) (seq 1 32)
  ++ map (fun k => ABytesN (N.of_nat k)) (seq 1 32).

Definition wf_types (ts : types) : Prop :=
  NoDup (keys ts) /\
  Forall (fun nd => wf_name (fst nd) = true /\
                    (forall a, wf_atomic a = true -> fst nd <> atomic_name a) /\
                    Forall (fun m => wf_mty ts (sm_ty m) = true) (snd nd)) ts.

Definition wf_doc (d : doc) : Prop :=
  wf_types (d_types d) /\
  In domain_name (keys (d_types d)) /\
  In (d_primary d) (keys (d_types d)) /\
  well_typed (d_types d) (Struct domain_name) (d_domain d) = true /\
  (* a domain-only document carries no message part: its message is not looked at *)
  (bytes_eqb (d_primary d) domain_name = true \/
   well_typed (d_types d) (Struct (d_primary d)) (d_message d) = true).
