(* Small byte-string utilities shared by the EIP-712 spec and model: decimal numerals, the
   byte-lexicographic order of Go's [sort.Strings] / "sorted by name" of the EIP, insertion sort,
   association-list lookup.  Lemmas about them live in ProofsUtil.v. *)
From Coq Require Import String.
From Coq Require Import List NArith ZArith Bool Arith Lia.
From Coq Require Import Init.Byte.
From FFS Require Import Base.Bytes.
Import ListNotations.

(* ASCII literal:  bs "uint" *)
Definition bs (s : string) : bytes := ascii_bytes s.
Arguments bs s%string.

(* ---- decimal numerals ---- *)
Definition digit (d : N) : byte := n2b (48 + d).

Fixpoint dec_go (fuel : nat) (n : N) (acc : bytes) : bytes :=
  match fuel with
  | O => acc
  | S f => let acc' := digit (n mod 10) :: acc in
           if (n <? 10)%N then acc' else dec_go f (n / 10) acc'
  end.
(* canonical decimal spelling (no leading zeros; "0" for zero) *)
Definition dec (n : N) : bytes := dec_go (S (N.to_nat (N.log2 n))) n [].

Definition is_digit (b : byte) : bool := (48 <=? b2n b)%N && (b2n b <=? 57)%N.

(* value of a non-empty all-digit string; None otherwise (any length, leading zeros allowed) *)
Fixpoint undec_go (l : bytes) (acc : N) : option N :=
  match l with
  | [] => Some acc
  | b :: t => if is_digit b then undec_go t (acc * 10 + (b2n b - 48))%N else None
  end.
Definition undec (l : bytes) : option N :=
  match l with [] => None | _ => undec_go l 0%N end.

(* ---- byte-lexicographic order (Go string comparison) ---- *)
Fixpoint bytes_leb (a b : bytes) : bool :=
  match a, b with
  | [], _ => true
  | _ :: _, [] => false
  | x :: a', y :: b' =>
      if (b2n x <? b2n y)%N then true
      else if (b2n y <? b2n x)%N then false
      else bytes_leb a' b'
  end.

Fixpoint insert (x : bytes) (l : list bytes) : list bytes :=
  match l with
  | [] => [x]
  | y :: t => if bytes_leb x y then x :: l else y :: insert x t
  end.
Fixpoint sort (l : list bytes) : list bytes :=
  match l with [] => [] | x :: t => insert x (sort t) end.

(* ---- association lists with byte-string keys ---- *)
Fixpoint assoc {A} (k : bytes) (l : list (bytes * A)) : option A :=
  match l with
  | [] => None
  | (k', v) :: t => if bytes_eqb k k' then Some v else assoc k t
  end.
Definition keys {A} (l : list (bytes * A)) : list bytes := map fst l.
Definition bmem (k : bytes) (l : list bytes) : bool := existsb (bytes_eqb k) l.

(* strings.Index(s, c) / LastIndex for a single byte, HasSuffix for a single byte *)
Fixpoint index_byte (c : byte) (s : bytes) : option nat :=
  match s with
  | [] => None
  | x :: t => if byte_eqb x c then Some 0%nat
              else match index_byte c t with Some i => Some (S i) | None => None end
  end.
Fixpoint last_index_byte (c : byte) (s : bytes) : option nat :=
  match s with
  | [] => None
  | x :: t => match last_index_byte c t with
              | Some i => Some (S i)
              | None => if byte_eqb x c then Some 0%nat else None
              end
  end.
Definition last_byte (s : bytes) : option byte := last (map Some s) None.
Definition ends_with (c : byte) (s : bytes) : bool :=
  match last_byte s with Some x => byte_eqb x c | None => false end.
