(* C04 — wave 6: the ABI clause without the guard "sts holds only what the primary struct reaches".

   C04_abi_typeset_equiv / C04_abi_document_digest required every struct of the hand-written type set
   [sts] to be reachable from the primary struct (the derived type set holds only those, so it does not
   represent [sts] itself).  Here that guard is removed: for ANY well-formed [sts] that declares the
   structs the component tree describes (and whatever else), the derived type set represents the
   RESTRICTION of [sts] to the names ABItoTypedDataV4 collected; values, typing and well-formedness
   carry over to the restriction because the collected names are closed under references; and the
   specification's hashStruct / digest under the restriction equals the one under the whole [sts]
   (both are what the model computes with the hand-written Go type set).  No new model code. *)
From Coq Require Import String.
From Coq Require Import List NArith ZArith Bool Arith Lia Permutation.
From Coq Require Import Init.Byte.
From FFS Require Import Base.Res Base.Bytes Abi.Spec.
From FFS Require Import Eip712.Util Eip712.Input Eip712.Numeric Eip712.Coerce Eip712.Model Eip712.Spec Eip712.Repr.
From FFS Require Import Eip712.ProofsUtil Eip712.ProofsNames Eip712.ProofsDeps Eip712.ProofsMain Eip712.ProofsInvariance
                        Eip712.ProofsParse Eip712.ProofsAbi Eip712.RefereeAbi.
Import ListNotations.

(* ---------- restriction of a specification type set to a reference-closed set of names ---------- *)
Definition restrict (keep : bytes -> bool) (sts : types) : types := filter (fun nd => keep (fst nd)) sts.

Section Restrict.
  Variable keep : bytes -> bool.
  Variable sts : types.
  Notation sts' := (restrict keep sts).

  Lemma assoc_restrict n : assoc n sts' = if keep n then assoc n sts else None.
  Proof.
    unfold restrict. induction sts as [|[k v] l IH]; cbn [filter assoc fst].
    - destruct (keep n); reflexivity.
    - destruct (keep k) eqn:Ek; cbn [assoc]; destruct (bytes_eqb n k) eqn:E.
      + apply bytes_eqb_eq in E. subst. rewrite Ek. reflexivity.
      + exact IH.
      + apply bytes_eqb_eq in E. subst. rewrite IH, Ek. reflexivity.
      + exact IH.
  Qed.

  Lemma in_restrict nd : In nd sts' <-> In nd sts /\ keep (fst nd) = true.
  Proof. unfold restrict. apply filter_In. Qed.

  Lemma keys_restrict_nodup : NoDup (keys sts) -> NoDup (keys sts').
  Proof.
    unfold restrict, keys. induction sts as [|[k v] l IH]; cbn [filter map fst]; intros Hn; [constructor|].
    inversion Hn as [|? ? Hk Hl]; subst. destruct (keep k); [|apply IH; exact Hl].
    cbn [map fst]. constructor; [|apply IH; exact Hl].
    intros Hin. apply Hk. apply in_map_iff in Hin as ([k' v'] & <- & Hin). apply filter_In in Hin as [Hin _].
    apply in_map_iff. exists (k', v'). split; [reflexivity|exact Hin].
  Qed.

  (* the kept names are closed under the references of their definitions *)
  Hypothesis Hclosed : forall n def, keep n = true -> assoc n sts = Some def ->
                         forall c, In c (refs def) -> keep c = true.

  Definition inK (t : mty) : Prop := forall n, base t = Some n -> keep n = true.

  Lemma members_inK n def : keep n = true -> assoc n sts = Some def -> Forall (fun sm => inK (sm_ty sm)) def.
  Proof.
    intros Hk Hd. apply Forall_forall. intros sm Hsm c Hc.
    apply (Hclosed n def Hk Hd). apply in_refs. exists sm. split; assumption.
  Qed.

  Lemma repr_restrict big_other :
    (forall t g v, repr big_other sts t g v -> inK t -> repr big_other sts' t g v) /\
    (forall def m vs, repr_members big_other sts def m vs -> Forall (fun sm => inK (sm_ty sm)) def ->
                      repr_members big_other sts' def m vs) /\
    (forall t gs vs, repr_elems big_other sts t gs vs -> inK t -> repr_elems big_other sts' t gs vs).
  Proof.
    apply (repr_mutind big_other sts
             (fun t g v _ => inK t -> repr big_other sts' t g v)
             (fun def m vs _ => Forall (fun sm => inK (sm_ty sm)) def -> repr_members big_other sts' def m vs)
             (fun t gs vs _ => inK t -> repr_elems big_other sts' t gs vs)).
    - intros a g v r _. apply R_atomic. exact r.
    - intros n _. apply R_none.
    - intros n m def vs e _ IH Hk. pose proof (Hk n eq_refl) as Hkn.
      eapply R_struct; [rewrite assoc_restrict, Hkn; exact e|]. apply IH. eapply members_inK; eassumption.
    - intros t k gs vs _ IH Hk. apply R_arr. apply IH. exact Hk.
    - intros m _. apply RM_nil.
    - intros sm ms m v vs _ IH1 _ IH2 HF. inversion HF; subst. apply RM_cons; [apply IH1|apply IH2]; assumption.
    - intros t _. apply RE_nil.
    - intros t g gs v vs _ IH1 _ IH2 Hk. apply RE_cons; [apply IH1|apply IH2]; assumption.
  Qed.

  Lemma well_typed_restrict : forall v t, inK t -> well_typed sts t v = true -> well_typed sts' t v = true.
  Proof.
    induction v as [z|b|b| |l IH|l IH] using value_ind'; intros t Hk Ht.
    1-4: destruct t as [a|n|t' k]; [rewrite well_typed_atomic in *; exact Ht | exact Ht | discriminate Ht].
    - destruct t as [a|n|t' k]; [rewrite well_typed_atomic in *; exact Ht | | discriminate Ht].
      pose proof (Hk n eq_refl) as Hkn.
      destruct (assoc n sts) as [def|] eqn:Ed; [|cbn [well_typed] in Ht; rewrite Ed in Ht; discriminate Ht].
      assert (Ed' : assoc n sts' = Some def) by (rewrite assoc_restrict, Hkn; exact Ed).
      rewrite (well_typed_struct sts n l def Ed) in Ht. rewrite (well_typed_struct sts' n l def Ed').
      pose proof (members_inK n def Hkn Ed) as HF. clear Ed Ed'.
      revert def HF Ht. induction IH as [|x l Hx _ IHl]; intros [|sm def] HF Ht; cbn [typed_fields] in *; try exact Ht.
      inversion HF as [|? ? Hi1 Hi2]; subst. apply andb_prop in Ht as [H1 H2]. apply andb_true_intro. split.
      + apply Hx; assumption.
      + apply IHl; assumption.
    - destruct t as [a|n|t' k]; [rewrite well_typed_atomic in *; exact Ht | discriminate Ht | ].
      cbn [well_typed] in *. apply andb_prop in Ht as [H1 H2]. apply andb_true_intro. split; [exact H1|].
      assert (Hk' : inK t') by exact Hk. clear H1.
      induction IH as [|x l Hx _ IHl]; [reflexivity|]. cbn [forallb] in *. apply andb_prop in H2 as [H2 H3].
      apply andb_true_intro. split; [apply Hx; assumption|apply IHl; assumption].
  Qed.

  Lemma wf_mty_restrict t : inK t -> wf_mty sts t = true -> wf_mty sts' t = true.
  Proof.
    induction t as [a|n|t IH k]; cbn [wf_mty]; intros Hk Hw; [exact Hw| |apply IH; assumption].
    apply bmem_In in Hw. apply bmem_In. apply assoc_keys in Hw as (def & Hd). apply assoc_keys. exists def.
    rewrite assoc_restrict, (Hk n eq_refl). exact Hd.
  Qed.

  Lemma wf_types_restrict : wf_types sts -> wf_types sts'.
  Proof.
    intros [Hnd Hall]. split; [apply keys_restrict_nodup; exact Hnd|].
    apply Forall_forall. intros [n def] Hin. apply in_restrict in Hin as [Hin Hk]. cbn [fst snd] in *.
    rewrite Forall_forall in Hall. destruct (Hall _ Hin) as (Hn & Hat & Hm). cbn [fst snd] in *.
    split; [exact Hn|]. split; [exact Hat|].
    pose proof (members_inK n def Hk (In_assoc_nodup _ _ _ Hnd Hin)) as HF.
    rewrite Forall_forall in *. intros m Hmi. apply wf_mty_restrict; [apply HF|apply Hm]; exact Hmi.
  Qed.

  Lemma dims_restrict : types_dims_fit sts -> types_dims_fit sts'.
  Proof.
    unfold types_dims_fit. rewrite !Forall_forall. intros Hd nd Hin. apply in_restrict in Hin as [Hin _]. apply Hd, Hin.
  Qed.

  Lemma repr_types_restrict (gts : typeset) : repr_types gts sts -> repr_types gts sts'.
  Proof.
    intros [Hr Ha]. split; [|exact Ha]. intros n def Hn. rewrite assoc_restrict in Hn.
    destruct (keep n); [apply Hr; exact Hn|discriminate].
  Qed.
End Restrict.

(* ---------- what ABItoTypedDataV4 derives, without the reachability guard ---------- *)
Section AbiAny.
  Variable re : bytes -> option bytes.
  Variable sts : types.
  Hypothesis Hwf : wf_types sts.

  (* the derived type set: every entry is the rendering of the struct of that name in sts (so the set
     declares nothing else), it holds every struct the primary one reaches, and its names are closed
     under the references of their definitions *)
  Theorem ABItoTypedDataV4_any tc primary :
    describes re sts tc (Struct primary) ->
    exists ts, ABItoTypedDataV4 re tc = Ok (primary, ts) /\
      Good sts ts /\
      (forall n, reachable sts primary n -> In n (keys ts)) /\
      (forall k, In k (keys ts) -> closed_in sts k ts).
  Proof.
    intros Hd. destruct tc as [| | |it ch]; try contradiction.
    pose proof Hd as Hd0. apply describes_tuple in Hd as (Hn & def & Hdef & Hm).
    assert (Hg0 : Good sts []) by (intros n t Hq; discriminate).
    destruct (addABITypes_ok re sts _ _ [] Hd0 Hg0) as (ts & E & Hg & _ & Hroot & Hclosed).
    exists ts. split; [|split; [exact Hg|split]].
    - unfold ABItoTypedDataV4, extractSolidityTypeName. rewrite Hn. cbn [bind]. rewrite E. reflexivity.
    - intros n Hr. induction Hr as [|b c d Hab IH Hb Hc]; [apply Hroot; reflexivity|].
      apply (Hclosed b IH (fun x => x)). unfold def_of. rewrite Hb. exact Hc.
    - intros k Hk. apply Hclosed; [exact Hk|intros []].
  Qed.

  Definition kept (ts : typeset) (n : bytes) : bool := bmem n (keys ts).

  Lemma kept_closed ts : (forall k, In k (keys ts) -> closed_in sts k ts) ->
    forall n def, kept ts n = true -> assoc n sts = Some def -> forall c, In c (refs def) -> kept ts c = true.
  Proof.
    intros Hc n def Hk Hd c Hin. apply bmem_In. apply bmem_In in Hk. apply (Hc n Hk).
    unfold def_of. rewrite Hd. exact Hin.
  Qed.

  Lemma derived_represents_restriction ts : Good sts ts -> repr_types ts (restrict (kept ts) sts).
  Proof.
    intros Hg. split.
    - intros n def Hn. rewrite assoc_restrict in Hn. destruct (kept ts n) eqn:Ek; [|discriminate].
      apply bmem_In in Ek. apply assoc_keys in Ek as (t & Ht). rewrite <- alookup_assoc in Ht. fold (tlookup n ts) in Ht.
      destruct (Hg _ _ Ht) as (d' & Hd' & ->). rewrite Ht. congruence.
    - intros a Hwa. destruct (tlookup (atomic_name a) ts) as [t|] eqn:Et; [|reflexivity].
      destruct (Hg _ _ Et) as (d' & Hd' & _). rewrite (atomic_undeclared sts Hwf a Hwa) in Hd'. discriminate.
  Qed.
End AbiAny.

Lemma Ok_inj {A} (a b : A) : Ok a = Ok b -> a = b.
Proof. intros E. injection E as E. exact E. Qed.

(* 6'. C04_abi_typeset_equiv for ANY well-formed hand-written type set declaring the described structs *)
Theorem abi_typeset_equiv_any H big_other re sts tc primary hand g v :
  wf_types sts -> types_dims_fit sts ->
  describes re sts tc (Struct primary) ->
  repr_types hand sts ->
  repr big_other sts (Struct primary) g v -> well_typed sts (Struct primary) v = true ->
  exists ts, ABItoTypedDataV4 re tc = Ok (primary, ts) /\
    (forall n t, tlookup n ts = Some t -> exists def, assoc n sts = Some def /\ t = render_def def) /\
    (forall n, reachable sts primary n -> In n (keys ts)) /\
    HashStruct H big_other primary g ts = Ok (Spec.hashStruct H sts primary v) /\
    HashStruct H big_other primary g hand = Ok (Spec.hashStruct H sts primary v).
Proof.
  intros Hwf Hdims Hd Hhand Hr Ht.
  destruct (ABItoTypedDataV4_any re sts tc primary Hd) as (ts & E & Hg & Hall & Hcl).
  pose proof (kept_closed sts ts Hcl) as Hclosed.
  set (sts' := restrict (kept ts) sts).
  assert (Hkp : kept ts primary = true) by (apply bmem_In, Hall, reach_refl).
  assert (HinK : inK (kept ts) (Struct primary)) by (intros n Hq; injection Hq as <-; exact Hkp).
  assert (Hp : In primary (keys sts)).
  { destruct tc; try contradiction. apply describes_tuple in Hd as (_ & def & Hdef & _). apply assoc_keys; eauto. }
  assert (Hp' : In primary (keys sts')).
  { apply assoc_keys in Hp as (def & Hdef). apply assoc_keys. exists def. unfold sts'. rewrite assoc_restrict, Hkp. exact Hdef. }
  pose proof (wf_types_restrict (kept ts) sts Hclosed Hwf) as Hwf'.
  pose proof (dims_restrict (kept ts) sts Hdims) as Hdims'.
  pose proof (proj1 (repr_restrict (kept ts) sts Hclosed big_other) _ _ _ Hr HinK) as Hr'.
  pose proof (well_typed_restrict (kept ts) sts Hclosed _ _ HinK Ht) as Ht'.
  pose proof (hashStruct_top H big_other ts sts' (derived_represents_restriction sts Hwf ts Hg) Hwf' Hdims'
                primary g v Hp' Hr' Ht') as E1.
  pose proof (hashStruct_top H big_other hand sts' (repr_types_restrict (kept ts) sts hand Hhand) Hwf' Hdims'
                primary g v Hp' Hr' Ht') as E2.
  pose proof (hashStruct_top H big_other hand sts Hhand Hwf Hdims primary g v Hp Hr Ht) as E3.
  assert (Eq : Spec.hashStruct H sts' primary v = Spec.hashStruct H sts primary v).
  { apply Ok_inj. rewrite <- E2. exact E3. }
  exists ts. split; [exact E|]. split; [exact Hg|]. split; [exact Hall|]. split; [|exact E3].
  rewrite E1, Eq. reflexivity.
Qed.

(* the specification's hashStruct does not look at struct types outside a reference-closed set holding
   the struct being hashed (stated for values that have a Go-level representative) *)

(* ---------- document level ---------- *)
Lemma restrict_with_empty_domain keep sts :
  ~ In domain_name (keys sts) ->
  restrict (fun n => keep n || bytes_eqb n domain_name) (with_empty_domain sts) = with_empty_domain (restrict keep sts).
Proof.
  intros Hnd. unfold restrict, with_empty_domain. rewrite filter_app. f_equal.
  - apply filter_ext_in. intros [n def] Hin. cbn [fst].
    destruct (bytes_eqb n domain_name) eqn:E; [|apply orb_false_r].
    apply bytes_eqb_eq in E. subst. exfalso. apply Hnd. apply in_map_iff. exists (domain_name, def). split; [reflexivity|exact Hin].
  - cbn [filter fst]. rewrite bytes_eqb_refl, orb_true_r. reflexivity.
Qed.

Lemma keys_restrict_incl keep sts n : In n (keys (restrict keep sts)) -> In n (keys sts).
Proof.
  intros Hin. apply in_map_iff in Hin as (nd & <- & Hin). apply in_restrict in Hin as [Hin _].
  apply in_map_iff. exists nd. split; [reflexivity|exact Hin].
Qed.

(* the document built from a Go type set that represents [sts0] and declares no domain type *)
Lemma doc_from_set H big_other sts0 set primary dom msg v :
  wf_types sts0 -> types_dims_fit sts0 -> ~ In domain_name (keys sts0) -> In primary (keys sts0) ->
  repr_types set sts0 -> tlookup domain_name set = None ->
  let d := {| d_types := with_empty_domain sts0; d_primary := primary; d_domain := VStruct []; d_message := v |} in
  repr big_other (with_empty_domain sts0) (Struct primary) (match msg with Some m => GMap m | None => GNil end) v ->
  well_typed (with_empty_domain sts0) (Struct primary) v = true ->
  wf_doc d /\ EncodeTypedDataV4 H big_other (Some (mkTD (Some set) primary dom msg)) = Ok (digest H d).
Proof.
  intros Hwf Hdims Hnodom Hp Hs Hsn d Hr Ht.
  assert (Hwd : wf_doc d).
  { split; [apply wf_types_with_dom; assumption|]. cbn [d d_types d_primary d_domain d_message].
    split; [rewrite keys_with_dom; apply in_or_app; right; left; reflexivity|].
    split; [rewrite keys_with_dom; apply in_or_app; left; exact Hp|].
    split; [|right; exact Ht].
    cbn [well_typed]. rewrite (assoc_dom_dom sts0 Hnodom). reflexivity. }
  split; [exact Hwd|]. apply digest_is_spec; [|exact Hwd|apply dims_with_dom; exact Hdims].
  split; [cbn [td_types d d_types]; apply repr_types_with_domain; assumption|].
  split; [reflexivity|]. cbn [td_domain td_message d d_types d_primary d_domain d_message].
  split; [|right; exact Hr].
  eapply R_struct; [apply (assoc_dom_dom sts0 Hnodom)|constructor].
Qed.

(* 11'. C04_abi_document_digest for ANY well-formed hand-written type set declaring the described structs *)
Theorem abi_document_digest_any H big_other (re : bytes -> option bytes) sts tc primary hand dom msg v :
  wf_types sts -> types_dims_fit sts ->
  describes re sts tc (Struct primary) ->
  ~ In domain_name (keys sts) ->
  repr_types hand sts -> tlookup domain_name hand = None ->
  let d := {| d_types := with_empty_domain sts; d_primary := primary; d_domain := VStruct []; d_message := v |} in
  repr big_other (with_empty_domain sts) (Struct primary) (match msg with Some m => GMap m | None => GNil end) v ->
  well_typed (with_empty_domain sts) (Struct primary) v = true ->
  exists ts, ABItoTypedDataV4 re tc = Ok (primary, ts) /\ tlookup domain_name ts = None /\
    wf_doc d /\
    EncodeTypedDataV4 H big_other (Some (mkTD (Some ts) primary dom msg)) = Ok (digest H d) /\
    EncodeTypedDataV4 H big_other (Some (mkTD (Some hand) primary dom msg)) = Ok (digest H d).
Proof.
  intros Hwf Hdims Hd Hnodom Hhand Hhnone d Hr Ht.
  destruct (ABItoTypedDataV4_any re sts tc primary Hd) as (ts & E & Hg & Hall & Hcl).
  pose proof (kept_closed sts ts Hcl) as Hclosed.
  set (sts' := restrict (kept ts) sts).
  set (keep' := fun n => kept ts n || bytes_eqb n domain_name).
  assert (Hnone : tlookup domain_name ts = None).
  { destruct (tlookup domain_name ts) as [t|] eqn:Et; [|reflexivity]. exfalso.
    destruct (Hg _ _ Et) as (def & Hdef & _). apply Hnodom. apply assoc_keys. eauto. }
  assert (Hkp : kept ts primary = true) by (apply bmem_In, Hall, reach_refl).
  assert (Hp : In primary (keys sts)).
  { destruct tc; try contradiction. apply describes_tuple in Hd as (_ & def & Hdef & _). apply assoc_keys; eauto. }
  assert (Hp' : In primary (keys sts')).
  { apply assoc_keys in Hp as (def & Hdef). apply assoc_keys. exists def. unfold sts'. rewrite assoc_restrict, Hkp. exact Hdef. }
  assert (Hnodom' : ~ In domain_name (keys sts')) by (intros Hin; apply Hnodom; eapply keys_restrict_incl; exact Hin).
  pose proof (wf_types_restrict (kept ts) sts Hclosed Hwf) as Hwf'.
  pose proof (dims_restrict (kept ts) sts Hdims) as Hdims'.
  (* the kept names plus the domain name are closed in the document's type set *)
  assert (Hclosed' : forall n def, keep' n = true -> assoc n (with_empty_domain sts) = Some def ->
                       forall c, In c (refs def) -> keep' c = true).
  { intros n def Hk Hdef c Hc. unfold keep' in *. destruct (bytes_dec n domain_name) as [->|Hne].
    - rewrite (assoc_dom_dom sts Hnodom) in Hdef. injection Hdef as <-. destruct Hc.
    - rewrite (assoc_dom_other sts n Hne) in Hdef. apply orb_true_iff in Hk as [Hk|Hk]; [|apply bytes_eqb_eq in Hk; contradiction].
      apply orb_true_iff. left. eapply Hclosed; eassumption. }
  assert (HinK : inK keep' (Struct primary)).
  { intros n Hq. injection Hq as <-. unfold keep'. rewrite Hkp. reflexivity. }
  pose proof (proj1 (repr_restrict keep' (with_empty_domain sts) Hclosed' big_other) _ _ _ Hr HinK) as Hr'.
  pose proof (well_typed_restrict keep' (with_empty_domain sts) Hclosed' _ _ HinK Ht) as Ht'.
  unfold keep' in Hr', Ht'. rewrite (restrict_with_empty_domain (kept ts) sts Hnodom) in Hr', Ht'. fold sts' in Hr', Ht'.
  destruct (doc_from_set H big_other sts' ts primary dom msg v Hwf' Hdims' Hnodom' Hp'
              (derived_represents_restriction sts Hwf ts Hg) Hnone Hr' Ht') as [_ E1].
  destruct (doc_from_set H big_other sts' hand primary dom msg v Hwf' Hdims' Hnodom' Hp'
              (repr_types_restrict (kept ts) sts hand Hhand) Hhnone Hr' Ht') as [_ E2].
  destruct (doc_from_set H big_other sts hand primary dom msg v Hwf Hdims Hnodom Hp Hhand Hhnone Hr Ht) as [Hwd E3].
  fold d in Hwd, E3.
  exists ts. split; [exact E|]. split; [exact Hnone|]. split; [exact Hwd|]. split; [|exact E3].
  rewrite E1, <- E2. exact E3.
Qed.
