(* Lemmas about Eip712/Util.v: the byte-lexicographic order is a total order, insertion sort sorts
   and permutes, sorted lists are unique up to permutation, decimal numerals round-trip, single-byte
   string searches on concatenations. *)
From Coq Require Import String.
From Coq Require Import List NArith ZArith Bool Arith Lia Permutation Sorted.
From Coq Require Import Init.Byte.
From FFS Require Import Base.Bytes Eip712.Util.
Import ListNotations.

(* ---------- bytes_eqb ---------- *)
Lemma bytes_eqb_refl a : bytes_eqb a a = true.
Proof. destruct (bytes_eqb_spec a a); congruence. Qed.
Lemma bytes_eqb_eq a b : bytes_eqb a b = true <-> a = b.
Proof. destruct (bytes_eqb_spec a b); split; congruence. Qed.
Lemma bytes_eqb_neq a b : bytes_eqb a b = false <-> a <> b.
Proof. destruct (bytes_eqb_spec a b); split; congruence. Qed.
Lemma bytes_eqb_sym a b : bytes_eqb a b = bytes_eqb b a.
Proof. destruct (bytes_eqb_spec a b), (bytes_eqb_spec b a); congruence. Qed.
Lemma byte_eqb_refl a : byte_eqb a a = true.
Proof. destruct (byte_eqb_spec a a); congruence. Qed.
Lemma byte_eqb_eq a b : byte_eqb a b = true <-> a = b.
Proof. destruct (byte_eqb_spec a b); split; congruence. Qed.

Lemma bmem_In k l : bmem k l = true <-> In k l.
Proof.
  unfold bmem. rewrite existsb_exists. split.
  - intros (x & Hx & E). apply bytes_eqb_eq in E. subst. exact Hx.
  - intros Hk. exists k. split; [exact Hk | apply bytes_eqb_refl].
Qed.
Lemma bmem_false k l : bmem k l = false <-> ~ In k l.
Proof. rewrite <- bmem_In. destruct (bmem k l); split; congruence. Qed.

(* ---------- association lists ---------- *)
Lemma assoc_In {A} k (l : list (bytes * A)) v : assoc k l = Some v -> In (k, v) l.
Proof.
  induction l as [|[k' v'] l IH]; simpl; [discriminate|].
  destruct (bytes_eqb_spec k k') as [->|N]; intros Hq; [injection Hq as ->; auto | auto].
Qed.
Lemma assoc_keys {A} k (l : list (bytes * A)) : In k (keys l) <-> exists v, assoc k l = Some v.
Proof.
  induction l as [|[k' v'] l IH]; simpl.
  - split; [tauto | intros (v & Hv); discriminate].
  - destruct (bytes_eqb_spec k k') as [->|N].
    + split; eauto.
    + rewrite <- IH. split; [intros [E|Hk]; [congruence | exact Hk] | auto].
Qed.
Lemma assoc_None {A} k (l : list (bytes * A)) : assoc k l = None <-> ~ In k (keys l).
Proof.
  rewrite assoc_keys. split.
  - intros E (v & Hv). congruence.
  - intros Hn. destruct (assoc k l) eqn:E; [exfalso; apply Hn; eauto | reflexivity].
Qed.
Lemma In_assoc_nodup {A} k v (l : list (bytes * A)) : NoDup (keys l) -> In (k, v) l -> assoc k l = Some v.
Proof.
  induction l as [|[k' v'] l IH]; simpl; [tauto|].
  intros Hnd [E|Hin]; inversion Hnd as [|? ? Hni Hnd']; subst.
  - injection E as -> ->. rewrite bytes_eqb_refl. reflexivity.
  - destruct (bytes_eqb_spec k k') as [->|N]; [|auto].
    exfalso. apply Hni. change (In k' (keys l)). apply in_map_iff. exists (k', v). auto.
Qed.

(* ---------- the order ---------- *)
Lemma bytes_leb_refl a : bytes_leb a a = true.
Proof. induction a as [|x a IH]; simpl; [reflexivity|]. rewrite N.ltb_irrefl. exact IH. Qed.

Lemma bytes_leb_total a b : bytes_leb a b = true \/ bytes_leb b a = true.
Proof.
  revert b; induction a as [|x a IH]; intros [|y b]; simpl; auto.
  destruct (N.ltb_spec (b2n x) (b2n y)); auto.
  destruct (N.ltb_spec (b2n y) (b2n x)); auto.
Qed.

Lemma bytes_leb_antisym a b : bytes_leb a b = true -> bytes_leb b a = true -> a = b.
Proof.
  revert b; induction a as [|x a IH]; intros [|y b]; simpl; try discriminate; auto.
  destruct (N.ltb_spec (b2n x) (b2n y)); destruct (N.ltb_spec (b2n y) (b2n x)); try discriminate; try lia.
  intros H1 H2. f_equal; [apply b2n_inj; lia | auto].
Qed.

Lemma bytes_leb_trans a b c : bytes_leb a b = true -> bytes_leb b c = true -> bytes_leb a c = true.
Proof.
  revert b c; induction a as [|x a IH]; intros [|y b] [|z c]; simpl; try discriminate; auto.
  destruct (N.ltb_spec (b2n x) (b2n y)); destruct (N.ltb_spec (b2n y) (b2n z));
    destruct (N.ltb_spec (b2n x) (b2n z)); auto; try lia;
    destruct (N.ltb_spec (b2n y) (b2n x)); try discriminate; try lia;
    destruct (N.ltb_spec (b2n z) (b2n y)); try discriminate; try lia;
    destruct (N.ltb_spec (b2n z) (b2n x)); try lia; eauto.
Qed.

Definition le (a b : bytes) : Prop := bytes_leb a b = true.

(* ---------- insertion sort ---------- *)
Lemma insert_perm x l : Permutation (insert x l) (x :: l).
Proof.
  induction l as [|y l IH]; simpl; [reflexivity|].
  destruct (bytes_leb x y); [reflexivity|].
  rewrite IH. apply perm_swap.
Qed.
Lemma sort_perm l : Permutation (sort l) l.
Proof. induction l as [|x l IH]; simpl; [reflexivity|]. rewrite insert_perm, IH. reflexivity. Qed.

Lemma insert_sorted x l : StronglySorted le l -> StronglySorted le (insert x l).
Proof.
  induction l as [|y l IH]; intros Hs; simpl.
  - constructor; constructor.
  - inversion Hs as [|? ? Hs' Hall]; subst.
    destruct (bytes_leb x y) eqn:E.
    + constructor; [exact Hs|]. constructor; [exact E|].
      eapply Forall_impl; [|exact Hall]. intros z Hz. eapply bytes_leb_trans; eassumption.
    + constructor; [apply IH; exact Hs'|].
      assert (Hyx : le y x) by (destruct (bytes_leb_total x y); [congruence|assumption]).
      eapply Permutation_Forall; [symmetry; apply insert_perm|]. constructor; assumption.
Qed.
Lemma sort_sorted l : StronglySorted le (sort l).
Proof. induction l as [|x l IH]; simpl; [constructor | apply insert_sorted; exact IH]. Qed.

Lemma sorted_perm_eq l1 l2 :
  StronglySorted le l1 -> StronglySorted le l2 -> Permutation l1 l2 -> l1 = l2.
Proof.
  revert l2; induction l1 as [|x l1 IH]; intros l2 H1 H2 Hp.
  - apply Permutation_nil in Hp. auto.
  - destruct l2 as [|y l2]; [apply Permutation_sym, Permutation_nil in Hp; discriminate|].
    inversion H1 as [|? ? H1' A1]; inversion H2 as [|? ? H2' A2]; subst.
    assert (x = y) as ->.
    { apply bytes_leb_antisym.
      - assert (In y (x :: l1)) as [->|Hy] by (eapply Permutation_in; [symmetry; exact Hp | left; reflexivity]).
        + apply bytes_leb_refl.
        + rewrite Forall_forall in A1. apply A1; exact Hy.
      - assert (In x (y :: l2)) as [->|Hx] by (eapply Permutation_in; [exact Hp | left; reflexivity]).
        + apply bytes_leb_refl.
        + rewrite Forall_forall in A2. apply A2; exact Hx. }
    f_equal. apply IH; auto. eapply Permutation_cons_inv; exact Hp.
Qed.

Lemma sort_perm_eq a b : Permutation a b -> sort a = sort b.
Proof.
  intros Hp. apply sorted_perm_eq; try apply sort_sorted.
  rewrite !sort_perm. exact Hp.
Qed.

Lemma filter_perm {A} (p : A -> bool) a b : Permutation a b -> Permutation (filter p a) (filter p b).
Proof.
  induction 1; simpl; auto.
  - destruct (p x); auto.
  - destruct (p x), (p y); auto. apply perm_swap.
  - etransitivity; eassumption.
Qed.

(* two duplicate-free lists with the same elements sort to the same list *)
Lemma sort_same_elements a b :
  NoDup a -> NoDup b -> (forall x, In x a <-> In x b) -> sort a = sort b.
Proof. intros. apply sort_perm_eq. apply NoDup_Permutation; assumption. Qed.

(* ---------- decimal numerals ---------- *)
Definition digits_val (l : bytes) : N := fold_left (fun a b => a * 10 + (b2n b - 48))%N l 0%N.
Definition all_digits (l : bytes) : bool := forallb is_digit l.

Lemma undec_go_val l acc : all_digits l = true ->
  undec_go l acc = Some (fold_left (fun a b => a * 10 + (b2n b - 48))%N l acc).
Proof.
  revert acc; induction l as [|b l IH]; intros acc Hd; simpl in *; [reflexivity|].
  apply andb_prop in Hd as [Hb Hl]. rewrite Hb. apply IH; exact Hl.
Qed.

Lemma is_digit_digit d : (d < 10)%N -> is_digit (digit d) = true /\ (b2n (digit d) - 48 = d)%N.
Proof.
  intros Hd. unfold is_digit, digit. rewrite b2n_n2b by lia. split; [|lia].
  apply andb_true_intro; split; apply N.leb_le; lia.
Qed.

Lemma dec_go_app f n acc : dec_go f n acc = dec_go f n [] ++ acc.
Proof.
  revert n acc; induction f as [|f IH]; intros n acc; simpl; [reflexivity|].
  destruct (n <? 10)%N; [reflexivity|].
  rewrite IH, (IH _ [_]). rewrite <- app_assoc. reflexivity.
Qed.

Lemma dec_go_S f n : dec_go (S f) n [] =
  if (n <? 10)%N then [digit (n mod 10)] else dec_go f (n / 10) [] ++ [digit (n mod 10)].
Proof. simpl. destruct (n <? 10)%N; [reflexivity|]. apply dec_go_app. Qed.

Lemma digits_val_snoc l d : digits_val (l ++ [d]) = (digits_val l * 10 + (b2n d - 48))%N.
Proof. unfold digits_val. rewrite fold_left_app. reflexivity. Qed.
Lemma all_digits_snoc l d : all_digits (l ++ [d]) = all_digits l && is_digit d.
Proof. unfold all_digits. rewrite forallb_app. simpl. rewrite andb_true_r. reflexivity. Qed.

Lemma dec_go_ok f : forall n, (n < 2 ^ N.of_nat f)%N ->
  all_digits (dec_go f n []) = true /\ digits_val (dec_go f n []) = n /\ dec_go f n [] <> [] \/ f = O.
Proof.
  induction f as [|f IH]; intros n Hn; [right; reflexivity|]. left.
  rewrite dec_go_S. destruct (N.ltb_spec n 10) as [Hlt|Hge].
  - rewrite N.mod_small by lia. destruct (is_digit_digit n Hlt) as [Hd Hv].
    change [digit n] with ([] ++ [digit n]). rewrite all_digits_snoc, digits_val_snoc, Hd, Hv.
    repeat split; auto. discriminate.
  - assert (Hq : (n / 10 < 2 ^ N.of_nat f)%N).
    { apply N.div_lt_upper_bound; [lia|]. rewrite Nat2N.inj_succ, N.pow_succ_r' in Hn. lia. }
    destruct (IH _ Hq) as [(Hd & Hv & Hne)|Hf0].
    + assert (Hm : (n mod 10 < 10)%N) by (apply N.mod_lt; lia).
      destruct (is_digit_digit _ Hm) as [Hd2 Hv2].
      rewrite all_digits_snoc, digits_val_snoc, Hd, Hd2, Hv, Hv2.
      repeat split; auto; [|intros E; apply app_eq_nil in E as [_ E]; discriminate].
      pose proof (N.div_mod n 10). lia.
    + subst f. simpl in Hq. assert (Hz : (n / 10 = 0)%N) by lia.
      apply N.div_small_iff in Hz; lia.
Qed.

Lemma dec_ok n : all_digits (dec n) = true /\ digits_val (dec n) = n /\ dec n <> [].
Proof.
  unfold dec. destruct (dec_go_ok (S (N.to_nat (N.log2 n))) n) as [H|H]; [|exact H|discriminate].
  rewrite Nat2N.inj_succ, N2Nat.id. destruct n as [|p]; [simpl; lia|].
  apply N.log2_spec. lia.
Qed.

Lemma undec_dec n : undec (dec n) = Some n.
Proof.
  destruct (dec_ok n) as (Hd & Hv & Hne). unfold undec.
  destruct (dec n) as [|b l] eqn:E; [congruence|].
  rewrite undec_go_val by exact Hd. exact (f_equal Some Hv).
Qed.

Lemma dec_first_digit n : exists b l, dec n = b :: l /\ is_digit b = true.
Proof.
  destruct (dec_ok n) as (Hd & _ & Hne). destruct (dec n) as [|b l]; [congruence|].
  exists b, l. split; [reflexivity|]. simpl in Hd. apply andb_prop in Hd. tauto.
Qed.

(* ---------- single-byte searches ---------- *)
Definition lacks (c : byte) (l : bytes) : Prop := forall x, In x l -> x <> c.

Lemma digits_lack c l : all_digits l = true -> is_digit c = false -> lacks c l.
Proof.
  unfold all_digits. rewrite forallb_forall. intros Hd Hc x Hx ->. rewrite (Hd _ Hx) in Hc. discriminate.
Qed.

Lemma index_byte_lacks c l : lacks c l -> index_byte c l = None.
Proof.
  induction l as [|x l IH]; intros Hl; simpl; [reflexivity|].
  destruct (byte_eqb_spec x c) as [->|N]; [exfalso; apply (Hl c); simpl; auto|].
  rewrite IH; [reflexivity|]. intros y Hy. apply Hl. simpl; auto.
Qed.

Lemma index_byte_app c p r :
  index_byte c (p ++ c :: r) = match index_byte c p with Some i => Some i | None => Some (length p) end.
Proof.
  induction p as [|x p IH]; simpl.
  - rewrite byte_eqb_refl. reflexivity.
  - destruct (byte_eqb x c); [reflexivity|]. rewrite IH. destruct (index_byte c p); reflexivity.
Qed.

Lemma index_byte_le c l i : index_byte c l = Some i -> (i < length l)%nat.
Proof.
  revert i; induction l as [|x l IH]; intros i; simpl; [discriminate|].
  destruct (byte_eqb x c); [intros Hq; injection Hq as <-; lia|].
  destruct (index_byte c l) as [j|]; [|discriminate]. intros Hq; injection Hq as <-.
  specialize (IH _ eq_refl). lia.
Qed.

Lemma last_index_byte_lacks c l : lacks c l -> last_index_byte c l = None.
Proof.
  induction l as [|x l IH]; intros Hl; simpl; [reflexivity|].
  rewrite IH by (intros y Hy; apply Hl; simpl; auto).
  destruct (byte_eqb_spec x c) as [->|N]; [exfalso; apply (Hl c); simpl; auto | reflexivity].
Qed.

Lemma last_index_byte_app c p r : lacks c r -> last_index_byte c (p ++ c :: r) = Some (length p).
Proof.
  intros Hr. induction p as [|x p IH]; simpl.
  - rewrite last_index_byte_lacks by exact Hr. rewrite byte_eqb_refl. reflexivity.
  - rewrite IH. reflexivity.
Qed.

Lemma last_byte_app l c : last_byte (l ++ [c]) = Some c.
Proof. unfold last_byte. rewrite map_app. simpl. apply last_last. Qed.

Lemma ends_with_app l c : ends_with c (l ++ [c]) = true.
Proof. unfold ends_with. rewrite last_byte_app. apply byte_eqb_refl. Qed.

Lemma last_byte_In l x : last_byte l = Some x -> In x l.
Proof.
  unfold last_byte. induction l as [|y l IH]; simpl; [discriminate|].
  destruct l as [|z l]; simpl in *; [intros Hq; injection Hq as ->; auto|]. intros Hq. right. apply IH. exact Hq.
Qed.

Lemma ends_with_lacks c l : lacks c l -> ends_with c l = false.
Proof.
  intros Hl. unfold ends_with. destruct (last_byte l) as [x|] eqn:E; [|reflexivity].
  apply last_byte_In in E. destruct (byte_eqb_spec x c) as [->|N]; [exfalso; eapply Hl; eauto | reflexivity].
Qed.

Lemma lacks_app c a b : lacks c a -> lacks c b -> lacks c (a ++ b).
Proof. intros Ha Hb x Hx. apply in_app_or in Hx as [Hx|Hx]; auto. Qed.
