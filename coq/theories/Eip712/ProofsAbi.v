(* C04 — the type set ABItoTypedDataV4 derives from a Solidity ABI tuple is the type set one would
   write by hand for the same structs: it represents the same Spec.types, so hashStruct agrees. *)
From Coq Require Import String.
From Coq Require Import List NArith ZArith Bool Arith Lia Permutation.
From Coq Require Import Init.Byte.
From FFS Require Import Base.Res Base.Bytes Eip712.Util Eip712.Input Eip712.Numeric Eip712.Coerce Eip712.Model
  Eip712.Spec Eip712.Repr Eip712.ProofsUtil Eip712.ProofsNames Eip712.ProofsDeps Eip712.ProofsMain.
Import ListNotations.

Section atc_ind'.
  Variable P : atc -> Prop.
  Hypothesis HE : forall b s, P (TCElem b s).
  Hypothesis HF : forall c n, P c -> P (TCFixedArr c n).
  Hypothesis HD : forall c, P c -> P (TCDynArr c).
  Hypothesis HT : forall it ch, Forall (fun kc : bytes * atc => P (snd kc)) ch -> P (TCTuple it ch).
  Fixpoint atc_ind' (tc : atc) : P tc :=
    match tc with
    | TCElem b s => HE b s
    | TCFixedArr c n => HF c n (atc_ind' c)
    | TCDynArr c => HD c (atc_ind' c)
    | TCTuple it ch =>
        HT it ch ((fix go (l : list (bytes * atc)) : Forall (fun kc : bytes * atc => P (snd kc)) l :=
                     match l with
                     | [] => Forall_nil _
                     | kc :: r => Forall_cons kc (atc_ind' (snd kc)) (go r)
                     end) ch)
    end.
End atc_ind'.

Section Abi.
  Variable struct_name_of : bytes -> option bytes.     (* the regular expression *)
  Variable sts : types.                                (* the hand-written struct definitions *)
  Hypothesis Hwf : wf_types sts.

  Definition supported (b : ebase) : bool :=
    match b with EAddress | EBool | EString | EInt | EUInt | EBytes => true | _ => false end.

  (* the component tree [tc] is the ABI form of the member type [t]: elementary components spell the
     atomic type, arrays match, a tuple carries the struct's name in its internalType and has one
     child per member, named like the member *)
  Fixpoint describes (tc : atc) (t : mty) {struct tc} : Prop :=
    match tc, t with
    | TCElem b s, Atomic a => supported b = true /\ Model.base_name b ++ s = atomic_name a
    | TCFixedArr c n, Arr t' (Some k) => n = k /\ describes c t'
    | TCDynArr c, Arr t' None => describes c t'
    | TCTuple it ch, Struct n =>
        struct_name_of it = Some n /\
        exists def, assoc n sts = Some def /\
          (fix go (ch : list (bytes * atc)) (def : structdef) {struct ch} : Prop :=
             match ch, def with
             | [], [] => True
             | kc :: ch', sm :: def' => fst kc = sm_name sm /\ describes (snd kc) (sm_ty sm) /\ go ch' def'
             | _, _ => False
             end) ch def
    | _, _ => False
    end.

  Fixpoint describes_members (ch : list (bytes * atc)) (def : structdef) : Prop :=
    match ch, def with
    | [], [] => True
    | kc :: ch', sm :: def' => fst kc = sm_name sm /\ describes (snd kc) (sm_ty sm) /\ describes_members ch' def'
    | _, _ => False
    end.

  Lemma describes_tuple it ch n :
    describes (TCTuple it ch) (Struct n) <->
    struct_name_of it = Some n /\ exists def, assoc n sts = Some def /\ describes_members ch def.
  Proof. apply iff_refl. Qed.

  Lemma mapABIType_ok : forall tc t, describes tc t -> mapABIType struct_name_of tc = Ok (ty_name t).
  Proof.
    induction tc as [b s|c n IH|c IH|it ch IH] using atc_ind'; intros t Hd.
    - destruct t as [a| |]; try contradiction. destruct Hd as [Hs Hn]. cbn [mapABIType mapElementaryABIType ty_name].
      rewrite <- Hn. destruct b; try discriminate; reflexivity.
    - destruct t as [| |t' [k|]]; try contradiction. destruct Hd as [-> Hd]. cbn [mapABIType].
      rewrite (IH _ Hd). reflexivity.
    - destruct t as [| |t' [k|]]; try contradiction. cbn [mapABIType]. rewrite (IH _ Hd). reflexivity.
    - destruct t as [|n|]; try contradiction. apply describes_tuple in Hd as (Hn & _).
      cbn [mapABIType]. unfold extractSolidityTypeName. rewrite Hn. reflexivity.
  Qed.

  Definition abi_members :=
    fix members (l : list (bytes * atc)) : res gtype :=
      match l with
      | [] => Ok []
      | (k, c) :: r => do ts <- mapABIType struct_name_of c; do rest <- members r; Ok (Some (mkMember k ts) :: rest)
      end.
  Definition abi_recurse :=
    fix recurse (l : list (bytes * atc)) (typeSet : typeset) : res typeset :=
      match l with
      | [] => Ok typeSet
      | (_, c) :: r => do ts' <- addABITypes struct_name_of c typeSet; recurse r ts'
      end.

  Lemma addABITypes_tuple it ch set :
    addABITypes struct_name_of (TCTuple it ch) set =
    do typeName <- extractSolidityTypeName struct_name_of it;
    if is_some (tlookup typeName set) then Ok set else
    do t <- abi_members ch; abi_recurse ch (aset typeName (Some t) set).
  Proof. reflexivity. Qed.

  Lemma abi_members_ok ch def : describes_members ch def -> abi_members ch = Ok (map render_member def).
  Proof.
    revert def; induction ch as [|[k c] ch IH]; intros [|sm def]; simpl; try contradiction; [reflexivity|].
    intros (Hk & Hd & Hm). rewrite (mapABIType_ok _ _ Hd). cbn [bind]. rewrite (IH _ Hm). cbn [bind].
    unfold render_member. cbn [fst] in Hk. rewrite Hk. reflexivity.
  Qed.

  (* every mapped entry is the rendering of the struct of that name *)
  Definition Good (set : typeset) : Prop :=
    forall n t, tlookup n set = Some t -> exists def, assoc n sts = Some def /\ t = render_def def.
  Definition closed_in (k : bytes) (set : typeset) : Prop :=
    forall c, In c (refs (def_of sts k)) -> In c (keys set).
  Definition PostA (t : mty) (set set' : typeset) : Prop :=
    Good set' /\ incl (keys set) (keys set') /\
    (forall n, base t = Some n -> In n (keys set')) /\
    (forall k, In k (keys set') -> ~ In k (keys set) -> closed_in k set').

  Lemma tlookup_keys (set : typeset) n : is_some (tlookup n set) = true <-> In n (keys set).
  Proof.
    unfold tlookup. rewrite alookup_assoc. rewrite assoc_keys. destruct (assoc n set); simpl; split; eauto; try discriminate.
    intros (v & Hv). discriminate.
  Qed.

  Lemma addABITypes_ok : forall tc t set, describes tc t -> Good set ->
    exists set', addABITypes struct_name_of tc set = Ok set' /\ PostA t set set'.
  Proof.
    induction tc as [b s|c n IH|c IH|it ch IH] using atc_ind'; intros t set Hd Hg.
    - destruct t as [a| |]; try contradiction. exists set. split; [reflexivity|].
      split; [exact Hg|split; [apply incl_refl|split; [discriminate|tauto]]].
    - destruct t as [| |t' [k|]]; try contradiction. destruct Hd as [_ Hd]. apply (IH _ _ Hd Hg).
    - destruct t as [| |t' [k|]]; try contradiction. apply (IH _ _ Hd Hg).
    - destruct t as [|n|]; try contradiction. apply describes_tuple in Hd as (Hn & def & Hdef & Hm).
      rewrite addABITypes_tuple. unfold extractSolidityTypeName. rewrite Hn. cbn [bind].
      destruct (is_some (tlookup n set)) eqn:Emapped.
      + apply tlookup_keys in Emapped. exists set. split; [reflexivity|].
        split; [exact Hg|split; [apply incl_refl|split; [|tauto]]].
        intros n0 Hq. injection Hq as <-. exact Emapped.
      + assert (Hnew : ~ In n (keys set)) by (intros Hin; apply tlookup_keys in Hin; congruence).
        rewrite (abi_members_ok _ _ Hm). cbn [bind].
        set (set1 := aset n (Some (map render_member def)) set).
        assert (Hk1 : keys set1 = keys set ++ [n]) by (apply keys_aset_new; exact Hnew).
        assert (Hn1 : In n (keys set1)) by (rewrite Hk1; apply in_or_app; right; left; reflexivity).
        assert (Hs1 : incl (keys set) (keys set1)) by (rewrite Hk1; apply incl_appl, incl_refl).
        assert (Hinv1 : forall k, In k (keys set1) -> In k (keys set) \/ k = n).
        { intros k Hk. rewrite Hk1 in Hk. apply in_app_or in Hk as [Hk|[<-|[]]]; auto. }
        assert (Hg1 : Good set1).
        { intros k t Hk. unfold set1, tlookup in Hk. destruct (bytes_dec k n) as [->|Hkn].
          - rewrite alookup_aset_same in Hk. injection Hk as <-. exists def. split; [exact Hdef | reflexivity].
          - rewrite alookup_aset_other in Hk by exact Hkn. apply Hg. exact Hk. }
        (* the recursion over the children *)
        assert (Hrec : forall ch' def' set0, Forall (fun kc : bytes * atc => forall t set, describes (snd kc) t -> Good set ->
                          exists set', addABITypes struct_name_of (snd kc) set = Ok set' /\ PostA t set set') ch' ->
                  describes_members ch' def' -> Good set0 ->
                  exists set', abi_recurse ch' set0 = Ok set' /\ Good set' /\ incl (keys set0) (keys set') /\
                    (forall sm c, In sm def' -> base (sm_ty sm) = Some c -> In c (keys set')) /\
                    (forall k, In k (keys set') -> ~ In k (keys set0) -> closed_in k set')).
        { clear. induction ch' as [|[k c] ch' IHc]; intros [|sm def'] set0 HF Hm Hg0; simpl in Hm; try contradiction.
          - exists set0. split; [reflexivity|]. split; [exact Hg0|]. split; [apply incl_refl|]. split; [intros ? ? []|tauto].
          - destruct Hm as (_ & Hd & Hm). inversion HF as [|? ? Hc HF']; subst. cbn [snd] in Hc, Hd.
            destruct (Hc _ _ Hd Hg0) as (s1 & E1 & Hg1 & Hi1 & Hb1 & Hc1).
            destruct (IHc def' s1 HF' Hm Hg1) as (s2 & E2 & Hg2 & Hi2 & Hb2 & Hc2).
            exists s2. split; [cbn [abi_recurse]; rewrite E1; cbn [bind]; exact E2|].
            split; [exact Hg2|]. split; [eapply incl_tran; eassumption|]. split.
            + intros sm0 c0 [<-|Hin] Hb; [apply Hi2, Hb1, Hb | eapply Hb2; eassumption].
            + intros k0 Hk0 Hn0. destruct (in_dec bytes_dec k0 (keys s1)) as [Hin1|Hnin1].
              * intros c0 Hc0. apply Hi2. apply (Hc1 k0 Hin1 Hn0). exact Hc0.
              * apply Hc2; assumption. }
        destruct (Hrec ch def set1 IH Hm Hg1) as (set' & E & Hg' & Hi' & Hb' & Hc').
        exists set'. split; [exact E|]. split; [exact Hg'|].
        assert (Hi : incl (keys set) (keys set')).
        { eapply incl_tran; [exact Hs1 | exact Hi']. }
        split; [exact Hi|]. split.
        * intros n0 Hq. injection Hq as <-. apply Hi'. exact Hn1.
        * intros k Hk Hnk. destruct (bytes_dec k n) as [->|Hkn].
          -- intros c Hc. unfold def_of in Hc. rewrite Hdef in Hc. apply in_refs in Hc as (sm & Hsm & Hb).
             eapply Hb'; eassumption.
          -- apply Hc'; [exact Hk|]. intros Hin. apply Hinv1 in Hin as [Hin| ->]; auto.
  Qed.

  (* ABItoTypedDataV4 on the ABI form of struct [primary]: succeeds with that primary type and a type
     set that represents [sts], provided sts holds nothing but what the struct reaches *)
  Theorem ABItoTypedDataV4_ok tc primary :
    describes tc (Struct primary) ->
    (forall n, In n (keys sts) -> reachable sts primary n) ->
    exists ts, ABItoTypedDataV4 struct_name_of tc = Ok (primary, ts) /\ repr_types ts sts.
  Proof.
    intros Hd Hreach. destruct tc as [| | |it ch]; try contradiction.
    pose proof Hd as Hd0. apply describes_tuple in Hd as (Hn & def & Hdef & Hm).
    assert (Hg0 : Good []) by (intros n t Hq; discriminate).
    destruct (addABITypes_ok _ _ [] Hd0 Hg0) as (ts & E & Hg & _ & Hroot & Hclosed).
    exists ts. split.
    - unfold ABItoTypedDataV4, extractSolidityTypeName. rewrite Hn. cbn [bind]. rewrite E. reflexivity.
    - assert (Hall : forall n, reachable sts primary n -> In n (keys ts)).
      { intros n Hr. induction Hr as [|b c d Hab IH Hb Hc]; [apply Hroot; reflexivity|].
        apply (Hclosed b IH (fun x => x)). unfold def_of. rewrite Hb. exact Hc. }
      split.
      + intros n d Hnd. assert (Hin : In n (keys ts)) by (apply Hall, Hreach, assoc_keys; eauto).
        apply assoc_keys in Hin as (t & Ht). rewrite <- alookup_assoc in Ht. fold (tlookup n ts) in Ht.
        destruct (Hg _ _ Ht) as (d' & Hd' & ->). rewrite Ht. congruence.
      + intros a Hwa. destruct (tlookup (atomic_name a) ts) as [t|] eqn:Et; [|reflexivity].
        destruct (Hg _ _ Et) as (d' & Hd' & _). rewrite (atomic_undeclared sts Hwf a Hwa) in Hd'. discriminate.
  Qed.
End Abi.

(* hence: hashing any value of the struct under the derived type set gives the same result as under
   any hand-written type set for the same structs (both give the spec's hashStruct) *)
Theorem abi_typeset_equiv H big_other struct_name_of sts tc primary hand g v :
  wf_types sts -> types_dims_fit sts ->
  describes struct_name_of sts tc (Struct primary) ->
  (forall n, In n (keys sts) -> reachable sts primary n) ->
  repr_types hand sts ->
  repr big_other sts (Struct primary) g v -> well_typed sts (Struct primary) v = true ->
  exists ts, ABItoTypedDataV4 struct_name_of tc = Ok (primary, ts) /\
    HashStruct H big_other primary g ts = Ok (Spec.hashStruct H sts primary v) /\
    HashStruct H big_other primary g hand = Ok (Spec.hashStruct H sts primary v).
Proof.
  intros Hwf Hdims Hd Hreach Hhand Hr Ht.
  destruct (ABItoTypedDataV4_ok struct_name_of sts Hwf tc primary Hd Hreach) as (ts & E & Hrep).
  assert (Hp : In primary (keys sts)).
  { destruct tc; try contradiction. apply describes_tuple in Hd as (_ & def & Hdef & _). apply assoc_keys; eauto. }
  exists ts. split; [exact E|]. split; apply hashStruct_top; assumption.
Qed.
