(* C04 — the dependency closure.  The model's addNestedTypes (DFS with a visited map, fuel S |types|)
   collects exactly the struct types reachable from the primary type; so does the spec's saturation
   [closure]; hence model encodeType = Spec.encodeType on well-formed type sets. *)
From Coq Require Import String.
From Coq Require Import List NArith ZArith Bool Arith Lia Permutation.
From Coq Require Import Init.Byte.
From FFS Require Import Base.Res Base.Bytes Eip712.Util Eip712.Input Eip712.Numeric Eip712.Coerce Eip712.Model
  Eip712.Spec Eip712.Repr Eip712.ProofsUtil Eip712.ProofsNames.
Import ListNotations.

Lemma bytes_dec (a b : bytes) : {a = b} + {a <> b}.
Proof. destruct (bytes_eqb a b) eqn:E; [left; apply bytes_eqb_eq; exact E | right; apply bytes_eqb_neq; exact E]. Qed.

Lemma NoDup_snoc {A} (l : list A) b : NoDup l -> ~ In b l -> NoDup (l ++ [b]).
Proof. intros Hn Hb. apply (Permutation_NoDup (Permutation_cons_append l b)). constructor; assumption. Qed.

(* ---------- Input.alookup / aset ---------- *)
Lemma alookup_assoc {V} k (l : list (bytes * V)) : alookup k l = assoc k l.
Proof. induction l as [|[k' v] l IH]; simpl; [reflexivity|]. rewrite IH. reflexivity. Qed.

Lemma alookup_aset_same {V} k (v : V) s : alookup k (aset k v s) = Some v.
Proof.
  induction s as [|[k' v'] s IH]; simpl; [rewrite bytes_eqb_refl; reflexivity|].
  destruct (bytes_eqb_spec k k') as [->|N]; simpl; [rewrite bytes_eqb_refl; reflexivity|].
  destruct (bytes_eqb_spec k k'); [congruence | exact IH].
Qed.
Lemma alookup_aset_other {V} k k' (v : V) s : k' <> k -> alookup k' (aset k v s) = alookup k' s.
Proof.
  intros Hn. induction s as [|[k2 v2] s IH]; simpl.
  - destruct (bytes_eqb_spec k' k); [congruence | reflexivity].
  - destruct (bytes_eqb_spec k k2) as [->|N]; simpl.
    + destruct (bytes_eqb_spec k' k2); [congruence | reflexivity].
    + destruct (bytes_eqb_spec k' k2); [reflexivity | exact IH].
Qed.
Lemma keys_aset_new {V} k (v : V) s : ~ In k (keys s) -> keys (aset k v s) = keys s ++ [k].
Proof.
  induction s as [|[k' v'] s IH]; simpl; intros Hn; [reflexivity|].
  destruct (bytes_eqb_spec k k') as [->|N]; [exfalso; auto|]. simpl. f_equal. apply IH. auto.
Qed.

(* ---------- generic: lengths of filters ---------- *)
Lemma filter_length_le {A} (p q : A -> bool) l :
  (forall x, In x l -> q x = true -> p x = true) -> (length (filter q l) <= length (filter p l))%nat.
Proof.
  induction l as [|x l IH]; intros Hpq; simpl; [lia|].
  assert (IH' := IH (fun y Hy => Hpq y (or_intror Hy))).
  destruct (q x) eqn:Eq; [rewrite (Hpq x (or_introl eq_refl) Eq); simpl; lia|].
  destruct (p x); simpl; lia.
Qed.
Lemma filter_length_lt {A} (p q : A -> bool) l x0 :
  (forall x, In x l -> q x = true -> p x = true) -> In x0 l -> p x0 = true -> q x0 = false ->
  (length (filter q l) < length (filter p l))%nat.
Proof.
  induction l as [|x l IH]; intros Hpq Hin Hp Hq; simpl; [destruct Hin|].
  assert (Hpq' : forall y, In y l -> q y = true -> p y = true) by (intros y Hy; apply Hpq; right; exact Hy).
  destruct Hin as [->|Hin].
  - rewrite Hp, Hq. simpl. pose proof (filter_length_le p q l Hpq'). lia.
  - specialize (IH Hpq' Hin Hp Hq).
    destruct (q x) eqn:Eq; [rewrite (Hpq x (or_introl eq_refl) Eq); simpl; lia|].
    destruct (p x); simpl; lia.
Qed.

Lemma reachable_trans sts a b c : reachable sts a b -> reachable sts b c -> reachable sts a c.
Proof. intros Hab Hbc. induction Hbc; [exact Hab | eapply reach_step; eassumption]. Qed.

Lemma in_refs c def : In c (refs def) <-> exists m, In m def /\ base (sm_ty m) = Some c.
Proof.
  unfold refs. rewrite in_flat_map. split.
  - intros (m & Hm & Hc). exists m. split; [exact Hm|]. destruct (base (sm_ty m)); simpl in Hc; [|tauto].
    destruct Hc as [->|[]]. reflexivity.
  - intros (m & Hm & Hb). exists m. split; [exact Hm|]. rewrite Hb. simpl. auto.
Qed.

Section Deps.
  Variable all : typeset.
  Variable sts : types.
  Hypothesis Hrep : repr_types all sts.
  Hypothesis Hwf : wf_types sts.

  Lemma keys_nodup : NoDup (keys sts).
  Proof. apply Hwf. Qed.

  Lemma wf_lookup k def : assoc k sts = Some def ->
    wf_name k = true /\ (forall a, wf_atomic a = true -> k <> atomic_name a) /\ Forall (fun m => wf_mty sts (sm_ty m) = true) def.
  Proof.
    intros Ha. apply assoc_In in Ha. destruct Hwf as [_ Hall]. rewrite Forall_forall in Hall.
    apply (Hall _ Ha).
  Qed.

  Lemma atomic_undeclared a : wf_atomic a = true -> assoc (atomic_name a) sts = None.
  Proof.
    intros Hwa. destruct (assoc (atomic_name a) sts) as [def|] eqn:E; [|reflexivity].
    apply wf_lookup in E as (_ & Hn & _). exfalso. apply (Hn a Hwa). reflexivity.
  Qed.

  Lemma declared_assoc k : In k (keys sts) -> exists def, assoc k sts = Some def.
  Proof. apply assoc_keys. Qed.

  Lemma wf_mty_names t : wf_mty sts t = true -> names_ok t.
  Proof.
    induction t as [a|n|t IH k]; simpl; intros Hw; auto.
    apply bmem_In in Hw. apply declared_assoc in Hw as (def & Hd).
    apply wf_lookup in Hd as (Hn & _). apply wf_name_nobr. exact Hn.
  Qed.

  Lemma wf_mty_base t : wf_mty sts t = true ->
    match base t with
    | Some c => base_name t = c /\ In c (keys sts)
    | None => exists a, wf_atomic a = true /\ base_name t = atomic_name a
    end.
  Proof.
    induction t as [a|n|t IH k]; simpl; intros Hw.
    - exists a. split; [exact Hw | reflexivity].
    - split; [reflexivity | apply bmem_In; exact Hw].
    - apply IH. exact Hw.
  Qed.

  Lemma tlookup_all k def : assoc k sts = Some def -> tlookup k all = Some (render_def def).
  Proof. apply Hrep. Qed.
  Lemma tlookup_atomic a : wf_atomic a = true -> tlookup (atomic_name a) all = None.
  Proof. apply Hrep. Qed.

  (* the names the DFS is called with: a declared struct type or an atomic type *)
  Definition known (b : bytes) : Prop := In b (keys sts) \/ exists a, wf_atomic a = true /\ b = atomic_name a.

  Lemma reach_undeclared a k : assoc a sts = None -> reachable sts a k -> k = a.
  Proof.
    intros Ha Hr. induction Hr as [|b c def Hab IH Hb Hc]; [reflexivity|]. subst b. congruence.
  Qed.

  Lemma reach_declared a k : In a (keys sts) -> reachable sts a k -> In k (keys sts).
  Proof.
    intros Ha Hr. induction Hr as [|b c def Hab IH Hb Hc]; [exact Ha|].
    apply in_refs in Hc as (m & Hm & Hbase). apply wf_lookup in Hb as (_ & _ & Hall).
    rewrite Forall_forall in Hall. specialize (Hall _ Hm). apply wf_mty_base in Hall. rewrite Hbase in Hall. tauto.
  Qed.

  (* ---------- the model's DFS ---------- *)
  Definition ant_loop (f : nat) :=
    fix loop (ms : gtype) (typeSet : typeset) {struct ms} : res typeset :=
      match ms with
      | [] => Ok typeSet
      | None :: _ => Err ENullTypeMember
      | Some tm :: r => do typeSet' <- addNestedTypes f (m_type tm) all typeSet; loop r typeSet'
      end.

  Lemma addNestedTypes_unfold f name set :
    addNestedTypes (S f) name all set =
    let typeName := strip_array name in
    match tlookup typeName all with
    | Some t => if is_nil_type (tget typeName set) then ant_loop f (members_of t) (aset typeName t set) else Ok set
    | None => Ok set
    end.
  Proof. reflexivity. Qed.

  Definition unvisited (set : typeset) : list bytes :=
    filter (fun k => negb (bmem k (keys set))) (keys sts).

  Definition Inv (set : typeset) : Prop :=
    NoDup (keys set) /\ forall k, In k (keys set) -> In k (keys sts) /\ tlookup k set = tlookup k all.

  Definition closed_in (k : bytes) (set : typeset) : Prop :=
    forall c, In c (refs (def_of sts k)) -> In c (keys set).

  Definition Post (b : bytes) (set set' : typeset) : Prop :=
    Inv set' /\ incl (keys set) (keys set') /\ (In b (keys sts) -> In b (keys set')) /\
    (forall k, In k (keys set') -> ~ In k (keys set) -> reachable sts b k /\ closed_in k set').

  Lemma unvisited_le set set' : incl (keys set) (keys set') ->
    (length (unvisited set') <= length (unvisited set))%nat.
  Proof.
    intros Hi. apply filter_length_le. intros x _ Hx. apply negb_true_iff in Hx. apply negb_true_iff.
    apply bmem_false in Hx. apply bmem_false. intros Hin. apply Hx, Hi, Hin.
  Qed.
  Lemma unvisited_lt set set' b : incl (keys set) (keys set') ->
    In b (keys sts) -> ~ In b (keys set) -> In b (keys set') ->
    (length (unvisited set') < length (unvisited set))%nat.
  Proof.
    intros Hi Hb Hn Hy. apply filter_length_lt with (x0 := b); auto.
    - intros x _ Hx. apply negb_true_iff in Hx. apply negb_true_iff.
      apply bmem_false in Hx. apply bmem_false. intros Hin. apply Hx, Hi, Hin.
    - apply negb_true_iff, bmem_false. exact Hn.
    - apply negb_false_iff, bmem_In. exact Hy.
  Qed.

  Lemma visited_nil_check set k : Inv set ->
    is_nil_type (tget k set) = negb (bmem k (keys set)).
  Proof.
    intros [_ Hinv]. unfold tget. destruct (bmem k (keys set)) eqn:E.
    - apply bmem_In in E. destruct (Hinv _ E) as [Hk ->].
      apply declared_assoc in Hk as (def & Hd). rewrite (tlookup_all _ _ Hd). reflexivity.
    - apply bmem_false in E. unfold tlookup. rewrite alookup_assoc.
      replace (assoc k set) with (@None (option gtype)); [reflexivity|].
      symmetry. apply assoc_None. exact E.
  Qed.

  (* the member loop, given the statement for calls with fuel f *)
  Lemma loop_ok f
    (IHf : forall name set, known (strip_array name) -> (length (unvisited set) < f)%nat -> Inv set ->
             exists set', addNestedTypes f name all set = Ok set' /\ Post (strip_array name) set set') :
    forall ms set, (length (unvisited set) < f)%nat -> Inv set ->
      Forall (fun m => wf_mty sts (sm_ty m) = true) ms ->
      exists set', ant_loop f (map render_member ms) set = Ok set' /\
        Inv set' /\ incl (keys set) (keys set') /\
        (forall m c, In m ms -> base (sm_ty m) = Some c -> In c (keys set')) /\
        (forall k, In k (keys set') -> ~ In k (keys set) ->
           (exists m c, In m ms /\ base (sm_ty m) = Some c /\ reachable sts c k) /\ closed_in k set').
  Proof.
    induction ms as [|m ms IH]; intros set Hf Hinv Hwfm.
    - exists set. split; [reflexivity|]. split; [exact Hinv|]. split; [apply incl_refl|]. split.
      + intros m c [].
      + intros k Hk Hn. contradiction.
    - inversion Hwfm as [|? ? Hwm Hwms]; subst.
      assert (Hknown : known (strip_array (ty_name (sm_ty m)))).
      { rewrite (strip_ty_name _ (wf_mty_names _ Hwm)). pose proof (wf_mty_base _ Hwm) as Hwb.
        destruct (base (sm_ty m)); [left; destruct Hwb as [-> ?]; assumption | right; exact Hwb]. }
      destruct (IHf (ty_name (sm_ty m)) set Hknown Hf Hinv) as (set1 & E1 & Hinv1 & Hi1 & Hroot1 & Hnew1).
      rewrite (strip_ty_name _ (wf_mty_names _ Hwm)) in Hroot1, Hnew1.
      assert (Hf1 : (length (unvisited set1) < f)%nat) by (pose proof (unvisited_le _ _ Hi1); lia).
      destruct (IH set1 Hf1 Hinv1 Hwms) as (set' & E2 & Hinv' & Hi2 & Hm2 & Hnew2).
      exists set'. split; [|split; [exact Hinv'|split; [|split]]].
      + simpl. cbn [m_type]. rewrite E1. simpl. exact E2.
      + eapply incl_tran; eassumption.
      + intros m0 c [<-|Hin] Hb; [|eapply Hm2; eassumption].
        apply Hi2. pose proof (wf_mty_base _ Hwm) as Hwb. rewrite Hb in Hwb. destruct Hwb as [Hbn Hdecl].
        rewrite Hbn in Hroot1. apply Hroot1. exact Hdecl.
      + intros k Hk Hnk. destruct (in_dec bytes_dec k (keys set1)) as [Hk1|Hk1].
        * destruct (Hnew1 k Hk1 Hnk) as [Hr Hc]. split.
          -- pose proof (wf_mty_base _ Hwm) as Hwb. destruct (base (sm_ty m)) as [c|] eqn:Hb.
             ++ destruct Hwb as [Hbn _]. rewrite Hbn in Hr. exists m, c. simpl; auto.
             ++ destruct Hwb as (a & Hwa & Ha). rewrite Ha in Hr.
                apply reach_undeclared in Hr; [|apply atomic_undeclared; exact Hwa]. subst k.
                destruct Hinv1 as [_ Hinv1]. destruct (Hinv1 _ Hk1) as [Hdecl _].
                apply declared_assoc in Hdecl as (d & Hd). rewrite (atomic_undeclared _ Hwa) in Hd. discriminate.
          -- intros c Hc'. apply Hi2, Hc, Hc'.
        * destruct (Hnew2 k Hk Hk1) as [(m0 & c & Hm0 & Hb0 & Hr0) Hc]. split; [|exact Hc].
          exists m0, c. simpl; auto.
  Qed.

  Lemma dfs_ok : forall f name set, known (strip_array name) -> (length (unvisited set) < f)%nat -> Inv set ->
    exists set', addNestedTypes f name all set = Ok set' /\ Post (strip_array name) set set'.
  Proof.
    induction f as [|f IHf]; intros name set Hknown Hf Hinv; [lia|].
    rewrite addNestedTypes_unfold. cbv zeta. set (b := strip_array name) in *.
    destruct Hknown as [Hdecl0|(a0 & Hwa0 & Ha0)].
    - destruct (declared_assoc _ Hdecl0) as (def & Eb). rewrite (tlookup_all _ _ Eb).
      rewrite (visited_nil_check _ _ Hinv). destruct (bmem b (keys set)) eqn:Ev; simpl negb; cbv iota.
      + apply bmem_In in Ev. exists set. split; [reflexivity|].
        split; [exact Hinv|split; [apply incl_refl|split; [auto|tauto]]].
      + apply bmem_false in Ev.
        assert (Hdecl : In b (keys sts)) by (apply assoc_keys; eauto).
        set (set1 := aset b (render_def def) set).
        assert (Hk1 : keys set1 = keys set ++ [b]) by (apply keys_aset_new; exact Ev).
        assert (Hinv1 : Inv set1).
        { destruct Hinv as [Hnd Hinv]. split.
          - rewrite Hk1. apply NoDup_snoc; auto.
          - intros k Hk. rewrite Hk1 in Hk. apply in_app_or in Hk as [Hk|[<-|[]]].
            + destruct (Hinv _ Hk) as [Hd Hl]. split; [exact Hd|]. rewrite <- Hl.
              unfold tlookup, set1. apply alookup_aset_other. intros ->. auto.
            + split; [exact Hdecl|]. rewrite (tlookup_all _ _ Eb). unfold tlookup, set1. apply alookup_aset_same. }
        assert (Hi1 : incl (keys set) (keys set1)) by (rewrite Hk1; apply incl_appl, incl_refl).
        assert (Hf1 : (length (unvisited set1) < f)%nat).
        { assert (Hb1 : In b (keys set1)) by (rewrite Hk1; apply in_or_app; right; left; reflexivity).
          pose proof (unvisited_lt set set1 b Hi1 Hdecl Ev Hb1). lia. }
        destruct (wf_lookup _ _ Eb) as (_ & _ & Hwfm).
        destruct (loop_ok f IHf def set1 Hf1 Hinv1 Hwfm) as (set' & E & Hinv' & Hi2 & Hm2 & Hnew2).
        exists set'. split; [exact E|].
        split; [exact Hinv'|split; [eapply incl_tran; eassumption|split]].
        * intros _. apply Hi2. rewrite Hk1. apply in_or_app. right. left. reflexivity.
        * intros k Hk Hnk. destruct (bytes_dec k b) as [->|Hkb].
          -- split; [apply reach_refl|]. intros c Hc. unfold def_of in Hc. rewrite Eb in Hc.
             apply in_refs in Hc as (m & Hm & Hb). eapply Hm2; eassumption.
          -- assert (Hnk1 : ~ In k (keys set1)).
             { rewrite Hk1. intros Hin. apply in_app_or in Hin as [Hin|[->|[]]]; auto. }
             destruct (Hnew2 k Hk Hnk1) as [(m & c & Hm & Hb & Hr) Hc]. split; [|exact Hc].
             eapply reachable_trans; [|exact Hr].
             eapply reach_step; [apply reach_refl | exact Eb | apply in_refs; eauto].
    - rewrite Ha0, (tlookup_atomic _ Hwa0). exists set. split; [reflexivity|].
      split; [exact Hinv|split; [apply incl_refl|split; [|tauto]]].
      intros Hd. apply declared_assoc in Hd as (d & Hd). rewrite (atomic_undeclared _ Hwa0) in Hd. discriminate.
  Qed.

  (* the DFS from a declared type, started with the empty map, returns exactly the reachable types *)
  Lemma length_keys_le : (length (keys sts) <= length all)%nat.
  Proof.
    replace (length all) with (length (keys all)) by apply map_length.
    apply NoDup_incl_length; [apply keys_nodup|].
    intros k Hk. apply declared_assoc in Hk as (def & Hd).
    apply assoc_keys. exists (render_def def). rewrite <- alookup_assoc. fold (tlookup k all).
    rewrite (tlookup_all _ _ Hd). reflexivity.
  Qed.

  Lemma dfs_from_root n def : assoc n sts = Some def ->
    exists ds, addNestedTypes (S (length all)) n all [] = Ok ds /\
      NoDup (keys ds) /\
      (forall k, In k (keys ds) <-> reachable sts n k) /\
      (forall k, In k (keys ds) -> tlookup k ds = tlookup k all).
  Proof.
    intros Hn.
    assert (Hinv0 : Inv []) by (split; [constructor | intros k []]).
    assert (Hf0 : (length (unvisited []) < S (length all))%nat).
    { unfold unvisited. pose proof length_keys_le. pose proof (filter_length_le (fun _ => true) (fun k => negb (bmem k (keys (@nil (bytes * option gtype))))) (keys sts) (fun _ _ _ => eq_refl)).
      assert (length (filter (fun _ : bytes => true) (keys sts)) = length (keys sts)).
      { clear. induction (keys sts); simpl; auto. }
      lia. }
    destruct (wf_lookup _ _ Hn) as (Hname & _ & _). apply wf_name_nobr in Hname as [[Hnb _] _].
    assert (Hdecl : In n (keys sts)) by (apply assoc_keys; eauto).
    assert (Hknown : known (strip_array n)) by (rewrite (strip_array_nobr _ Hnb); left; exact Hdecl).
    destruct (dfs_ok _ n [] Hknown Hf0 Hinv0) as (ds & E & Hinv & _ & Hroot & Hnew).
    rewrite (strip_array_nobr _ Hnb) in Hroot, Hnew.
    exists ds. split; [exact E|]. split; [apply Hinv|]. split.
    - intros k. split.
      + intros Hk. apply Hnew; [exact Hk | intros []].
      + intros Hr. induction Hr as [|b c d Hab IH Hb Hc]; [apply Hroot; exact Hdecl|].
        destruct (Hnew b IH (fun x => x)) as [_ Hcl]. apply Hcl. unfold def_of. rewrite Hb. exact Hc.
    - intros k Hk. apply Hinv. exact Hk.
  Qed.

  (* ---------- the spec's saturation ---------- *)
  Definition stable (S : list bytes) : Prop := incl (sat_step sts S) S.

  Lemma sat_step_in S x : In x (sat_step sts S) <->
    In x (keys sts) /\ (In x S \/ exists m, In m S /\ references sts m x = true).
  Proof.
    unfold sat_step. rewrite filter_In. rewrite orb_true_iff, bmem_In, existsb_exists. tauto.
  Qed.

  Lemma sat_step_nodup S : NoDup (sat_step sts S).
  Proof. apply NoDup_filter, keys_nodup. Qed.

  Lemma sat_step_ext S S' : (forall x, In x S <-> In x S') -> sat_step sts S = sat_step sts S'.
  Proof.
    intros He. unfold sat_step. apply filter_ext. intros x. f_equal.
    - destruct (bmem x S) eqn:E1, (bmem x S') eqn:E2; auto.
      + apply bmem_In in E1. apply bmem_false in E2. exfalso. apply E2, He, E1.
      + apply bmem_In in E2. apply bmem_false in E1. exfalso. apply E1, He, E2.
    - destruct (existsb (fun m => references sts m x) S) eqn:E1, (existsb (fun m => references sts m x) S') eqn:E2; auto.
      + apply existsb_exists in E1 as (m & Hm & Hr). assert (existsb (fun m => references sts m x) S' = true).
        { apply existsb_exists. exists m. split; [apply He; exact Hm | exact Hr]. } congruence.
      + apply existsb_exists in E2 as (m & Hm & Hr). assert (existsb (fun m => references sts m x) S = true).
        { apply existsb_exists. exists m. split; [apply He; exact Hm | exact Hr]. } congruence.
  Qed.

  Lemma sat_step_mono S : incl S (keys sts) -> incl S (sat_step sts S).
  Proof. intros Hs x Hx. apply sat_step_in. auto. Qed.

  Lemma stable_step S : incl S (keys sts) -> stable S -> sat_step sts (sat_step sts S) = sat_step sts S /\ stable (sat_step sts S).
  Proof.
    intros Hs Hst.
    assert (E : sat_step sts (sat_step sts S) = sat_step sts S).
    { apply sat_step_ext. intros x. split; [apply Hst | apply sat_step_mono; exact Hs]. }
    split; [exact E|]. unfold stable. rewrite E. apply incl_refl.
  Qed.

  Lemma sat_step_keys S : incl (sat_step sts S) (keys sts).
  Proof. intros x Hx. apply sat_step_in in Hx. tauto. Qed.

  Lemma stable_sat k : forall S, incl S (keys sts) -> stable S -> stable (sat sts k S).
  Proof.
    induction k as [|k IH]; intros S Hs Hst; simpl; [exact Hst|].
    apply IH; [apply sat_step_keys | apply stable_step; assumption].
  Qed.

  Lemma sat_keys k : forall S, incl S (keys sts) -> incl (sat sts k S) (keys sts).
  Proof. induction k as [|k IH]; intros S Hs; simpl; [exact Hs | apply IH, sat_step_keys]. Qed.
  Lemma sat_nodup k : forall S, NoDup S -> NoDup (sat sts k S).
  Proof. induction k as [|k IH]; intros S Hs; simpl; [exact Hs | apply IH, sat_step_nodup]. Qed.
  Lemma sat_mono k : forall S, incl S (keys sts) -> incl S (sat sts k S).
  Proof.
    induction k as [|k IH]; intros S Hs; simpl; [apply incl_refl|].
    eapply incl_tran; [apply sat_step_mono; exact Hs | apply IH, sat_step_keys].
  Qed.

  Lemma progress_or_stable k : forall S, incl S (keys sts) -> NoDup S ->
    stable (sat sts k S) \/ (length S + k <= length (sat sts k S))%nat.
  Proof.
    induction k as [|k IH]; intros S Hs Hnd; simpl; [right; lia|].
    destruct (IH (sat_step sts S) (sat_step_keys S) (sat_step_nodup S)) as [Hst|Hlen]; [left; exact Hst|].
    destruct (le_lt_dec (length (sat_step sts S)) (length S)) as [Hle|Hlt]; [|right; lia].
    left. apply stable_sat; [apply sat_step_keys|]. apply stable_step; [exact Hs|].
    unfold stable. apply NoDup_length_incl; [exact Hnd | exact Hle | apply sat_step_mono; exact Hs].
  Qed.

  Lemma closure_spec n : In n (keys sts) -> forall x, In x (closure sts n) <-> reachable sts n x.
  Proof.
    intros Hn. unfold closure. set (S0 := filter (bytes_eqb n) (keys sts)).
    assert (H0 : forall x, In x S0 <-> x = n).
    { intros x. unfold S0. rewrite filter_In, bytes_eqb_eq. split; [intros [_ ->]; reflexivity | intros ->; auto]. }
    assert (Hs0 : incl S0 (keys sts)) by (intros x Hx; apply H0 in Hx; subst; exact Hn).
    assert (Hnd0 : NoDup S0) by (apply NoDup_filter, keys_nodup).
    clearbody S0.
    set (F := sat sts (length sts) S0).
    assert (Hst : stable F).
    { destruct (progress_or_stable (length sts) S0 Hs0 Hnd0) as [Hst|Hlen]; [exact Hst|]. exfalso.
      assert (Hn0 : In n S0) by (apply H0; reflexivity).
      assert (length S0 >= 1)%nat by (destruct S0; [destruct Hn0 | simpl; lia]).
      pose proof (NoDup_incl_length (sat_nodup _ _ Hnd0) (sat_keys (length sts) _ Hs0)).
      assert (Hkl : length (keys sts) = length sts) by apply map_length.
      fold F in Hlen. fold F in H1. lia. }
    intros x. split.
    - (* sound *)
      assert (Hsound : forall k S, (forall y, In y S -> reachable sts n y) -> forall y, In y (sat sts k S) -> reachable sts n y).
      { induction k as [|k IH]; intros S HS y Hy; simpl in Hy; [auto|].
        apply IH in Hy; [exact Hy|]. intros z Hz. apply sat_step_in in Hz as [_ [Hz|(m & Hm & Hr)]]; [auto|].
        unfold references in Hr. destruct (assoc m sts) as [def|] eqn:Em; [|discriminate].
        apply bmem_In in Hr. eapply reach_step; [apply HS; exact Hm | exact Em | exact Hr]. }
      apply Hsound. intros y Hy. apply H0 in Hy. subst. apply reach_refl.
    - intros Hr. induction Hr as [|b c def Hab IH Hb Hc].
      + apply sat_mono; [exact Hs0 | apply H0; reflexivity].
      + apply Hst. apply sat_step_in. split.
        * eapply reach_declared; [exact Hn | eapply reach_step; eassumption].
        * right. exists b. split; [exact IH|]. unfold references. rewrite Hb. apply bmem_In. exact Hc.
  Qed.

  Lemma closure_nodup n : NoDup (closure sts n).
  Proof. apply sat_nodup, NoDup_filter, keys_nodup. Qed.

  (* ---------- Type.Encode / TypeSet.Encode on rendered definitions ---------- *)
  Lemma Type_Encode_members_render first def :
    Type_Encode_members first (map render_member def) =
    Ok (match def with [] => [] | _ => (if first then [] else bs ",") ++ members_str def end).
  Proof.
    revert first; induction def as [|m def IH]; intros first; [reflexivity|].
    cbn [map Type_Encode_members render_member TypeMember_Encode bind m_type m_name]. rewrite IH. cbn [bind].
    destruct def as [|m2 def]; [cbn [members_str]; rewrite !app_nil_r; reflexivity|].
    cbn [members_str]. f_equal. rewrite <- !app_assoc. reflexivity.
  Qed.

  Lemma Type_Encode_render n def : Type_Encode n (render_def def) = Ok (struct_str n def).
  Proof.
    unfold Type_Encode, render_def, members_of. rewrite Type_Encode_members_render. cbn [bind].
    unfold struct_str. destruct def; reflexivity.
  Qed.

  Lemma Type_Encode_all_render ds names :
    (forall k, In k names -> In k (keys sts) /\ tlookup k ds = tlookup k all) ->
    Type_Encode_all ds names = Ok (concat (map (fun x => struct_str x (def_of sts x)) names)).
  Proof.
    induction names as [|k names IH]; intros Hk; [reflexivity|].
    cbn [Type_Encode_all map concat]. destruct (Hk k (or_introl eq_refl)) as [Hd Hl].
    unfold tget. apply declared_assoc in Hd as (def & Hd). rewrite Hl, (tlookup_all _ _ Hd).
    rewrite Type_Encode_render. cbn [bind]. rewrite IH by (intros k' Hk'; apply Hk; right; exact Hk'). cbn [bind].
    unfold def_of. rewrite Hd. reflexivity.
  Qed.

  (* encodeType of the model = encodeType of the spec, for every declared struct type *)
  Lemma encodeType_ok n def : assoc n sts = Some def ->
    Model.encodeType all n = Ok (map render_member def, Spec.encodeType sts n).
  Proof.
    intros Hn. unfold Model.encodeType, tget. rewrite (tlookup_all _ _ Hn). unfold render_def.
    destruct (dfs_from_root n def Hn) as (ds & E & Hnd & Hkeys & Hlook). rewrite E. cbn [bind].
    assert (Hdecl : In n (keys sts)) by (apply assoc_keys; eauto).
    unfold TypeSet_Encode, TypeSet_Encode_keys. fold (keys ds).
    assert (Hnin : In n (keys ds)) by (apply Hkeys, reach_refl).
    unfold tget. rewrite (Hlook _ Hnin), (tlookup_all _ _ Hn). rewrite Type_Encode_render. cbn [bind].
    assert (Hsort : sort (filter (fun k => negb (bytes_eqb k n)) (keys ds)) = deps sts n).
    { unfold deps. apply sort_same_elements.
      - apply NoDup_filter. exact Hnd.
      - apply NoDup_filter. apply closure_nodup.
      - intros x. rewrite !filter_In, Hkeys, (closure_spec n Hdecl). tauto. }
    rewrite Hsort. rewrite Type_Encode_all_render.
    - cbn [bind]. unfold Spec.encodeType, def_of. rewrite Hn. reflexivity.
    - intros k Hk. unfold deps in Hk. apply (Permutation_in _ (sort_perm _)) in Hk.
      apply filter_In in Hk as [Hk _]. apply (closure_spec n Hdecl) in Hk.
      split; [eapply reach_declared; eassumption | apply Hlook, Hkeys, Hk].
  Qed.
End Deps.
