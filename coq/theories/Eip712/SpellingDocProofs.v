(* C14 — the three spellings agree on whole documents.  [respelled fuel tn v1 v2] says that v2 is v1
   with some integers re-spelled (JSON number / decimal string / 0x-hex string of the same integer),
   each of them at a position where the type [tn] — followed through struct members and array
   elements exactly as encodeElement follows it — is an integer type.  Such documents have the same
   hashStruct, hence the same EIP-712 digest.  (A re-spelling at a position of another type is not
   covered, and must not be: a string member holding "12" and the number 12 are different inputs.) *)
From Coq Require Import String.
From Coq Require Import List NArith ZArith Bool Arith Lia.
From Coq Require Import Init.Byte.
From FFS Require Import Base.Res Base.Bytes Abi.Spec.
From FFS Require Import Eip712.Util Eip712.Input Eip712.Numeric Eip712.Coerce Eip712.Model.
From FFS Require Import Eip712.TotalProofsInput Eip712.TotalProofs Eip712.NumericProofs Eip712.SpellingProofs Eip712.ExactSpellingProofs.
Import ListNotations.

Lemma F2_length {A B} (R : A -> B -> Prop) l1 l2 : Forall2 R l1 l2 -> length l1 = length l2.
Proof. induction 1; simpl; congruence. Qed.

Lemma F2_impl {A B} (R1 R2 : A -> B -> Prop) l1 l2 :
  (forall a b, R1 a b -> R2 a b) -> Forall2 R1 l1 l2 -> Forall2 R2 l1 l2.
Proof. intros Hi. induction 1; constructor; auto. Qed.

Inductive spelling (z : Z) : gval -> Prop :=
| sp_num : spelling z (GNumber (dec_text z))
| sp_dec : spelling z (GString (dec_text z))
| sp_hex : spelling z (GString (hex_text z))
(* round 3: every other exact spelling in the decimal / 0x-hex / scientific grammars whose exponent
   math/big expands ("1e18", "100.0", "1.5e1", "+0x1F"), as a JSON number or inside a string *)
| sp_exact_num t : text_denotes t z -> exponent_moderate t -> spelling z (GNumber t)
| sp_exact_str t : text_denotes t z -> exponent_moderate t -> spelling z (GString t).

Section Doc.
  Variable H : bytes -> bytes.
  Variable big_other : bytes -> option Z.
  Variable allTypes : typeset.

  (* members of a struct value, pairwise: same key, same depth, and related at the type of every
     struct member of that name (values under keys that are not member names are never read) *)
  Definition members_rel (rel : bytes -> gval -> gval -> Prop) (t : gtype) (m1 m2 : gmap) : Prop :=
    Forall2 (fun kv1 kv2 : bytes * gval =>
               fst kv1 = fst kv2 /\ gdepth (snd kv1) = gdepth (snd kv2) /\
               forall tm, In (Some tm) t -> m_name tm = fst kv1 -> rel (m_type tm) (snd kv1) (snd kv2)) m1 m2.

  Fixpoint respelled (fuel : nat) (tn : bytes) (v1 v2 : gval) {struct fuel} : Prop :=
    v1 = v2 \/
    match fuel with
    | O => False
    | S f =>
        if ends_with x5d tn then
          match last_index_byte x5b tn with
          | Some (S p) =>
              exists l1 l2, v1 = GSlice l1 /\ v2 = GSlice l2 /\
                forall trimmed, slice tn 0 (S p) = Ok trimmed -> Forall2 (respelled f trimmed) l1 l2
          | _ => False
          end
        else if is_some (tlookup tn allTypes) then
          exists m1 m2, v1 = GMap m1 /\ v2 = GMap m2 /\
            members_rel (respelled f) (members_of (tget tn allTypes)) m1 m2
        else
          exists tc z, integer_member_type allTypes tn tc /\ spelling z v1 /\ spelling z v2
    end.

  Lemma spelling_read z v : spelling z v -> integer_of_gval big_other v = Ok z.
  Proof.
    destruct (spellings_read_exactly big_other z) as [H1 [H2 H3]]. intros [| | |t Hd Hm|t Hd Hm]; try assumption;
    cbn [integer_of_gval]; apply BigIntegerFromString_complete; assumption.
  Qed.

  Lemma spelling_depth z v : spelling z v -> gdepth v = O.
  Proof. intros [| | | |]; reflexivity. Qed.

  (* related values have the same shape *)
  Lemma members_rel_depth rel t m1 m2 : members_rel rel t m1 m2 -> gdepth (GMap m1) = gdepth (GMap m2).
  Proof.
    intros Hr. cbn [gdepth]. f_equal. induction Hr as [|kv1 kv2 r1 r2 [_ [Hd _]] _ IH]; [reflexivity|].
    cbn [fold_right]. rewrite Hd, IH. reflexivity.
  Qed.

  Lemma respelled_depth fuel : forall tn v1 v2, respelled fuel tn v1 v2 -> gdepth v1 = gdepth v2.
  Proof.
    induction fuel as [|f IH]; intros tn v1 v2 [->|Hr]; try reflexivity; [destruct Hr|].
    cbn beta iota in Hr. destruct (ends_with x5d tn).
    - destruct (last_index_byte x5b tn) as [[|p]|] eqn:El; try contradiction.
      destruct Hr as [l1 [l2 [-> [-> Hl]]]].
      destruct (last_index_byte_some _ _ _ El) as [Hlt _].
      specialize (Hl _ (slice_ok tn 0 (S p) ltac:(lia) ltac:(lia))).
      cbn [gdepth]. f_equal. induction Hl as [|x y r1 r2 Hxy _ IHl]; [reflexivity|].
      cbn [fold_right]. rewrite (IH _ _ _ Hxy), IHl. reflexivity.
    - destruct (is_some (tlookup tn allTypes)).
      + destruct Hr as [m1 [m2 [-> [-> Hm]]]]. apply (members_rel_depth _ _ _ _ Hm).
      + destruct Hr as [tc [z [_ [S1 S2]]]]. rewrite (spelling_depth _ _ S1), (spelling_depth _ _ S2). reflexivity.
  Qed.

  (* looking a key up in two related maps *)
  Lemma members_rel_glookup rel t m1 m2 k :
    members_rel rel t m1 m2 ->
    glookup k m1 = glookup k m2 \/
    (forall tm, In (Some tm) t -> m_name tm = k -> rel (m_type tm) (glookup k m1) (glookup k m2)).
  Proof.
    intros Hr. unfold glookup. induction Hr as [|[k1 v1] [k2 v2] r1 r2 [Hk [_ Hrel]] _ IH]; [left; reflexivity|].
    cbn [fst snd] in *. subst k2. cbn [alookup]. destruct (bytes_eqb_spec k k1) as [->|Hne]; [|exact IH].
    right. intros tm Hin Hn. apply Hrel; assumption.
  Qed.

  Lemma ed_loop_rel enc m1 m2 t0 t :
    members_rel (fun tn v1 v2 => enc tn v1 = enc tn v2) t0 m1 m2 ->
    (forall tm, In (Some tm) t -> In (Some tm) t0) ->
    ed_loop enc m1 t = ed_loop enc m2 t.
  Proof.
    intros Hr. induction t as [|[tm|] r IH]; intros Hsub; simpl; try reflexivity.
    assert (He : enc (m_type tm) (glookup (m_name tm) m1) = enc (m_type tm) (glookup (m_name tm) m2)).
    { destruct (members_rel_glookup _ _ _ _ (m_name tm) Hr) as [-> | Hx]; [reflexivity|].
      apply Hx; [apply Hsub; left; reflexivity|reflexivity]. }
    rewrite He, IH; [reflexivity|]. intros tm' Hin. apply Hsub. right. exact Hin.
  Qed.

  Lemma members_rel_impl (r1 r2 : bytes -> gval -> gval -> Prop) t m1 m2 :
    (forall tn a b, r1 tn a b -> r2 tn a b) -> members_rel r1 t m1 m2 -> members_rel r2 t m1 m2.
  Proof.
    intros Himp Hr. induction Hr as [|kv1 kv2 l1 l2 [Hk [Hd Hrel]] _ IH]; constructor; [|exact IH].
    repeat split; try assumption. intros tm Hin Hn. apply Himp, Hrel; assumption.
  Qed.

  Lemma hashStruct_rel enc tn m1 m2 :
    members_rel (fun tn v1 v2 => enc tn v1 = enc tn v2) (members_of (tget tn allTypes)) m1 m2 ->
    hashStruct H big_other allTypes enc tn (GMap m1) = hashStruct H big_other allTypes enc tn (GMap m2).
  Proof.
    intros Hr. unfold hashStruct, encodeData, encodeType.
    destruct (tget tn allTypes) as [t|] eqn:Et; [|reflexivity]. cbn [members_of] in Hr.
    destruct (addNestedTypes (S (length allTypes)) tn allTypes []) as [d| |]; try reflexivity. cbn [bind].
    destruct (TypeSet_Encode d tn) as [te| |]; try reflexivity. cbn [bind].
    change (fix loop (ms : gtype) : res bytes :=
              match ms with
              | [] => Ok []
              | None :: _ => Err ENullTypeMember
              | Some tm :: r => do b <- enc (m_type tm) (glookup (m_name tm) m1); do rest <- loop r; Ok (b ++ rest)
              end) with (ed_loop enc m1).
    change (fix loop (ms : gtype) : res bytes :=
              match ms with
              | [] => Ok []
              | None :: _ => Err ENullTypeMember
              | Some tm :: r => do b <- enc (m_type tm) (glookup (m_name tm) m2); do rest <- loop r; Ok (b ++ rest)
              end) with (ed_loop enc m2).
    rewrite (ed_loop_rel enc m1 m2 t t Hr (fun tm Hin => Hin)). reflexivity.
  Qed.

  Lemma ha_loop_rel enc trimmed l1 l2 :
    Forall2 (fun a b => enc trimmed a = enc trimmed b) l1 l2 -> ha_loop enc trimmed l1 = ha_loop enc trimmed l2.
  Proof. intros Hl. induction Hl as [|a b r1 r2 Hab _ IH]; simpl; [reflexivity|]. rewrite Hab, IH. reflexivity. Qed.

  Theorem respelled_encode fuel : forall tn v1 v2,
    respelled fuel tn v1 v2 ->
    encodeElement H big_other allTypes fuel tn v1 = encodeElement H big_other allTypes fuel tn v2.
  Proof.
    induction fuel as [|f IH]; intros tn v1 v2 [->|Hr]; try reflexivity.
    cbn beta iota in Hr. cbn [encodeElement].
    destruct (ends_with x5d tn) eqn:Eend.
    - destruct (last_index_byte x5b tn) as [[|p]|] eqn:El; try contradiction.
      destruct Hr as [l1 [l2 [-> [-> Hl]]]].
      unfold hashArray. cbv zeta. rewrite El.
      destruct (index tn (length tn - 1)) as [lastb| |]; try reflexivity. cbn [bind].
      destruct (negb (byte_eqb lastb x5d)); [reflexivity|].
      destruct (slice tn (S p + 1) (length tn - 1)) as [dimStr| |]; try reflexivity. cbn [bind].
      destruct (slice tn 0 (S p)) as [trimmed| |] eqn:Es; try reflexivity. cbn [bind].
      specialize (Hl trimmed eq_refl).
      rewrite (F2_length _ _ _ Hl).
      assert (Hloop : ha_loop (encodeElement H big_other allTypes f) trimmed l1
                    = ha_loop (encodeElement H big_other allTypes f) trimmed l2).
      { apply ha_loop_rel. revert Hl. apply F2_impl. intros a b Hab. apply IH. exact Hab. }
      unfold ha_loop in Hloop. rewrite Hloop. reflexivity.
    - destruct (is_some (tlookup tn allTypes)) eqn:Elk.
      + destruct Hr as [m1 [m2 [-> [-> Hm]]]]. apply hashStruct_rel.
        revert Hm. apply members_rel_impl. intros tn' a b Hab. apply IH. exact Hab.
      + destruct Hr as [tc [z [Hty [S1 S2]]]].
        pose proof (integer_member_exact H big_other allTypes f tn tc v1 z Hty (spelling_read _ _ S1)) as E1.
        pose proof (integer_member_exact H big_other allTypes f tn tc v2 z Hty (spelling_read _ _ S2)) as E2.
        cbn [encodeElement] in E1, E2. rewrite Eend, Elk in E1, E2.
        rewrite E1, E2. reflexivity.
  Qed.

  (* hashStruct of two related struct values, as EncodeTypedDataV4 calls it *)
  Theorem HashStruct_respelled tn m1 m2 :
    members_rel (respelled (fuel_of (GMap m1))) (members_of (tget tn allTypes)) m1 m2 ->
    HashStruct H big_other tn (GMap m1) allTypes = HashStruct H big_other tn (GMap m2) allTypes.
  Proof.
    intros Hm. unfold HashStruct, fuel_of. rewrite <- (members_rel_depth _ _ _ _ Hm).
    apply hashStruct_rel. revert Hm. apply members_rel_impl. intros tn' a b Hab.
    apply respelled_encode. exact Hab.
  Qed.
End Doc.

(* the type set EncodeTypedDataV4 works with: nil -> empty, EIP712Domain added when missing *)
Definition effective_types (types : option typeset) : typeset :=
  let ts := match types with Some ts => ts | None => [] end in
  if is_some (tlookup EIP712Domain ts) then ts else aset EIP712Domain (Some []) ts.

(* Two documents with the same types and primary type whose domain and message differ only by the
   spelling of integers at integer-typed positions have the same digest (or the same error). *)
Theorem EncodeTypedDataV4_respelled H big_other types primary d1 d2 m1 m2 :
  let ts := effective_types types in
  members_rel (respelled ts (fuel_of (GMap d1))) (members_of (tget EIP712Domain ts)) d1 d2 ->
  members_rel (respelled ts (fuel_of (GMap m1))) (members_of (tget primary ts)) m1 m2 ->
  EncodeTypedDataV4 H big_other (Some (mkTD types primary (Some d1) (Some m1))) =
  EncodeTypedDataV4 H big_other (Some (mkTD types primary (Some d2) (Some m2))).
Proof.
  cbv zeta. intros Hd Hm. unfold EncodeTypedDataV4. cbn [td_types td_primary td_domain td_message map_arg].
  fold (effective_types types).
  destruct primary as [|b r]; [reflexivity|].
  rewrite (HashStruct_respelled H big_other _ _ _ _ Hd).
  destruct (HashStruct H big_other EIP712Domain (GMap d2) (effective_types types)); try reflexivity. cbn [bind].
  destruct (negb (bytes_eqb (b :: r) EIP712Domain)); [|reflexivity].
  rewrite (HashStruct_respelled H big_other _ _ _ _ Hm). reflexivity.
Qed.

(* ---------- introduction rules, and a concrete pair of documents (non-vacuity) ---------- *)
Lemma respelled_refl ts f tn v : respelled ts f tn v v.
Proof. destruct f; left; reflexivity. Qed.

Lemma respelled_int ts f tn tc z v1 v2 :
  integer_member_type ts tn tc -> spelling z v1 -> spelling z v2 -> respelled ts (S f) tn v1 v2.
Proof.
  intros Hty S1 S2. right. cbn beta iota. pose proof Hty as [Hend [Hlk _]]. rewrite Hend, Hlk. cbn [is_some].
  exists tc, z. split; [exact Hty|split; assumption].
Qed.

Lemma respelled_struct ts f tn m1 m2 :
  ends_with x5d tn = false -> is_some (tlookup tn ts) = true ->
  members_rel (respelled ts f) (members_of (tget tn ts)) m1 m2 -> respelled ts (S f) tn (GMap m1) (GMap m2).
Proof. intros Hend Hlk Hm. right. cbn beta iota. rewrite Hend, Hlk. exists m1, m2. repeat split; assumption. Qed.

Lemma respelled_array ts f tn p trimmed l1 l2 :
  ends_with x5d tn = true -> last_index_byte x5b tn = Some (S p) -> slice tn 0 (S p) = Ok trimmed ->
  Forall2 (respelled ts f trimmed) l1 l2 -> respelled ts (S f) tn (GSlice l1) (GSlice l2).
Proof.
  intros Hend Hli Hs Hl. right. cbn beta iota. rewrite Hend, Hli. exists l1, l2. repeat split; try reflexivity.
  intros t' Ht'. rewrite Hs in Ht'. injection Ht' as <-. exact Hl.
Qed.

Lemma sp_num' z t : dec_text z = t -> spelling z (GNumber t).
Proof. intros <-. constructor. Qed.
Lemma sp_dec' z t : dec_text z = t -> spelling z (GString t).
Proof. intros <-. constructor. Qed.
Lemma sp_hex' z t : hex_text z = t -> spelling z (GString t).
Proof. intros <-. constructor. Qed.

Definition ex_types : typeset :=
  [(bs "EIP712Domain", Some [Some (mkMember (bs "chainId") (bs "uint256"))]);
   (bs "A", Some [Some (mkMember (bs "x") (bs "int256")); Some (mkMember (bs "ys") (bs "uint8[]")); Some (mkMember (bs "s") (bs "string"))])].
Definition ex_d1 : gmap := [(bs "chainId", GNumber (bs "1"))].
Definition ex_d2 : gmap := [(bs "chainId", GString (bs "0x1"))].
Definition ex_m1 : gmap :=
  [(bs "x", GNumber (bs "9223372036854775808")); (bs "ys", GSlice [GNumber (bs "255"); GString (bs "0")]); (bs "s", GString (bs "12"))].
Definition ex_m2 : gmap :=
  [(bs "x", GString (bs "0x8000000000000000")); (bs "ys", GSlice [GString (bs "0xff"); GNumber (bs "0")]); (bs "s", GString (bs "12"))].

Example respelled_documents :
  let ts := effective_types (Some ex_types) in
  members_rel (respelled ts (fuel_of (GMap ex_d1))) (members_of (tget EIP712Domain ts)) ex_d1 ex_d2 /\
  members_rel (respelled ts (fuel_of (GMap ex_m1))) (members_of (tget (bs "A") ts)) ex_m1 ex_m2 /\
  ex_m1 <> ex_m2.
Proof.
  cbv zeta.
  assert (Ets : effective_types (Some ex_types) = ex_types) by (vm_compute; reflexivity). rewrite Ets.
  assert (T256 : integer_member_type ex_types (bs "uint256") (mkEtc EUInt 256 (bs "256"))) by (repeat split; vm_compute; reflexivity).
  assert (I256 : integer_member_type ex_types (bs "int256") (mkEtc EInt 256 (bs "256"))) by (repeat split; vm_compute; reflexivity).
  assert (U8 : integer_member_type ex_types (bs "uint8") (mkEtc EUInt 8 (bs "8"))) by (repeat split; vm_compute; reflexivity).
  split; [|split].
  - constructor; [|constructor]. split; [reflexivity|]. split; [reflexivity|].
    intros tm Hin _. replace (fuel_of (GMap ex_d1)) with 2%nat by reflexivity.
    destruct Hin as [E|[]]. injection E as <-. cbn [m_type fst snd].
    apply (respelled_int _ _ _ _ 1 _ _ T256); [apply sp_num'|apply sp_hex']; vm_compute; reflexivity.
  - replace (fuel_of (GMap ex_m1)) with 3%nat by reflexivity.
    constructor; [|constructor; [|constructor; [|constructor]]].
    + split; [reflexivity|]. split; [reflexivity|]. intros tm Hin Hn. cbn [fst snd] in *.
      destruct Hin as [E|[E|[E|[]]]]; injection E as <-; try (exfalso; revert Hn; vm_compute; discriminate).
      apply (respelled_int _ _ _ _ (2 ^ 63) _ _ I256); [apply sp_num'|apply sp_hex']; vm_compute; reflexivity.
    + split; [reflexivity|]. split; [reflexivity|]. intros tm Hin Hn. cbn [fst snd] in *.
      destruct Hin as [E|[E|[E|[]]]]; injection E as <-; try (exfalso; revert Hn; vm_compute; discriminate).
      apply (respelled_array _ _ _ 4 (bs "uint8")); try (vm_compute; reflexivity).
      constructor; [|constructor; [|constructor]].
      * apply (respelled_int _ _ _ _ 255 _ _ U8); [apply sp_num'|apply sp_hex']; vm_compute; reflexivity.
      * apply (respelled_int _ _ _ _ 0 _ _ U8); [apply sp_dec'|apply sp_num']; vm_compute; reflexivity.
    + split; [reflexivity|]. split; [reflexivity|]. intros tm Hin Hn. apply respelled_refl.
  - discriminate.
Qed.
