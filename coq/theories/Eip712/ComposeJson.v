(* C04 composed with C14 — the digest theorem for documents given as JSON text-level values.
   ProofsMain.digest_is_spec reads atomic values "through the documented coercions"
   (Repr.repr_atomic: whatever integer Numeric.integer_of_gval returns, whatever bytes
   Coerce.get_bytes returns).  Here the reading is replaced by what the TEXT denotes:
     * an integer member holds a JSON number or string in ANY exact spelling of the integer z
       (C14's relation [spelling]: canonical decimal / 0x-hex, or any text of the decimal / hex /
       scientific grammars denoting z with an exponent math/big expands — 1e18, 100.0, "+0x1F");
     * an address / bytes / bytes<M> member holds a string of hex digit pairs, optionally after "0x",
       denoting the bytes ([hex_denotes], defined here from the digit values, and proved to be
       EXACTLY what get_bytes accepts: get_bytes_exact);
     * bool and string members as before (a JSON boolean or a string compared with "true" ignoring
       case; the string itself).
   [represents_json] mentions neither the math/big oracle nor any function of Numeric.v / Coerce.v
   besides the big-endian value of an address.  Composition: repr_json -> Repr.repr by
   SpellingDocProofs.spelling_read (C14) and hex_denotes_read, then ProofsMain.digest_is_spec.

   Second part, the converse direction (rejection): [doc_reaches] follows the document from the
   domain / message through struct members and array elements as encodeElement does; if it reaches a
   position of integer type holding a numeric text that denotes no integer in range of the type (a
   fraction, m*10^e that is not integral, a value outside int<M>/uint<M>), the document is refused —
   EncodeTypedDataV4 returns an error — whatever the rest of the document is (C14_inexact_rejected
   lifted from one element to the document). *)
From Coq Require Import String.
From Coq Require Import List NArith ZArith Bool Arith Lia.
From Coq Require Import ZifyN ZifyNat ZifyBool.
From Coq Require Import Init.Byte.
From FFS Require Import Base.Res Base.Bytes Abi.Spec.
From FFS Require Import Eip712.Util Eip712.Input Eip712.Numeric Eip712.Coerce Eip712.Model Eip712.Spec Eip712.Repr.
From FFS Require Import Eip712.ProofsMain.
From FFS Require Import Eip712.TotalProofsInput Eip712.TotalProofs Eip712.NumericProofs Eip712.SpellingProofs
                        Eip712.ExactSpellingProofs Eip712.SpellingDocProofs.
Import ListNotations.

(* ---------------------------------------------------------------------------------------------- *)
(* hex text -> bytes, from the digit values                                                        *)

(* c is the hex digit of value v: '0'..'9', 'a'..'f' or 'A'..'F' *)
Definition hex_digit (c : byte) (v : N) : Prop :=
  ((v < 10)%N /\ b2n c = (48 + v)%N) \/
  ((10 <= v < 16)%N /\ (b2n c = (87 + v)%N \/ b2n c = (55 + v)%N)).

(* two digits per byte, high nibble first *)
Inductive hex_pairs : bytes -> bytes -> Prop :=
| hp_nil : hex_pairs [] []
| hp_cons a b x y s t :
    hex_digit a x -> hex_digit b y -> hex_pairs s t -> hex_pairs (a :: b :: s) (n2b (x * 16 + y) :: t).

(* the text of a bytes / address value: digit pairs, optionally after a lower-case "0x" *)
Definition hex_denotes (s b : bytes) : Prop :=
  hex_pairs s b \/ exists s', s = x30 :: x78 :: s' /\ hex_pairs s' b.

Lemma hexv_iff c v : hexv c = Some v <-> hex_digit c v.
Proof.
  unfold hexv, hex_digit. pose proof (b2n_lt c) as Hlt. set (k := b2n c) in *.
  destruct ((48 <=? k) && (k <=? 57))%N eqn:E1;
    [|destruct ((97 <=? k) && (k <=? 102))%N eqn:E2; [|destruct ((65 <=? k) && (k <=? 70))%N eqn:E3]].
  all: split; [intros Hq; try discriminate; injection Hq as <-; lia
              | intros Hd; first [f_equal; lia | exfalso; lia]].
Qed.

Lemma hex_pairs_decode s b : hex_pairs s b -> hex_decode s = Some b.
Proof.
  induction 1 as [|a c x y s t Ha Hc _ IH]; [reflexivity|]. cbn [hex_decode].
  rewrite (proj2 (hexv_iff _ _) Ha), (proj2 (hexv_iff _ _) Hc), IH. reflexivity.
Qed.

Lemma hex_decode_pairs : forall n s b, (length s <= n)%nat -> hex_decode s = Some b -> hex_pairs s b.
Proof.
  induction n as [|n IH]; intros s b Hl Hd.
  - destruct s; [|simpl in Hl; lia]. injection Hd as <-. constructor.
  - destruct s as [|a [|c r]]; cbn [hex_decode] in Hd; [injection Hd as <-; constructor|discriminate|].
    destruct (hexv a) as [x|] eqn:Ea; [|discriminate].
    destruct (hexv c) as [y|] eqn:Ec; [|discriminate].
    destruct (hex_decode r) as [t|] eqn:Er; [|discriminate].
    injection Hd as <-. constructor; [apply hexv_iff; exact Ea|apply hexv_iff; exact Ec|].
    apply IH; [simpl in Hl; lia|exact Er].
Qed.

Lemma hex_pairs_iff s b : hex_pairs s b <-> hex_decode s = Some b.
Proof. split; [apply hex_pairs_decode|apply (hex_decode_pairs (length s)); lia]. Qed.

(* 'x' is no hex digit *)
Lemma x78_no_digit v : ~ hex_digit x78 v.
Proof. unfold hex_digit. change (b2n x78) with 120%N. lia. Qed.

(* get_bytes accepts exactly the texts that denote bytes, and returns the denoted bytes *)
Theorem get_bytes_exact s b : get_bytes (GString s) = Ok b <-> hex_denotes s b.
Proof.
  unfold get_bytes, hex_denotes, trim_0x. split.
  - intros Hg.
    assert (Hd : hex_decode (match s with
                             | a :: c :: r => if byte_eqb a x30 && byte_eqb c x78 then r else s
                             | _ => s end) = Some b).
    { destruct (hex_decode _) as [b'|]; [injection Hg as <-; reflexivity|discriminate]. }
    clear Hg. destruct s as [|a [|c r]]; try (left; apply hex_pairs_iff; exact Hd).
    destruct (byte_eqb_spec a x30) as [->|Na]; cbn [andb] in Hd; [|left; apply hex_pairs_iff; exact Hd].
    destruct (byte_eqb_spec c x78) as [->|Nc]; [|left; apply hex_pairs_iff; exact Hd].
    right. exists r. split; [reflexivity|apply hex_pairs_iff; exact Hd].
  - intros [Hp|[s' [-> Hp]]].
    + assert (Et : match s with
                   | a :: c :: r => if byte_eqb a x30 && byte_eqb c x78 then r else s
                   | _ => s end = s).
      { destruct s as [|a [|c r]]; try reflexivity.
        destruct (byte_eqb_spec c x78) as [->|Nc]; [|rewrite andb_false_r; reflexivity].
        exfalso. inversion Hp; subst. eapply x78_no_digit; eassumption. }
      rewrite Et, (hex_pairs_decode _ _ Hp). reflexivity.
    + change (byte_eqb x30 x30 && byte_eqb x78 x78) with true. cbv iota.
      rewrite (hex_pairs_decode _ _ Hp). reflexivity.
Qed.

Corollary hex_denotes_read s b : hex_denotes s b -> get_bytes (GString s) = Ok b.
Proof. apply get_bytes_exact. Qed.

(* a text denotes at most one byte string *)
Corollary hex_denotes_unique s b b' : hex_denotes s b -> hex_denotes s b' -> b = b'.
Proof. intros H1 H2. apply get_bytes_exact in H1, H2. congruence. Qed.

(* ---------------------------------------------------------------------------------------------- *)
(* a Go-level document whose atomic values are read at the level of their text                      *)

Section ValuesJson.
  Variable sts : types.

  Definition repr_atomic_json (a : atomic) (g : gval) (v : value) : Prop :=
    match a with
    | AUint _ | AInt _ => exists z, spelling z g /\ v = VInt z
    | ABool => (exists b, g = GBool b /\ v = VBool b) \/
               (exists s, g = GString s /\ v = VBool (equal_fold_true s))
    | AAddress => exists s b, g = GString s /\ hex_denotes s b /\ v = VInt (of_beZ b)
    | ABytesN _ | ABytes => exists s b, g = GString s /\ hex_denotes s b /\ v = VBytes b
    | AString => exists s, g = GString s /\ v = VBytes s
    end.

  Inductive repr_json : mty -> gval -> value -> Prop :=
  | RJ_atomic a g v : repr_atomic_json a g v -> repr_json (Atomic a) g v
  | RJ_none n : repr_json (Struct n) GNil VNone
  | RJ_struct n m def vs :
      assoc n sts = Some def -> repr_members_json def m vs -> repr_json (Struct n) (GMap m) (VStruct vs)
  | RJ_arr t k gs vs : repr_elems_json t gs vs -> repr_json (Arr t k) (GSlice gs) (VArr vs)
  with repr_members_json : structdef -> gmap -> list value -> Prop :=
  | RJM_nil m : repr_members_json [] m []
  | RJM_cons sm ms m v vs :
      repr_json (sm_ty sm) (glookup (sm_name sm) m) v -> repr_members_json ms m vs ->
      repr_members_json (sm :: ms) m (v :: vs)
  with repr_elems_json : mty -> list gval -> list value -> Prop :=
  | RJE_nil t : repr_elems_json t [] []
  | RJE_cons t g gs v vs : repr_json t g v -> repr_elems_json t gs vs -> repr_elems_json t (g :: gs) (v :: vs).

  Scheme repr_json_mut := Induction for repr_json Sort Prop
  with repr_members_json_mut := Induction for repr_members_json Sort Prop
  with repr_elems_json_mut := Induction for repr_elems_json Sort Prop.
  Combined Scheme repr_json_mutind from repr_json_mut, repr_members_json_mut, repr_elems_json_mut.

  (* what the text denotes is what the coercions read (C14 for integers, get_bytes_exact for hex) *)
  Lemma repr_atomic_json_repr big_other a g v : repr_atomic_json a g v -> repr_atomic big_other a g v.
  Proof.
    destruct a; cbn [repr_atomic_json repr_atomic].
    - intros (z & Hs & ->). exists z. split; [apply spelling_read; exact Hs|reflexivity].
    - intros (z & Hs & ->). exists z. split; [apply spelling_read; exact Hs|reflexivity].
    - intros [(b & -> & ->)|(s & -> & ->)].
      + exists (if b then 1 else 0)%Z. split; [reflexivity|]. destruct b; reflexivity.
      + exists (if equal_fold_true s then 1 else 0)%Z. split; [reflexivity|]. destruct (equal_fold_true s); reflexivity.
    - intros (s & b & -> & Hh & ->). exists b. split; [apply hex_denotes_read; exact Hh|reflexivity].
    - intros (s & b & -> & Hh & ->). exists b. split; [apply hex_denotes_read; exact Hh|reflexivity].
    - intros (s & b & -> & Hh & ->). exists b. split; [apply hex_denotes_read; exact Hh|reflexivity].
    - intros (s & -> & ->). exists s. split; reflexivity.
  Qed.

  Lemma repr_json_repr_all big_other :
    (forall t g v, repr_json t g v -> repr big_other sts t g v) /\
    (forall def m vs, repr_members_json def m vs -> repr_members big_other sts def m vs) /\
    (forall t gs vs, repr_elems_json t gs vs -> repr_elems big_other sts t gs vs).
  Proof.
    apply repr_json_mutind; intros; try (econstructor; eauto; fail).
    constructor. apply repr_atomic_json_repr. assumption.
  Qed.

  Lemma repr_json_repr big_other t g v : repr_json t g v -> repr big_other sts t g v.
  Proof. apply (proj1 (repr_json_repr_all big_other)). Qed.
End ValuesJson.

(* the document: as Repr.represents, with the text-level reading of the values *)
Definition represents_json (td : typed_data) (d : doc) : Prop :=
  repr_types (with_domain_type (td_types td)) (d_types d) /\
  td_primary td = d_primary d /\
  repr_json (d_types d) (Struct domain_name)
            (GMap (match td_domain td with Some m => m | None => [] end)) (d_domain d) /\
  (bytes_eqb (d_primary d) domain_name = true \/
   repr_json (d_types d) (Struct (d_primary d))
             (match td_message td with Some m => GMap m | None => GNil end) (d_message d)).

Lemma represents_json_represents big_other td d : represents_json td d -> represents big_other td d.
Proof.
  intros (Ht & Hp & Hd & Hm). split; [exact Ht|]. split; [exact Hp|].
  split; [apply repr_json_repr; exact Hd|].
  destruct Hm as [Hm|Hm]; [left; exact Hm|right; apply repr_json_repr; exact Hm].
Qed.

(* The digest of a document given as JSON text-level values is the specification digest of the typed
   values its texts denote — for every hash function and whatever math/big answers outside the
   grammars. *)
Theorem digest_is_spec_from_json H big_other td d :
  represents_json td d -> wf_doc d -> types_dims_fit (d_types d) ->
  EncodeTypedDataV4 H big_other (Some td) = Ok (digest H d).
Proof.
  intros Hr Hwf Hdims. apply digest_is_spec; [apply represents_json_represents; exact Hr|exact Hwf|exact Hdims].
Qed.

(* ---------------------------------------------------------------------------------------------- *)
(* rejection: an integer position holding a text that denotes no integer in range                   *)

Section Reject.
  Variable H : bytes -> bytes.
  Variable big_other : bytes -> option Z.
  Variable allTypes : typeset.

  (* [reaches f tn v f' tn' v']: evaluating encodeElement f tn v evaluates encodeElement f' tn' v'
     (unless an error occurs before) — through array elements and struct members, exactly as
     encodeElement / hashArray / hashStruct / encodeData descend *)
  Inductive reaches : nat -> bytes -> gval -> nat -> bytes -> gval -> Prop :=
  | rc_here f tn v : reaches f tn v f tn v
  | rc_elem f tn p trimmed va ve f' tn' v' :
      ends_with x5d tn = true -> last_index_byte x5b tn = Some (S p) -> slice tn 0 (S p) = Ok trimmed ->
      In ve va -> reaches f trimmed ve f' tn' v' ->
      reaches (S f) tn (GSlice va) f' tn' v'
  | rc_member f tn m tm f' tn' v' :
      ends_with x5d tn = false -> is_some (tlookup tn allTypes) = true ->
      In (Some tm) (members_of (tget tn allTypes)) ->
      reaches f (m_type tm) (glookup (m_name tm) m) f' tn' v' ->
      reaches (S f) tn (GMap m) f' tn' v'.

  Lemma ed_loop_ok_in enc m t body :
    ed_loop enc m t = Ok body -> forall tm, In (Some tm) t -> exists w, enc (m_type tm) (glookup (m_name tm) m) = Ok w.
  Proof.
    revert body. induction t as [|[tm0|] r IH]; intros body Hb tm Hin; [destruct Hin| |simpl in Hb; discriminate].
    simpl in Hb. destruct (enc (m_type tm0) (glookup (m_name tm0) m)) as [w| |] eqn:E; cbn [bind] in Hb; try discriminate.
    destruct (ed_loop enc m r) as [rest| |] eqn:Er; cbn [bind] in Hb; try discriminate.
    destruct Hin as [Hq|Hin]; [injection Hq as <-; eauto|]. eapply IH; eauto.
  Qed.

  Lemma ha_loop_ok_in enc trimmed l buf :
    ha_loop enc trimmed l = Ok buf -> forall ve, In ve l -> exists w, enc trimmed ve = Ok w.
  Proof.
    revert buf. induction l as [|x r IH]; intros buf Hb ve Hin; [destruct Hin|].
    simpl in Hb. destruct (enc trimmed x) as [w| |] eqn:E; cbn [bind] in Hb; try discriminate.
    destruct (ha_loop enc trimmed r) as [rest| |] eqn:Er; cbn [bind] in Hb; try discriminate.
    destruct Hin as [<-|Hin]; [eauto|]. eapply IH; eauto.
  Qed.

  (* a struct value that hashes has had every member encoded *)
  Lemma hashStruct_ok_member enc tn m w :
    Model.hashStruct H big_other allTypes enc tn (GMap m) = Ok w ->
    forall tm, In (Some tm) (members_of (tget tn allTypes)) ->
    exists w', enc (m_type tm) (glookup (m_name tm) m) = Ok w'.
  Proof.
    unfold Model.hashStruct, Model.encodeData, Model.encodeType. intros Hw tm Hin.
    destruct (tget tn allTypes) as [t|] eqn:Et; [|destruct Hin]. cbn [members_of] in Hin.
    destruct (addNestedTypes (S (length allTypes)) tn allTypes []) as [d| |]; cbn [bind] in Hw; try discriminate.
    destruct (TypeSet_Encode d tn) as [te| |]; cbn [bind] in Hw; try discriminate.
    change (fix loop (ms : gtype) : res bytes :=
              match ms with
              | [] => Ok []
              | None :: _ => Err ENullTypeMember
              | Some tm :: r => do b <- enc (m_type tm) (glookup (m_name tm) m); do rest <- loop r; Ok (b ++ rest)
              end) with (ed_loop enc m) in Hw.
    destruct (ed_loop enc m t) as [body| |] eqn:Eb; cbn [bind] in Hw; try discriminate.
    eapply ed_loop_ok_in; eauto.
  Qed.

  Theorem reaches_ok f tn v f' tn' v' :
    reaches f tn v f' tn' v' ->
    forall w, encodeElement H big_other allTypes f tn v = Ok w ->
    exists w', encodeElement H big_other allTypes f' tn' v' = Ok w'.
  Proof.
    induction 1 as [f tn v | f tn p trimmed va ve f' tn' v' Hend Hli Hs Hin _ IH
                    | f tn m tm f' tn' v' Hend Hlk Hin _ IH]; intros w Hw.
    - eauto.
    - cbn [encodeElement] in Hw. rewrite Hend in Hw. unfold hashArray in Hw. cbv zeta in Hw. rewrite Hli in Hw.
      destruct (index tn (length tn - 1)) as [lastb| |]; cbn [bind] in Hw; try discriminate.
      destruct (negb (byte_eqb lastb x5d)); [discriminate|].
      destruct (slice tn (S p + 1) (length tn - 1)) as [dimStr| |]; cbn [bind] in Hw; try discriminate.
      rewrite Hs in Hw. cbn [bind] in Hw.
      match type of Hw with (do _ <- ?c; _) = _ => destruct c as [[]| |] end; cbn [bind] in Hw; try discriminate.
      change (fix loop (l : list gval) : res bytes :=
                match l with
                | [] => Ok []
                | ve :: r => do b <- encodeElement H big_other allTypes f trimmed ve; do rest <- loop r; Ok (b ++ rest)
                end) with (ha_loop (encodeElement H big_other allTypes f) trimmed) in Hw.
      destruct (ha_loop (encodeElement H big_other allTypes f) trimmed va) as [buf| |] eqn:Eb; cbn [bind] in Hw; try discriminate.
      destruct (ha_loop_ok_in _ _ _ _ Eb ve Hin) as [w1 Hw1]. eapply IH; eauto.
    - cbn [encodeElement] in Hw. rewrite Hend, Hlk in Hw.
      destruct (hashStruct_ok_member _ _ _ _ Hw tm Hin) as [w1 Hw1]. eapply IH; eauto.
  Qed.
End Reject.

(* positions of a whole document: from a member of the domain, or (when the primary type is not the
   domain type) from a member of the message, with the type set and the fuel EncodeTypedDataV4 uses *)
Definition doc_reaches (td : typed_data) (f' : nat) (tn' : bytes) (v' : gval) : Prop :=
  let ts := effective_types (td_types td) in
  let dom := match td_domain td with Some m => m | None => [] end in
  (exists tm, In (Some tm) (members_of (tget EIP712Domain ts)) /\
              reaches ts (fuel_of (GMap dom)) (m_type tm) (glookup (m_name tm) dom) f' tn' v') \/
  (bytes_eqb (td_primary td) EIP712Domain = false /\
   exists msg tm, td_message td = Some msg /\ In (Some tm) (members_of (tget (td_primary td) ts)) /\
                  reaches ts (fuel_of (GMap msg)) (m_type tm) (glookup (m_name tm) msg) f' tn' v').

(* a numeric text that is not an exact spelling of an integer in range of the member's type *)
Definition no_integer_in_range (tc : etc) (t : bytes) : Prop :=
  classify t <> COther /\
  forall z, text_denotes t z -> in_range (is_signed (e_base tc)) (e_m tc) z = false.

Lemma doc_reaches_ok H big_other td f' tn' v' dg :
  doc_reaches td f' tn' v' -> EncodeTypedDataV4 H big_other (Some td) = Ok dg ->
  exists w', encodeElement H big_other (effective_types (td_types td)) f' tn' v' = Ok w'.
Proof.
  intros Hreach E.
  unfold EncodeTypedDataV4 in E. cbv zeta in E. fold (effective_types (td_types td)) in E.
  set (ts := effective_types (td_types td)) in *.
  destruct (td_primary td) as [|pb pr] eqn:Ep; [discriminate|].
  unfold HashStruct, fuel_of in E.
  match type of E with (do _ <- ?c; _) = _ => destruct c as [dh| |] eqn:Ed end; cbn [bind] in E; try discriminate.
  destruct Hreach as [(tm & Hin & Hr)|(Hne & msg & tm & Em & Hin & Hr)].
  - destruct (hashStruct_ok_member H big_other ts _ _ _ _ Ed tm Hin) as [w1 Hw1].
    exact (reaches_ok H big_other ts _ _ _ _ _ _ Hr w1 Hw1).
  - rewrite Ep in Hne, Hin. rewrite Hne in E. cbn [negb] in E. rewrite Em in E. cbn [map_arg] in E.
    match type of E with (do _ <- ?c; _) = _ => destruct c as [mh| |] eqn:Eh end; cbn [bind] in E; try discriminate.
    destruct (hashStruct_ok_member H big_other ts _ _ _ _ Eh tm Hin) as [w1 Hw1].
    exact (reaches_ok H big_other ts _ _ _ _ _ _ Hr w1 Hw1).
Qed.

Theorem rejects_inexact_from_json H big_other td f' tn' tc t v' :
  doc_reaches td f' tn' v' -> (v' = GNumber t \/ v' = GString t) ->
  integer_member_type (effective_types (td_types td)) tn' tc ->
  no_integer_in_range tc t ->
  exists e, EncodeTypedDataV4 H big_other (Some td) = Err e.
Proof.
  intros Hreach Hv Hty [Hc Hno].
  destruct (EncodeTypedDataV4 H big_other (Some td)) as [dg|e|] eqn:E; [exfalso|eauto|].
  2:{ exfalso. exact (EncodeTypedDataV4_total H big_other (Some td) E). }
  destruct (doc_reaches_ok H big_other td f' tn' v' dg Hreach E) as [w' Hw'].
  destruct f' as [|f'']; [discriminate|].
  destruct (integer_member_sound H big_other _ f'' tn' tc v' w' Hty Hw') as (z & Hz & Hr & _).
  assert (Hd : text_denotes t z).
  { destruct Hv as [-> | ->]; exact (BigIntegerFromString_sound big_other t z Hc Hz). }
  rewrite (Hno z Hd) in Hr. discriminate.
Qed.

(* the same for hex text: a position of type address / bytes / bytes<M> holding anything but a string
   of hex digit pairs (optionally after "0x") makes the document an error *)
Definition hex_member_type (allTypes : typeset) (tn : bytes) (tc : etc) : Prop :=
  ends_with x5d tn = false /\ tlookup tn allTypes = None /\
  abi_elementary_type tn = Ok tc /\ (e_base tc = EAddress \/ e_base tc = EBytes).

Lemma hex_member_sound H big_other allTypes fuel tn tc v w :
  hex_member_type allTypes tn tc ->
  encodeElement H big_other allTypes (S fuel) tn v = Ok w -> exists b, get_bytes v = Ok b.
Proof.
  intros (Hend & Hlk & Htc & Hb) Hw. cbn [encodeElement] in Hw. rewrite Hend, Hlk in Hw. cbn [is_some] in Hw.
  rewrite Htc in Hw. cbn [bind] in Hw.
  destruct Hb as [Hb|Hb]; rewrite Hb in Hw.
  - unfold abi_encode in Hw. rewrite Hb in Hw. destruct (get_bytes v) as [b| |]; [eauto|discriminate|discriminate].
  - destruct (e_suffix tc) as [|sb sr].
    + destruct (get_bytes v) as [b| |]; [eauto|discriminate|discriminate].
    + unfold abi_encode in Hw. rewrite Hb in Hw. destruct (get_bytes v) as [b| |]; [eauto|discriminate|discriminate].
Qed.

Theorem rejects_bad_hex_from_json H big_other td f' tn' tc v' :
  doc_reaches td f' tn' v' ->
  hex_member_type (effective_types (td_types td)) tn' tc ->
  (forall s b, v' = GString s -> ~ hex_denotes s b) ->
  exists e, EncodeTypedDataV4 H big_other (Some td) = Err e.
Proof.
  intros Hreach Hty Hno.
  destruct (EncodeTypedDataV4 H big_other (Some td)) as [dg|e|] eqn:E; [exfalso|eauto|].
  2:{ exfalso. exact (EncodeTypedDataV4_total H big_other (Some td) E). }
  destruct (doc_reaches_ok H big_other td f' tn' v' dg Hreach E) as [w' Hw'].
  destruct f' as [|f'']; [discriminate|].
  destruct (hex_member_sound H big_other _ f'' tn' tc v' w' Hty Hw') as [b Hb].
  destruct v' as [|bb|tt|s|ll|mm]; try discriminate.
  apply (Hno s b eq_refl). apply get_bytes_exact. exact Hb.
Qed.
