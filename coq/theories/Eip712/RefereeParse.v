(* C04 — answer to the referee report (design/reviews/C04.md), issue I1, second half: the executable
   reader [parse_doc] is COMPLETE on canonical renderings.  For every well-formed specification document
   d (with the two guards of RefereeComplete.v), parse_doc reads [render_doc d] back as d itself — the
   types, the primary type, the domain value and the message value (a domain-only document carries no
   message: parse_doc returns VNone for it).  Together with ProofsParse.parse_doc_represents (soundness)
   this makes the functional form C04_digest_is_spec_parse cover every such document. *)
From Coq Require Import String.
From Coq Require Import List NArith ZArith Bool Arith Lia Permutation.
From Coq Require Import Init.Byte.
From FFS Require Import Base.Res Base.Bytes Abi.Spec.
From FFS Require Import Eip712.Util Eip712.Input Eip712.Numeric Eip712.Coerce Eip712.Model Eip712.Spec Eip712.Repr Eip712.Parse.
From FFS Require Import Eip712.ProofsUtil Eip712.ProofsNames Eip712.ProofsDeps Eip712.ProofsMain Eip712.ProofsParse.
From FFS Require Import Eip712.TotalProofsFuel.
From FFS Require Import Eip712.ComposeJson Eip712.RefereeAbi Eip712.RefereeComplete.
Import ListNotations.

(* ---------- atomic type names parse back ---------- *)
Definition atomic_eqb (a b : atomic) : bool :=
  match a, b with
  | AUint m, AUint n | AInt m, AInt n | ABytesN m, ABytesN n => (m =? n)%N
  | ABool, ABool | AAddress, AAddress | ABytes, ABytes | AString, AString => true
  | _, _ => false
  end.
Lemma atomic_eqb_eq a b : atomic_eqb a b = true -> a = b.
Proof. destruct a, b; simpl; try discriminate; try reflexivity; intros E; apply N.eqb_eq in E; subst; reflexivity. Qed.

Definition atomic_parses (a : atomic) : bool :=
  match parse_atomic (atomic_name a) with Some a' => atomic_eqb a' a | None => false end.
Lemma wf_atomics_parse : forallb atomic_parses wf_atomics = true.
Proof. vm_compute. reflexivity. Qed.
Lemma parse_atomic_name a : wf_atomic a = true -> parse_atomic (atomic_name a) = Some a.
Proof.
  intros Hw. apply wf_atomic_In in Hw. pose proof wf_atomics_parse as Hall. rewrite forallb_forall in Hall.
  specialize (Hall a Hw). unfold atomic_parses in Hall.
  destruct (parse_atomic (atomic_name a)) as [a'|]; [|discriminate]. apply atomic_eqb_eq in Hall. subst. reflexivity.
Qed.

(* ---------- array type names split back ---------- *)
Lemma lacks_nil c : lacks c [].
Proof. intros x []. Qed.

Lemma split_array_build p dim : lacks x5b dim -> split_array (p ++ x5b :: dim ++ [x5d]) = Some (p, dim).
Proof.
  intros Hl. unfold split_array.
  assert (Hend : ends_with x5d (p ++ x5b :: dim ++ [x5d]) = true).
  { replace (p ++ x5b :: dim ++ [x5d]) with ((p ++ x5b :: dim) ++ [x5d]) by (rewrite <- app_assoc; reflexivity).
    apply ends_with_app. }
  rewrite Hend.
  assert (Hl2 : lacks x5b (dim ++ [x5d])).
  { apply lacks_app; [exact Hl|]. apply lacksb_lacks. reflexivity. }
  rewrite (last_index_byte_app x5b p (dim ++ [x5d]) Hl2).
  assert (E1 : firstn (length p) (p ++ x5b :: dim ++ [x5d]) = p).
  { rewrite firstn_app, Nat.sub_diag, firstn_all. simpl. apply app_nil_r. }
  assert (E2 : skipn (S (length p)) (p ++ x5b :: dim ++ [x5d]) = dim ++ [x5d]).
  { replace (p ++ x5b :: dim ++ [x5d]) with ((p ++ [x5b]) ++ dim ++ [x5d]) by (rewrite <- app_assoc; reflexivity).
    replace (S (length p)) with (length (p ++ [x5b])) by (rewrite app_length; simpl; lia).
    apply skipn_prefix. }
  assert (E3 : (length (p ++ x5b :: dim ++ [x5d]) - length p - 2 = length dim)%nat).
  { rewrite app_length. simpl. rewrite app_length. simpl. lia. }
  rewrite E1, E2, E3.
  rewrite firstn_app, Nat.sub_diag, firstn_all. simpl firstn. rewrite app_nil_r.
  rewrite bytes_eqb_refl. reflexivity.
Qed.

(* ---------- type names parse back ---------- *)
Section Names.
  Variable names : list bytes.
  Hypothesis Hnames : forall a, wf_atomic a = true -> bmem (atomic_name a) names = false.

  Fixpoint tyok (t : mty) : Prop :=
    match t with
    | Atomic a => wf_atomic a = true
    | Struct n => In n names /\ wf_name n = true
    | Arr t' _ => tyok t'
    end.

  Lemma parse_ty_name : forall t fuel, (length (ty_name t) < fuel)%nat -> tyok t ->
    parse_ty fuel names (ty_name t) = Some t.
  Proof.
    induction t as [a|n|t IH k]; intros fuel Hf Hok; (destruct fuel as [|f]; [lia|]).
    - cbn [parse_ty ty_name]. rewrite (ends_with_nobr _ (atomic_name_nobr a)).
      rewrite (Hnames a Hok). rewrite (parse_atomic_name a Hok). reflexivity.
    - cbn [parse_ty ty_name]. destruct Hok as [Hin Hwn].
      rewrite (ends_with_nobr _ (proj1 (wf_name_nobr n Hwn))).
      rewrite (proj2 (bmem_In n names) Hin). reflexivity.
    - cbn [parse_ty]. rewrite ends_with_arr. rewrite ty_name_arr in *. rewrite suffix_dim in *.
      assert (Hl : lacks x5b (dim_str k)).
      { destruct k as [n|]; [apply dec_lacks; reflexivity|apply lacks_nil]. }
      rewrite (split_array_build _ _ Hl).
      assert (Hlen : (length (ty_name t) < f)%nat).
      { rewrite app_length in Hf. simpl in Hf. lia. }
      cbn [tyok] in Hok. rewrite (IH f Hlen Hok).
      destruct k as [n|]; cbn [dim_str]; [|reflexivity].
      destruct (dec n) as [|b l] eqn:E; [exfalso; eapply dec_nonempty; exact E|]. rewrite <- E.
      unfold canon_dec. rewrite undec_dec, bytes_eqb_refl. reflexivity.
  Qed.

  Lemma parse_members_render def : Forall (fun m => tyok (sm_ty m)) def ->
    opt_all (map (parse_member names) (map render_member def)) = Some def.
  Proof.
    induction 1 as [|m def Hm _ IH]; [reflexivity|]. cbn [map opt_all]. unfold render_member at 1, parse_member at 1.
    cbn [m_type m_name]. rewrite (parse_ty_name _ _ (Nat.lt_succ_diag_r _) Hm). rewrite IH. destruct m; reflexivity.
  Qed.
End Names.

Lemma render_types_keys sts : map fst (render_types sts) = keys sts.
Proof. unfold render_types, keys. rewrite map_map. reflexivity. Qed.

Lemma parse_entries_render names :
  (forall a, wf_atomic a = true -> bmem (atomic_name a) names = false) ->
  forall l : types,
    Forall (fun nd : bytes * structdef => Forall (fun m => tyok names (sm_ty m)) (snd nd)) l ->
    opt_all (map (fun nt : bytes * option gtype =>
                    match snd nt with
                    | Some ms => match opt_all (map (parse_member names) ms) with
                                 | Some d => Some (fst nt, d)
                                 | None => None
                                 end
                    | None => None
                    end) (render_types l)) = Some l.
Proof.
  intros Hnames. induction 1 as [|[n def] l Hd _ IH]; [reflexivity|].
  change (render_types ((n, def) :: l)) with ((n, render_def def) :: render_types l).
  cbn [map fst snd opt_all render_def]. cbn [snd] in Hd.
  rewrite (parse_members_render names Hnames def Hd). rewrite IH. reflexivity.
Qed.

Lemma parse_types_render sts : wf_types sts -> parse_types (render_types sts) = Some sts.
Proof.
  intros Hwf. unfold parse_types. rewrite render_types_keys.
  assert (Hnames : forall a, wf_atomic a = true -> bmem (atomic_name a) (keys sts) = false).
  { intros a Hwa. apply bmem_false. intros Hin. destruct Hwf as [_ Hall]. rewrite Forall_forall in Hall.
    apply in_map_iff in Hin as ([k def] & Hk & Hin). cbn [fst] in Hk. subst k.
    destruct (Hall _ Hin) as (_ & Hna & _). exact (Hna a Hwa eq_refl). }
  assert (Hname_ok : forall n, In n (keys sts) -> wf_name n = true).
  { intros n Hin. destruct Hwf as [_ Hall]. rewrite Forall_forall in Hall.
    apply in_map_iff in Hin as ([k def] & Hk & Hin). cbn [fst] in Hk. subst k. apply (Hall _ Hin). }
  assert (Hty : forall t, wf_mty sts t = true -> tyok (keys sts) t).
  { induction t as [a|n|t IH k]; cbn [wf_mty tyok]; auto.
    intros Hb. apply bmem_In in Hb. split; [exact Hb|apply Hname_ok; exact Hb]. }
  apply (parse_entries_render (keys sts) Hnames).
  destruct Hwf as [_ Hall]. eapply Forall_impl; [|exact Hall]. intros [n def] (_ & _ & Hm). cbn [snd] in *.
  eapply Forall_impl; [|exact Hm]. intros m. apply Hty.
Qed.

(* ---------- values parse back ---------- *)
Section Vals.
  Variable big_other : bytes -> option Z.
  Variable sts : types.
  Hypothesis Hdist : members_distinct sts.

  Lemma parse_atomic_render a v : atomic_typed a v = true ->
    parse_atomic_val big_other a (render_atomic a v) = Some v.
  Proof.
    intros Ht. pose proof (repr_atomic_json_repr big_other a _ _ (render_atomic_ok a v Ht)) as Hr.
    destruct a; cbn [repr_atomic] in Hr; cbn [parse_atomic_val].
    all: destruct Hr as (x & Hx & ->); rewrite Hx; reflexivity.
  Qed.

  Definition parses_back (v : value) : Prop :=
    forall t fuel, (Parse.gdepth (render_val sts t v) < fuel)%nat -> well_typed sts t v = true ->
                   parse_val big_other sts fuel t (render_val sts t v) = Some v.

  Lemma depth_glookup k m : (Parse.gdepth (glookup k m) < Parse.gdepth (GMap m))%nat.
  Proof. exact (gdepth_glookup k m). Qed.
  Lemma depth_slice_in g l : In g l -> (Parse.gdepth g < Parse.gdepth (GSlice l))%nat.
  Proof. exact (gdepth_slice_in g l). Qed.

  Lemma parse_members_back f ms : forall l m,
    (forall sm, In sm ms -> glookup (sm_name sm) m = glookup (sm_name sm) (render_members sts ms l)) ->
    NoDup (map sm_name ms) ->
    (Parse.gdepth (GMap m) <= f)%nat ->
    Forall parses_back l ->
    typed_fields sts ms l = true ->
    opt_all (map (fun sm => parse_val big_other sts f (sm_ty sm) (glookup (sm_name sm) m)) ms) = Some l.
  Proof.
    induction ms as [|sm ms IH]; intros [|x l] m He Hnd Hdep HF Ht; cbn [typed_fields] in Ht; try discriminate; [reflexivity|].
    apply andb_prop in Ht as [Hx Hl]. inversion HF as [|? ? Hpx HF']; subst. inversion Hnd as [|? ? Hnin Hnd']; subst.
    cbn [map opt_all].
    assert (Eg : glookup (sm_name sm) m = render_val sts (sm_ty sm) x).
    { rewrite (He sm (or_introl eq_refl)). cbn [render_members]. apply glookup_head. }
    assert (Hd1 : (Parse.gdepth (render_val sts (sm_ty sm) x) < f)%nat).
    { rewrite <- Eg. pose proof (depth_glookup (sm_name sm) m). lia. }
    rewrite Eg. rewrite (Hpx (sm_ty sm) f Hd1 Hx).
    rewrite (IH l m); [reflexivity| |exact Hnd'|exact Hdep|exact HF'|exact Hl].
    intros sm' Hin. rewrite (He sm' (or_intror Hin)). cbn [render_members]. apply glookup_tail.
    intros E. apply Hnin. rewrite <- E. apply in_map. exact Hin.
  Qed.

  Theorem parse_render_val : forall v, parses_back v.
  Proof.
    induction v as [z|b|b| |l IH|l IH] using value_ind'; intros t fuel Hf Ht; (destruct fuel as [|f]; [lia|]).
    1-3: destruct t as [a|n|t' k]; try discriminate Ht; rewrite well_typed_atomic in Ht; rewrite render_val_atomic;
         cbn [parse_val]; apply parse_atomic_render; exact Ht.
    - destruct t as [a|n|t' k]; try discriminate Ht; [destruct a; discriminate Ht|]. reflexivity.
    - destruct t as [a|n|t' k]; try discriminate Ht; [destruct a; discriminate Ht|].
      destruct (assoc n sts) as [def|] eqn:Ed; [|cbn [well_typed] in Ht; rewrite Ed in Ht; discriminate].
      rewrite (well_typed_struct sts n l def Ed) in Ht. rewrite render_val_struct in *. unfold def_of in *. rewrite Ed in *.
      cbn [parse_val]. rewrite Ed.
      rewrite (parse_members_back f def l (render_members sts def l)); [reflexivity| | | |exact IH|exact Ht].
      + intros sm _. reflexivity.
      + apply assoc_In in Ed. unfold members_distinct in Hdist. rewrite Forall_forall in Hdist. apply (Hdist _ Ed).
      + lia.
    - destruct t as [a|n|t' k]; try discriminate Ht; [destruct a; discriminate Ht|].
      cbn [well_typed] in Ht. apply andb_prop in Ht as [Hlen Ht]. cbn [render_val] in *. cbn [parse_val].
      assert (E : opt_all (map (parse_val big_other sts f t') (map (render_val sts t') l)) = Some l).
      { assert (Hd : forall g, In g (map (render_val sts t') l) -> (Parse.gdepth g < f)%nat).
        { intros g Hin. pose proof (depth_slice_in g _ Hin). lia. }
        clear Hf Hlen. induction l as [|x l IHl]; [reflexivity|]. cbn [map opt_all].
        cbn [forallb] in Ht. apply andb_prop in Ht as [Hx Hl]. inversion IH as [|? ? Hpx IH']; subst.
        rewrite (Hpx t' f (Hd _ (or_introl eq_refl)) Hx).
        rewrite (IHl IH' Hl); [reflexivity|]. intros g Hin. apply Hd. right. exact Hin. }
      rewrite E. reflexivity.
  Qed.
End Vals.

(* ---------- documents parse back ---------- *)
Theorem parse_render_doc big_other d :
  wf_doc d -> members_distinct (d_types d) -> d_domain d <> VNone ->
  parse_doc big_other (render_doc d) =
  Some {| d_types := d_types d; d_primary := d_primary d; d_domain := d_domain d;
          d_message := if bytes_eqb (d_primary d) domain_name then VNone else d_message d |}.
Proof.
  intros (Hwf & Hdn & Hp & Hdom & Hmsg) Hdist Hnn. unfold parse_doc, render_doc.
  cbn [td_types td_domain td_message td_primary].
  pose proof (render_types_lookup (d_types d) domain_name) as El. unfold tlookup in El. rewrite El.
  apply assoc_keys in Hdn as (ddef & Hddef). rewrite Hddef. cbn [option_map].
  rewrite (parse_types_render _ Hwf).
  destruct (d_domain d) as [| | | |dl|dl] eqn:Edom; try discriminate Hdom; [contradiction|].
  cbn [render_top]. rewrite <- (render_val_struct (d_types d) domain_name dl).
  rewrite (parse_render_val big_other (d_types d) Hdist (VStruct dl) (Struct domain_name) _ (Nat.lt_lt_succ_r _ _ (Nat.lt_succ_diag_r _)) Hdom).
  destruct (bytes_eqb (d_primary d) domain_name) eqn:Eq; [reflexivity|].
  destruct Hmsg as [Hm|Hm]; [discriminate Hm|].
  destruct (d_message d) as [| | | |ml|ml] eqn:Emsg; try discriminate Hm.
  - reflexivity.
  - cbn [render_top]. rewrite <- (render_val_struct (d_types d) (d_primary d) ml).
    rewrite (parse_render_val big_other (d_types d) Hdist (VStruct ml) (Struct (d_primary d)) _ (Nat.lt_lt_succ_r _ _ (Nat.lt_succ_diag_r _)) Hm).
    reflexivity.
Qed.

(* the reader is complete: a document with a message part is read back as itself *)
Corollary parse_render_doc_same big_other d :
  wf_doc d -> members_distinct (d_types d) -> d_domain d <> VNone ->
  bytes_eqb (d_primary d) domain_name = false ->
  parse_doc big_other (render_doc d) = Some d.
Proof.
  intros Hwf Hdist Hnn Hp. rewrite (parse_render_doc big_other d Hwf Hdist Hnn). rewrite Hp. destruct d; reflexivity.
Qed.
