(* C04 — answer to the referee report (design/reviews/C04.md), issue I1: COMPLETENESS of the
   representation relation.  C04_digest_is_spec(_from_json) speaks about every Go-level document that
   [represents_json] a well-formed specification document; here: every well-formed specification
   document HAS such a Go-level document, given by the function [render_doc] (types rendered to their
   canonical strings; integers as JSON numbers in canonical decimal, addresses / bytes as "0x" + lower
   case hex digit pairs, booleans as JSON booleans, strings as strings, structs as objects keyed by the
   member names, the absent struct as null, arrays as arrays).  So no class of well-formed documents is
   silently outside the digest theorem — except the two that no JSON document can express, which are
   made explicit as guards (and shown necessary):
     [members_distinct]  the members of one struct have distinct names (a JSON object has one value
                         per key);
     [d_domain d <> VNone]  the domain value is a struct value (Spec.wf_doc accepts the absent value at
                         the top-level domain position; EncodeTypedDataV4 replaces a nil domain by the
                         empty object, so no Go document stands for it). *)
From Coq Require Import String.
From Coq Require Import List NArith ZArith Bool Arith Lia Permutation.
From Coq Require Import ZifyN ZifyNat ZifyBool.
From Coq Require Import Init.Byte.
From FFS Require Import Base.Res Base.Bytes Abi.Spec.
From FFS Require Import Eip712.Util Eip712.Input Eip712.Numeric Eip712.Coerce Eip712.Model Eip712.Spec Eip712.Repr.
From FFS Require Import Eip712.ProofsUtil Eip712.ProofsDeps Eip712.ProofsMain Eip712.ProofsParse.
From FFS Require Import Eip712.NumericProofs Eip712.SpellingProofs Eip712.ExactSpellingProofs Eip712.SpellingDocProofs.
From FFS Require Import Eip712.ComposeJson Eip712.RefereeAbi.
Import ListNotations.

(* ---------- hex text of a byte string ---------- *)
Definition hexc (v : N) : byte := n2b (if (v <? 10)%N then 48 + v else 87 + v)%N.
Fixpoint hex_of (b : bytes) : bytes :=
  match b with [] => [] | c :: r => hexc (b2n c / 16) :: hexc (b2n c mod 16) :: hex_of r end.
Definition hex_text_of (b : bytes) : bytes := x30 :: x78 :: hex_of b.

Lemma hexc_digit v : (v < 16)%N -> hex_digit (hexc v) v.
Proof.
  intros Hv. unfold hex_digit, hexc. destruct (N.ltb_spec v 10) as [Hl|Hl]; rewrite b2n_n2b by lia; [left|right]; lia.
Qed.

Lemma hex_of_pairs b : hex_pairs (hex_of b) b.
Proof.
  induction b as [|c r IH]; [constructor|]. cbn [hex_of].
  pose proof (b2n_lt c) as Hlt.
  assert (Hx : hex_digit (hexc (b2n c / 16)) (b2n c / 16)) by (apply hexc_digit; lia).
  assert (Hy : hex_digit (hexc (b2n c mod 16)) (b2n c mod 16)) by (apply hexc_digit; lia).
  pose proof (hp_cons _ _ _ _ _ _ Hx Hy IH) as Hp.
  replace (b2n c / 16 * 16 + b2n c mod 16)%N with (b2n c) in Hp by lia.
  rewrite n2b_b2n in Hp. exact Hp.
Qed.

Lemma hex_text_of_denotes b : hex_denotes (hex_text_of b) b.
Proof. right. exists (hex_of b). split; [reflexivity|apply hex_of_pairs]. Qed.

(* ---------- big-endian value of the 20 address bytes ---------- *)
Lemma of_beZ_app l x : of_beZ (l ++ [x]) = (of_beZ l * 256 + Z.of_N (b2n x))%Z.
Proof. unfold of_beZ. rewrite fold_left_app. reflexivity. Qed.

Lemma of_beZ_fixed k : forall z, (0 <= z)%Z -> of_beZ (be_fixedZ k z) = (z mod 256 ^ Z.of_nat k)%Z.
Proof.
  induction k as [|k IH]; intros z Hz.
  - cbn [be_fixedZ]. change (256 ^ Z.of_nat 0)%Z with 1%Z. rewrite Z.mod_1_r. reflexivity.
  - cbn [be_fixedZ]. rewrite of_beZ_app. rewrite IH by (apply Z.div_pos; lia).
    pose proof (Z.mod_pos_bound z 256 ltac:(lia)) as Hm.
    rewrite b2n_n2b by lia. rewrite Z2N.id by lia.
    rewrite Nat2Z.inj_succ, Z.pow_succ_r by lia.
    rewrite (Z.rem_mul_r z 256 (256 ^ Z.of_nat k)) by (try lia; apply Z.pow_pos_nonneg; lia). lia.
Qed.

Lemma of_beZ_address z : (0 <= z < two 160)%Z -> of_beZ (be_fixedZ 20 z) = z.
Proof.
  intros Hz. rewrite of_beZ_fixed by lia. apply Z.mod_small.
  change (256 ^ Z.of_nat 20)%Z with (two 160). exact Hz.
Qed.

(* ---------- rendering of values ---------- *)
Definition render_atomic (a : atomic) (v : value) : gval :=
  match a, v with
  | AUint _, VInt z | AInt _, VInt z => GNumber (dec_text z)
  | ABool, VBool b => GBool b
  | AAddress, VInt z => GString (hex_text_of (be_fixedZ 20 z))
  | ABytesN _, VBytes b | ABytes, VBytes b => GString (hex_text_of b)
  | AString, VBytes s => GString s
  | _, _ => GNil
  end.

Lemma render_atomic_ok a v : atomic_typed a v = true -> repr_atomic_json a (render_atomic a v) v.
Proof.
  destruct a, v; cbn [atomic_typed render_atomic repr_atomic_json]; try discriminate; intros Ht.
  - exists z. split; [constructor|reflexivity].
  - exists z. split; [constructor|reflexivity].
  - left. exists b. split; reflexivity.
  - exists (hex_text_of (be_fixedZ 20 z)), (be_fixedZ 20 z). split; [reflexivity|]. split; [apply hex_text_of_denotes|].
    rewrite of_beZ_address by lia. reflexivity.
  - exists (hex_text_of b), b. split; [reflexivity|]. split; [apply hex_text_of_denotes|reflexivity].
  - exists (hex_text_of b), b. split; [reflexivity|]. split; [apply hex_text_of_denotes|reflexivity].
  - exists b. split; reflexivity.
Qed.

Section Render.
  Variable sts : types.

  Fixpoint render_val (t : mty) (v : value) {struct v} : gval :=
    match t, v with
    | Atomic a, _ => render_atomic a v
    | Struct n, VStruct l =>
        GMap ((fix go (ms : list smember) (l : list value) {struct l} : gmap :=
                 match ms, l with
                 | m :: ms', x :: l' => (sm_name m, render_val (sm_ty m) x) :: go ms' l'
                 | _, _ => []
                 end) (def_of sts n) l)
    | Arr t' _, VArr l => GSlice (map (render_val t') l)
    | _, _ => GNil
    end.

  Fixpoint render_members (ms : list smember) (l : list value) : gmap :=
    match ms, l with
    | m :: ms', x :: l' => (sm_name m, render_val (sm_ty m) x) :: render_members ms' l'
    | _, _ => []
    end.

  Lemma render_val_struct n l : render_val (Struct n) (VStruct l) = GMap (render_members (def_of sts n) l).
  Proof.
    cbn [render_val]. f_equal. generalize (def_of sts n). intros ms. revert ms.
    induction l as [|x l IH]; intros [|m ms]; try reflexivity. cbn [render_members]. rewrite <- IH. reflexivity.
  Qed.

  Lemma render_val_atomic a v : render_val (Atomic a) v = render_atomic a v.
  Proof. destruct v; reflexivity. Qed.

  Lemma glookup_head k g m : glookup k ((k, g) :: m) = g.
  Proof. unfold glookup. cbn [alookup]. rewrite (proj2 (bytes_eqb_eq k k) eq_refl). reflexivity. Qed.

  Lemma glookup_tail k k' g m : k' <> k -> glookup k' ((k, g) :: m) = glookup k' m.
  Proof.
    intros Hn. unfold glookup. cbn [alookup].
    destruct (bytes_eqb k' k) eqn:E; [apply bytes_eqb_eq in E; contradiction|reflexivity].
  Qed.

  (* the members relation looks at the object only under the member names *)
  Lemma rmj_ext ms : forall m m' vs,
    (forall sm, In sm ms -> glookup (sm_name sm) m = glookup (sm_name sm) m') ->
    repr_members_json sts ms m vs -> repr_members_json sts ms m' vs.
  Proof.
    induction ms as [|sm ms IH]; intros m m' vs He Hr; inversion Hr; subst; constructor.
    - rewrite <- (He sm (or_introl eq_refl)). assumption.
    - eapply IH; [|eassumption]. intros sm' Hin. apply He. right. exact Hin.
  Qed.

  Lemma render_members_ok ms : forall l,
    NoDup (map sm_name ms) ->
    Forall (fun v => forall t, well_typed sts t v = true -> repr_json sts t (render_val t v) v) l ->
    typed_fields sts ms l = true ->
    repr_members_json sts ms (render_members ms l) l.
  Proof.
    induction ms as [|sm ms IH]; intros [|x l] Hnd HF Ht; cbn [typed_fields] in Ht; try discriminate.
    - constructor.
    - apply andb_prop in Ht as [Hx Hl]. inversion HF as [|? ? Hpx HF']; subst.
      inversion Hnd as [|? ? Hnin Hnd']; subst. cbn [render_members]. constructor.
      + rewrite glookup_head. apply Hpx. exact Hx.
      + eapply rmj_ext; [|apply (IH l Hnd' HF' Hl)].
        intros sm' Hin. symmetry. apply glookup_tail. intros E. apply Hnin. rewrite <- E. apply in_map. exact Hin.
  Qed.

  Definition members_distinct : Prop := Forall (fun nd : bytes * structdef => NoDup (map sm_name (snd nd))) sts.

  Theorem render_val_ok : members_distinct ->
    forall v t, well_typed sts t v = true -> repr_json sts t (render_val t v) v.
  Proof.
    intros Hdist. induction v as [z|b|b| |l IH|l IH] using value_ind'; intros t Ht.
    1-3: destruct t as [a|n|t' k]; try discriminate Ht;
         rewrite well_typed_atomic in Ht; rewrite render_val_atomic; constructor; apply render_atomic_ok; exact Ht.
    - destruct t as [a|n|t' k]; try discriminate Ht; [destruct a; discriminate Ht|]. cbn [render_val]. constructor.
    - destruct t as [a|n|t' k]; try discriminate Ht; [destruct a; discriminate Ht|].
      destruct (assoc n sts) as [def|] eqn:Ed; [|cbn [well_typed] in Ht; rewrite Ed in Ht; discriminate].
      rewrite (well_typed_struct sts n l def Ed) in Ht. rewrite render_val_struct.
      unfold def_of. rewrite Ed. eapply RJ_struct; [exact Ed|].
      apply render_members_ok; [|exact IH|exact Ht].
      apply assoc_In in Ed. unfold members_distinct in Hdist. rewrite Forall_forall in Hdist. apply (Hdist _ Ed).
    - destruct t as [a|n|t' k]; try discriminate Ht; [destruct a; discriminate Ht|].
      cbn [well_typed] in Ht. apply andb_prop in Ht as [_ Ht]. cbn [render_val]. constructor.
      clear k. induction l as [|x l IHl]; cbn [map]; [constructor|].
      cbn [forallb] in Ht. apply andb_prop in Ht as [Hx Hl]. inversion IH as [|? ? Hpx IH']; subst.
      constructor; [apply Hpx; exact Hx|apply IHl; assumption].
  Qed.
End Render.

(* ---------- rendering of types and documents ---------- *)
Definition render_types (sts : types) : typeset := map (fun nd : bytes * structdef => (fst nd, render_def (snd nd))) sts.

Lemma render_types_lookup sts n : tlookup n (render_types sts) = option_map render_def (assoc n sts).
Proof.
  unfold tlookup. induction sts as [|[k def] sts IH]; [reflexivity|]. cbn [render_types map alookup assoc fst snd].
  destruct (bytes_eqb n k); [reflexivity|exact IH].
Qed.

Lemma render_types_repr sts : wf_types sts -> In domain_name (keys sts) ->
  repr_types (with_domain_type (Some (render_types sts))) sts.
Proof.
  intros Hwf Hdn.
  assert (Ew : with_domain_type (Some (render_types sts)) = render_types sts).
  { unfold with_domain_type. rewrite render_types_lookup. apply assoc_keys in Hdn as (def & ->). reflexivity. }
  rewrite Ew. split.
  - intros n def Hn. rewrite render_types_lookup, Hn. reflexivity.
  - intros a Hwa. rewrite render_types_lookup.
    rewrite (assoc_none_keys (atomic_name a) sts); [reflexivity|].
    intros Hin. destruct Hwf as [_ Hall]. rewrite Forall_forall in Hall.
    apply in_map_iff in Hin as ([k def] & Hk & Hin). cbn [fst] in Hk. subst k.
    destruct (Hall _ Hin) as (_ & Hna & _). exact (Hna a Hwa eq_refl).
Qed.

Definition render_top (sts : types) (n : bytes) (v : value) : option gmap :=
  match v with VStruct l => Some (render_members sts (def_of sts n) l) | _ => None end.

Definition render_doc (d : doc) : typed_data :=
  mkTD (Some (render_types (d_types d))) (d_primary d)
       (render_top (d_types d) domain_name (d_domain d))
       (render_top (d_types d) (d_primary d) (d_message d)).

Theorem render_doc_represents d :
  wf_doc d -> members_distinct (d_types d) -> d_domain d <> VNone ->
  represents_json (render_doc d) d.
Proof.
  intros (Hwf & Hdn & Hp & Hdom & Hmsg) Hdist Hnn.
  split; [cbn [render_doc td_types]; apply render_types_repr; assumption|].
  split; [reflexivity|]. cbn [render_doc td_domain td_message]. split.
  - pose proof (render_val_ok _ Hdist _ _ Hdom) as Hr.
    destruct (d_domain d) as [| | | |l|l]; try discriminate Hdom; [contradiction|].
    rewrite render_val_struct in Hr. exact Hr.
  - destruct Hmsg as [Hm|Hm]; [left; exact Hm|right].
    pose proof (render_val_ok _ Hdist _ _ Hm) as Hr.
    destruct (d_message d) as [| | | |l|l]; try discriminate Hm.
    + cbn [render_top]. constructor.
    + rewrite render_val_struct in Hr. exact Hr.
Qed.

(* hence the digest theorem covers every such specification document: the implementation's model, on
   the rendered document, returns its specification digest *)
Theorem every_wf_doc_is_hashed H big_other d :
  wf_doc d -> types_dims_fit (d_types d) -> members_distinct (d_types d) -> d_domain d <> VNone ->
  represents_json (render_doc d) d /\
  EncodeTypedDataV4 H big_other (Some (render_doc d)) = Ok (digest H d).
Proof.
  intros Hwf Hdims Hdist Hnn. pose proof (render_doc_represents d Hwf Hdist Hnn) as Hr.
  split; [exact Hr|]. apply digest_is_spec_from_json; assumption.
Qed.

(* the second guard is necessary: no Go-level document represents a specification document whose
   domain value is the absent struct (which Spec.wf_doc does accept) *)
Theorem absent_domain_not_representable big_other td d : d_domain d = VNone -> ~ represents big_other td d.
Proof. intros E (_ & _ & Hd & _). rewrite E in Hd. inversion Hd. Qed.

(* the first guard is necessary as well: struct T { bool x; string x; } with the value (true, "a") is a
   well-formed specification document, and no Go-level document represents it (one key, one value) *)
Definition dup_doc : doc :=
  {| d_types := [(domain_name, []);
                 (bs "T", [ {| sm_name := bs "x"; sm_ty := Atomic ABool |}; {| sm_name := bs "x"; sm_ty := Atomic AString |} ])];
     d_primary := bs "T"; d_domain := VStruct [];
     d_message := VStruct [VBool true; VBytes (bs "a")] |}.

Theorem duplicate_members_not_representable :
  wf_doc dup_doc /\ types_dims_fit (d_types dup_doc) /\ d_domain dup_doc <> VNone /\
  ~ members_distinct (d_types dup_doc) /\
  forall big_other td, ~ represents big_other td dup_doc.
Proof.
  split; [apply wf_doc_b_ok; vm_compute; reflexivity|].
  split; [apply types_dims_fit_b_ok; vm_compute; reflexivity|].
  split; [discriminate|]. split.
  - intros Hd. inversion Hd as [|? ? _ Hd']; subst. inversion Hd' as [|? ? Hn _]; subst.
    cbn [snd map sm_name] in Hn. inversion Hn as [|? ? Hnin _]; subst. apply Hnin. left. reflexivity.
  - intros big_other td (_ & _ & _ & [Hm|Hm]); [vm_compute in Hm; discriminate|].
    cbn [dup_doc d_types d_primary d_message] in Hm.
    inversion Hm as [| |n m def vs Hdef Hms|]; subst.
    vm_compute in Hdef. injection Hdef as <-.
    inversion Hms as [|sm ms m0 v vs0 Hx Hms']; subst.
    inversion Hms' as [|sm' ms' m1 v' vs1 Hy _]; subst.
    cbn [sm_ty sm_name] in Hx, Hy.
    inversion Hx as [a g v Hxa| | |]; subst. inversion Hy as [a g v Hya| | |]; subst.
    cbn [repr_atomic] in Hxa, Hya.
    destruct Hya as (s & Hs & Es). destruct Hxa as (z & Hz & Ez).
    remember (glookup _ m) as g0 eqn:Eg. clear Eg.
    destruct g0 as [|b|s'|t|l|mm]; try discriminate Hs.
    cbn [get_string] in Hs. injection Hs as <-. injection Es as <-.
    vm_compute in Hz. injection Hz as <-. discriminate Ez.
Qed.
