(* C17 — hand model of wallet discovery and listener notification (pkg/fswallet/fswallet.go:
   Refresh, notifyNewFiles, AddListener, GetAccounts, the notifier goroutine; fslistener.go: the
   event loop calling notifyNewFiles for one file).

   A goroutine system as a labelled transition system (DESIGN §3 Concurrency): the atomic steps are
   the mutex-protected regions and the channel sends of the code.  Theorems (NotifyProofs.v) are
   over ALL finite valid step sequences, i.e. all interleavings of these atomic steps.

   Go function -> definition
     matchFilename                      -> [addr_of] (parameter: which address a file name denotes)
     notifyNewFiles (critical section)  -> [scan] + [notify_new_files]
     go func(){ for l in listeners { for addr in newAddresses { l <- *addr }}}()
                                        -> a [notifier] with its listener snapshot and remaining sends;
                                           one channel send = step [NotifierSend]
     Refresh                            -> [Refresh listing]  (listing = what os.ReadDir returned: any
                                           sub-collection of the files present, in any order)
     fsListenerLoop, one event          -> [FsEvent f]
     AddListener                        -> [AddListener l]
     GetAccounts                        -> [GetAccounts] (no state change; observable = addrList)
   No proofs in this file. *)
From Coq Require Import List NArith Bool Arith.
Import ListNotations.

Definition fid := N.    (* file name *)
Definition addr := N.   (* account address *)
Definition lid := N.    (* listener channel identity *)

Record notifier := mkNotifier {
  n_snapshot : list lid;             (* the listener slice copied under the lock *)
  n_remaining : list (lid * addr)    (* sends not yet performed, in program order *)
}.

Record state := mkState {
  files : list fid;                  (* files present in the directory *)
  fileMap : list (addr * fid);       (* addressToFileMap *)
  addrList : list addr;              (* addressList *)
  listeners : list lid;              (* w.listeners *)
  notifiers : list notifier;         (* notifier goroutines ever started (finished ones keep []) *)
  log : list (lid * addr)            (* receive log over all listener channels, oldest first *)
}.

Inductive op :=
| CreateFile (f : fid)
| FsEvent (f : fid)
| Refresh (listing : list fid)
| AddListener (l : lid)
| GetAccounts
| NotifierSend (g : nat).

Fixpoint lookup (a : addr) (m : list (addr * fid)) : option fid :=
  match m with
  | [] => None
  | (a', f) :: t => if N.eqb a' a then Some f else lookup a t
  end.

Fixpoint set_map (a : addr) (f : fid) (m : list (addr * fid)) : list (addr * fid) :=
  match m with
  | [] => [(a, f)]
  | (a', f') :: t => if N.eqb a' a then (a, f) :: t else (a', f') :: set_map a f t
  end.

(* the nested loops of the notifier goroutine, unrolled into its sequence of sends *)
Definition sends (ls : list lid) (new : list addr) : list (lid * addr) :=
  flat_map (fun l => map (fun a => (l, a)) new) ls.

Section Model.
  Variable addr_of : fid -> option addr.

  (* the loop of notifyNewFiles over the files handed in; returns map, list and newAddresses *)
  Fixpoint scan (listing : list fid) (m : list (addr * fid)) (al new : list addr)
    : list (addr * fid) * list addr * list addr :=
    match listing with
    | [] => (m, al, new)
    | f :: rest =>
        match addr_of f with
        | None => scan rest m al new
        | Some a =>
            match lookup a m with
            | Some f' => if N.eqb f' f then scan rest m al new            (* existingFilename == f.Name() *)
                         else scan rest (set_map a f m) al new           (* known address, other file *)
            | None => scan rest (set_map a f m) (al ++ [a]) (new ++ [a]) (* !exists *)
            end
        end
    end.

  Definition notify_new_files (listing : list fid) (s : state) : state :=
    let '(m, al, new) := scan listing (fileMap s) (addrList s) [] in
    mkState (files s) m al (listeners s)
            (notifiers s ++ [mkNotifier (listeners s) (sends (listeners s) new)])
            (log s).

  Fixpoint send_nth (g : nat) (ns : list notifier) : option (list notifier * (lid * addr)) :=
    match ns, g with
    | [], _ => None
    | n :: t, O =>
        match n_remaining n with
        | [] => None
        | x :: r => Some (mkNotifier (n_snapshot n) r :: t, x)
        end
    | n :: t, S g' =>
        match send_nth g' t with
        | Some (t', x) => Some (n :: t', x)
        | None => None
        end
    end.

  Definition apply (s : state) (o : op) : state :=
    match o with
    | CreateFile f => mkState (files s ++ [f]) (fileMap s) (addrList s) (listeners s) (notifiers s) (log s)
    | FsEvent f => notify_new_files [f] s
    | Refresh listing =>
        match listing with
        | [] => s                                    (* if len(files) > 0 *)
        | _ => notify_new_files listing s
        end
    | AddListener l => mkState (files s) (fileMap s) (addrList s) (listeners s ++ [l]) (notifiers s) (log s)
    | GetAccounts => s
    | NotifierSend g =>
        match send_nth g (notifiers s) with
        | Some (ns, x) => mkState (files s) (fileMap s) (addrList s) (listeners s) ns (log s ++ [x])
        | None => s
        end
    end.

  (* side conditions under which a step is one the real system can take *)
  Definition valid (s : state) (o : op) : Prop :=
    match o with
    | CreateFile f => ~ In f (files s)               (* a new file *)
    | FsEvent f => In f (files s)                    (* os.Stat succeeded *)
    | Refresh listing => incl listing (files s)      (* ReadDir lists existing files *)
    | AddListener l => ~ In l (listeners s)          (* listener channels are distinct *)
    | GetAccounts => True
    | NotifierSend _ => True
    end.

  Fixpoint run (s : state) (ops : list op) : state :=
    match ops with
    | [] => s
    | o :: t => run (apply s o) t
    end.

  Fixpoint valid_seq (s : state) (ops : list op) : Prop :=
    match ops with
    | [] => True
    | o :: t => valid s o /\ valid_seq (apply s o) t
    end.

  Definition init (ls : list lid) : state := mkState [] [] [] ls [] [].

  Definition pending (s : state) : list (lid * addr) := flat_map n_remaining (notifiers s).
  Definition quiescent (s : state) : Prop := pending s = [].

  (* the addresses the files present stand for *)
  Definition file_addrs (fs : list fid) : list addr :=
    flat_map (fun f => match addr_of f with Some a => [a] | None => [] end) fs.

  (* deterministic drain used by the evaluator: perform every remaining send, notifier by notifier *)
  Definition drain (s : state) : state :=
    mkState (files s) (fileMap s) (addrList s) (listeners s)
            (map (fun n => mkNotifier (n_snapshot n) []) (notifiers s))
            (log s ++ pending s).
End Model.
