(* Evaluator for the correspondence check of C08: runs the wallet model on the histories the Go harness
   executed against pkg/fswallet in real temporary directories, and evaluates the property oracles of
   Wallet/Spec.v on what the implementation returned.

   External behaviour is instantiated here: strings.TrimSpace and path.Join by executable definitions,
   regexp / text/template / toml-yaml-json / encoding/json / the keystore reader by finite tables that
   the harness fills by calling those libraries (for the keystore: its own V3 reader over x/crypto)
   directly.  A key is identified with its address, a signature with its recovered signer. *)
From Coq Require Import String.
From Coq Require Import List NArith Lia Bool Arith.
From Coq Require Import Init.Byte.
From FFS Require Import Base.Res Base.Bytes Base.Lit Wallet.Model Wallet.Spec.
Import ListNotations.
Open Scope N_scope.

(* ---------- strings.TrimSpace (unicode.IsSpace on UTF-8) ---------- *)
Definition sp1 (a : N) : bool := (a =? 9) || (a =? 10) || (a =? 11) || (a =? 12) || (a =? 13) || (a =? 32).
Definition sp2 (a b : N) : bool := (a =? 0xC2) && ((b =? 0x85) || (b =? 0xA0)).
Definition sp3 (a b c : N) : bool :=
  ((a =? 0xE1) && (b =? 0x9A) && (c =? 0x80)) ||
  ((a =? 0xE2) && (b =? 0x80) && (((0x80 <=? c) && (c <=? 0x8A)) || (c =? 0xA8) || (c =? 0xA9) || (c =? 0xAF))) ||
  ((a =? 0xE2) && (b =? 0x81) && (c =? 0x9F)) ||
  ((a =? 0xE3) && (b =? 0x80) && (c =? 0x80)).

(* [fwd = true]: s is the string; [fwd = false]: s is the reversed string (multi-byte patterns reversed) *)
Fixpoint trim_lead (fwd : bool) (s : bytes) : bytes :=
  match s with
  | [] => []
  | a :: t =>
      let na := b2n a in
      if sp1 na then trim_lead fwd t
      else match t with
           | [] => s
           | b :: t2 =>
               let nb := b2n b in
               if (if fwd then sp2 na nb else sp2 nb na) then trim_lead fwd t2
               else match t2 with
                    | [] => s
                    | c :: t3 =>
                        let nc := b2n c in
                        if (if fwd then sp3 na nb nc else sp3 nc nb na) then trim_lead fwd t3 else s
                    end
           end
  end.
Definition go_trim_space (s : bytes) : bytes := rev (trim_lead false (rev (trim_lead true s))).

(* ---------- path.Join on clean arguments (the harness only produces such) ---------- *)
Definition slash : byte := "/"%byte.
Definition go_path_join (a b : bytes) : bytes :=
  match a, b with
  | [], _ => b
  | _, [] => a
  | _, _ => a ++ slash :: b
  end.

(* ---------- the file system as a map path -> node ---------- *)
Inductive fnode := NDir | NFile (content : bytes) | NUnreadable.
Definition afs := list (bytes * fnode).

Fixpoint bytes_leb (a b : bytes) : bool :=
  match a, b with
  | [], _ => true
  | _ :: _, [] => false
  | x :: a', y :: b' => if (b2n x <? b2n y) then true else if (b2n y <? b2n x) then false else bytes_leb a' b'
  end.
Fixpoint insert_sorted (e : bytes * bool) (l : list (bytes * bool)) : list (bytes * bool) :=
  match l with
  | [] => [e]
  | h :: t => if bytes_leb (fst e) (fst h) then e :: l else h :: insert_sorted e t
  end.
Definition sort_entries (l : list (bytes * bool)) : list (bytes * bool) := fold_right insert_sorted [] l.

Definition has_slash (s : bytes) : bool := existsb (byte_eqb slash) s.
Definition is_dir_node (n : fnode) : bool := match n with NDir => true | _ => false end.

(* os.ReadDir: entries directly below [d], sorted by name *)
Definition children (fs : afs) (d : bytes) : list (bytes * bool) :=
  let pre := d ++ [slash] in
  sort_entries (flat_map (fun e =>
    if has_prefix pre (fst e) then
      let rest := skipn (length pre) (fst e) in
      if negb (has_slash rest) && negb (bytes_eqb rest []) then [(rest, is_dir_node (snd e))] else []
    else []) fs).

Definition fs_of (fs : afs) : fsys :=
  {| fs_readdir := fun d => match assoc_get d fs with Some NDir => Ok (children fs d) | _ => Err 1%nat end;
     fs_readfile := fun p => match assoc_get p fs with Some (NFile b) => Ok b | _ => Err 1%nat end |}.

(* ---------- cases ---------- *)
Inductive hop :=
| HRefresh (cls : nat)                                      (* Initialize / Refresh *)
| HAccounts (l : list bdsl)                                 (* GetAccounts, as returned *)
| HSign (from_raw : bdsl) (cls : nat) (signer : bdsl)       (* signer recovered from the raw transaction *)
| HSignTD (from : bdsl) (cls : nat) (signer : bdsl)         (* signer recovered from the typed-data signature *)
| HGetWF (addr : bdsl) (cls : nat) (kaddr : bdsl)           (* address of the returned wallet file's key pair *)
| HWrite (path : bdsl) (kind : nat) (content : nat)         (* kind 0 = directory, 1 = file (pool index), 2 = unreadable *)
| HRemove (path : bdsl).

Record wcase := {
  k_conf : config;
  k_newcls : nat;                                           (* NewFilesystemWallet: class *)
  k_listener : bool;                                        (* file-system listener running *)
  k_pool : list bdsl;                                       (* file contents and password candidates *)
  k_fs : list (bdsl * nat * nat);                           (* path, kind, pool index *)
  k_recompile : option nat;
  k_refind : list (bdsl * option (list bdsl));
  k_tmplok : bool * bool;
  k_meta : list (nat * nat * bool * (bdsl * bool) * (bdsl * bool));  (* format 0 toml 1 json 2 yaml, pool index, parsed, key template, password template *)
  k_json : list (bdsl * option bdsl);
  k_badkey : list nat;                                      (* pool contents that are not a V3 key file (no password opens them) *)
  k_reads : list (nat * nat * option bdsl);                 (* key-file pool index, password pool index, address of the decrypted key *)
  k_hist : list hop
}.

Definition mkconf (path dflt regex ext pwext pwpath : bdsl) (trim with0x : bool) (fmt keyp pwp : bdsl) : config :=
  {| c_path := bexpand path; c_default_pw_file := bexpand dflt; c_regex := bexpand regex;
     c_primary_ext := bexpand ext; c_pw_ext := bexpand pwext; c_pw_path := bexpand pwpath;
     c_pw_trim := trim; c_with0x := with0x; c_meta_format := bexpand fmt;
     c_key_prop := bexpand keyp; c_pw_prop := bexpand pwp |}.

Fixpoint find_idx (x : bytes) (l : list bytes) (i : nat) : option nat :=
  match l with
  | [] => None
  | y :: t => if bytes_eqb x y then Some i else find_idx x t (S i)
  end.

Definition fmt_idx (m : mfmt) : nat := match m with MToml => 0 | MJson => 1 | MYaml => 2 end.

Section Inst.
Variable k : wcase.
Let pool : list bytes := map bexpand (k_pool k).
Let c : config := k_conf k.

Definition t_refind : list (bytes * option (list bytes)) :=
  map (fun e => (bexpand (fst e), option_map (map bexpand) (snd e))) (k_refind k).
Definition t_json : list (bytes * option bytes) :=
  map (fun e => (bexpand (fst e), option_map bexpand (snd e))) (k_json k).

Definition meta_entry (m : mfmt) (content : bytes) :=
  match find_idx content pool 0 with
  | None => None
  | Some i => find (fun e => let '(f, j, _, _, _) := e in (f =? fmt_idx m)%nat && (j =? i)%nat) (k_meta k)
  end.

(* a table miss makes the model panic (res-typed operations) or answer "no" — the harness fills the
   tables for every file content, name and request it uses, so a miss only happens when model and
   implementation already diverged *)
Definition inst : ext bytes unit bytes unit bytes :=
  {| re_compile := fun _ => k_recompile k;
     re_find := fun _ name => match assoc_get name t_refind with Some r => r | None => Some [] end;
     tmpl_parse_ok := fun t => if bytes_eqb t (c_key_prop c) then fst (k_tmplok k) else snd (k_tmplok k);
     meta_parse := fun m content => match meta_entry m content with Some (_, _, ok, _, _) => ok | None => false end;
     tmpl_exec := fun m content t =>
        match meta_entry m content with
        | Some (_, _, _, kr, pr) => let r := if bytes_eqb t (c_key_prop c) then kr else pr in (bexpand (fst r), snd r)
        | None => ([], false)
        end;
     json_string := fun raw => match assoc_get raw t_json with Some r => r | None => None end;
     trim_space := go_trim_space;
     path_join := go_path_join;
     read_wallet := fun content pw =>
        match find_idx content pool 0 with
        | None => Panic
        | Some i =>
            if existsb (Nat.eqb i) (k_badkey k) then Err 1%nat
            else match find_idx pw pool 0 with
                 | None => Panic
                 | Some j =>
                     match find (fun e => let '(a, b, _) := e in (a =? i)%nat && (b =? j)%nat) (k_reads k) with
                     | Some (_, _, Some a) => Ok (bexpand a)
                     | Some (_, _, None) => Err 1%nat
                     | None => Panic
                     end
                 end
        end;
     addr_of := fun a => a;
     sign_tx := fun a _ => Ok a;
     sign_td := fun a _ => Ok a |}.

Definition node_of (kind idx : nat) : fnode :=
  match kind with
  | O => NDir
  | 1%nat => NFile (nth idx pool [])
  | _ => NUnreadable
  end.

Definition init_fs : afs := map (fun e => let '(p, kd, i) := e in (bexpand p, node_of kd i)) (k_fs k).

Definition spec_rule : rule :=
  if bytes_eqb (c_regex c) [] then RExt (c_primary_ext c)
  else RRegex (fun name => match assoc_get name t_refind with Some r => r | None => None end).

Definition st := state bytes.

Definition set_fs (s : st) (fs : afs) : st :=
  {| st_fs := fs_of fs; st_map := st_map _ s; st_list := st_list _ s; st_cache := st_cache _ s |}.

Definition same_set (a b : list bytes) : bool :=
  (length a =? length b)%nat && forallb (fun x => mem x b) a && forallb (fun x => mem x a) b.
Fixpoint nodupb (l : list bytes) : bool :=
  match l with [] => true | x :: t => negb (mem x t) && nodupb t end.

(* text naming the requested address of a Sign call, by the specification *)
Definition spec_from (raw : bytes) : option bytes :=
  match assoc_get raw t_json with
  | Some (Some str) => addr_of_text str
  | _ => None
  end.

(* liveness by the specification: the hypotheses of theorems C08_liveness / C08_liveness_metadata
   evaluated on the current file system (the address is backed by the last listed file naming it, that
   file — or the key file its metadata names — holds the key of the address, Spec.spec_password finds a
   password that opens it) *)
Definition spec_live (fs : afs) (a : bytes) : bool :=
  let F := fs_of fs in
  match fs_readdir F (c_path c) with
  | Ok listing =>
      match backing spec_rule listing a None with
      | Some fn =>
          let primary := go_path_join (c_path c) fn in
          match fs_readfile F primary with
          | Ok content =>
              let kp : option (bytes * bytes) :=
                match classify_format (resolved_format c) with
                | None =>
                    Some (content,
                          go_path_join (if bytes_eqb (c_pw_path c) [] then c_path c else c_pw_path c)
                                       ((if c_with0x c then addr_string a else hex_encode a) ++ c_pw_ext c))
                | Some m =>
                    if meta_parse _ _ _ _ _ inst m content then
                      let kf := goTemplateToString _ _ _ _ _ inst m content (c_key_prop c) in
                      if bytes_eqb kf [] then None
                      else match (if bytes_eqb kf primary then Ok content else fs_readfile F kf) with
                           | Ok kc => Some (kc, goTemplateToString _ _ _ _ _ inst m content (c_pw_prop c))
                           | _ => None
                           end
                    else None
                end in
              match kp with
              | Some (kc, pf) =>
                  match spec_password (fs_readfile F) (c_pw_trim c) go_trim_space pf (c_default_pw_file c) with
                  | Some pw => match read_wallet _ _ _ _ _ inst kc pw with Ok ka => bytes_eqb ka a | _ => false end
                  | None => false
                  end
              | None => false
              end
          | _ => false
          end
      | None => false
      end
  | _ => false
  end.

(* one request for a key: implementation oracles first, then comparison with the model.
   [must]: the specification says the request has to succeed *)
Definition check_request (requested : option bytes) (must : bool) (cls_i : nat) (signer : bytes) (r : res bytes) : N :=
  if (cls_i =? 2)%nat then 14
  else if (cls_i =? 0)%nat && negb (match requested with Some a => bytes_eqb a signer | None => false end) then 10
  else if must && (cls_i =? 1)%nat then 13
  else match r with
       | Panic => 6
       | Ok a => if (cls_i =? 0)%nat then (if bytes_eqb a signer then 0 else 5) else 4
       | Err _ => if (cls_i =? 1)%nat then 0 else 4
       end.

Definition must_succeed (fresh : bool) (fs : afs) (requested : option bytes) : bool :=
  match requested with
  | Some a => fresh && spec_live fs a
  | None => false
  end.

(* [acc]: addresses the specification says were discovered so far (all successful scans);
   [fresh]: the wallet directory was scanned after its last change *)
Fixpoint eval (fs : afs) (s : st) (acc : list bytes) (fresh : bool) (h : list hop) : N :=
  match h with
  | [] => 0
  | o :: h' =>
      match o with
      | HRefresh cls_i =>
          let '(s', r) := Refresh _ _ _ _ _ inst c s in
          if (cls_i =? 2)%nat then 14
          else if negb (cls r =? cls_i)%nat then (if is_panic r then 6 else 2)
          else let acc' := if (cls_i =? 0)%nat
                           then match fs_readdir (fs_of fs) (c_path c) with
                                | Ok l => acc ++ spec_matches spec_rule l
                                | _ => acc
                                end
                           else acc in
               eval fs s' acc' ((cls_i =? 0)%nat || fresh) h'
      | HAccounts l =>
          let li := map bexpand l in
          if negb (nodupb li) then 11
          else if negb (same_set li (dedup acc)) then 12
          else if negb (same_set li (GetAccounts _ s)) then 3
          else eval fs s acc fresh h'
      | HSign raw cls_i signer =>
          let raw := bexpand raw in
          let '(s', r) := Sign _ _ _ _ _ inst c s raw tt in
          let code := check_request (spec_from raw) (must_succeed fresh fs (spec_from raw)) cls_i (bexpand signer) r in
          if (code =? 0) then eval fs s' acc fresh h' else code
      | HSignTD a cls_i signer =>
          let a := bexpand a in
          let '(s', r) := SignTypedDataV4 _ _ _ _ _ inst c s a tt in
          let code := check_request (Some a) (must_succeed fresh fs (Some a)) cls_i (bexpand signer) r in
          if (code =? 0) then eval fs s' acc fresh h' else code
      | HGetWF a cls_i kaddr =>
          let a := bexpand a in
          let '(s', r) := GetWalletFile _ _ _ _ _ inst c s a in
          let code := check_request (Some a) (must_succeed fresh fs (Some a)) cls_i (bexpand kaddr) r in
          if (code =? 0) then eval fs s' acc fresh h' else code
      | HWrite p kind idx =>
          let p := bexpand p in
          let fs' := (p, node_of kind idx) :: assoc_del p fs in
          let s1 := set_fs s fs' in
          (* with the listener running, a change directly inside the wallet directory is followed by
             notifyNewFiles(os.Stat(path)) *)
          let pre := c_path c ++ [slash] in
          let name := skipn (length pre) p in
          if k_listener k && has_prefix pre p && negb (has_slash name) then
            let '(s2, _) := step _ _ _ _ _ inst c s1 (OFsEvent unit unit name (match kind with O => true | _ => false end)) in
            let acc' := acc ++ spec_matches spec_rule [(name, match kind with O => true | _ => false end)] in
            eval fs' s2 acc' false h'
          else eval fs' s1 acc false h'
      | HRemove p =>
          let fs' := assoc_del (bexpand p) fs in
          eval fs' (set_fs s fs') acc false h'
      end
  end.

Definition check_case : N :=
  let n := NewFilesystemWallet _ _ _ _ _ inst c in
  if (k_newcls k =? 2)%nat then 14
  else if negb (cls n =? k_newcls k)%nat then 1
  else if negb (k_newcls k =? 0)%nat then 0
  else eval init_fs (init_state _ (fs_of init_fs)) [] false (k_hist k).

End Inst.

Fixpoint mismatches_go (i : N) (l : list wcase) : list (N * N) :=
  match l with
  | [] => []
  | k :: t => let r := check_case k in
              if (r =? 0) then mismatches_go (i + 1) t else (i, r) :: mismatches_go (i + 1) t
  end.
Definition mismatches (l : list wcase) : list (N * N) := firstn 20 (mismatches_go 0 l).

(* ---------- replay aid: what the model does at each step of a history ---------- *)
(* per step: (step index, model's result class (0 Ok, 1 Err, 2 Panic; 9 = not a request), for requests
   1 if the returned key is the one the implementation reported, for GetAccounts the number of accounts) *)
Section Trace.
Variable k : wcase.
Let c : config := k_conf k.
Fixpoint trace (i : N) (fs : afs) (s : st) (h : list hop) : list (N * N * N) :=
  match h with
  | [] => []
  | o :: h' =>
      match o with
      | HRefresh _ => let '(s', r) := Refresh _ _ _ _ _ (inst k) c s in (i, N.of_nat (cls r), 0) :: trace (i + 1) fs s' h'
      | HAccounts _ => (i, 9, N.of_nat (length (GetAccounts _ s))) :: trace (i + 1) fs s h'
      | HSign raw _ signer =>
          let '(s', r) := Sign _ _ _ _ _ (inst k) c s (bexpand raw) tt in
          (i, N.of_nat (cls r), match r with Ok a => if bytes_eqb a (bexpand signer) then 1 else 0 | _ => 0 end) :: trace (i + 1) fs s' h'
      | HSignTD a _ signer =>
          let '(s', r) := SignTypedDataV4 _ _ _ _ _ (inst k) c s (bexpand a) tt in
          (i, N.of_nat (cls r), match r with Ok a => if bytes_eqb a (bexpand signer) then 1 else 0 | _ => 0 end) :: trace (i + 1) fs s' h'
      | HGetWF a _ signer =>
          let '(s', r) := GetWalletFile _ _ _ _ _ (inst k) c s (bexpand a) in
          (i, N.of_nat (cls r), match r with Ok a => if bytes_eqb a (bexpand signer) then 1 else 0 | _ => 0 end) :: trace (i + 1) fs s' h'
      | HWrite p kind idx =>
          let p := bexpand p in
          let fs' := (p, node_of k kind idx) :: assoc_del p fs in
          let s1 := set_fs s fs' in
          let pre := c_path c ++ [slash] in
          let name := skipn (length pre) p in
          if k_listener k && has_prefix pre p && negb (has_slash name) then
            let '(s2, _) := step _ _ _ _ _ (inst k) c s1 (OFsEvent unit unit name (match kind with O => true | _ => false end)) in
            (i, 9, 0) :: trace (i + 1) fs' s2 h'
          else (i, 9, 0) :: trace (i + 1) fs' s1 h'
      | HRemove p => let fs' := assoc_del (bexpand p) fs in (i, 9, 0) :: trace (i + 1) fs' (set_fs s fs') h'
      end
  end.
Definition model_trace : list (N * N * N) :=
  trace 0 (init_fs k) (init_state _ (fs_of (init_fs k))) (k_hist k).
End Trace.
