(* C08 ∘ C04 ∘ C05: the file-system wallet whose typed-data signer is property C04's model of
   ethsigner.SignTypedDataV4 with property C05's KeyPair.SignDirect (answer to ISSUE 1 of
   design/reviews/C08.md, typed-data half; Wallet/WithC01.v is the transaction half).

   Keys are private scalars; a "document" of the wallet model is the *eip712.TypedData the caller passes;
   [sign_td d td] is [Eip712.Model.SignTypedDataV4 H big_other (key_signer d) (Some td)] — what
   fswallet.SignTypedDataV4 calls after getSignerForAddr.  The recover law is not assumed: it is
   [Eip712.ProofsSignVerify.sign_verifies] (C04 clause "the signature verifies", C05's recovery).  The guard
   on the key is discharged by the reader law (scalar in [1, n-1]); V in {27,28} (the 2^-128 event x(kG) >= n
   excluded) and the chain id handed to RecoverDirect in [0, 2^53] stay as premises, as in C04/C05. *)
From Coq Require Import String.
From Coq Require Import List NArith ZArith Bool Arith Lia.
From Coq Require Import Init.Byte.
From FFS Require Import Base.Res Base.Bytes Crypto.Ecdsa.
From FFS Require Eip712.Input Eip712.Model Eip712.ProofsSignVerify.
From FFS Require Secp.Model Secp.Proofs.
From FFS Require Import Wallet.Model Wallet.Spec Wallet.Proofs Wallet.Proofs2 Wallet.Proofs5.
Import ListNotations.

Module EI := FFS.Eip712.Input.
Module EM := FFS.Eip712.Model.
Module EV := FFS.Eip712.ProofsSignVerify.
Module SM4 := FFS.Secp.Model.
Module SP4 := FFS.Secp.Proofs.

Section C04.
  Variable o : group_ops.
  Variable Hk : bytes -> bytes.                   (* Keccak-256 of the address derivation *)
  Variable H : bytes -> bytes.                    (* Keccak-256 of the EIP-712 encoding *)
  Variable big_other : bytes -> option Z.         (* math/big's parser for non-decimal number texts (C04's parameter) *)
  Variable nonce : Z -> bytes -> nat -> Z.
  Variable fuel : nat.
  Hypothesis L : laws o.
  Hypothesis n_fits : (n o < SM4.two256)%Z.
  Hypothesis Hk_len : forall x, length (Hk x) = 32%nat.

  Variables tx stx : Type.
  Variable E : ext N tx stx EI.typed_data EM.EIP712Result.
  Variable c : config.

  Definition c04_world : Prop :=
    (forall d, addr_of _ _ _ _ _ E d = SP4.addr_of o Hk (pub o (Z.of_N d))) /\
    (forall d td, sign_td _ _ _ _ _ E d td
                  = EM.SignTypedDataV4 H big_other (EV.key_signer o nonce fuel (Z.of_N d)) (Some td)).

  Definition reader_range4 : Prop :=
    forall content pw d, read_wallet _ _ _ _ _ E content pw = Ok d -> (1 <= Z.of_N d < n o)%Z.

  Theorem typed_data_recovers_c04 fs h a td s' res chain :
    c04_world -> reader_range4 ->
    SignTypedDataV4 _ _ _ _ _ E c (after _ _ _ _ _ E c (init_state _ fs) h) a td = (s', Ok res) ->
    (EM.r_V res = 27 \/ EM.r_V res = 28)%Z -> (0 <= chain <= 2 ^ 53)%Z ->
    exists d sg,
      (1 <= Z.of_N d < n o)%Z /\ SP4.addr_of o Hk (pub o (Z.of_N d)) = a /\
      EM.EncodeTypedDataV4 H big_other (Some td) = Ok (EM.r_hash res) /\
      SM4.DecodeCompactRSV (EM.r_signatureRSV res) = Ok sg /\ SM4.sV sg = EM.r_V res /\
      SM4.RecoverDirect o Hk sg (EM.r_hash res) chain = Ok a.
  Proof.
    intros [Eaddr Esign] Hrange Hs HV Hchain.
    pose proof (signatures_recover_guarded _ _ _ _ _ E c (fun d => (1 <= Z.of_N d < n o)%Z) Hrange
                  (fun _ _ => False) (fun _ _ => False) (fun _ _ => None) (fun _ _ => None)
                  (fun k t0 out0 _ (Hf : False) _ => match Hf with end)
                  (fun k d0 out0 _ (Hf : False) _ => match Hf with end) fs h) as [_ Htd].
    destruct (Htd a td s' res Hs) as (d & Hd & Hda & Hsg & _).
    rewrite Esign in Hsg. rewrite Eaddr in Hda.
    destruct (EV.sign_verifies o L n_fits Hk Hk_len nonce fuel (Z.of_N d) Hd H big_other (Some td) res chain Hchain Hsg HV)
      as (sg & Henc & Hdec & Hv & Hrec).
    exists d, sg. rewrite Hda in Hrec. repeat (split; [assumption|]). exact Hrec.
  Qed.
End C04.

(* ---------- non-vacuity: the 13-element toy group of Crypto/Ecdsa.v, key 2, constant nonce 3, a constant
   32-byte "hash"; one key file named by the address of 2*G; the request for a small Mail document returns a
   result with V in {27,28}: every hypothesis of [typed_data_recovers_c04] holds ---------- *)
Definition toyH4 : bytes -> bytes := fun _ => repeat x07 32.
Definition toy_nonce4 : Z -> bytes -> nat -> Z := fun _ _ _ => 3%Z.
Definition bs4 (s : String.string) : bytes := ascii_bytes s.

Definition toy_td : EI.typed_data :=
  EI.mkTD (Some [ (bs4 "Mail", Some [Some (EI.mkMember (bs4 "contents") (bs4 "string"))]);
                  (bs4 "EIP712Domain", Some [Some (EI.mkMember (bs4 "name") (bs4 "string"))]) ])
          (bs4 "Mail")
          (Some [(bs4 "name", EI.GString (bs4 "Ether Mail"))])
          (Some [(bs4 "contents", EI.GString (bs4 "Hello, Bob!"))]).

Definition toyE4 : ext N unit bytes EI.typed_data EM.EIP712Result :=
  {| re_compile := fun _ => Some 2%nat;
     re_find := fun _ _ => None;
     tmpl_parse_ok := fun _ => true;
     meta_parse := fun _ _ => true;
     tmpl_exec := fun _ _ t => (t, true);
     json_string := fun raw => Some raw;
     trim_space := fun s => s;
     path_join := fun a b => a ++ b;
     read_wallet := fun _ _ => Ok 2%N;
     addr_of := fun d => SP4.addr_of Toy.ops toyH4 (pub Toy.ops (Z.of_N d));
     sign_tx := fun _ _ => Err 1%nat;
     sign_td := fun d td => EM.SignTypedDataV4 toyH4 (fun _ => None) (EV.key_signer Toy.ops toy_nonce4 4 (Z.of_N d)) (Some td) |}.

Definition toyc4 : config :=
  {| c_path := []; c_default_pw_file := ascii_bytes "pw"; c_regex := []; c_primary_ext := [];
     c_pw_ext := []; c_pw_path := []; c_pw_trim := false; c_with0x := false;
     c_meta_format := []; c_key_prop := []; c_pw_prop := [] |}.

Definition toy_addr4 : bytes := SP4.addr_of Toy.ops toyH4 (pub Toy.ops 2).
Definition toyfs4 : fsys :=
  {| fs_readdir := fun _ => Ok [(hex_encode toy_addr4, false)]; fs_readfile := fun p => Ok p |}.

Lemma toy_world4_ok :
  laws Toy.ops /\ (n Toy.ops < SM4.two256)%Z /\ (forall x, length (toyH4 x) = 32%nat) /\
  c04_world Toy.ops toyH4 toyH4 (fun _ => None) toy_nonce4 4 unit bytes toyE4 /\
  reader_range4 Toy.ops unit bytes toyE4.
Proof.
  split; [exact Toy.toy_laws|]. split; [reflexivity|]. split; [intros x; reflexivity|].
  split; [split; intros; reflexivity|].
  intros content pw d Hd. simpl in Hd. injection Hd as <-. vm_compute. split; congruence.
Qed.

Lemma toy_request4_signs :
  exists res, snd (SignTypedDataV4 _ _ _ _ _ toyE4 toyc4 (after _ _ _ _ _ toyE4 toyc4 (init_state _ toyfs4) [ORefresh _ _])
                                   toy_addr4 toy_td) = Ok res /\
              (EM.r_V res = 27 \/ EM.r_V res = 28)%Z.
Proof. eexists. split; [vm_compute; reflexivity|]. vm_compute. auto. Qed.
