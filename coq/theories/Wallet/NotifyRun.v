(* Evaluator for the sequential-history correspondence check of C17: replays a history issued by the
   Go harness through the public API of pkg/fswallet on the Notify model and compares the
   observables (GetAccounts results, what each listener channel received at quiescent points).
   Result codes: 0 agree; 1..9 model differs from implementation; >= 10 the implementation's own
   observations break the property. *)
From Coq Require Import List NArith Bool Arith.
From FFS Require Import Wallet.Notify.
Import ListNotations.

Inductive hstep :=
| HCreate (f : fid)
| HEvent (f : fid)                          (* the fs listener delivered an event for f *)
| HRefresh (listing : list fid)             (* Refresh; listing = directory content in ReadDir order *)
| HAddListener (l : lid)
| HAccounts (obs : list addr)               (* GetAccounts result *)
| HDrain (obs : list (lid * list addr)).    (* quiescent: everything each listener has received so far *)

(* ordered = listener disabled (fully deterministic: GetAccounts compared in order);
   otherwise account lists are compared as sets *)
Inductive case := Hist (ordered : bool) (table : list (fid * option addr)) (initl : list lid) (steps : list hstep).

Definition table_addr_of (table : list (fid * option addr)) (f : fid) : option addr :=
  match find (fun p => N.eqb (fst p) f) table with
  | Some (_, oa) => oa
  | None => None
  end.

Definition memN (x : N) (l : list N) : bool := existsb (N.eqb x) l.
Fixpoint nodupN (l : list N) : bool :=
  match l with [] => true | x :: t => negb (memN x t) && nodupN t end.
Fixpoint countN (x : N) (l : list N) : nat :=
  match l with [] => O | y :: t => (if N.eqb x y then 1 else 0) + countN x t end.
Definition ms_eqb (a b : list N) : bool :=
  Nat.eqb (length a) (length b) && forallb (fun x => Nat.eqb (countN x a) (countN x b)) a.
Fixpoint list_eqbN (a b : list N) : bool :=
  match a, b with
  | [], [] => true
  | x :: a', y :: b' => N.eqb x y && list_eqbN a' b'
  | _, _ => false
  end.
Definition subsetN (a b : list N) : bool := forallb (fun x => memN x b) a.

Definition received (l : lid) (lg : list (lid * addr)) : list addr :=
  map snd (filter (fun p => N.eqb (fst p) l) lg).
Definition obs_of (l : lid) (obs : list (lid * list addr)) : list addr :=
  match find (fun p => N.eqb (fst p) l) obs with Some (_, r) => r | None => [] end.

Record ev := mkEv { st : state; last_acc : list addr; full : bool }.

Section Eval.
  Variable ordered : bool.
  Variable addr_of : fid -> option addr.
  Variable initl : list lid.

  (* one step: Some code = stop with that code *)
  Definition eval_step (e : ev) (h : hstep) : ev + N :=
    let s := st e in
    match h with
    | HCreate f =>
        if memN f (files s) then inr 3%N
        else inl (mkEv (apply addr_of s (CreateFile f)) (last_acc e) false)
    | HEvent f =>
        if negb (memN f (files s)) then inr 3%N
        else inl (mkEv (apply addr_of s (FsEvent f)) (last_acc e) (full e))
    | HRefresh listing =>
        if negb (subsetN listing (files s)) then inr 3%N
        else inl (mkEv (apply addr_of s (Refresh listing)) (last_acc e)
                       (full e || subsetN (files s) listing))
    | HAddListener l =>
        if memN l (listeners s) then inr 3%N
        else inl (mkEv (apply addr_of s (AddListener l)) (last_acc e) (full e))
    | HAccounts obs =>
        if negb (nodupN obs) then inr 10%N
        else if full e && negb (subsetN obs (file_addrs addr_of (files s)) && subsetN (file_addrs addr_of (files s)) obs)
             then inr 13%N
        else if (if ordered then list_eqbN obs (addrList s) else ms_eqb obs (addrList s))
             then inl (mkEv s obs (full e))
        else inr 1%N
    | HDrain obs =>
        let s' := drain s in
        if negb (forallb (fun p => nodupN (snd p)) obs) then inr 11%N
        else if negb (forallb (fun l => subsetN (last_acc e) (obs_of l obs)) initl) then inr 12%N
        else if forallb (fun l => ms_eqb (obs_of l obs) (received l (log s'))) (listeners s')
                && forallb (fun p => memN (fst p) (listeners s') || match snd p with [] => true | _ => false end) obs
             then inl (mkEv s' (last_acc e) (full e))
        else inr 2%N
    end.

  Fixpoint eval (e : ev) (hs : list hstep) : N :=
    match hs with
    | [] => 0%N
    | h :: t => match eval_step e h with inl e' => eval e' t | inr c => c end
    end.
End Eval.

Definition check_case (c : case) : N :=
  match c with
  | Hist ordered table initl steps =>
      if negb (nodupN initl) then 3%N
      else eval ordered (table_addr_of table) initl (mkEv (init initl) [] false) steps
  end.

Fixpoint mismatches_go (i : N) (l : list case) : list (N * N) :=
  match l with
  | [] => []
  | c :: t => let r := check_case c in
              if (r =? 0)%N then mismatches_go (i + 1) t else (i, r) :: mismatches_go (i + 1) t
  end.
Definition mismatches (l : list case) : list (N * N) := firstn 20 (mismatches_go 0 l).

(* self-test of the evaluator *)
Example run_selftest :
  mismatches
    [ Hist true [(1, Some 7); (2, None); (3, Some 7); (4, Some 9)]%N [100]%N
        [ HCreate 1; HCreate 2; HRefresh [1; 2]; HAccounts [7]; HAddListener 101; HCreate 3; HCreate 4;
          HRefresh [1; 2; 3; 4]; HAccounts [7; 9]; HDrain [(100, [7; 9]); (101, [9])] ]%N ;
      Hist true [(1, Some 7)]%N [100]%N [ HCreate 1; HRefresh [1]; HAccounts [7; 7] ]%N ;
      Hist true [(1, Some 7)]%N [100]%N [ HCreate 1; HRefresh [1]; HAccounts [7]; HDrain [(100, [])] ]%N ;
      Hist true [(1, Some 7)]%N [100]%N [ HCreate 1; HRefresh [1]; HAccounts []%N ]%N ]
  = [(1, 10); (2, 12); (3, 13)]%N.
Proof. vm_compute. reflexivity. Qed.
