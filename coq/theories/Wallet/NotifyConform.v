(* C17 — the threads of the fine-grained wallet semantics (Wallet/NotifyRefine.v) follow the
   synchronisation structure translated from the source (Gen/FsWalletSync.v), and their lock
   discipline is DERIVED from the atomicity obligation [steps_atomic_ok] on that structure.

   [conforms p c]: every complete event sequence of the action tree [c] (Lock / Unlock of mux and the
   accesses to the protected fields, [Reduction.paths]) is the projection, onto the events that
   concern mux and the watched fields, of the trace of a complete control-flow path ([Atomic.bpath]:
   calls expanded, deferred unlocks run) of one of the methods listed in [atomic_steps] of program p,
   possibly with some of that path's accesses left out ([sub_acc]: the source may read a field more
   often than the tree does; every Lock / Unlock is kept) — or is empty (a thread that touches
   neither).
   [conforms_atomic]: steps_atomic_ok p fuel = true  =>  every event sequence of a conforming tree
   is [tr_atomic].   With [Reduction.atomic_paths_wl]: a conforming, well-shaped tree is disciplined.
   [tcode_conforms]: the trees add_code / get_code / discover / refresh_code / event_code (and the
   environment threads) conform to any program p for which the path finder of Conc/PathFind.v
   succeeds ([covers_ok p fuel = true], evaluated by vm_compute on the structure translated from the
   CURRENT source): the event sequences of the trees are the words of three patterns
   (Lock (eps | Mr | Mr Mw | Mr Mw Ar Aw)* Lr Unlock for notifyNewFiles), and the finder proves
   that the translated body has a complete path for every word.  Decided by computation so that a
   behaviour-preserving refactor of the source does not break it.
   [fine_grained_refines]: the combination. *)
From Coq Require Import List NArith Bool Arith Lia Permutation String.
From FFS Require Import Conc.Lockset Conc.LocksetProofs Conc.Atomic Conc.AtomicProofs Gen.FsWalletSync Conc.FsWallet
  Conc.FsWalletAtomic Conc.Reduction Conc.PathFind Wallet.Notify Wallet.NotifyProofs Wallet.NotifyRefine.
Import ListNotations.
Open Scope list_scope.

Notation wpaths := (Reduction.paths prot choice (list addr) outa ina discovery_mutex).
Notation wshape := (Reduction.shape_ok prot choice (list addr) outa ina discovery_locs).
Notation wwl := (Reduction.wl prot choice (list addr) outa ina).
Notation rel := (relevant discovery_mutex discovery_locs).

Definition conforms (p : prog) (c : wcode) : Prop :=
  forall tr, wpaths c tr ->
    tr = [] \/
    exists f needs body tr', In (f, needs) atomic_steps /\ lookup_body p f = Some body /\
      Atomic.bpath p body tr' /\ sub_acc tr (filter rel tr').

Theorem conforms_atomic : forall p fuel c,
  steps_atomic_ok p fuel = true -> conforms p c ->
  forall tr, wpaths c tr -> tr_atomic discovery_mutex discovery_locs tr.
Proof.
  intros p fuel c Hok Hc tr Hp. destruct (Hc tr Hp) as [->|(f & needs & body & tr' & Hin & Hl & Hb & Hs)].
  - cbn. discriminate.
  - unfold tr_atomic. apply (ev_run_sub _ _ _ _ Hs). rewrite ev_run_filter.
    exact (proj1 (steps_atomic_sound p fuel Hok f needs body tr' Hin Hl Hb)).
Qed.

(* the discipline of a thread, from the atomicity obligation on the translated structure *)
Theorem discipline_from_atomic : forall p fuel c,
  steps_atomic_ok p fuel = true -> conforms p c -> wshape false c -> wwl false c.
Proof.
  intros p fuel c Hok Hc Hs.
  apply (Reduction.atomic_paths_wl prot choice (list addr) outa ina discovery_mutex discovery_locs
           (mkP [] [] []) ([], 0) c); [|exact Hs].
  exact (conforms_atomic p fuel c Hok Hc).
Qed.

(* ---------------------------------------------------------------------------------------------- *)
(* shape of the wallet threads (a property of the decoration: which node is a field access, where
   the environment actions are) *)
Section Shape.
  Variable addr_of : fid -> option addr.

  Lemma wL : watched discovery_locs fL = true. Proof. reflexivity. Qed.
  Lemma wM : watched discovery_locs fM = true. Proof. reflexivity. Qed.
  Lemma wA : watched discovery_locs fA = true. Proof. reflexivity. Qed.

  Lemma loop_shape : forall listing new, wshape true (loop addr_of listing new).
  Proof.
    induction listing as [|f rest IH]; intros new; cbn [loop Reduction.shape_ok].
    - repeat split; auto.
    - destruct (addr_of f) as [a|]; [|apply IH]. cbn [Reduction.shape_ok]. split; [reflexivity|]. intros p.
      destruct (lookup a (pm p)) as [f'|].
      + destruct (N.eqb f' f); [apply IH|]. cbn [Reduction.shape_ok]. split; [reflexivity|]. intros _. apply IH.
      + cbn [Reduction.shape_ok]. repeat (split; [reflexivity|]; intros ?). apply IH.
  Qed.

  Lemma sender_shape : forall n, wshape false (sender n).
  Proof. induction n; cbn [sender Reduction.shape_ok]; auto. Qed.

  Lemma tcode_shape : forall F c, tcode addr_of F c -> wshape false c.
  Proof.
    intros F c H.
    destruct H; cbn [Reduction.shape_ok refresh_code event_code discover add_code get_code creator].
    - split; [reflexivity|]. intros x.
      destruct (fst x); cbn [Reduction.shape_ok discover]; [reflexivity|split; [reflexivity|apply loop_shape]].
    - split; [reflexivity|]. intros _. split; [reflexivity|apply loop_shape].
    - split; [reflexivity|apply loop_shape].
    - repeat split; auto.
    - repeat split; auto.
    - split; [reflexivity|]. intros _. reflexivity.
    - apply sender_shape.
    - reflexivity.
  Qed.
End Shape.

(* ---------------------------------------------------------------------------------------------- *)
(* the event sequences of the trees, as patterns; that the translated bodies have a path for every
   word of them is decided by the path finder of Conc/PathFind.v *)
Notation mx := discovery_mutex.

Ltac inv_p :=
  match goal with
  | H : Reduction.paths _ _ _ _ _ _ (CLock _) _ |- _ => inversion H; clear H; subst
  | H : Reduction.paths _ _ _ _ _ _ (CUnlock _) _ |- _ => inversion H; clear H; subst
  | H : Reduction.paths _ _ _ _ _ _ (CAcc _ _ _ _) _ |- _ => inversion H; clear H; subst
  | H : Reduction.paths _ _ _ _ _ _ (CIn _ _) _ |- _ => inversion H; clear H; subst
  | H : Reduction.paths _ _ _ _ _ _ (COut _ _) _ |- _ => inversion H; clear H; subst
  | H : Reduction.paths _ _ _ _ _ _ (CTau _) _ |- _ => inversion H; clear H; subst
  | H : Reduction.paths _ _ _ _ _ _ (Done _) _ |- _ => inversion H; clear H; subst
  end.

Definition eMr := EAcc fM false.
Definition eMw := EAcc fM true.
Definition eAr := EAcc fA false.
Definition eAw := EAcc fA true.
Definition eLr := EAcc fL false.
Definition eLw := EAcc fL true.

(* one iteration of the discovery loop: no address / known address, same file / known address,
   other file / new address *)
Definition itwords : list (list ev) := [[]; [eMr]; [eMr; eMw]; [eMr; eMw; eAr; eAw]].
Definition pat_tail : pat := [PStar itwords; PEv eLr; PEv (EUnlock mx)].
Definition pat_nnf : pat := PEv (ELock mx) :: pat_tail.
Definition pat_add : pat := map PEv [ELock mx; eLr; eLw; EUnlock mx].
Definition pat_get : pat := map PEv [ELock mx; eAr; EUnlock mx].

(* the translated program has, for every event sequence of the trees, a complete path (calls
   expanded, deferred unlocks run) with that projection *)
Definition covers_ok (p : prog) (fuel : nat) : bool :=
  covers p mx discovery_locs fuel "notifyNewFiles" pat_nnf &&
  covers p mx discovery_locs fuel "AddListener" pat_add &&
  covers p mx discovery_locs fuel "GetAccounts" pat_get.

Section Conform.
  Variable addr_of : fid -> option addr.

  Lemma loop_paths : forall listing new tr, wpaths (loop addr_of listing new) tr -> pmatch pat_tail tr.
  Proof.
    induction listing as [|f rest IH]; intros new tr H; cbn [loop] in H.
    - repeat inv_p. apply PM_done. repeat constructor.
    - inv_p.
      destruct (addr_of f) as [a|].
      + inv_p.
        destruct (lookup a (pm p)) as [f'|].
        * destruct (N.eqb f' f).
          -- apply (PM_iter itwords _ [eMr]); [cbn; auto|]. eapply IH; eassumption.
          -- inv_p. apply (PM_iter itwords _ [eMr; eMw]); [cbn; auto|]. eapply IH; eassumption.
        * inv_p. inv_p. inv_p.
          apply (PM_iter itwords _ [eMr; eMw; eAr; eAw]); [cbn; auto 6|]. eapply IH; eassumption.
      + apply (PM_iter itwords _ []); [cbn; auto|]. eapply IH; eassumption.
  Qed.

  Variable p : prog.
  Variable fuel : nat.
  Hypothesis Hcov : covers_ok p fuel = true.

  Lemma discover_conforms : forall listing, conforms p (discover addr_of listing).
  Proof.
    intros listing tr H. right. unfold discover in H. inv_p.
    assert (Hm : pmatch pat_nnf (ELock mx :: tr0)) by (constructor; eapply loop_paths; eassumption).
    unfold covers_ok in Hcov. apply andb_true_iff in Hcov. destruct Hcov as [Hc _].
    apply andb_true_iff in Hc. destruct Hc as [Hc _].
    destruct (covers_sound p mx discovery_locs fuel _ _ Hc _ Hm) as (body & tr' & Hl & Hb & Hf).
    exists "notifyNewFiles"%string, [is_read ["listeners"%string]; is_read ["addressToFileMap"%string];
                                     is_write ["addressToFileMap"%string]; is_write ["addressList"%string]],
           body, tr'.
    split; [left; reflexivity|]. auto.
  Qed.

  Lemma add_conforms : forall l, conforms p (add_code l).
  Proof.
    intros l tr H. right. unfold add_code in H. repeat inv_p.
    unfold covers_ok in Hcov. apply andb_true_iff in Hcov. destruct Hcov as [Hc _].
    apply andb_true_iff in Hc. destruct Hc as [_ Hc].
    destruct (covers_sound p mx discovery_locs fuel _ _ Hc _ (pmatch_word [ELock mx; eLr; eLw; EUnlock mx]))
      as (body & tr' & Hl & Hb & Hf).
    exists "AddListener"%string, [is_write ["listeners"%string]], body, tr'.
    split; [right; right; left; reflexivity|]. auto.
  Qed.

  Lemma get_conforms : conforms p get_code.
  Proof.
    intros tr H. right. unfold get_code in H. repeat inv_p.
    unfold covers_ok in Hcov. apply andb_true_iff in Hcov. destruct Hcov as [_ Hc].
    destruct (covers_sound p mx discovery_locs fuel _ _ Hc _ (pmatch_word [ELock mx; eAr; EUnlock mx]))
      as (body & tr' & Hl & Hb & Hf).
    exists "GetAccounts"%string, [is_read ["addressList"%string]], body, tr'.
    split; [right; right; right; left; reflexivity|]. auto.
  Qed.

  Lemma sender_conforms : forall n, conforms p (sender n).
  Proof.
    induction n as [|n IH]; intros tr H; cbn [sender] in H.
    - left. inv_p. reflexivity.
    - inv_p. match goal with H : Reduction.paths _ _ _ _ _ _ (sender _) _ |- _ => exact (IH _ H) end.
  Qed.

  Theorem tcode_conforms : forall F c, tcode addr_of F c -> conforms p c.
  Proof.
    intros F c H. destruct H.
    - intros tr Hp. unfold refresh_code in Hp. inv_p.
      destruct (fst x) eqn:Ex.
      + left. inv_p. reflexivity.
      + eapply discover_conforms; eassumption.
    - intros tr Hp. unfold event_code in Hp. inv_p. eapply discover_conforms; eassumption.
    - apply discover_conforms.
    - apply add_conforms.
    - apply get_conforms.
    - intros tr Hp. left. unfold creator in Hp. repeat inv_p. reflexivity.
    - apply sender_conforms.
    - intros tr Hp. left. inv_p. reflexivity.
  Qed.
End Conform.

Section Combine.
  Variable addr_of : fid -> option addr.

  Notation wexec := (Reduction.exec wcfg wstep).

  (* THE COMBINATION.  Program p is a parameter: the statement in Properties/C17.v instantiates it
     with the structure translated from the current source, for which [tcode_conforms] holds. *)
  Theorem fine_grained_refines : forall p fuel,
    steps_atomic_ok p fuel = true ->
    forall ls thr sch sn,
      wallet_threads addr_of thr -> (forall c, In c thr -> conforms p c) ->
      wexec (wallet_init ls thr) sch sn -> c_holder _ _ _ _ _ _ sn = None ->
      exists ops,
        run addr_of (init ls) ops = abs (c_p _ _ _ _ _ _ sn, c_e _ _ _ _ _ _ sn) /\
        (NoDup (pls (c_p _ _ _ _ _ _ sn)) -> valid_seq addr_of (init ls) ops).
  Proof.
    intros p fuel Hok ls thr sch sn Hthr Hconf He Hfin.
    destruct (fine_grained_refines_notify addr_of ls thr sch sn Hthr) as [ops [Hr [_ Hv]]]; auto.
    - intros c Hc. apply (discipline_from_atomic p fuel c Hok (Hconf c Hc)).
      apply (tcode_shape addr_of []). apply Hthr. exact Hc.
    - exists ops. split; assumption.
  Qed.

  (* what the exactly-once theorems of NotifyProofs.v then say about the final state of ANY
     fine-grained execution (listener channels distinct) *)
  Theorem fine_grained_outcome : forall p fuel,
    steps_atomic_ok p fuel = true ->
    forall ls thr sch sn,
      wallet_threads addr_of thr -> (forall c, In c thr -> conforms p c) ->
      wexec (wallet_init ls thr) sch sn -> c_holder _ _ _ _ _ _ sn = None ->
      NoDup (pls (c_p _ _ _ _ _ _ sn)) -> NoDup ls ->
      let P := c_p _ _ _ _ _ _ sn in let E := c_e _ _ _ _ _ _ sn in
      NoDup (pl P) /\
      NoDup (elog E ++ flat_map n_remaining (en E)) /\
      (forall l a, In (l, a) (elog E ++ flat_map n_remaining (en E)) -> In l (pls P) /\ In a (pl P)) /\
      incl (pl P) (file_addrs addr_of (ef E)) /\
      (flat_map n_remaining (en E) = [] ->
         forall l a, In l ls -> In a (pl P) -> count_occ pair_dec (elog E) (l, a) = 1).
  Proof.
    intros p fuel Hok ls thr sch sn Hthr Hconf He Hfin Hnd Hls. cbv zeta.
    destruct (fine_grained_refines p fuel Hok ls thr sch sn Hthr Hconf He Hfin) as [ops [Hr Hv]].
    specialize (Hv Hnd).
    pose proof (no_duplicate_accounts addr_of ls ops Hv) as T1.
    pose proof (at_most_once addr_of ls ops Hls Hv) as [_ T2].
    pose proof (fun l a => delivered_sound addr_of ls ops l a Hv) as T3.
    pose proof (accounts_sound addr_of ls ops Hv) as T4.
    pose proof (exactly_once addr_of ls [] ops) as T5.
    unfold pending, quiescent in *. cbn [app run] in T5. rewrite Hr in *.
    cbn [abs addrList log notifiers listeners files fst snd] in *.
    split; [exact T1|]. split; [exact T2|]. split; [exact T3|]. split; [exact T4|].
    intros Hq l a Hl Ha. apply T5; auto.
  Qed.
End Combine.

(* ---------------------------------------------------------------------------------------------- *)
(* for any translated program that passes both computed checks *)

(* the path finder succeeds on the structure translated from the current source *)
Lemma fswallet_covers : covers_ok fswallet_prog fuel = true.
Proof. vm_compute. reflexivity. Qed.

Theorem translated_fine_grained_refines : forall p fuel,
  steps_atomic_ok p fuel = true -> covers_ok p fuel = true ->
  forall addr_of ls thr sch sn,
    wallet_threads addr_of thr ->
    Reduction.exec wcfg wstep (wallet_init ls thr) sch sn -> c_holder _ _ _ _ _ _ sn = None ->
    exists ops,
      run addr_of (init ls) ops = abs (c_p _ _ _ _ _ _ sn, c_e _ _ _ _ _ _ sn) /\
      (NoDup (pls (c_p _ _ _ _ _ _ sn)) -> valid_seq addr_of (init ls) ops).
Proof.
  intros p fuel Hok Hcov addr_of ls thr sch sn Hthr He Hfin.
  apply (fine_grained_refines addr_of p fuel Hok ls thr sch sn Hthr); auto.
  intros c Hc. exact (tcode_conforms addr_of p fuel Hcov [] c (Hthr c Hc)).
Qed.

Theorem translated_fine_grained_outcome : forall p fuel,
  steps_atomic_ok p fuel = true -> covers_ok p fuel = true ->
  forall addr_of ls thr sch sn,
    wallet_threads addr_of thr ->
    Reduction.exec wcfg wstep (wallet_init ls thr) sch sn -> c_holder _ _ _ _ _ _ sn = None ->
    NoDup (pls (c_p _ _ _ _ _ _ sn)) -> NoDup ls ->
    let P := c_p _ _ _ _ _ _ sn in let E := c_e _ _ _ _ _ _ sn in
    NoDup (pl P) /\
    NoDup (elog E ++ flat_map n_remaining (en E)) /\
    (forall l a, In (l, a) (elog E ++ flat_map n_remaining (en E)) -> In l (pls P) /\ In a (pl P)) /\
    incl (pl P) (file_addrs addr_of (ef E)) /\
    (flat_map n_remaining (en E) = [] ->
       forall l a, In l ls -> In a (pl P) -> count_occ pair_dec (elog E) (l, a) = 1).
Proof.
  intros p fuel Hok Hcov addr_of ls thr sch sn Hthr He Hfin Hnd Hls.
  apply (fine_grained_outcome addr_of p fuel Hok ls thr sch sn Hthr); auto.
  intros c Hc. exact (tcode_conforms addr_of p fuel Hcov [] c (Hthr c Hc)).
Qed.

(* ... with the observations of the finished calls *)
Theorem translated_fine_grained_observations : forall p fuel,
  steps_atomic_ok p fuel = true -> covers_ok p fuel = true ->
  forall addr_of ls thr sch sn,
    wallet_threads addr_of thr ->
    Reduction.exec wcfg wstep (wallet_init ls thr) sch sn -> c_holder _ _ _ _ _ _ sn = None ->
    exists ops,
      run addr_of (init ls) ops = abs (c_p _ _ _ _ _ _ sn, c_e _ _ _ _ _ _ sn) /\
      (NoDup (pls (c_p _ _ _ _ _ _ sn)) -> valid_seq addr_of (init ls) ops) /\
      forall u o, nth_error (c_thr _ _ _ _ _ _ sn) u = Some (Done o) ->
        nth_error thr u = Some (Done o) \/ o = [] \/
        exists ops1 ops2, ops = ops1 ++ ops2 /\ o = addrList (run addr_of (init ls) ops1).
Proof.
  intros p fuel Hok Hcov addr_of ls thr sch sn Hthr He Hfin.
  apply (fine_grained_refines_obs addr_of ls thr sch sn Hthr); auto.
  intros c Hc. apply (discipline_from_atomic p fuel c Hok).
  - exact (tcode_conforms addr_of p fuel Hcov [] c (Hthr c Hc)).
  - apply (tcode_shape addr_of []). apply Hthr. exact Hc.
Qed.

(* non-vacuity: a NON-serial fine-grained execution (a file appears while AddListener is inside its
   critical section, between its read and its write of listeners) *)
Definition ex_thr : list wcode := [add_code 7%N; creator 3%N].
Definition ex_final : wcfg :=
  mkCfg prot env choice (list addr) outa ina (mkP [] [] [100%N; 7%N]) (mkE [3%N] [] []) None [Done []; Done []].

Lemma ex_fine_exec : Reduction.exec wcfg wstep (wallet_init [100%N] ex_thr) [0; 0; 1; 0; 0] ex_final.
Proof.
  unfold wallet_init, ex_thr, add_code, creator.
  eapply E_cons. { do 5 eexists. split; [reflexivity|]. split; [constructor|reflexivity]. }
  eapply E_cons. { do 5 eexists. split; [reflexivity|]. split; [constructor|reflexivity]. }
  eapply E_cons.
  { do 5 eexists. split; [reflexivity|]. split; [|reflexivity].
    eapply TS_out with (x := ([], 0)). cbn. intros []. }
  eapply E_cons. { do 5 eexists. split; [reflexivity|]. split; [constructor|reflexivity]. }
  eapply E_cons. { do 5 eexists. split; [reflexivity|]. split; [constructor|reflexivity]. }
  apply E_nil.
Qed.

Lemma ex_fine_threads : forall addr_of, wallet_threads addr_of ex_thr.
Proof. intros addr_of c [<-|[<-|[]]]; constructor. Qed.
