(* C17 — the threads of the fine-grained wallet semantics (Wallet/NotifyRefine.v) follow the
   synchronisation structure translated from the source (Gen/FsWalletSync.v), and their lock
   discipline is DERIVED from the atomicity obligation [steps_atomic_ok] on that structure.

   [conforms p c]: every complete event sequence of the action tree [c] (Lock / Unlock of mux and the
   accesses to the protected fields, [Reduction.paths]) is the projection, onto the events that
   concern mux and the watched fields, of the trace of a complete control-flow path ([Atomic.bpath]:
   calls expanded, deferred unlocks run) of one of the methods listed in [atomic_steps] of program p
   — or is empty (a thread that touches neither).
   [conforms_atomic]: steps_atomic_ok p fuel = true  =>  every event sequence of a conforming tree
   is [tr_atomic].   With [Reduction.atomic_paths_wl]: a conforming, well-shaped tree is disciplined.
   [tcode_conforms]: the trees add_code / get_code / discover / refresh_code / event_code (and the
   environment threads) conform to [fswallet_prog], the structure translated from the CURRENT source:
   for every branch of the tree (every listing, every outcome of the map lookups) a path of the
   translated body with the same projected trace is constructed.
   [fine_grained_refines]: the combination. *)
From Coq Require Import List NArith Bool Arith Lia Permutation String.
From FFS Require Import Conc.Lockset Conc.LocksetProofs Conc.Atomic Conc.AtomicProofs Gen.FsWalletSync Conc.FsWallet
  Conc.FsWalletAtomic Conc.Reduction Wallet.Notify Wallet.NotifyProofs Wallet.NotifyRefine.
Import ListNotations.
Open Scope list_scope.

(* ---------------------------------------------------------------------------------------------- *)
(* events that matter to the automaton of Atomic.v *)
Section Relevant.
  Variable m : mutex.
  Variable L : list loc.

  Definition relevant (e : ev) : bool :=
    match e with
    | ELock m' => String.eqb m' m
    | EUnlock m' => String.eqb m' m
    | EAcc l _ => watched L l
    end.

  Lemma ev_run_filter : forall tr s, ev_run m L s (filter relevant tr) = ev_run m L s tr.
  Proof.
    induction tr as [|e tr IH]; intros s; [reflexivity|]. cbn [filter].
    destruct (relevant e) eqn:R.
    - cbn [ev_run]. destruct (ev_step m L s e); [apply IH|reflexivity].
    - cbn [ev_run]. rewrite IH.
      assert (ev_step m L s e = Some s) as ->; [|reflexivity].
      destruct e as [m'|m'|l w]; cbn [relevant ev_step] in *; rewrite R; reflexivity.
  Qed.
End Relevant.

Notation wpaths := (Reduction.paths prot choice (list addr) outa ina discovery_mutex).
Notation wshape := (Reduction.shape_ok prot choice (list addr) outa ina discovery_locs).
Notation wwl := (Reduction.wl prot choice (list addr) outa ina).
Notation rel := (relevant discovery_mutex discovery_locs).

Definition conforms (p : prog) (c : wcode) : Prop :=
  forall tr, wpaths c tr ->
    tr = [] \/
    exists f needs body tr', In (f, needs) atomic_steps /\ lookup_body p f = Some body /\
      Atomic.bpath p body tr' /\ filter rel tr' = tr.

Theorem conforms_atomic : forall p fuel c,
  steps_atomic_ok p fuel = true -> conforms p c ->
  forall tr, wpaths c tr -> tr_atomic discovery_mutex discovery_locs tr.
Proof.
  intros p fuel c Hok Hc tr Hp. destruct (Hc tr Hp) as [->|(f & needs & body & tr' & Hin & Hl & Hb & <-)].
  - cbn. discriminate.
  - unfold tr_atomic. rewrite ev_run_filter.
    exact (proj1 (steps_atomic_sound p fuel Hok f needs body tr' Hin Hl Hb)).
Qed.

(* the discipline of a thread, from the atomicity obligation on the translated structure *)
Theorem discipline_from_atomic : forall p fuel c,
  steps_atomic_ok p fuel = true -> conforms p c -> wshape false c -> wwl false c.
Proof.
  intros p fuel c Hok Hc Hs.
  apply (Reduction.atomic_paths_wl prot choice (list addr) outa ina discovery_mutex discovery_locs
           (mkP [] [] []) ([], 0) c); [|exact Hs].
  exact (conforms_atomic p fuel c Hok Hc).
Qed.

(* ---------------------------------------------------------------------------------------------- *)
(* shape of the wallet threads (a property of the decoration: which node is a field access, where
   the environment actions are) *)
Section Shape.
  Variable addr_of : fid -> option addr.

  Lemma wL : watched discovery_locs fL = true. Proof. reflexivity. Qed.
  Lemma wM : watched discovery_locs fM = true. Proof. reflexivity. Qed.
  Lemma wA : watched discovery_locs fA = true. Proof. reflexivity. Qed.

  Lemma loop_shape : forall listing new, wshape true (loop addr_of listing new).
  Proof.
    induction listing as [|f rest IH]; intros new; cbn [loop Reduction.shape_ok].
    - repeat split; auto.
    - destruct (addr_of f) as [a|]; [|apply IH]. cbn [Reduction.shape_ok]. split; [reflexivity|]. intros p.
      destruct (lookup a (pm p)) as [f'|].
      + destruct (N.eqb f' f); [apply IH|]. cbn [Reduction.shape_ok]. split; [reflexivity|]. intros _. apply IH.
      + cbn [Reduction.shape_ok]. repeat (split; [reflexivity|]; intros ?). apply IH.
  Qed.

  Lemma sender_shape : forall n, wshape false (sender n).
  Proof. induction n; cbn [sender Reduction.shape_ok]; auto. Qed.

  Lemma tcode_shape : forall F c, tcode addr_of F c -> wshape false c.
  Proof.
    intros F c H.
    destruct H; cbn [Reduction.shape_ok refresh_code event_code discover add_code get_code creator].
    - split; [reflexivity|]. intros x.
      destruct (fst x); cbn [Reduction.shape_ok discover]; [reflexivity|split; [reflexivity|apply loop_shape]].
    - split; [reflexivity|]. intros _. split; [reflexivity|apply loop_shape].
    - split; [reflexivity|apply loop_shape].
    - repeat split; auto.
    - repeat split; auto.
    - split; [reflexivity|]. intros _. reflexivity.
    - apply sender_shape.
    - reflexivity.
  Qed.
End Shape.

(* ---------------------------------------------------------------------------------------------- *)
(* paths of the translated bodies that the trees follow *)
Notation P := fswallet_prog.
Notation mx := discovery_mutex.

Ltac lk := vm_compute; reflexivity.
Ltac inv_p :=
  match goal with
  | H : Reduction.paths _ _ _ _ _ _ (CLock _) _ |- _ => inversion H; clear H; subst
  | H : Reduction.paths _ _ _ _ _ _ (CUnlock _) _ |- _ => inversion H; clear H; subst
  | H : Reduction.paths _ _ _ _ _ _ (CAcc _ _ _ _) _ |- _ => inversion H; clear H; subst
  | H : Reduction.paths _ _ _ _ _ _ (CIn _ _) _ |- _ => inversion H; clear H; subst
  | H : Reduction.paths _ _ _ _ _ _ (COut _ _) _ |- _ => inversion H; clear H; subst
  | H : Reduction.paths _ _ _ _ _ _ (CTau _) _ |- _ => inversion H; clear H; subst
  | H : Reduction.paths _ _ _ _ _ _ (Done _) _ |- _ => inversion H; clear H; subst
  end.
Ltac use_ih IH :=
  match goal with
  | H : Reduction.paths _ _ _ _ _ _ (loop _ _ _) _ |- _ => destruct (IH _ _ H) as [trL [Hl ->]]
  end.
Ltac sq := eapply Atomic.LP_seq; [econstructor|].

Definition trMF : list ev := [EAcc ["conf"; "Path"]%string false].

(* matchFilename: one complete path (the first early return); it touches no watched field *)
Lemma bpath_MF : Atomic.bpath P body_matchFilename trMF.
Proof.
  change trMF with (([] ++ [EAcc ["conf"; "Path"]%string false]) ++ []).
  eapply Atomic.BP with (ds := []) (r := true); [|constructor].
  unfold body_matchFilename.
  eapply Atomic.LP_seq with (tr1 := []) (ds1 := []) (ds2 := []); [constructor|].
  eapply Atomic.LP_ret. eapply Atomic.IP_if_l.
  change [EAcc ["conf"; "Path"]%string false] with ([] ++ [EAcc ["conf"; "Path"]%string false] ++ [] ++ [] ++ []).
  eapply Atomic.LP_seq with (ds1 := []) (ds2 := []); [constructor|].
  eapply Atomic.LP_seq with (ds1 := []) (ds2 := []); [constructor|].
  eapply Atomic.LP_seq with (ds1 := []) (ds2 := []); [constructor|].
  eapply Atomic.LP_seq with (ds1 := []) (ds2 := []); [constructor|].
  eapply Atomic.LP_ret. constructor.
Qed.

Lemma ipath_MF : Atomic.ipath P (ICall "matchFilename") trMF [] false.
Proof. eapply Atomic.IP_call; [|exact bpath_MF]. lk. Qed.

(* the body of the discovery loop of notifyNewFiles *)
Definition loopB : list instr :=
  match body_notifyNewFiles with
  | _ :: _ :: ILoop b :: _ => b
  | _ => []
  end.

Definition eMr := EAcc fM false.
Definition eMw := EAcc fM true.
Definition eAr := EAcc fA false.
Definition eAw := EAcc fA true.
Definition eLr := EAcc fL false.
Definition eLw := EAcc fL true.

(* one iteration, four shapes *)
Lemma iter0 : Atomic.lpath P loopB (trMF ++ []) [] false.      (* no address *)
Proof.
  unfold loopB, body_notifyNewFiles.
  eapply Atomic.LP_seq with (ds1 := []) (ds2 := []); [exact ipath_MF|].
  change (@nil ev) with (@nil ev ++ []) at 1.
  eapply Atomic.LP_seq with (ds1 := []) (ds2 := []); [|constructor].
  eapply Atomic.IP_if_r. constructor.
Qed.

Lemma iter1 : Atomic.lpath P loopB (trMF ++ [eMr]) [] false.    (* known address, same file *)
Proof.
  unfold loopB, body_notifyNewFiles.
  eapply Atomic.LP_seq with (ds1 := []) (ds2 := []); [exact ipath_MF|].
  change [eMr] with ([eMr] ++ []).
  eapply Atomic.LP_seq with (ds1 := []) (ds2 := []); [|constructor].
  eapply Atomic.IP_if_l.
  change [eMr] with ([eMr] ++ [] ++ [] ++ []).
  eapply Atomic.LP_seq with (ds1 := []) (ds2 := []); [constructor|].
  eapply Atomic.LP_seq with (ds1 := []) (ds2 := []); [constructor|].
  eapply Atomic.LP_seq with (ds1 := []) (ds2 := []); [|constructor].
  eapply Atomic.IP_if_r. constructor.
Qed.

Lemma iter2 : Atomic.lpath P loopB (trMF ++ [eMr; eMw]) [] false.   (* known address, other file *)
Proof.
  unfold loopB, body_notifyNewFiles.
  eapply Atomic.LP_seq with (ds1 := []) (ds2 := []); [exact ipath_MF|].
  change [eMr; eMw] with ([eMr; eMw] ++ []).
  eapply Atomic.LP_seq with (ds1 := []) (ds2 := []); [|constructor].
  eapply Atomic.IP_if_l.
  change [eMr; eMw] with ([eMr] ++ [] ++ [eMw] ++ []).
  eapply Atomic.LP_seq with (ds1 := []) (ds2 := []); [constructor|].
  eapply Atomic.LP_seq with (ds1 := []) (ds2 := []); [constructor|].
  eapply Atomic.LP_seq with (ds1 := []) (ds2 := []); [|constructor].
  eapply Atomic.IP_if_l.
  change [eMw] with ([] ++ [eMw] ++ [] ++ []).
  eapply Atomic.LP_seq with (ds1 := []) (ds2 := []); [constructor|].
  eapply Atomic.LP_seq with (ds1 := []) (ds2 := []); [constructor|].
  eapply Atomic.LP_seq with (ds1 := []) (ds2 := []); [|constructor].
  eapply Atomic.IP_if_r. constructor.
Qed.

Lemma iter3 : Atomic.lpath P loopB (trMF ++ [eMr; eMw; eAr; eAw]) [] false.   (* new address *)
Proof.
  unfold loopB, body_notifyNewFiles.
  eapply Atomic.LP_seq with (ds1 := []) (ds2 := []); [exact ipath_MF|].
  change [eMr; eMw; eAr; eAw] with ([eMr; eMw; eAr; eAw] ++ []).
  eapply Atomic.LP_seq with (ds1 := []) (ds2 := []); [|constructor].
  eapply Atomic.IP_if_l.
  change [eMr; eMw; eAr; eAw] with ([eMr] ++ [] ++ [eMw; eAr; eAw] ++ []).
  eapply Atomic.LP_seq with (ds1 := []) (ds2 := []); [constructor|].
  eapply Atomic.LP_seq with (ds1 := []) (ds2 := []); [constructor|].
  eapply Atomic.LP_seq with (ds1 := []) (ds2 := []); [|constructor].
  eapply Atomic.IP_if_l.
  change [eMw; eAr; eAw] with ([] ++ [eMw] ++ [eAr; eAw] ++ []).
  eapply Atomic.LP_seq with (ds1 := []) (ds2 := []); [constructor|].
  eapply Atomic.LP_seq with (ds1 := []) (ds2 := []); [constructor|].
  eapply Atomic.LP_seq with (ds1 := []) (ds2 := []); [|constructor].
  eapply Atomic.IP_if_l.
  change [eAr; eAw] with ([] ++ [] ++ [] ++ [eAr] ++ [eAw] ++ []).
  eapply Atomic.LP_seq with (ds1 := []) (ds2 := []); [constructor|].
  eapply Atomic.LP_seq with (ds1 := []) (ds2 := []); [constructor|].
  eapply Atomic.LP_seq with (ds1 := []) (ds2 := []); [constructor|].
  eapply Atomic.LP_seq with (ds1 := []) (ds2 := []); [constructor|].
  eapply Atomic.LP_seq with (ds1 := []) (ds2 := []); [constructor|].
  constructor.
Qed.

Lemma loop_iter : forall it trL,
  Atomic.lpath P loopB it [] false -> Atomic.ipath P (ILoop loopB) trL [] false ->
  Atomic.ipath P (ILoop loopB) (it ++ trL) [] false.
Proof.
  intros it trL Hi Hl. change (@nil ditem) with (@nil ditem ++ []).
  eapply Atomic.IP_loop_iter; eassumption.
Qed.

Definition tail3 : list ev := [eLr; eLr; EUnlock mx].

Section Conform.
  Variable addr_of : fid -> option addr.

  (* every branch of the tree of the loop is a path of the translated loop *)
  Lemma loop_paths : forall listing new tr, wpaths (loop addr_of listing new) tr ->
    exists trL, Atomic.ipath P (ILoop loopB) trL [] false /\ tr = filter rel trL ++ tail3.
  Proof.
    induction listing as [|f rest IH]; intros new tr H; cbn [loop] in H.
    - exists []. split; [constructor|]. repeat inv_p. reflexivity.
    - inv_p.
      destruct (addr_of f) as [a|].
      + inv_p.
        destruct (lookup a (pm p)) as [f'|].
        * destruct (N.eqb f' f).
          -- use_ih IH.
             exists ((trMF ++ [eMr]) ++ trL). split; [apply loop_iter; [exact iter1|exact Hl]|].
             rewrite filter_app. reflexivity.
          -- inv_p. use_ih IH.
             exists ((trMF ++ [eMr; eMw]) ++ trL). split; [apply loop_iter; [exact iter2|exact Hl]|].
             rewrite filter_app. reflexivity.
        * inv_p. inv_p. inv_p. use_ih IH.
          exists ((trMF ++ [eMr; eMw; eAr; eAw]) ++ trL). split; [apply loop_iter; [exact iter3|exact Hl]|].
          rewrite filter_app. reflexivity.
      + use_ih IH.
        exists ((trMF ++ []) ++ trL). split; [apply loop_iter; [exact iter0|exact Hl]|].
        rewrite filter_app. reflexivity.
  Qed.

  (* a complete path of notifyNewFiles around a path of its loop *)
  Lemma nnf_bpath : forall trL, Atomic.ipath P (ILoop loopB) trL [] false ->
    Atomic.bpath P body_notifyNewFiles (([ELock mx] ++ [] ++ trL ++ [eLr] ++ [eLr] ++ [] ++ [] ++ [] ++ []) ++ [EUnlock mx]).
  Proof.
    intros trL Hl.
    eapply Atomic.BP with (r := false).
    { unfold body_notifyNewFiles.
      eapply Atomic.LP_seq; [constructor|].
      eapply Atomic.LP_seq; [constructor|].
      eapply Atomic.LP_seq; [exact Hl|].
      eapply Atomic.LP_seq; [constructor|].
      eapply Atomic.LP_seq; [constructor|].
      eapply Atomic.LP_seq; [constructor|].
      eapply Atomic.LP_seq; [constructor|].
      eapply Atomic.LP_seq; [constructor|].
      constructor. }
    cbn [app]. constructor. constructor.
  Qed.

  Lemma discover_conforms : forall listing, conforms P (discover addr_of listing).
  Proof.
    intros listing tr H. right. unfold discover in H. inv_p.
    match goal with H : Reduction.paths _ _ _ _ _ _ (loop _ _ _) _ |- _ => destruct (loop_paths _ _ _ H) as [trL [Hl ->]] end.
    exists "notifyNewFiles"%string, [is_read ["listeners"%string]; is_read ["addressToFileMap"%string];
                                     is_write ["addressToFileMap"%string]; is_write ["addressList"%string]],
           body_notifyNewFiles. eexists.
    split; [left; reflexivity|]. split; [lk|]. split; [exact (nnf_bpath trL Hl)|].
    rewrite !filter_app. cbn [filter app]. rewrite !app_nil_r.
    change (rel (ELock mx)) with true. change (rel eLr) with true. change (rel (EUnlock mx)) with true.
    cbn [app]. rewrite <- app_assoc. reflexivity.
  Qed.

  Lemma add_conforms : forall l, conforms P (add_code l).
  Proof.
    intros l tr H. right. unfold add_code in H.
    repeat inv_p.
    exists "AddListener"%string, [is_write ["listeners"%string]], body_AddListener,
           (([ELock mx] ++ [] ++ [eLr] ++ [eLw] ++ []) ++ [EUnlock mx]).
    split; [right; right; left; reflexivity|]. split; [lk|]. split; [|reflexivity].
    eapply Atomic.BP with (r := false).
    { unfold body_AddListener.
      eapply Atomic.LP_seq; [constructor|].
      eapply Atomic.LP_seq; [constructor|].
      eapply Atomic.LP_seq; [constructor|].
      eapply Atomic.LP_seq; [constructor|].
      constructor. }
    cbn [app]. constructor. constructor.
  Qed.

  Lemma get_conforms : conforms P get_code.
  Proof.
    intros tr H. right. unfold get_code in H.
    repeat inv_p.
    exists "GetAccounts"%string, [is_read ["addressList"%string]], body_GetAccounts,
           (([ELock mx] ++ [] ++ [eAr] ++ [eAr] ++ []) ++ [EUnlock mx]).
    split; [right; right; right; left; reflexivity|]. split; [lk|]. split; [|reflexivity].
    eapply Atomic.BP with (r := false).
    { unfold body_GetAccounts.
      eapply Atomic.LP_seq; [constructor|].
      eapply Atomic.LP_seq; [constructor|].
      eapply Atomic.LP_seq; [constructor|].
      eapply Atomic.LP_seq; [constructor|].
      constructor. }
    cbn [app]. constructor. constructor.
  Qed.

  Lemma sender_conforms : forall n, conforms P (sender n).
  Proof.
    induction n as [|n IH]; intros tr H; cbn [sender] in H.
    - left. inv_p. reflexivity.
    - inv_p. match goal with H : Reduction.paths _ _ _ _ _ _ (sender _) _ |- _ => exact (IH _ H) end.
  Qed.

  Theorem tcode_conforms : forall F c, tcode addr_of F c -> conforms P c.
  Proof.
    intros F c H. destruct H.
    - intros tr Hp. unfold refresh_code in Hp. inv_p.
      destruct (fst x) eqn:Ex.
      + left. inv_p. reflexivity.
      + eapply discover_conforms; eassumption.
    - intros tr Hp. unfold event_code in Hp. inv_p. eapply discover_conforms; eassumption.
    - apply discover_conforms.
    - apply add_conforms.
    - apply get_conforms.
    - intros tr Hp. left. unfold creator in Hp. repeat inv_p. reflexivity.
    - apply sender_conforms.
    - intros tr Hp. left. inv_p. reflexivity.
  Qed.

  Notation wexec := (Reduction.exec wcfg wstep).

  (* THE COMBINATION.  Program p is a parameter: the statement in Properties/C17.v instantiates it
     with the structure translated from the current source, for which [tcode_conforms] holds. *)
  Theorem fine_grained_refines : forall p fuel,
    steps_atomic_ok p fuel = true ->
    forall ls thr sch sn,
      wallet_threads addr_of thr -> (forall c, In c thr -> conforms p c) ->
      wexec (wallet_init ls thr) sch sn -> c_holder _ _ _ _ _ _ sn = None ->
      exists ops,
        run addr_of (init ls) ops = abs (c_p _ _ _ _ _ _ sn, c_e _ _ _ _ _ _ sn) /\
        (NoDup (pls (c_p _ _ _ _ _ _ sn)) -> valid_seq addr_of (init ls) ops).
  Proof.
    intros p fuel Hok ls thr sch sn Hthr Hconf He Hfin.
    destruct (fine_grained_refines_notify addr_of ls thr sch sn Hthr) as [ops [Hr [_ Hv]]]; auto.
    - intros c Hc. apply (discipline_from_atomic p fuel c Hok (Hconf c Hc)).
      apply (tcode_shape addr_of []). apply Hthr. exact Hc.
    - exists ops. split; assumption.
  Qed.

  (* what the exactly-once theorems of NotifyProofs.v then say about the final state of ANY
     fine-grained execution (listener channels distinct) *)
  Theorem fine_grained_outcome : forall p fuel,
    steps_atomic_ok p fuel = true ->
    forall ls thr sch sn,
      wallet_threads addr_of thr -> (forall c, In c thr -> conforms p c) ->
      wexec (wallet_init ls thr) sch sn -> c_holder _ _ _ _ _ _ sn = None ->
      NoDup (pls (c_p _ _ _ _ _ _ sn)) -> NoDup ls ->
      let P := c_p _ _ _ _ _ _ sn in let E := c_e _ _ _ _ _ _ sn in
      NoDup (pl P) /\
      NoDup (elog E ++ flat_map n_remaining (en E)) /\
      (forall l a, In (l, a) (elog E ++ flat_map n_remaining (en E)) -> In l (pls P) /\ In a (pl P)) /\
      incl (pl P) (file_addrs addr_of (ef E)) /\
      (flat_map n_remaining (en E) = [] ->
         forall l a, In l ls -> In a (pl P) -> count_occ pair_dec (elog E) (l, a) = 1).
  Proof.
    intros p fuel Hok ls thr sch sn Hthr Hconf He Hfin Hnd Hls. cbv zeta.
    destruct (fine_grained_refines p fuel Hok ls thr sch sn Hthr Hconf He Hfin) as [ops [Hr Hv]].
    specialize (Hv Hnd).
    pose proof (no_duplicate_accounts addr_of ls ops Hv) as T1.
    pose proof (at_most_once addr_of ls ops Hls Hv) as [_ T2].
    pose proof (fun l a => delivered_sound addr_of ls ops l a Hv) as T3.
    pose proof (accounts_sound addr_of ls ops Hv) as T4.
    pose proof (exactly_once addr_of ls [] ops) as T5.
    unfold pending, quiescent in *. cbn [app run] in T5. rewrite Hr in *.
    cbn [abs addrList log notifiers listeners files fst snd] in *.
    split; [exact T1|]. split; [exact T2|]. split; [exact T3|]. split; [exact T4|].
    intros Hq l a Hl Ha. apply T5; auto.
  Qed.
End Conform.

(* ---------------------------------------------------------------------------------------------- *)
(* the instance for the structure translated from the current source *)
Theorem fswallet_fine_grained_refines :
  steps_atomic_ok fswallet_prog fuel = true ->
  forall addr_of ls thr sch sn,
    wallet_threads addr_of thr ->
    Reduction.exec wcfg wstep (wallet_init ls thr) sch sn -> c_holder _ _ _ _ _ _ sn = None ->
    exists ops,
      run addr_of (init ls) ops = abs (c_p _ _ _ _ _ _ sn, c_e _ _ _ _ _ _ sn) /\
      (NoDup (pls (c_p _ _ _ _ _ _ sn)) -> valid_seq addr_of (init ls) ops).
Proof.
  intros Hok addr_of ls thr sch sn Hthr He Hfin.
  apply (fine_grained_refines addr_of fswallet_prog fuel Hok ls thr sch sn Hthr); auto.
  intros c Hc. exact (tcode_conforms addr_of [] c (Hthr c Hc)).
Qed.

Theorem fswallet_fine_grained_outcome :
  steps_atomic_ok fswallet_prog fuel = true ->
  forall addr_of ls thr sch sn,
    wallet_threads addr_of thr ->
    Reduction.exec wcfg wstep (wallet_init ls thr) sch sn -> c_holder _ _ _ _ _ _ sn = None ->
    NoDup (pls (c_p _ _ _ _ _ _ sn)) -> NoDup ls ->
    let P := c_p _ _ _ _ _ _ sn in let E := c_e _ _ _ _ _ _ sn in
    NoDup (pl P) /\
    NoDup (elog E ++ flat_map n_remaining (en E)) /\
    (forall l a, In (l, a) (elog E ++ flat_map n_remaining (en E)) -> In l (pls P) /\ In a (pl P)) /\
    incl (pl P) (file_addrs addr_of (ef E)) /\
    (flat_map n_remaining (en E) = [] ->
       forall l a, In l ls -> In a (pl P) -> count_occ pair_dec (elog E) (l, a) = 1).
Proof.
  intros Hok addr_of ls thr sch sn Hthr He Hfin Hnd Hls.
  apply (fine_grained_outcome addr_of fswallet_prog fuel Hok ls thr sch sn Hthr); auto.
  intros c Hc. exact (tcode_conforms addr_of [] c (Hthr c Hc)).
Qed.

(* non-vacuity: a NON-serial fine-grained execution (a file appears while AddListener is inside its
   critical section, between its read and its write of listeners) *)
Definition ex_thr : list wcode := [add_code 7%N; creator 3%N].
Definition ex_final : wcfg :=
  mkCfg prot env choice (list addr) outa ina (mkP [] [] [100%N; 7%N]) (mkE [3%N] [] []) None [Done []; Done []].

Lemma ex_fine_exec : Reduction.exec wcfg wstep (wallet_init [100%N] ex_thr) [0; 0; 1; 0; 0] ex_final.
Proof.
  unfold wallet_init, ex_thr, add_code, creator.
  eapply E_cons. { do 5 eexists. split; [reflexivity|]. split; [constructor|reflexivity]. }
  eapply E_cons. { do 5 eexists. split; [reflexivity|]. split; [constructor|reflexivity]. }
  eapply E_cons.
  { do 5 eexists. split; [reflexivity|]. split; [|reflexivity].
    eapply TS_out with (x := ([], 0)). cbn. intros []. }
  eapply E_cons. { do 5 eexists. split; [reflexivity|]. split; [constructor|reflexivity]. }
  eapply E_cons. { do 5 eexists. split; [reflexivity|]. split; [constructor|reflexivity]. }
  apply E_nil.
Qed.

Lemma ex_fine_threads : forall addr_of, wallet_threads addr_of ex_thr.
Proof. intros addr_of c [<-|[<-|[]]]; constructor. Qed.
