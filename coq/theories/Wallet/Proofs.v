(* Proofs about the wallet model (property C08), part 1: strings, hex, address text, association
   lists; the cache invariant and the address/key binding over all histories. *)
From Coq Require Import String.
From Coq Require Import List NArith Lia Bool Arith ZifyN ZifyNat ZifyBool.
From Coq Require Import Init.Byte.
From FFS Require Import Base.Res Base.Bytes Wallet.Model Wallet.Spec.
Import ListNotations.
Open Scope N_scope.

(* ---------- byte strings ---------- *)

Lemma bytes_eqb_true a b : bytes_eqb a b = true <-> a = b.
Proof. destruct (bytes_eqb_spec a b); split; congruence. Qed.

Lemma bytes_eqb_false a b : bytes_eqb a b = false <-> a <> b.
Proof. destruct (bytes_eqb_spec a b); split; congruence. Qed.

Lemma bytes_eqb_refl a : bytes_eqb a a = true.
Proof. apply bytes_eqb_true. reflexivity. Qed.

Lemma bytes_eqb_sym a b : bytes_eqb a b = bytes_eqb b a.
Proof. destruct (bytes_eqb_spec a b), (bytes_eqb_spec b a); congruence. Qed.

(* ---------- hex ---------- *)

Lemma n2b_inj x y : x < 256 -> y < 256 -> n2b x = n2b y -> x = y.
Proof. intros Hx Hy H. rewrite <- (b2n_n2b x Hx), <- (b2n_n2b y Hy), H. reflexivity. Qed.

Lemma hexdigit_inj x y : x < 16 -> y < 16 -> hexdigit x = hexdigit y -> x = y.
Proof.
  unfold hexdigit. intros Hx Hy H.
  destruct (N.ltb_spec x 10), (N.ltb_spec y 10); apply n2b_inj in H; lia.
Qed.

Lemma hex_encode_inj a b : hex_encode a = hex_encode b -> a = b.
Proof.
  revert b. induction a as [|x a IH]; intros [|y b] H; simpl in H; try discriminate; [reflexivity|].
  injection H as H1 H2 H3.
  pose proof (b2n_lt x). pose proof (b2n_lt y).
  apply hexdigit_inj in H1; [|apply N.div_lt_upper_bound; lia|apply N.div_lt_upper_bound; lia].
  apply hexdigit_inj in H2; [|apply N.mod_lt; lia|apply N.mod_lt; lia].
  f_equal; [|apply IH; exact H3].
  apply b2n_inj.
  rewrite (N.div_mod (b2n x) 16), (N.div_mod (b2n y) 16) by lia. rewrite H1, H2. reflexivity.
Qed.

(* Address0xHex.String is injective *)
Lemma addr_string_inj a b : addr_string a = addr_string b -> a = b.
Proof. unfold addr_string. intros H. apply app_inv_head in H. apply hex_encode_inj; exact H. Qed.

(* ---------- the model's address parser is the specification's "address text" ---------- *)

Lemma hexval_digit b : hexval b = digit_value b.
Proof. destruct b; vm_compute; reflexivity. Qed.

Lemma trim_0x_strip s : trim_prefix s_0x s = strip_0x s.
Proof.
  unfold trim_prefix, strip_0x, s_0x. simpl ascii_bytes.
  destruct s as [|a [|b rest]]; simpl.
  - reflexivity.
  - rewrite andb_false_r. reflexivity.
  - unfold byte_eqb. change (b2n "0"%byte) with 48. change (b2n "x"%byte) with 120.
    rewrite andb_true_r, (N.eqb_sym 48), (N.eqb_sym 120).
    destruct ((b2n a =? 48) && (b2n b =? 120)); reflexivity.
Qed.

Lemma list_ind2 {A} (P : list A -> Prop) :
  P [] -> (forall x, P [x]) -> (forall x y l, P l -> P (x :: y :: l)) -> forall l, P l.
Proof.
  intros H0 H1 H2. fix IH 1. intros [|x [|y l]]; [exact H0|apply H1|apply H2, IH].
Qed.

Lemma hex_decode_spec d :
  hex_decode d =
  if Nat.even (length d) && forallb is_hex_digit d then Some (bytes_of_digits d) else None.
Proof.
  induction d as [|x|x y l IH] using list_ind2.
  - reflexivity.
  - simpl. reflexivity.
  - cbn [hex_decode length forallb bytes_of_digits]. rewrite IH. unfold is_hex_digit.
    rewrite !hexval_digit.
    change (Nat.even (S (S (length l)))) with (Nat.even (length l)).
    destruct (digit_value x) as [vx|]; [|simpl; rewrite andb_false_r; reflexivity].
    destruct (digit_value y) as [vy|]; [|simpl; rewrite andb_false_r; reflexivity].
    cbn [andb]. destruct (Nat.even (length l) && forallb _ l); [|reflexivity].
    replace (16 * vx + vy) with (vx * 16 + vy) by lia. reflexivity.
Qed.

Lemma bytes_of_digits_length d :
  Nat.even (length d) = true -> forallb is_hex_digit d = true -> (2 * length (bytes_of_digits d) = length d)%nat.
Proof.
  induction d as [|x|x y l IH] using list_ind2; intros He Hf.
  - reflexivity.
  - discriminate.
  - cbn [forallb] in Hf. apply andb_prop in Hf as [Hx Hf]. apply andb_prop in Hf as [Hy Hf].
    unfold is_hex_digit in Hx, Hy. cbn [bytes_of_digits].
    destruct (digit_value x); [|discriminate]. destruct (digit_value y); [|discriminate].
    cbn [length]. change (Nat.even (S (S (length l)))) with (Nat.even (length l)) in He.
    specialize (IH He Hf). lia.
Qed.

Theorem parse_address_is_address_text s : parse_address s = addr_of_text s.
Proof.
  unfold parse_address, addr_of_text. rewrite trim_0x_strip, hex_decode_spec.
  set (d := strip_0x s).
  destruct (Nat.even (length d)) eqn:He; simpl.
  - destruct (forallb is_hex_digit d) eqn:Hf; simpl.
    + pose proof (bytes_of_digits_length d He Hf) as HL.
      destruct (Nat.eqb_spec (length (bytes_of_digits d)) 20), (Nat.eqb_spec (length d) 40); try reflexivity; lia.
    + rewrite andb_false_r. reflexivity.
  - destruct (Nat.eqb_spec (length d) 40) as [E|E]; [|reflexivity].
    rewrite E in He. discriminate.
Qed.

Lemma parse_address_length s a : parse_address s = Some a -> length a = 20%nat.
Proof.
  unfold parse_address. destruct (hex_decode _) as [b|]; [|discriminate].
  destruct (Nat.eqb_spec (length b) 20); [|discriminate]. intros H; injection H as <-. assumption.
Qed.

(* ---------- association lists ---------- *)

Lemma assoc_get_del {V} k k' (l : list (bytes * V)) :
  assoc_get k (assoc_del k' l) = if bytes_eqb k k' then None else assoc_get k l.
Proof.
  induction l as [|[k0 v] l IH]; simpl.
  - destruct (bytes_eqb k k'); reflexivity.
  - destruct (bytes_eqb_spec k' k0) as [->|N0].
    + rewrite IH. destruct (bytes_eqb_spec k k0); reflexivity.
    + simpl. rewrite IH. destruct (bytes_eqb_spec k k0) as [->|N1].
      * destruct (bytes_eqb_spec k0 k'); [congruence|reflexivity].
      * reflexivity.
Qed.

Lemma assoc_get_set {V} k k' (v : V) l :
  assoc_get k (assoc_set k' v l) = if bytes_eqb k k' then Some v else assoc_get k l.
Proof.
  unfold assoc_set. simpl. rewrite assoc_get_del. destruct (bytes_eqb k k'); reflexivity.
Qed.

(* ---------- the cache invariant ---------- *)

Section Binding.
Variables key tx stx doc tsig : Type.
Variable E : ext key tx stx doc tsig.
Variable c : config.

Notation state := (state key).
Notation op := (op tx doc).
Notation addr_of := (addr_of _ _ _ _ _ E).
Notation GetWalletFile := (GetWalletFile key tx stx doc tsig E c).
Notation Sign := (Sign key tx stx doc tsig E c).
Notation SignTypedDataV4 := (SignTypedDataV4 key tx stx doc tsig E c).
Notation step := (step key tx stx doc tsig E c).
Notation run := (run key tx stx doc tsig E c).
Notation after := (after key tx stx doc tsig E c).

(* every cached wallet file is stored under the string of the address its own key derives *)
Definition cache_ok (s : state) : Prop :=
  forall ks w, assoc_get ks (st_cache _ s) = Some w -> ks = addr_string (addr_of w).

Lemma cache_ok_init fs : cache_ok (init_state _ fs).
Proof. intros ks w H. discriminate. Qed.

(* GetWalletFile: the state it leaves and the key it returns *)
Lemma GetWalletFile_inv (s s' : state) a r :
  GetWalletFile s a = (s', r) ->
  st_fs _ s' = st_fs _ s /\ st_map _ s' = st_map _ s /\ st_list _ s' = st_list _ s /\
  ((st_cache _ s' = st_cache _ s /\
    (forall k, r = Ok k -> assoc_get (addr_string a) (st_cache _ s) = Some k)) \/
   (exists k, r = Ok k /\ addr_of k = a /\ assoc_get (addr_string a) (st_cache _ s) = None /\
              st_cache _ s' = assoc_set (addr_string a) k (st_cache _ s))).
Proof.
  unfold Model.GetWalletFile. intros H.
  destruct (assoc_get (addr_string a) (st_cache _ s)) as [w|] eqn:Hc.
  { inversion H; subst. repeat split; try reflexivity. left. split; [reflexivity|]. intros k Hk. congruence. }
  destruct (assoc_get a (st_map _ s)) as [fn|].
  2:{ inversion H; subst. repeat split; try reflexivity. left. split; [reflexivity|]. intros k Hk. discriminate. }
  destruct (loadWalletFile _ _ _ _ _ E c (st_fs _ s) a _) as [k'| |].
  - destruct (bytes_eqb (addr_of k') a) eqn:Eq; simpl in H.
    + inversion H; subst. simpl. repeat split; try reflexivity. right. exists k'.
      repeat split; try reflexivity. apply bytes_eqb_true; exact Eq.
    + inversion H; subst. repeat split; try reflexivity. left. split; [reflexivity|]. intros k Hk. discriminate.
  - inversion H; subst. repeat split; try reflexivity. left. split; [reflexivity|]. intros k Hk. discriminate.
  - inversion H; subst. repeat split; try reflexivity. left. split; [reflexivity|]. intros k Hk. discriminate.
Qed.

Lemma GetWalletFile_cache_ok (s s' : state) a r :
  cache_ok s -> GetWalletFile s a = (s', r) -> cache_ok s'.
Proof.
  intros Hs H. apply GetWalletFile_inv in H as (_ & _ & _ & [[Hc _]|(k & _ & Hk & _ & Hc)]).
  - intros ks w Hg. rewrite Hc in Hg. apply Hs; exact Hg.
  - intros ks w Hg. rewrite Hc, assoc_get_set in Hg.
    destruct (bytes_eqb_spec ks (addr_string a)) as [->|N].
    + injection Hg as <-. rewrite Hk. reflexivity.
    + apply Hs; exact Hg.
Qed.

(* the binding for one request in a state whose cache is sound — cached or not *)
Lemma GetWalletFile_binds (s s' : state) a k :
  cache_ok s -> GetWalletFile s a = (s', Ok k) -> addr_of k = a.
Proof.
  intros Hs H. apply GetWalletFile_inv in H as (_ & _ & _ & [[_ Hk]|(k' & Hr & Hk & _)]).
  - specialize (Hk k eq_refl). apply Hs in Hk. apply addr_string_inj in Hk. symmetry; exact Hk.
  - injection Hr as <-. exact Hk.
Qed.

Lemma notifyNewFiles_cache (s s' : state) files :
  notifyNewFiles _ _ _ _ _ E c s files = Ok s' -> st_cache _ s' = st_cache _ s /\ st_fs _ s' = st_fs _ s.
Proof.
  unfold notifyNewFiles. destruct (fold_left _ files _) as [[m l]| |]; simpl; try discriminate.
  intros H; injection H as <-. split; reflexivity.
Qed.

Lemma Refresh_cache (s s' : state) r :
  Refresh _ _ _ _ _ E c s = (s', r) -> st_cache _ s' = st_cache _ s /\ st_fs _ s' = st_fs _ s.
Proof.
  unfold Refresh. destruct (fs_readdir (st_fs _ s) (c_path c)) as [files| |].
  - destruct files as [|f files].
    + intros H; inversion H; subst; split; reflexivity.
    + destruct (notifyNewFiles _ _ _ _ _ E c s (f :: files)) as [s1| |] eqn:Hn;
        intros H; inversion H; subst; try (split; reflexivity).
      apply notifyNewFiles_cache in Hn. exact Hn.
  - intros H; inversion H; subst; split; reflexivity.
  - intros H; inversion H; subst; split; reflexivity.
Qed.

Lemma step_cache_ok (s : state) (o : op) : cache_ok s -> cache_ok (fst (step s o)).
Proof.
  intros Hs. destruct o; simpl.
  - destruct (Refresh _ _ _ _ _ E c s) as [s' r] eqn:H. simpl. apply Refresh_cache in H as [Hc _].
    intros ks w Hg. rewrite Hc in Hg. apply Hs; exact Hg.
  - exact Hs.
  - unfold Model.Sign, getSignerForJSONAccount, getSignerForAddr.
    destruct (parse_from _ _ _ _ _ E from_raw) as [a|]; [|exact Hs].
    destruct (GetWalletFile s a) as [s' r] eqn:H. simpl. eapply GetWalletFile_cache_ok; eauto.
  - unfold Model.SignTypedDataV4, getSignerForAddr.
    destruct (GetWalletFile s from) as [s' r] eqn:H. simpl. eapply GetWalletFile_cache_ok; eauto.
  - destruct (GetWalletFile s addr) as [s' r] eqn:H. simpl. eapply GetWalletFile_cache_ok; eauto.
  - intros ks w Hg. simpl in Hg. apply Hs; exact Hg.
  - destruct (notifyNewFiles _ _ _ _ _ E c s [(name, isdir)]) as [s'| |] eqn:H; simpl; try exact Hs.
    apply notifyNewFiles_cache in H as [Hc _]. intros ks w Hg. rewrite Hc in Hg. apply Hs; exact Hg.
  - intros ks w Hg. simpl in Hg. rewrite assoc_get_del in Hg.
    destruct (bytes_eqb ks k); [discriminate|]. apply Hs; exact Hg.
Qed.

Lemma run_cons (s : state) o h :
  run s (o :: h) = let '(s1, b) := step s o in let '(s2, bs) := run s1 h in (s2, b :: bs).
Proof. reflexivity. Qed.

Lemma after_cons (s : state) o h : after s (o :: h) = after (fst (step s o)) h.
Proof.
  unfold Model.after. rewrite run_cons. destruct (step s o) as [s1 b]. simpl.
  destruct (run s1 h) as [s2 bs]. reflexivity.
Qed.

Lemma after_app (s : state) h1 h2 : after s (h1 ++ h2) = after (after s h1) h2.
Proof.
  revert s. induction h1 as [|o h1 IH]; intros s; [reflexivity|].
  simpl app. rewrite !after_cons. apply IH.
Qed.

(* the invariant holds in every state reachable by any finite history *)
Lemma after_cache_ok (s : state) h : cache_ok s -> cache_ok (after s h).
Proof.
  revert s. induction h as [|o h IH]; intros s Hs; [exact Hs|].
  rewrite after_cons. apply IH, step_cache_ok, Hs.
Qed.

Theorem reachable_cache_ok fs h : cache_ok (after (init_state _ fs) h).
Proof. apply after_cache_ok, cache_ok_init. Qed.

(* ---------- the binding for the three kinds of request, in every reachable state ---------- *)

Theorem GetWalletFile_binds_reachable fs h a s' k :
  GetWalletFile (after (init_state _ fs) h) a = (s', Ok k) -> addr_of k = a.
Proof. apply GetWalletFile_binds, reachable_cache_ok. Qed.

Theorem Sign_binds_reachable fs h raw (t : tx) s' (out : stx) :
  Sign (after (init_state _ fs) h) raw t = (s', Ok out) ->
  exists a k, parse_from _ _ _ _ _ E raw = Some a /\ addr_of k = a /\ sign_tx _ _ _ _ _ E k t = Ok out.
Proof.
  unfold Model.Sign, getSignerForJSONAccount, getSignerForAddr.
  destruct (parse_from _ _ _ _ _ E raw) as [a|]; [|intros H; inversion H].
  destruct (GetWalletFile _ a) as [s1 r] eqn:Hg. intros H. inversion H; subst.
  destruct r as [k| |]; simpl in *; try discriminate.
  exists a, k. repeat split; auto. eapply GetWalletFile_binds_reachable; eauto.
Qed.

Theorem SignTypedData_binds_reachable fs h a (d : doc) s' (out : tsig) :
  SignTypedDataV4 (after (init_state _ fs) h) a d = (s', Ok out) ->
  exists k, addr_of k = a /\ sign_td _ _ _ _ _ E k d = Ok out.
Proof.
  unfold Model.SignTypedDataV4, getSignerForAddr.
  destruct (GetWalletFile _ a) as [s1 r] eqn:Hg. intros H. inversion H; subst.
  destruct r as [k| |]; simpl in *; try discriminate.
  exists k. split; auto. eapply GetWalletFile_binds_reachable; eauto.
Qed.

(* a key whose address is not the requested one is refused whenever it is not served from the cache,
   and never enters the cache *)
Theorem mismatch_refused (s : state) a fn k :
  assoc_get (addr_string a) (st_cache _ s) = None ->
  assoc_get a (st_map _ s) = Some fn ->
  loadWalletFile _ _ _ _ _ E c (st_fs _ s) a (path_join _ _ _ _ _ E (c_path c) fn) = Ok k ->
  addr_of k <> a ->
  GetWalletFile s a = (s, Err EMismatch).
Proof.
  intros Hc Hm Hl Hk. unfold Model.GetWalletFile. rewrite Hc, Hm, Hl.
  destruct (bytes_eqb_spec (addr_of k) a); [contradiction|reflexivity].
Qed.

End Binding.
