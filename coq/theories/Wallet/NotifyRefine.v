(* C17 — the fine-grained wallet refines the Notify model.

   Instance of the data-carrying interleaving semantics of Conc/Reduction.v:
     protected data   [prot]  = addressToFileMap, addressList, listeners        (guarded by mux)
     environment      [env]   = the files of the directory, the notifier goroutines started, the
                                receive log of the listener channels
     Out-actions      file creation, os.ReadDir (any sub-collection of the files present), os.Stat of
                      one file, one channel send of some notifier goroutine
     In-action        the `go` of notifyNewFiles (appends a notifier with the snapshot it was given)
   and the threads of a wallet system, each an action tree whose accesses are ONE read or write of
   ONE field at a time (so every interleaving between two accesses of a method is a schedule):
     [add_code l]      AddListener:  Lock; read listeners; write listeners; Unlock
     [get_code]        GetAccounts:  Lock; read addressList; Unlock
     [discover ls]     notifyNewFiles(ls): Lock; per file { matchFilename; read map; [write map;
                       [read list; write list]] }; read listeners (the snapshot); go;
                       Unlock       (the branches depend on the values READ — data-dependent tree)
     [refresh_code]    Refresh:  ReadDir; if non-empty, notifyNewFiles
     [event_code f]    fs event loop, one event:  Stat f; notifyNewFiles(f)
     [creator f], [sender n]   the environment: a file appears; n channel sends are performed.
   Results:
     [wallet_reduction]   every execution of such a system that ends with mux free is equivalent (same
                          final protected data, environment and thread states) to a SERIAL one
                          (instance of [Reduction.reduction]);
     [serial_refines]     every serial execution is, critical section by critical section, a run of
                          the Notify model: there are ops with [run (init ls) ops] = the final state;
     [fine_grained_refines_notify]  both together, with validity of the ops ([valid_seq]) when the
                          listener channels registered are distinct. *)
From Coq Require Import List NArith Bool Arith Lia Permutation String.
From FFS Require Import Conc.Lockset Conc.Atomic Conc.Reduction Wallet.Notify Wallet.NotifyProofs.
Import ListNotations.
Open Scope list_scope.

Record prot := mkP { pm : list (addr * fid); pl : list addr; pls : list lid }.
Record env := mkE { ef : list fid; en : list notifier; elog : list (lid * addr) }.
Definition choice := (list fid * nat)%type.       (* outcome of an Out-action: a listing / a notifier index *)
Inductive outa := OCreate (f : fid) | OReadDir | OStat (f : fid) | OSend.
Definition ina := (list lid * list addr)%type.    (* the snapshot and the new addresses handed to `go` *)

Definition w_out_en (a : outa) (e : env) (x : choice) : Prop :=
  match a with
  | OCreate f => ~ In f (ef e)
  | OReadDir => incl (fst x) (ef e)
  | OStat f => In f (ef e)
  | OSend => send_nth (snd x) (en e) <> None
  end.

Definition w_out_upd (a : outa) (e : env) (x : choice) : env :=
  match a with
  | OCreate f => mkE (ef e ++ [f]) (en e) (elog e)
  | OReadDir => e
  | OStat _ => e
  | OSend => match send_nth (snd x) (en e) with
             | Some (ns, y) => mkE (ef e) ns (elog e ++ [y])
             | None => e
             end
  end.

Definition w_in_upd (b : ina) (e : env) : env :=
  mkE (ef e) (en e ++ [mkNotifier (fst b) (sends (fst b) (snd b))]) (elog e).

Lemma send_nth_app : forall g ns ns' y n',
  send_nth g ns = Some (ns', y) -> send_nth g (ns ++ [n']) = Some (ns' ++ [n'], y).
Proof.
  induction g as [|g IH]; intros [|n t] ns' y n' H; cbn [send_nth app] in *; try discriminate.
  - destruct (n_remaining n) as [|x r]; [discriminate|]. inversion H; subst. reflexivity.
  - destruct (send_nth g t) as [[t' x]|] eqn:E; [|discriminate]. inversion H; subst.
    rewrite (IH _ _ _ n' E). reflexivity.
Qed.

Lemma w_out_in_comm : forall a b e x,
  w_out_en a e x -> w_out_en a (w_in_upd b e) x /\ w_out_upd a (w_in_upd b e) x = w_in_upd b (w_out_upd a e x).
Proof.
  intros [f| |f| ] b e x H; cbn [w_out_en w_out_upd w_in_upd ef en elog] in *.
  - split; [exact H|reflexivity].
  - split; [exact H|reflexivity].
  - split; [exact H|reflexivity].
  - destruct (send_nth (snd x) (en e)) as [[ns y]|] eqn:E; [|congruence].
    rewrite (send_nth_app _ _ _ _ _ E). split; [discriminate|reflexivity].
Qed.

Notation wcode := (Reduction.code prot choice (list addr) outa ina).
Notation wcfg := (Reduction.cfg prot env choice (list addr) outa ina).
Notation wstep := (Reduction.cstep prot env choice (list addr) outa ina w_out_en w_out_upd w_in_upd).
Arguments Done {P Ch Obs OutA InA}.
Arguments CLock {P Ch Obs OutA InA}.
Arguments CUnlock {P Ch Obs OutA InA}.
Arguments CAcc {P Ch Obs OutA InA}.
Arguments CIn {P Ch Obs OutA InA}.
Arguments COut {P Ch Obs OutA InA}.
Arguments CTau {P Ch Obs OutA InA}.

Definition fL : loc := ["listeners"%string].
Definition fM : loc := ["addressToFileMap"%string].
Definition fA : loc := ["addressList"%string].

Definition add_code (l : lid) : wcode :=
  CLock (CAcc fL false (fun p => p) (fun p =>
         CAcc fL true (fun q => mkP (pm q) (pl q) (pls p ++ [l])) (fun _ =>
         CUnlock (Done [])))).

Definition get_code : wcode :=
  CLock (CAcc fA false (fun p => p) (fun p =>
         CUnlock (Done (pl p)))).

Section Codes.
  Variable addr_of : fid -> option addr.

  (* the body of notifyNewFiles after the Lock: the loop over the files, then snapshot, go, Unlock *)
  Fixpoint loop (listing : list fid) (new : list addr) : wcode :=
    match listing with
    | [] =>
        CAcc fL false (fun p => p) (fun p =>          (* copy(listeners, w.listeners) *)
        CIn (pls p, new) (CUnlock (Done [])))
    | f :: rest =>
        CTau (                                         (* matchFilename *)
        match addr_of f with
        | None => loop rest new
        | Some a =>
            CAcc fM false (fun p => p) (fun p =>      (* existingFilename, exists := map[addr] *)
            match lookup a (pm p) with
            | Some f' =>
                if N.eqb f' f then loop rest new
                else CAcc fM true (fun q => mkP (set_map a f (pm q)) (pl q) (pls q)) (fun _ => loop rest new)
            | None =>
                CAcc fM true (fun q => mkP (set_map a f (pm q)) (pl q) (pls q)) (fun _ =>
                CAcc fA false (fun p => p) (fun p2 =>  (* append(w.addressList, addr): read ... *)
                CAcc fA true (fun q => mkP (pm q) (pl p2 ++ [a]) (pls q)) (fun _ =>   (* ... write *)
                loop rest (new ++ [a]))))
            end)
        end)
    end.

  Definition discover (listing : list fid) : wcode := CLock (loop listing []).

  Definition refresh_code : wcode :=
    COut OReadDir (fun x => match fst x with [] => Done [] | _ :: _ => discover (fst x) end).
  Definition event_code (f : fid) : wcode := COut (OStat f) (fun _ => discover [f]).
  Definition creator (f : fid) : wcode := COut (OCreate f) (fun _ => Done []).
  Fixpoint sender (n : nat) : wcode :=
    match n with O => Done [] | S n' => COut OSend (fun _ => sender n') end.

  (* the threads a wallet system may consist of (F: files known to be present) *)
  Inductive tcode (F : list fid) : wcode -> Prop :=
  | TC_refresh : tcode F refresh_code
  | TC_event : forall f, tcode F (event_code f)
  | TC_disc : forall listing, listing <> [] -> incl listing F -> tcode F (discover listing)
  | TC_add : forall l, tcode F (add_code l)
  | TC_get : tcode F get_code
  | TC_creator : forall f, tcode F (creator f)
  | TC_sender : forall n, tcode F (sender n)
  | TC_done : forall o, tcode F (Done o).

  Lemma tcode_mono : forall F F' c, incl F F' -> tcode F c -> tcode F' c.
  Proof.
    intros F F' c Hi H. destruct H; try constructor; auto.
    intros x Hx. apply Hi. auto.
  Qed.

  (* ---- discipline of these trees (directly; the derivation from the translated structure is
          Properties/C17.v, via [Reduction.atomic_paths_wl]) ---- *)
  Notation wwl := (Reduction.wl prot choice (list addr) outa ina).

  Lemma loop_wl : forall listing new, wwl true (loop listing new).
  Proof.
    induction listing as [|f rest IH]; intros new; cbn [loop Reduction.wl].
    - repeat split; auto.
    - destruct (addr_of f) as [a|]; [|apply IH]. split; [reflexivity|]. intros p.
      destruct (lookup a (pm p)) as [f'|].
      + destruct (N.eqb f' f); [apply IH|]. cbn [Reduction.wl]. split; [reflexivity|]. intros _. apply IH.
      + cbn [Reduction.wl]. repeat (split; [reflexivity|]; intros ?). apply IH.
  Qed.

  Lemma sender_wl : forall n, wwl false (sender n).
  Proof. induction n; cbn [sender Reduction.wl]; auto. Qed.

  Lemma tcode_wl : forall F c, tcode F c -> wwl false c.
  Proof.
    intros F c H. destruct H; cbn [Reduction.wl refresh_code event_code discover add_code get_code creator].
    - split; [reflexivity|]. intros x. destruct (fst x); cbn [Reduction.wl discover]; [reflexivity|apply loop_wl].
    - split; [reflexivity|]. intros _. apply loop_wl.
    - apply loop_wl.
    - repeat split; auto.
    - repeat split; auto.
    - split; [reflexivity|]. intros _. reflexivity.
    - apply sender_wl.
    - reflexivity.
  Qed.

  (* ------------------------------------------------------------------------------------------ *)
  (* the rest of a critical section, run to its Unlock *)
  Fixpoint complete (c : wcode) (p : prot) (e : env) : prot * env :=
    match c with
    | CAcc _ _ upd k => complete (k p) (upd p) e
    | CIn b k => complete k p (w_in_upd b e)
    | CTau k => complete k p e
    | _ => (p, e)
    end.

  (* inside a critical section: only accesses / In / local steps, then Unlock, then finished *)
  Fixpoint ends_done (c : wcode) : Prop :=
    match c with
    | CAcc _ _ _ k => forall p, ends_done (k p)
    | CIn _ k => ends_done k
    | CTau k => ends_done k
    | CUnlock (Done _) => True
    | _ => False
    end.

  Lemma loop_ends : forall listing new, ends_done (loop listing new).
  Proof.
    induction listing as [|f rest IH]; intros new; cbn [loop ends_done].
    - auto.
    - destruct (addr_of f) as [a|]; [|apply IH]. intros p.
      destruct (lookup a (pm p)) as [f'|].
      + destruct (N.eqb f' f); [apply IH|]. cbn [ends_done]. intros _. apply IH.
      + cbn [ends_done]. intros _ _ _. apply IH.
  Qed.

  Definition spawn (ls : list lid) (new : list addr) (e : env) : env := w_in_upd (ls, new) e.

  Lemma loop_complete : forall listing new p e,
    complete (loop listing new) p e =
      let '(m, al, nw) := scan addr_of listing (pm p) (pl p) new in
      (mkP m al (pls p), spawn (pls p) nw e).
  Proof.
    induction listing as [|f rest IH]; intros new p e; cbn [loop complete scan].
    - destruct p; reflexivity.
    - destruct (addr_of f) as [a|]; [|apply IH].
      cbn [complete]. destruct (lookup a (pm p)) as [f'|] eqn:El.
      + destruct (N.eqb f' f); [apply IH|]. cbn [complete]. rewrite IH. cbn [pm pl pls]. reflexivity.
      + cbn [complete]. rewrite IH. cbn [pm pl pls]. reflexivity.
  Qed.

  (* ------------------------------------------------------------------------------------------ *)
  (* abstraction to a state of the Notify model *)
  Definition abs (pe : prot * env) : state :=
    mkState (ef (snd pe)) (pm (fst pe)) (pl (fst pe)) (pls (fst pe)) (en (snd pe)) (elog (snd pe)).

  (* the state the current critical section (if any) will have produced at its Unlock *)
  Definition phi (s : wcfg) : prot * env :=
    match c_holder _ _ _ _ _ _ s with
    | Some h => match nth_error (c_thr _ _ _ _ _ _ s) h with
                | Some c => complete c (c_p _ _ _ _ _ _ s) (c_e _ _ _ _ _ _ s)
                | None => (c_p _ _ _ _ _ _ s, c_e _ _ _ _ _ _ s)
                end
    | None => (c_p _ _ _ _ _ _ s, c_e _ _ _ _ _ _ s)
    end.

  (* validity without the "fresh listener channel" clause *)
  Definition valid' (s : state) (o : op) : Prop :=
    match o with AddListener _ => True | _ => valid s o end.
  Fixpoint vseq' (s : state) (ops : list op) : Prop :=
    match ops with [] => True | o :: t => valid' s o /\ vseq' (apply addr_of s o) t end.

  Lemma vseq'_app : forall a s b, vseq' s a -> vseq' (run addr_of s a) b -> vseq' s (a ++ b).
  Proof. induction a as [|o a IH]; intros s b Ha Hb; cbn in *; [exact Hb|]. destruct Ha; split; auto. Qed.

  Definition GInv (s : wcfg) : Prop :=
    (forall h, c_holder _ _ _ _ _ _ s = Some h ->
        exists c, nth_error (c_thr _ _ _ _ _ _ s) h = Some c /\ ends_done c) /\
    (forall t c, nth_error (c_thr _ _ _ _ _ _ s) t = Some c -> c_holder _ _ _ _ _ _ s <> Some t ->
        tcode (ef (c_e _ _ _ _ _ _ s)) c).

  Lemma nnf_abs : forall listing p e,
    notify_new_files addr_of listing (abs (p, e)) = abs (complete (loop listing []) p e).
  Proof.
    intros listing p e. rewrite loop_complete. unfold notify_new_files, abs. cbn [fileMap addrList fst snd pm pl].
    destruct (scan addr_of listing (pm p) (pl p) []) as [[m al] nw]. reflexivity.
  Qed.

  Lemma serial_step : forall s t s',
    GInv s -> (forall h, c_holder _ _ _ _ _ _ s = Some h -> h = t) -> wstep s t s' ->
    GInv s' /\ exists ops, vseq' (abs (phi s)) ops /\ run addr_of (abs (phi s)) ops = abs (phi s').
  Proof.
    intros [p e ho thr] t s' [Hh Ht] Hser (c & h' & p' & e' & c' & Hn & Hst & ->).
    cbn [c_thr c_holder c_p c_e] in *.
    destruct ho as [h|].
    - (* a step of the holder *)
      pose proof (Hser h eq_refl) as ->.
      destruct (Hh t eq_refl) as [c0 [Hn0 Hend]]. rewrite Hn in Hn0. injection Hn0 as <-.
      assert (Hothers : forall u cu, nth_error (set_nth t c' thr) u = Some cu -> u <> t -> tcode (ef e) cu).
      { intros u cu Hu Hne. rewrite nth_set_other in Hu by congruence. apply (Ht u cu Hu). congruence. }
      inversion Hst; subst; cbn [ends_done] in Hend; try contradiction.
      + (* Unlock *)
        destruct c' as [o| | | | | | ]; try contradiction.
        split.
        * split; [intros h Hc; discriminate|]. cbn [c_thr c_holder c_e].
          intros u cu Hu _. destruct (Nat.eq_dec u t) as [->|Hne].
          -- rewrite (nth_set_same _ _ _ _ Hn) in Hu. injection Hu as <-. constructor.
          -- apply (Hothers u cu); assumption.
        * exists []. split; [exact I|]. unfold phi. cbn [c_holder c_thr c_p c_e]. rewrite Hn. reflexivity.
      + (* Acc *)
        split.
        * split.
          -- intros h Hc. injection Hc as <-. exists (k p). split; [apply (nth_set_same _ _ _ _ Hn)|apply Hend].
          -- cbn [c_thr c_holder c_e]. intros u cu Hu Hne. apply (Hothers u cu); [exact Hu|congruence].
        * exists []. split; [exact I|]. unfold phi. cbn [c_holder c_thr c_p c_e run].
          rewrite Hn, (nth_set_same _ _ _ _ Hn). reflexivity.
      + (* In *)
        split.
        * split.
          -- intros h Hc. injection Hc as <-. exists c'. split; [apply (nth_set_same _ _ _ _ Hn)|exact Hend].
          -- cbn [c_thr c_holder c_e]. intros u cu Hu Hne. cbn [w_in_upd ef]. apply (Hothers u cu); [exact Hu|congruence].
        * exists []. split; [exact I|]. unfold phi. cbn [c_holder c_thr c_p c_e run].
          rewrite Hn, (nth_set_same _ _ _ _ Hn). reflexivity.
      + (* Tau *)
        split.
        * split.
          -- intros h Hc. injection Hc as <-. exists c'. split; [apply (nth_set_same _ _ _ _ Hn)|exact Hend].
          -- cbn [c_thr c_holder c_e]. intros u cu Hu Hne. apply (Hothers u cu); [exact Hu|congruence].
        * exists []. split; [exact I|]. unfold phi. cbn [c_holder c_thr c_p c_e run].
          rewrite Hn, (nth_set_same _ _ _ _ Hn). reflexivity.
    - (* nobody holds the mutex *)
      clear Hh Hser.
      assert (Htc : tcode (ef e) c) by (apply (Ht t c Hn); discriminate).
      assert (Hothers : forall F', incl (ef e) F' ->
                forall u cu, nth_error (set_nth t c' thr) u = Some cu -> u <> t -> tcode F' cu).
      { intros F' Hi u cu Hu Hne. rewrite nth_set_other in Hu by congruence.
        apply (tcode_mono (ef e)); [exact Hi|]. apply (Ht u cu Hu). discriminate. }
      unfold phi at 1. cbn [c_holder c_p c_e].
      destruct Htc as [ |f|listing Hnil Hincl|l| |f|n|o].
      + (* Refresh: ReadDir *)
        unfold refresh_code in Hst. inversion Hst; subst. cbn [w_out_en] in *.
        split.
        * split; [intros h Hc; discriminate|]. cbn [c_thr c_holder c_e w_out_upd].
          intros u cu Hu _. destruct (Nat.eq_dec u t) as [->|Hne].
          -- rewrite (nth_set_same _ _ _ _ Hn) in Hu. injection Hu as <-.
             destruct (fst x) as [|f0 r] eqn:Ex; [constructor|]. apply TC_disc; [discriminate|assumption].
          -- apply (Hothers _ (incl_refl _) u cu); assumption.
        * exists []. split; [exact I|]. reflexivity.
      + (* fs event: Stat *)
        unfold event_code in Hst. inversion Hst; subst. cbn [w_out_en] in *.
        split.
        * split; [intros h Hc; discriminate|]. cbn [c_thr c_holder c_e w_out_upd].
          intros u cu Hu _. destruct (Nat.eq_dec u t) as [->|Hne].
          -- rewrite (nth_set_same _ _ _ _ Hn) in Hu. injection Hu as <-.
             constructor; [discriminate|]. intros y [<-|[]]. assumption.
          -- apply (Hothers _ (incl_refl _) u cu); assumption.
        * exists []. split; [exact I|]. reflexivity.
      + (* notifyNewFiles: Lock *)
        unfold discover in Hst. inversion Hst; subst.
        split.
        * split.
          -- intros h Hc. injection Hc as <-. exists (loop listing []). split; [apply (nth_set_same _ _ _ _ Hn)|apply loop_ends].
          -- cbn [c_thr c_holder c_e]. intros u cu Hu Hne. apply (Hothers _ (incl_refl _) u cu); [exact Hu|congruence].
        * exists [Refresh listing]. split.
          -- cbn [vseq' valid' valid abs files fst snd]. split; [exact Hincl|exact I].
          -- unfold phi. cbn [c_holder c_thr c_p c_e]. rewrite (nth_set_same _ _ _ _ Hn).
             cbn [run apply]. destruct listing as [|f0 r]; [congruence|]. apply nnf_abs.
      + (* AddListener: Lock *)
        unfold add_code in Hst. inversion Hst; subst.
        split.
        * split.
          -- intros h Hc. injection Hc as <-. eexists. split; [apply (nth_set_same _ _ _ _ Hn)|]. cbn [ends_done]. auto.
          -- cbn [c_thr c_holder c_e]. intros u cu Hu Hne. apply (Hothers _ (incl_refl _) u cu); [exact Hu|congruence].
        * exists [AddListener l]. split; [cbn; auto|].
          unfold phi. cbn [c_holder c_thr c_p c_e]. rewrite (nth_set_same _ _ _ _ Hn). reflexivity.
      + (* GetAccounts: Lock *)
        unfold get_code in Hst. inversion Hst; subst.
        split.
        * split.
          -- intros h Hc. injection Hc as <-. eexists. split; [apply (nth_set_same _ _ _ _ Hn)|]. cbn [ends_done]. auto.
          -- cbn [c_thr c_holder c_e]. intros u cu Hu Hne. apply (Hothers _ (incl_refl _) u cu); [exact Hu|congruence].
        * exists [GetAccounts]. split; [cbn; auto|].
          unfold phi. cbn [c_holder c_thr c_p c_e]. rewrite (nth_set_same _ _ _ _ Hn). destruct p'; reflexivity.
      + (* a file is created *)
        unfold creator in Hst. inversion Hst; subst. cbn [w_out_en] in *.
        split.
        * split; [intros h Hc; discriminate|]. cbn [c_thr c_holder c_e w_out_upd ef].
          intros u cu Hu _. destruct (Nat.eq_dec u t) as [->|Hne].
          -- rewrite (nth_set_same _ _ _ _ Hn) in Hu. injection Hu as <-. constructor.
          -- apply (Hothers (ef e ++ [f]) (incl_appl _ (incl_refl _)) u cu); [exact Hu|exact Hne].
        * exists [CreateFile f]. split; [cbn [vseq' valid' valid abs files snd]; auto|]. reflexivity.
      + (* a channel send *)
        destruct n as [|n]; cbn [sender] in Hst; inversion Hst; subst. cbn [w_out_en] in *.
        split.
        * split; [intros h Hc; discriminate|]. cbn [c_thr c_holder c_e w_out_upd].
          assert (Hf : ef (match send_nth (snd x) (en e) with
                           | Some (ns, y) => mkE (ef e) ns (elog e ++ [y]) | None => e end) = ef e)
            by (destruct (send_nth (snd x) (en e)) as [[? ?]|]; reflexivity).
          rewrite Hf.
          intros u cu Hu _. destruct (Nat.eq_dec u t) as [->|Hne].
          -- rewrite (nth_set_same _ _ _ _ Hn) in Hu. injection Hu as <-. constructor.
          -- apply (Hothers _ (incl_refl _) u cu); assumption.
        * exists [NotifierSend (snd x)]. split; [cbn; auto|].
          unfold phi, abs. cbn [c_holder c_p c_e run apply notifiers fst snd w_out_upd].
          destruct (send_nth (snd x) (en e)) as [[ns y]|]; [reflexivity|congruence].
      + (* finished: no step *)
        inversion Hst.
  Qed.

  Notation wsexec := (Reduction.sexec wcfg wstep (c_holder prot env choice (list addr) outa ina)).
  Notation wexec := (Reduction.exec wcfg wstep).

  Lemma serial_refines_gen : forall s sch sn, wsexec s sch sn -> GInv s ->
    exists ops, vseq' (abs (phi s)) ops /\ run addr_of (abs (phi s)) ops = abs (phi sn).
  Proof.
    induction 1 as [s|s t s1 sch sn Hc Hst Hse IH]; intros Hinv.
    - exists []. split; [exact I|reflexivity].
    - destruct (serial_step s t s1 Hinv Hc Hst) as [Hinv1 [ops1 [Hv1 Hr1]]].
      destruct (IH Hinv1) as [ops2 [Hv2 Hr2]].
      exists (ops1 ++ ops2). split.
      + apply vseq'_app; [exact Hv1|]. rewrite Hr1. exact Hv2.
      + rewrite run_app, Hr1. exact Hr2.
  Qed.

  (* ---- per-thread observations: what a finished call returned ---- *)
  (* the observation the running critical section will finish with *)
  Fixpoint final_obs (c : wcode) (p : prot) : option (list addr) :=
    match c with
    | CAcc _ _ upd k => final_obs (k p) (upd p)
    | CIn _ k => final_obs k p
    | CTau k => final_obs k p
    | CUnlock (Done o) => Some o
    | _ => None
    end.

  Lemma loop_obs : forall listing new p, final_obs (loop listing new) p = Some [].
  Proof.
    induction listing as [|f rest IH]; intros new p; cbn [loop final_obs]; [reflexivity|].
    destruct (addr_of f) as [a|]; [|apply IH]. cbn [final_obs].
    destruct (lookup a (pm p)) as [f'|].
    - destruct (N.eqb f' f); [apply IH|]. cbn [final_obs]. apply IH.
    - cbn [final_obs]. apply IH.
  Qed.

  Definition HObs (s : wcfg) : Prop :=
    forall h c o, c_holder _ _ _ _ _ _ s = Some h -> nth_error (c_thr _ _ _ _ _ _ s) h = Some c ->
      final_obs c (c_p _ _ _ _ _ _ s) = Some o -> o = [] \/ o = pl (fst (phi s)).

  Lemma ends_not_done : forall c o, ends_done c -> c <> Done o.
  Proof. intros c o H E. subst c. exact H. Qed.

  Lemma serial_step_obs : forall s t s',
    GInv s -> HObs s -> (forall h, c_holder _ _ _ _ _ _ s = Some h -> h = t) -> wstep s t s' ->
    HObs s' /\
    forall u o, nth_error (c_thr _ _ _ _ _ _ s') u = Some (Done o) ->
      nth_error (c_thr _ _ _ _ _ _ s) u = Some (Done o) \/ o = [] \/ o = pl (fst (phi s')).
  Proof.
    intros [p e ho thr] t s' [Hh Ht] Hobs Hser (c & h' & p' & e' & c' & Hn & Hst & ->).
    unfold HObs in *. cbn [c_thr c_holder c_p c_e] in *.
    assert (Hother : forall u x, u <> t -> nth_error (set_nth t c' thr) u = Some x -> nth_error thr u = Some x).
    { intros u x Hne Hu. rewrite nth_set_other in Hu by congruence. exact Hu. }
    destruct ho as [h|].
    - pose proof (Hser h eq_refl) as ->.
      destruct (Hh t eq_refl) as [c0 [Hn0 Hend]]. rewrite Hn in Hn0. injection Hn0 as <-.
      specialize (Hobs t c).
      inversion Hst; subst; cbn [ends_done] in Hend; try contradiction.
      + (* Unlock *)
        destruct c' as [o| | | | | | ]; try contradiction.
        split; [intros h c1 o1 Hc; discriminate|].
        intros u o1 Hu. destruct (Nat.eq_dec u t) as [->|Hne].
        * rewrite (nth_set_same _ _ _ _ Hn) in Hu. injection Hu as <-. right.
          destruct (Hobs o eq_refl Hn eq_refl) as [->|Ho]; [left; reflexivity|right].
          rewrite Ho. unfold phi. cbn [c_holder c_thr c_p c_e]. rewrite Hn. reflexivity.
        * left. eapply Hother; eassumption.
      + (* Acc *)
        split.
        * intros h c1 o1 Hc Hn1 Hf. injection Hc as <-. rewrite (nth_set_same _ _ _ _ Hn) in Hn1. injection Hn1 as <-.
          destruct (Hobs o1 eq_refl Hn Hf) as [->|Ho]; [left; reflexivity|right].
          rewrite Ho. unfold phi. cbn [c_holder c_thr c_p c_e]. rewrite Hn, (nth_set_same _ _ _ _ Hn). reflexivity.
        * intros u o1 Hu. destruct (Nat.eq_dec u t) as [->|Hne].
          -- rewrite (nth_set_same _ _ _ _ Hn) in Hu. injection Hu as Hu. exfalso. exact (ends_not_done _ _ (Hend p) Hu).
          -- left. eapply Hother; eassumption.
      + (* In *)
        split.
        * intros h c1 o1 Hc Hn1 Hf. injection Hc as <-. rewrite (nth_set_same _ _ _ _ Hn) in Hn1. injection Hn1 as <-.
          destruct (Hobs o1 eq_refl Hn Hf) as [->|Ho]; [left; reflexivity|right].
          rewrite Ho. unfold phi. cbn [c_holder c_thr c_p c_e]. rewrite Hn, (nth_set_same _ _ _ _ Hn). reflexivity.
        * intros u o1 Hu. destruct (Nat.eq_dec u t) as [->|Hne].
          -- rewrite (nth_set_same _ _ _ _ Hn) in Hu. injection Hu as Hu. exfalso. exact (ends_not_done _ _ Hend Hu).
          -- left. eapply Hother; eassumption.
      + (* Tau *)
        split.
        * intros h c1 o1 Hc Hn1 Hf. injection Hc as <-. rewrite (nth_set_same _ _ _ _ Hn) in Hn1. injection Hn1 as <-.
          destruct (Hobs o1 eq_refl Hn Hf) as [->|Ho]; [left; reflexivity|right].
          rewrite Ho. unfold phi. cbn [c_holder c_thr c_p c_e]. rewrite Hn, (nth_set_same _ _ _ _ Hn). reflexivity.
        * intros u o1 Hu. destruct (Nat.eq_dec u t) as [->|Hne].
          -- rewrite (nth_set_same _ _ _ _ Hn) in Hu. injection Hu as Hu. exfalso. exact (ends_not_done _ _ Hend Hu).
          -- left. eapply Hother; eassumption.
    - clear Hh Hser Hobs.
      assert (Htc : tcode (ef e) c) by (apply (Ht t c Hn); discriminate).
      destruct Htc as [ |f|listing Hnil Hincl|l| |f|n|o].
      + unfold refresh_code in Hst. inversion Hst; subst.
        split; [intros h c1 o1 Hc; discriminate|].
        intros u o1 Hu. destruct (Nat.eq_dec u t) as [->|Hne]; [|left; eapply Hother; eassumption].
        rewrite (nth_set_same _ _ _ _ Hn) in Hu. injection Hu as Hu. right. left.
        destruct (fst x); [injection Hu as <-; reflexivity|discriminate].
      + unfold event_code in Hst. inversion Hst; subst.
        split; [intros h c1 o1 Hc; discriminate|].
        intros u o1 Hu. destruct (Nat.eq_dec u t) as [->|Hne]; [|left; eapply Hother; eassumption].
        rewrite (nth_set_same _ _ _ _ Hn) in Hu. discriminate.
      + unfold discover in Hst. inversion Hst; subst.
        split.
        * intros h c1 o1 Hc Hn1 Hf. injection Hc as <-. rewrite (nth_set_same _ _ _ _ Hn) in Hn1. injection Hn1 as <-.
          rewrite loop_obs in Hf. injection Hf as <-. left; reflexivity.
        * intros u o1 Hu. destruct (Nat.eq_dec u t) as [->|Hne]; [|left; eapply Hother; eassumption].
          rewrite (nth_set_same _ _ _ _ Hn) in Hu. injection Hu as Hu. exfalso.
          exact (ends_not_done _ _ (loop_ends listing []) Hu).
      + unfold add_code in Hst. inversion Hst; subst.
        split.
        * intros h c1 o1 Hc Hn1 Hf. injection Hc as <-. rewrite (nth_set_same _ _ _ _ Hn) in Hn1. injection Hn1 as <-.
          cbn [final_obs] in Hf. injection Hf as <-. left; reflexivity.
        * intros u o1 Hu. destruct (Nat.eq_dec u t) as [->|Hne]; [|left; eapply Hother; eassumption].
          rewrite (nth_set_same _ _ _ _ Hn) in Hu. discriminate.
      + unfold get_code in Hst. inversion Hst; subst.
        split.
        * intros h c1 o1 Hc Hn1 Hf. injection Hc as <-. rewrite (nth_set_same _ _ _ _ Hn) in Hn1. injection Hn1 as <-.
          cbn [final_obs] in Hf. injection Hf as <-. right.
          unfold phi. cbn [c_holder c_thr c_p c_e]. rewrite (nth_set_same _ _ _ _ Hn). reflexivity.
        * intros u o1 Hu. destruct (Nat.eq_dec u t) as [->|Hne]; [|left; eapply Hother; eassumption].
          rewrite (nth_set_same _ _ _ _ Hn) in Hu. discriminate.
      + unfold creator in Hst. inversion Hst; subst.
        split; [intros h c1 o1 Hc; discriminate|].
        intros u o1 Hu. destruct (Nat.eq_dec u t) as [->|Hne]; [|left; eapply Hother; eassumption].
        rewrite (nth_set_same _ _ _ _ Hn) in Hu. injection Hu as <-. right. left. reflexivity.
      + destruct n as [|n]; cbn [sender] in Hst; inversion Hst; subst.
        split; [intros h c1 o1 Hc; discriminate|].
        intros u o1 Hu. destruct (Nat.eq_dec u t) as [->|Hne]; [|left; eapply Hother; eassumption].
        rewrite (nth_set_same _ _ _ _ Hn) in Hu. injection Hu as Hu. right. left.
        destruct n; cbn [sender] in Hu; [injection Hu as <-; reflexivity|discriminate].
      + inversion Hst.
  Qed.

  (* ---- validity of AddListener from distinctness of what ends up registered ---- *)
  Lemma listeners_apply : forall s o, exists r, listeners (apply addr_of s o) = listeners s ++ r.
  Proof.
    intros s [f|f|listing|l| |g]; cbn [apply].
    - exists []. rewrite app_nil_r. reflexivity.
    - exists []. rewrite app_nil_r. unfold notify_new_files. destruct (scan _ _ _ _ _) as [[? ?] ?]. reflexivity.
    - exists []. rewrite app_nil_r. destruct listing; [reflexivity|].
      unfold notify_new_files. destruct (scan _ _ _ _ _) as [[? ?] ?]. reflexivity.
    - exists [l]. reflexivity.
    - exists []. rewrite app_nil_r. reflexivity.
    - exists []. rewrite app_nil_r. destruct (send_nth g (notifiers s)) as [[? ?]|]; reflexivity.
  Qed.

  Lemma listeners_run : forall ops s, exists r, listeners (run addr_of s ops) = listeners s ++ r.
  Proof.
    induction ops as [|o ops IH]; intros s; cbn [run].
    - exists []. rewrite app_nil_r. reflexivity.
    - destruct (IH (apply addr_of s o)) as [r Hr]. destruct (listeners_apply s o) as [r0 Hr0].
      exists (r0 ++ r). rewrite Hr, Hr0, app_assoc. reflexivity.
  Qed.

  Lemma vseq'_valid : forall ops s,
    vseq' s ops -> NoDup (listeners (run addr_of s ops)) -> valid_seq addr_of s ops.
  Proof.
    induction ops as [|o ops IH]; intros s Hv Hnd; cbn [vseq' valid_seq run] in *; [exact I|].
    destruct Hv as [Hv Hvs]. split; [|apply IH; assumption].
    destruct o as [f|f|listing|l| |g]; try exact Hv.
    cbn [valid]. intros Hin.
    destruct (listeners_run ops (apply addr_of s (AddListener l))) as [r Hr]. rewrite Hr in Hnd.
    cbn [apply listeners] in Hnd. rewrite <- app_assoc in Hnd.
    apply (NoDup_app_disj (listeners s) ([l] ++ r) l Hnd Hin). left. reflexivity.
  Qed.

  (* ---- a wallet system: the wallet just constructed (given initial listeners), mux free, any
          number of threads of the kinds above ---- *)
  Definition wallet_init (ls : list lid) (thr : list wcode) : wcfg :=
    mkCfg prot env choice (list addr) outa ina (mkP [] [] ls) (mkE [] [] []) None thr.

  Definition wallet_threads (thr : list wcode) : Prop := forall c, In c thr -> tcode [] c.

  Lemma wallet_init_ginv : forall ls thr, wallet_threads thr -> GInv (wallet_init ls thr).
  Proof.
    intros ls thr H. split; cbn [wallet_init c_holder c_thr c_e ef]; [intros h Hc; discriminate|].
    intros t c Hn _. apply H. eapply nth_error_In; eauto.
  Qed.

  Lemma wallet_init_cinv : forall ls thr, wallet_threads thr ->
    Reduction.CInv prot env choice (list addr) outa ina (wallet_init ls thr).
  Proof.
    intros ls thr H t c Hn. unfold holds. cbn [wallet_init c_holder c_thr] in *.
    apply (tcode_wl []). apply H. eapply nth_error_In; eauto.
  Qed.

  (* every execution of a system whose threads are lock-disciplined, ending with mux free, is
     equivalent to a serial one *)
  Theorem wallet_reduction : forall s0 sch sn,
    Reduction.CInv prot env choice (list addr) outa ina s0 ->
    wexec s0 sch sn -> c_holder _ _ _ _ _ _ sn = None ->
    exists sch', Permutation sch sch' /\ wsexec s0 sch' sn.
  Proof.
    intros s0 sch sn Hinv He Hfin.
    exact (Reduction.reduction prot env choice (list addr) outa ina w_out_en w_out_upd w_in_upd
             w_out_in_comm s0 sch sn Hinv He Hfin).
  Qed.

  Theorem serial_refines : forall ls thr sch sn,
    wallet_threads thr -> wsexec (wallet_init ls thr) sch sn -> c_holder _ _ _ _ _ _ sn = None ->
    exists ops, vseq' (init ls) ops /\
      run addr_of (init ls) ops = abs (c_p _ _ _ _ _ _ sn, c_e _ _ _ _ _ _ sn).
  Proof.
    intros ls thr sch sn Hthr Hs Hfin.
    destruct (serial_refines_gen _ _ _ Hs (wallet_init_ginv ls thr Hthr)) as [ops [Hv Hr]].
    exists ops. unfold phi in Hv, Hr. rewrite Hfin in Hr. cbn [wallet_init c_holder c_p c_e] in *.
    split; [exact Hv|exact Hr].
  Qed.

  (* [discipline]: the lock discipline of the threads is a HYPOTHESIS here, so that it can be
     discharged from the translated source (Properties/C17.v); [tcode_wl] is the direct proof. *)
  Theorem fine_grained_refines_notify : forall ls thr sch sn,
    wallet_threads thr ->
    (forall c, In c thr -> wwl false c) ->
    wexec (wallet_init ls thr) sch sn -> c_holder _ _ _ _ _ _ sn = None ->
    exists ops,
      run addr_of (init ls) ops = abs (c_p _ _ _ _ _ _ sn, c_e _ _ _ _ _ _ sn) /\
      vseq' (init ls) ops /\
      (NoDup (pls (c_p _ _ _ _ _ _ sn)) -> valid_seq addr_of (init ls) ops).
  Proof.
    intros ls thr sch sn Hthr Hdisc He Hfin.
    assert (Hci : Reduction.CInv prot env choice (list addr) outa ina (wallet_init ls thr)).
    { intros t c Hn. unfold holds. cbn [wallet_init c_holder c_thr] in *. apply Hdisc. eapply nth_error_In; eauto. }
    destruct (wallet_reduction _ _ _ Hci He Hfin) as [sch' [_ Hs]].
    destruct (serial_refines ls thr sch' sn Hthr Hs Hfin) as [ops [Hv Hr]].
    exists ops. split; [exact Hr|]. split; [exact Hv|].
    intros Hnd. apply vseq'_valid; [exact Hv|]. rewrite Hr. exact Hnd.
  Qed.
  (* ---- observations along a serial execution ---- *)
  Lemma serial_refines_obs : forall s sch sn, wsexec s sch sn -> GInv s -> HObs s ->
    exists ops, vseq' (abs (phi s)) ops /\ run addr_of (abs (phi s)) ops = abs (phi sn) /\
      forall u o, nth_error (c_thr _ _ _ _ _ _ sn) u = Some (Done o) ->
        nth_error (c_thr _ _ _ _ _ _ s) u = Some (Done o) \/ o = [] \/
        exists ops1 ops2, ops = ops1 ++ ops2 /\ o = addrList (run addr_of (abs (phi s)) ops1).
  Proof.
    induction 1 as [s|s t s1 sch sn Hc Hst Hse IH]; intros Hinv Hobs.
    - exists []. split; [exact I|]. split; [reflexivity|]. intros u o Hu. left. exact Hu.
    - destruct (serial_step s t s1 Hinv Hc Hst) as [Hinv1 [ops1 [Hv1 Hr1]]].
      destruct (serial_step_obs s t s1 Hinv Hobs Hc Hst) as [Hobs1 Hd1].
      destruct (IH Hinv1 Hobs1) as [ops2 [Hv2 [Hr2 Hd2]]].
      exists (ops1 ++ ops2). split; [apply vseq'_app; [exact Hv1|rewrite Hr1; exact Hv2]|].
      split; [rewrite run_app, Hr1; exact Hr2|].
      intros u o Hu. destruct (Hd2 u o Hu) as [Hu1|[->|(a & b & -> & Ho)]].
      + destruct (Hd1 u o Hu1) as [Hu0|[->|Ho]]; [left; exact Hu0|right; left; reflexivity|].
        right. right. exists ops1, ops2. split; [reflexivity|]. rewrite Hr1, Ho. reflexivity.
      + right. left. reflexivity.
      + right. right. exists (ops1 ++ a), b. split; [rewrite app_assoc; reflexivity|].
        rewrite run_app, Hr1. exact Ho.
  Qed.

  (* [fine_grained_refines_notify] with what every finished call observed: the list a GetAccounts
     call returned is the account list of the model after a PREFIX of the same run *)
  Theorem fine_grained_refines_obs : forall ls thr sch sn,
    wallet_threads thr ->
    (forall c, In c thr -> wwl false c) ->
    wexec (wallet_init ls thr) sch sn -> c_holder _ _ _ _ _ _ sn = None ->
    exists ops,
      run addr_of (init ls) ops = abs (c_p _ _ _ _ _ _ sn, c_e _ _ _ _ _ _ sn) /\
      (NoDup (pls (c_p _ _ _ _ _ _ sn)) -> valid_seq addr_of (init ls) ops) /\
      forall u o, nth_error (c_thr _ _ _ _ _ _ sn) u = Some (Done o) ->
        nth_error thr u = Some (Done o) \/ o = [] \/
        exists ops1 ops2, ops = ops1 ++ ops2 /\ o = addrList (run addr_of (init ls) ops1).
  Proof.
    intros ls thr sch sn Hthr Hdisc He Hfin.
    assert (Hci : Reduction.CInv prot env choice (list addr) outa ina (wallet_init ls thr)).
    { intros t c Hn. unfold holds. cbn [wallet_init c_holder c_thr] in *. apply Hdisc. eapply nth_error_In; eauto. }
    destruct (wallet_reduction _ _ _ Hci He Hfin) as [sch' [_ Hs]].
    assert (Hob : HObs (wallet_init ls thr)) by (intros h c o Hc; discriminate).
    destruct (serial_refines_obs _ _ _ Hs (wallet_init_ginv ls thr Hthr) Hob) as [ops [Hv [Hr Hd]]].
    unfold phi in Hv, Hr, Hd. rewrite Hfin in Hr. cbn [wallet_init c_holder c_p c_e c_thr] in *.
    assert (Hr' : run addr_of (init ls) ops = abs (c_p _ _ _ _ _ _ sn, c_e _ _ _ _ _ _ sn)) by exact Hr.
    exists ops. split; [exact Hr'|]. split; [|exact Hd].
    intros Hnd. apply vseq'_valid; [exact Hv|]. rewrite Hr'. exact Hnd.
  Qed.
End Codes.
