(* C08 ∘ C01: the file-system wallet whose transaction signer is property C01's model of Transaction.Sign
   with property C05's KeyPair signer (answer to ISSUE 1 of design/reviews/C08.md).

   C08_signatures_recover_to_requested takes the signers' recover law as an UNGUARDED hypothesis; property
   C01 proves it only under guards (key 1 <= d < n, chain id in [0, 2^53], field values in the property's
   range, V in {27, 28}).  Here the wallet's external world is instantiated:

     keys are private scalars (N); [addr_of d] is the address of d*G; a "transaction" of the wallet model
     is a pair (Go Transaction struct, chain id) and [sign_tx d (t, chain)] is
     [Tx.Model.Sign t (KeyPair d) chain] — what fswallet.Sign calls after getSignerForJSONAccount —

   and the recover law is no longer assumed: it is C01's end-to-end theorem
   ([Tx.SignProofs4.sign_recover_secp_in_range]).  The guard on the KEY is discharged by a law of the
   keystore reader ([reader_range]: the scalar it answers is in [1, n-1] — btcec reduces the decrypted
   bytes modulo n, and loadWalletFile refuses the scalar zero since fix 362ef7a); the guards on the REQUEST
   (chain id, field ranges) stay as premises; the event V = 29/30 (x(kG) >= n, probability 2^-128) stays as
   the premise [v_legacy v] of the last conjunct, exactly as in C01.

   The hash is a parameter with the 32-byte law; [sign_recovers_c01_keccak] plugs in Base/Keccak.v.
   No proof of C01 / C05 is redone here. *)
From Coq Require Import String.
From Coq Require Import List NArith ZArith Bool Arith Lia.
From Coq Require Import Init.Byte.
From FFS Require Import Base.Res Base.Bytes Base.Keccak Crypto.Ecdsa.
From FFS Require Tx.Model Tx.Spec Tx.Norm Tx.SignProofs Tx.RecoverModel Tx.SignProofs2 Tx.SignProofs3 Tx.SignProofs4.
From FFS Require Secp.Model.
From FFS Require Import Wallet.Model Wallet.Spec Wallet.Proofs Wallet.Proofs2 Wallet.Proofs5.
Import ListNotations.

Module T := FFS.Tx.Model.
Module TS := FFS.Tx.Spec.
Module TN := FFS.Tx.Norm.
Module TP := FFS.Tx.SignProofs.
Module TR := FFS.Tx.RecoverModel.
Module TP2 := FFS.Tx.SignProofs2.
Module TP3 := FFS.Tx.SignProofs3.
Module TP4 := FFS.Tx.SignProofs4.
Module SM := FFS.Secp.Model.

Section C01.
  Variable o : group_ops.                         (* the curve group *)
  Variable H : bytes -> bytes.                    (* Keccak-256 *)
  Variable nonce : Z -> bytes -> nat -> Z.        (* btcec's RFC 6979 nonce stream *)
  Variable fuel : nat.                            (* bound on the retry loop of the signing model *)
  Hypothesis L : laws o.
  Hypothesis n_fits : (n o < SM.two256)%Z.
  Hypothesis H_len : forall x, length (H x) = 32%nat.

  Variables doc tsig : Type.
  Variable E : ext N (T.tx * Z) bytes doc tsig.
  Variable c : config.

  (* the wallet's signer IS C01's: *)
  Definition c01_world : Prop :=
    (forall d, addr_of _ _ _ _ _ E d = TP3.secp_address o H d) /\
    (forall d t chain, sign_tx _ _ _ _ _ E d (t, chain)
                       = T.Sign t (Some (T.KeyPairSign H (TP3.secp_sign_direct o nonce fuel) d)) chain).

  (* the keystore reader answers a scalar in [1, n-1] *)
  Definition reader_range : Prop :=
    forall content pw d, read_wallet _ _ _ _ _ E content pw = Ok d -> (1 <= Z.of_N d < n o)%Z.

  Theorem sign_recovers_c01 fs h raw t chain s' out :
    c01_world -> reader_range ->
    Sign _ _ _ _ _ E c (after _ _ _ _ _ E c (init_state _ fs) h) raw (t, chain) = (s', Ok out) ->
    (0 <= chain <= 2 ^ 53)%Z -> TP4.in_range t ->
    let fm := TN.format_of T.Auto t in
    let pre := TS.spec_preimage fm (TN.norm t) (Z.to_N chain) in
    exists str a d v r s,
      json_string _ _ _ _ _ E raw = Some str /\ addr_of_text str = Some a /\
      (1 <= Z.of_N d < n o)%Z /\ TP3.secp_address o H d = a /\
      SM.SignDirect o nonce fuel (Z.of_N d) (H pre) = Ok {| SM.sV := v; SM.sR := r; SM.sS := s |} /\
      (1 <= r < n o)%Z /\ (1 <= s < n o)%Z /\ (2 * s <= n o)%Z /\
      ecdsa_verify o (pub o (Z.of_N d)) (SM.hash_to_z (H pre)) r s = true /\
      (TP.v_legacy v ->
         out = TS.spec_signed fm (TN.norm t) (Z.to_N chain) (TP.y_of v) (Z.to_N r) (Z.to_N s) /\
         TR.RecoverRawTransaction H (TP3.secp_RecoverDirect o H) out chain
         = Ok (a, TP2.recovered_tx fm (TN.norm t), pre)).
  Proof.
    intros [Eaddr Esign] Hrange Hs Hchain Hin fm pre.
    pose proof (signatures_recover_guarded _ _ _ _ _ E c (fun d => (1 <= Z.of_N d < n o)%Z) Hrange
                  (fun _ _ => False) (fun _ _ => False) (fun _ _ => None) (fun _ _ => None)
                  (fun k t0 out0 _ (Hf : False) _ => match Hf with end)
                  (fun k d0 out0 _ (Hf : False) _ => match Hf with end) fs h) as [Htx _].
    destruct (Htx raw (t, chain) s' out Hs) as (str & a & d & Hj & Ha & Hd & Hda & Hsg & _).
    rewrite Esign in Hsg. rewrite Eaddr in Hda.
    destruct (TP4.sign_recover_secp_in_range o L n_fits H H_len nonce fuel T.Auto t d chain out Hd Hchain Hin Hsg)
      as (v & r & s & Esd & Hr & Hsr & Hlow & Hver & Hfin).
    subst a. exists str, (TP3.secp_address o H d), d, v, r, s.
    repeat (split; [assumption || reflexivity|]). exact Hfin.
  Qed.
End C01.

(* the same with the executable Keccak-256 of Base/Keccak.v as the hash (its 32-byte law is proved there) *)
Theorem sign_recovers_c01_keccak
  (o : group_ops) (nonce : Z -> bytes -> nat -> Z) (fuel : nat) (doc tsig : Type)
  (E : ext N (T.tx * Z) bytes doc tsig) (c : config) fs h raw t chain s' out :
  laws o -> (n o < SM.two256)%Z ->
  c01_world o keccak256 nonce fuel doc tsig E -> reader_range o doc tsig E ->
  Sign _ _ _ _ _ E c (after _ _ _ _ _ E c (init_state _ fs) h) raw (t, chain) = (s', Ok out) ->
  (0 <= chain <= 2 ^ 53)%Z -> TP4.in_range t ->
  let fm := TN.format_of T.Auto t in
  let pre := TS.spec_preimage fm (TN.norm t) (Z.to_N chain) in
  exists str a d v r s,
    json_string _ _ _ _ _ E raw = Some str /\ addr_of_text str = Some a /\
    (1 <= Z.of_N d < n o)%Z /\ TP3.secp_address o keccak256 d = a /\
    SM.SignDirect o nonce fuel (Z.of_N d) (keccak256 pre) = Ok {| SM.sV := v; SM.sR := r; SM.sS := s |} /\
    (1 <= r < n o)%Z /\ (1 <= s < n o)%Z /\ (2 * s <= n o)%Z /\
    ecdsa_verify o (pub o (Z.of_N d)) (SM.hash_to_z (keccak256 pre)) r s = true /\
    (TP.v_legacy v ->
       out = TS.spec_signed fm (TN.norm t) (Z.to_N chain) (TP.y_of v) (Z.to_N r) (Z.to_N s) /\
       TR.RecoverRawTransaction keccak256 (TP3.secp_RecoverDirect o keccak256) out chain
       = Ok (a, TP2.recovered_tx fm (TN.norm t), pre)).
Proof.
  intros L n_fits Hw Hr. exact (sign_recovers_c01 o keccak256 nonce fuel L n_fits keccak256_length doc tsig E c fs h raw t chain s' out Hw Hr).
Qed.

(* ---------- non-vacuity: a wallet over the 13-element toy group of Crypto/Ecdsa.v ----------
   key 5, constant nonce 2, a 32-byte "hash"; the directory holds one file named by the address of 5*G;
   every hypothesis of [sign_recovers_c01] holds and the request returns a signed transaction. *)
Definition toyH (x : bytes) : bytes := firstn 32 (x ++ repeat x00 32).
Lemma toyH_len x : length (toyH x) = 32%nat.
Proof. unfold toyH. rewrite firstn_length, app_length, repeat_length. apply Nat.min_l. apply Nat.le_add_l. Qed.

Definition toy_nonce : Z -> bytes -> nat -> Z := fun _ _ _ => 2%Z.

Definition toyE : ext N (T.tx * Z) bytes unit bytes :=
  {| re_compile := fun _ => Some 2%nat;
     re_find := fun _ _ => None;
     tmpl_parse_ok := fun _ => true;
     meta_parse := fun _ _ => true;
     tmpl_exec := fun _ _ t => (t, true);
     json_string := fun raw => Some raw;
     trim_space := fun s => s;
     path_join := fun a b => a ++ b;
     read_wallet := fun _ _ => Ok 5%N;
     addr_of := TP3.secp_address Toy.ops toyH;
     sign_tx := fun d tc => T.Sign (fst tc) (Some (T.KeyPairSign toyH (TP3.secp_sign_direct Toy.ops toy_nonce 1) d)) (snd tc);
     sign_td := fun _ _ => Err 1%nat |}.

Definition toyc : config :=
  {| c_path := []; c_default_pw_file := ascii_bytes "pw"; c_regex := []; c_primary_ext := [];
     c_pw_ext := []; c_pw_path := []; c_pw_trim := false; c_with0x := false;
     c_meta_format := []; c_key_prop := []; c_pw_prop := [] |}.

Definition toy_addr : bytes := TP3.secp_address Toy.ops toyH 5%N.
Definition toyfs : fsys :=
  {| fs_readdir := fun _ => Ok [(hex_encode toy_addr, false)]; fs_readfile := fun p => Ok p |}.
Definition toy_tx : T.tx :=
  T.mkTx (Some 9%Z) (Some 20000000000%Z) None None (Some 21000%Z) (Some (repeat x35 20)) (Some 1%Z) None.

Lemma toy_world_ok :
  laws Toy.ops /\ (n Toy.ops < SM.two256)%Z /\
  c01_world Toy.ops toyH toy_nonce 1 unit bytes toyE /\ reader_range Toy.ops unit bytes toyE /\
  (0 <= 2 ^ 53 <= 2 ^ 53)%Z /\ TP4.in_range toy_tx.
Proof.
  split; [exact Toy.toy_laws|]. split; [reflexivity|].
  split; [split; intros; reflexivity|].
  split. { intros content pw d Hd. simpl in Hd. injection Hd as <-. vm_compute. split; congruence. }
  split; [lia|].
  unfold TP4.in_range, TP4.below256, TP4.two256, TP4.data_max; cbn; repeat split; lia.
Qed.

Lemma toy_request_signs :
  exists out, snd (Sign _ _ _ _ _ toyE toyc (after _ _ _ _ _ toyE toyc (init_state _ toyfs) [ORefresh _ _])
                        (s_0x ++ hex_encode toy_addr) (toy_tx, (2 ^ 53)%Z)) = Ok out.
Proof. eexists. vm_compute. reflexivity. Qed.
