(* Proofs about the wallet model (property C08), part 3: no operation of the wallet panics ("a request
   either fails or returns"), over all histories. *)
From Coq Require Import String.
From Coq Require Import List NArith Lia Bool Arith.
From Coq Require Import Init.Byte.
From FFS Require Import Base.Res Base.Bytes Wallet.Model Wallet.Spec Wallet.Proofs Wallet.Proofs2.
Import ListNotations.

Definition fs_nopanic (fs : fsys) : Prop :=
  (forall d, fs_readdir fs d <> Panic) /\ (forall p, fs_readfile fs p <> Panic).

Section NoPanic.
Variables key tx stx doc tsig : Type.
Variable E : ext key tx stx doc tsig.
Variable c : config.

Notation state := (state key).
Notation op := (op tx doc).
Notation obs := (obs key stx tsig).
Notation matchFilename := (matchFilename key tx stx doc tsig E c).
Notation notify_one := (notify_one key tx stx doc tsig E c).
Notation notifyNewFiles := (notifyNewFiles key tx stx doc tsig E c).
Notation Refresh := (Refresh key tx stx doc tsig E c).
Notation loadWalletFile := (loadWalletFile key tx stx doc tsig E c).
Notation GetWalletFile := (GetWalletFile key tx stx doc tsig E c).
Notation step := (step key tx stx doc tsig E c).
Notation run := (run key tx stx doc tsig E c).

(* the libraries behind the keystore reader and the signers do not panic (C15 for the reader) *)
Definition ext_nopanic : Prop :=
  (forall content pw, read_wallet _ _ _ _ _ E content pw <> Panic) /\
  (forall k t, sign_tx _ _ _ _ _ E k t <> Panic) /\
  (forall k d, sign_td _ _ _ _ _ E k d <> Panic).

Definition op_ok (o : op) : Prop := match o with OSetFs _ _ fs => fs_nopanic fs | _ => True end.

Definition obs_nopanic (b : obs) : Prop :=
  match b with
  | BRefresh _ _ _ r => r <> Panic
  | BSign _ _ _ r => r <> Panic
  | BSignTypedData _ _ _ r => r <> Panic
  | BWalletFile _ _ _ r => r <> Panic
  | _ => True
  end.

Hypothesis Hlaw : regex_law _ _ _ _ _ E.
Hypothesis Hcons : constructed _ _ _ _ _ E c.
Hypothesis Hext : ext_nopanic.

Lemma notify_one_ok ml f : exists ml', notify_one (Ok ml) f = Ok ml'.
Proof.
  destruct ml as [m l]. unfold Model.notify_one. simpl bind.
  rewrite (matchFilename_spec _ _ _ _ _ E c (fst f) (snd f) Hlaw Hcons). simpl bind.
  destruct (if snd f then None else name_address _ (fst f)) as [a|]; [|eauto].
  destruct (assoc_get a m) as [n|]; destruct (negb _); eauto.
Qed.

Lemma fold_notify_ok files : forall ml, exists ml', fold_left notify_one files (Ok ml) = Ok ml'.
Proof.
  induction files as [|f files IH]; intros ml; [simpl; eauto|].
  change (fold_left notify_one (f :: files) (Ok ml)) with (fold_left notify_one files (notify_one (Ok ml) f)).
  destruct (notify_one_ok ml f) as (ml1 & ->). apply IH.
Qed.

Lemma notifyNewFiles_ok (s : state) files :
  exists s', notifyNewFiles s files = Ok s' /\ st_fs _ s' = st_fs _ s.
Proof.
  unfold Model.notifyNewFiles. destruct (fold_notify_ok files (st_map _ s, st_list _ s)) as ([m l] & ->).
  simpl. eexists. split; reflexivity.
Qed.

Lemma Refresh_nopanic (s : state) :
  fs_nopanic (st_fs _ s) -> snd (Refresh s) <> Panic /\ st_fs _ (fst (Refresh s)) = st_fs _ s.
Proof.
  intros [Hd _]. unfold Model.Refresh. specialize (Hd (c_path c)).
  destruct (fs_readdir (st_fs _ s) (c_path c)) as [[|f files]| |]; simpl; try (split; [discriminate|reflexivity]).
  - destruct (notifyNewFiles_ok s (f :: files)) as (s' & -> & Hf). simpl. split; [discriminate|exact Hf].
  - contradiction.
Qed.

Lemma read_or_failed_nopanic fs p : fs_nopanic fs -> read_or_failed fs p <> Panic.
Proof. intros [_ Hr]. unfold read_or_failed. specialize (Hr p). destruct (fs_readfile fs p); congruence. Qed.

Lemma getKeyAndPasswordFiles_nopanic a p b : getKeyAndPasswordFiles _ _ _ _ _ E c a p b <> Panic.
Proof.
  unfold getKeyAndPasswordFiles. destruct (classify_format _); [|discriminate].
  destruct (negb _); [discriminate|]. destruct (bytes_eqb _ []); discriminate.
Qed.

Lemma loadWalletFile_nopanic fs a p : fs_nopanic fs -> loadWalletFile fs a p <> Panic.
Proof.
  intros Hfs. destruct Hext as (Hr & _). unfold Model.loadWalletFile.
  apply bind_not_panic; [apply read_or_failed_nopanic; exact Hfs|]. intros b _.
  apply bind_not_panic; [apply getKeyAndPasswordFiles_nopanic|]. intros [kf pf] _.
  apply bind_not_panic.
  { destruct (negb _); [apply read_or_failed_nopanic; exact Hfs|discriminate]. }
  intros b' _. apply bind_not_panic.
  { destruct (if negb (bytes_eqb pf []) then _ else None); [discriminate|].
    destruct (bytes_eqb _ []); [discriminate|].
    apply bind_not_panic; [apply read_or_failed_nopanic; exact Hfs|]. intros; discriminate. }
  intros pw _. specialize (Hr b' pw). destruct (read_wallet _ _ _ _ _ E b' pw); congruence.
Qed.

Lemma GetWalletFile_nopanic (s : state) a :
  fs_nopanic (st_fs _ s) -> snd (GetWalletFile s a) <> Panic.
Proof.
  intros Hfs. unfold Model.GetWalletFile.
  destruct (assoc_get (addr_string a) (st_cache _ s)); [simpl; discriminate|].
  destruct (assoc_get a (st_map _ s)) as [fn|]; [|simpl; discriminate].
  pose proof (loadWalletFile_nopanic (st_fs _ s) a (path_join _ _ _ _ _ E (c_path c) fn) Hfs) as Hl.
  destruct (loadWalletFile _ _ _) as [k| |]; [|simpl; discriminate|contradiction].
  destruct (negb _); simpl; discriminate.
Qed.

Lemma step_nopanic (s : state) (o : op) :
  fs_nopanic (st_fs _ s) -> op_ok o ->
  obs_nopanic (snd (step s o)) /\ fs_nopanic (st_fs _ (fst (step s o))).
Proof.
  intros Hfs Ho. destruct Hext as (_ & Htx & Htd). destruct o; simpl.
  - destruct (Refresh_nopanic s Hfs) as [H1 H2]. destruct (Refresh s) as [s' r]. simpl in *. rewrite H2. auto.
  - auto.
  - unfold Model.Sign, getSignerForJSONAccount, getSignerForAddr.
    destruct (parse_from _ _ _ _ _ E from_raw) as [a|]; [|simpl; split; [discriminate|exact Hfs]].
    pose proof (GetWalletFile_nopanic s a Hfs) as Hg.
    destruct (GetWalletFile s a) as [s' r] eqn:Hw. pose proof (GetWalletFile_inv _ _ _ _ _ E c _ _ _ _ Hw) as (Hf & _).
    simpl in *. rewrite Hf. split; [|exact Hfs].
    destruct r as [k| |]; simpl; [apply Htx|discriminate|contradiction].
  - unfold Model.SignTypedDataV4, getSignerForAddr.
    pose proof (GetWalletFile_nopanic s from Hfs) as Hg.
    destruct (GetWalletFile s from) as [s' r] eqn:Hw. pose proof (GetWalletFile_inv _ _ _ _ _ E c _ _ _ _ Hw) as (Hf & _).
    simpl in *. rewrite Hf. split; [|exact Hfs].
    destruct r as [k| |]; simpl; [apply Htd|discriminate|contradiction].
  - pose proof (GetWalletFile_nopanic s addr Hfs) as Hg.
    destruct (GetWalletFile s addr) as [s' r] eqn:Hw. pose proof (GetWalletFile_inv _ _ _ _ _ E c _ _ _ _ Hw) as (Hf & _).
    simpl in *. rewrite Hf. auto.
  - simpl in Ho. auto.
  - destruct (notifyNewFiles_ok s [(name, isdir)]) as (s' & -> & Hf). simpl. rewrite Hf. auto.
  - auto.
Qed.

Lemma run_nopanic h : forall (s : state),
  fs_nopanic (st_fs _ s) -> Forall op_ok h -> Forall obs_nopanic (snd (run s h)).
Proof.
  induction h as [|o h IH]; intros s Hfs Hh; [constructor|].
  inversion Hh as [|? ? Ho Hrest]; subst. rewrite run_cons.
  destruct (step_nopanic s o Hfs Ho) as [Hb Hfs'].
  destruct (step s o) as [s1 b]. simpl in Hb, Hfs'.
  specialize (IH s1 Hfs' Hrest). destruct (run s1 h) as [s2 bs]. simpl in *.
  constructor; assumption.
Qed.

(* no operation panics, along any history *)
Theorem wallet_never_panics fs h :
  fs_nopanic fs -> Forall op_ok h -> Forall obs_nopanic (snd (run (init_state _ fs) h)).
Proof. intros Hfs Hh. apply run_nopanic; assumption. Qed.

End NoPanic.
