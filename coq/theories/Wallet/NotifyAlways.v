(* C17 (wave 6) — the guard "the execution ends with mux free" removed from the safety part of the
   fine-grained outcome, and semantic holder progress for the data-carrying system.

   The reduction (Conc/Reduction.v) and hence [fine_grained_refines_notify] speak about executions
   whose LAST state has the mutex free.  "No listener ever receives an address twice" is a safety
   property: it has to hold in EVERY reachable state, also while some goroutine is inside a critical
   section.  Here:
     [section_completes]  from any state in which thread h holds the mutex and its remaining tree is
                          well shaped, the steps of h alone lead to a state with the mutex free;
                          the protected data / environment reached are [complete c p e], the other
                          threads are untouched;
     [shape_inv_step]     well-shapedness of all threads ([Reduction.shape_ok]: Lock only outside,
                          Unlock / In-actions only inside, Out-actions and termination only outside)
                          is an invariant of ALL steps (not only of serial ones);
     [holder_finishes]    so: in every reachable state of a wallet system the holder of mux (if any)
                          can finish its critical section on its own — nobody is stuck holding mux;
                          files and receive log are unchanged, notifier goroutines are only added;
     [always_outcome]     the outcome theorem at EVERY reachable state (no hypothesis on the holder). *)
From Coq Require Import List NArith Bool Arith Lia Permutation String.
From FFS Require Import Conc.Lockset Conc.LocksetProofs Conc.Atomic Conc.AtomicProofs Gen.FsWalletSync Conc.FsWallet
  Conc.FsWalletAtomic Conc.Reduction Conc.PathFind Wallet.Notify Wallet.NotifyProofs Wallet.NotifyRefine
  Wallet.NotifyConform.
Import ListNotations.
Open Scope list_scope.

Notation wexec := (Reduction.exec wcfg wstep).
Notation thr_of := (c_thr prot env choice (list addr) outa ina).
Notation holder_of := (c_holder prot env choice (list addr) outa ina).
Notation p_of := (c_p prot env choice (list addr) outa ina).
Notation e_of := (c_e prot env choice (list addr) outa ina).
Notation wholds := (Reduction.holds prot env choice (list addr) outa ina).
Notation mk := (mkCfg prot env choice (list addr) outa ina).

Lemma set_nth_twice {A} : forall (l : list A) n x y, set_nth n x (set_nth n y l) = set_nth n x l.
Proof. induction l as [|z l IH]; intros [|n] x y; cbn; try reflexivity. f_equal. apply IH. Qed.

Lemma exec_app : forall s a s1 b s2, wexec s a s1 -> wexec s1 b s2 -> wexec s (a ++ b) s2.
Proof. intros s a s1 b s2 H. induction H; intros H2; cbn [app]; [exact H2|]. econstructor; eauto. Qed.

(* ---- a critical section runs to its Unlock on the holder's steps alone ---- *)
Lemma section_completes : forall (c : wcode) thr p e h,
  nth_error thr h = Some c -> wshape true c ->
  exists n c',
    wexec (mk p e (Some h) thr) (repeat h n)
          (mk (fst (complete c p e)) (snd (complete c p e)) None (set_nth h c' thr)) /\
    wshape false c'.
Proof.
  induction c as [o|k IH|k IH|l w upd k IH|b k IH|a k IH|k IH]; intros thr p e h Hn Hs;
    cbn [Reduction.shape_ok] in Hs.
  - discriminate.
  - destruct Hs; discriminate.
  - destruct Hs as [_ Hs]. exists 1, k. split; [|exact Hs]. cbn [repeat complete fst snd].
    eapply E_cons; [|apply E_nil].
    exists (CUnlock k), None, p, e, k. cbn [c_thr c_holder c_p c_e].
    split; [exact Hn|]. split; [constructor|reflexivity].
  - destruct Hs as [_ Hs].
    destruct (IH p (set_nth h (k p) thr) (upd p) e h (nth_set_same _ _ _ _ Hn) (Hs p)) as [n [c' [He Hc']]].
    exists (S n), c'. split; [|exact Hc']. cbn [repeat complete].
    eapply E_cons; [|rewrite set_nth_twice in He; exact He].
    exists (CAcc l w upd k), (Some h), (upd p), e, (k p). cbn [c_thr c_holder c_p c_e].
    split; [exact Hn|]. split; [constructor|reflexivity].
  - destruct Hs as [_ Hs].
    destruct (IH (set_nth h k thr) p (w_in_upd b e) h (nth_set_same _ _ _ _ Hn) Hs) as [n [c' [He Hc']]].
    exists (S n), c'. split; [|exact Hc']. cbn [repeat complete].
    eapply E_cons; [|rewrite set_nth_twice in He; exact He].
    exists (CIn b k), (Some h), p, (w_in_upd b e), k. cbn [c_thr c_holder c_p c_e].
    split; [exact Hn|]. split; [constructor|reflexivity].
  - destruct Hs; discriminate.
  - destruct (IH (set_nth h k thr) p e h (nth_set_same _ _ _ _ Hn) Hs) as [n [c' [He Hc']]].
    exists (S n), c'. split; [|exact Hc']. cbn [repeat complete].
    eapply E_cons; [|rewrite set_nth_twice in He; exact He].
    exists (CTau k), (Some h), p, e, k. cbn [c_thr c_holder c_p c_e].
    split; [exact Hn|]. split; [constructor|reflexivity].
Qed.

(* what a critical section can do to the environment: start notifier goroutines *)
Lemma complete_env : forall (c : wcode) p e,
  ef (snd (complete c p e)) = ef e /\ elog (snd (complete c p e)) = elog e /\
  exists extra, en (snd (complete c p e)) = en e ++ extra.
Proof.
  induction c as [o|k IH|k IH|l w upd k IH|b k IH|a k IH|k IH]; intros p e; cbn [complete snd];
    try (split; [reflexivity|]; split; [reflexivity|]; exists []; rewrite app_nil_r; reflexivity).
  - apply IH.
  - destruct (IH p (w_in_upd b e)) as [H1 [H2 [extra H3]]]. cbn [w_in_upd ef elog en] in *.
    split; [exact H1|]. split; [exact H2|]. eexists. rewrite H3, <- app_assoc. reflexivity.
  - apply IH.
Qed.

(* ---- well-shapedness is an invariant of all steps ---- *)
Definition SInv (s : wcfg) : Prop :=
  forall t c, nth_error (thr_of s) t = Some c -> wshape (wholds s t) c.

Lemma shape_inv_step : forall s t s', SInv s -> wstep s t s' -> SInv s'.
Proof.
  intros [p e ho thr] t s' Hinv (c & h' & p' & e' & c' & Hn & Hst & ->) u cu Hu.
  unfold SInv, holds in Hinv. cbn [c_thr c_holder c_p c_e] in *. unfold holds. cbn [c_holder].
  destruct (Nat.eq_dec t u) as [<-|Hne].
  - rewrite (nth_set_same _ _ _ _ Hn) in Hu. injection Hu as <-.
    pose proof (Hinv t c Hn) as W.
    inversion Hst; subst; cbn [Reduction.shape_ok] in W.
    + rewrite Nat.eqb_refl. exact (proj2 W).
    + exact (proj2 W).
    + destruct W as [_ W]. apply W.
    + destruct W as [_ W]. exact W.
    + destruct W as [_ W]. apply W.
    + exact W.
  - rewrite (nth_set_other _ _ _ _ Hne) in Hu.
    pose proof (Hinv u cu Hu) as W.
    inversion Hst; subst; try exact W.
    + destruct (Nat.eqb t u) eqn:Et; [apply Nat.eqb_eq in Et; congruence|exact W].
    + destruct (Nat.eqb t u) eqn:Et; [apply Nat.eqb_eq in Et; congruence|exact W].
Qed.

Lemma shape_inv_exec : forall s sch s', wexec s sch s' -> SInv s -> SInv s'.
Proof. induction 1; intros Hi; [exact Hi|]. apply IHexec. eapply shape_inv_step; eauto. Qed.

(* the holder exists as a thread: the holder index always names a thread (it took a step) *)
Definition HInv (s : wcfg) : Prop :=
  forall h, holder_of s = Some h -> exists c, nth_error (thr_of s) h = Some c.

Lemma hinv_step : forall s t s', HInv s -> wstep s t s' -> HInv s'.
Proof.
  intros [p e ho thr] t s' Hinv (c & h' & p' & e' & c' & Hn & Hst & ->) h Hh.
  unfold HInv in Hinv. cbn [c_thr c_holder c_p c_e] in *.
  assert (Ht : exists x, nth_error (set_nth t c' thr) t = Some x)
    by (eexists; apply (nth_set_same _ _ _ _ Hn)).
  inversion Hst; subst; try discriminate.
  - match goal with H : Some _ = Some _ |- _ => injection H as <- end. exact Ht.
  - destruct (Nat.eq_dec t h) as [->|Hne]; [exact Ht|]. rewrite nth_set_other by exact Hne. apply Hinv; reflexivity.
  - destruct (Nat.eq_dec t h) as [->|Hne]; [exact Ht|]. rewrite nth_set_other by exact Hne. apply Hinv; reflexivity.
  - destruct (Nat.eq_dec t h) as [->|Hne]; [exact Ht|]. rewrite nth_set_other by exact Hne. apply Hinv; reflexivity.
  - destruct (Nat.eq_dec t h) as [->|Hne]; [exact Ht|]. rewrite nth_set_other by exact Hne. apply Hinv; reflexivity.
Qed.

Lemma hinv_exec : forall s sch s', wexec s sch s' -> HInv s -> HInv s'.
Proof. induction 1; intros Hi; [exact Hi|]. apply IHexec. eapply hinv_step; eauto. Qed.

Section Always.
  Variable addr_of : fid -> option addr.
  Notation wwl := (Reduction.wl prot choice (list addr) outa ina).

  Lemma wallet_init_sinv : forall ls thr, wallet_threads addr_of thr -> SInv (wallet_init ls thr).
  Proof.
    intros ls thr H t c Hn. unfold holds. cbn [wallet_init c_holder c_thr] in *.
    apply (tcode_shape addr_of []). apply H. eapply nth_error_In; eauto.
  Qed.

  (* in every reachable state the holder of mux can finish its critical section on its own *)
  Theorem holder_finishes : forall ls thr sch sn h,
    wallet_threads addr_of thr -> wexec (wallet_init ls thr) sch sn -> holder_of sn = Some h ->
    exists n sn',
      wexec sn (repeat h n) sn' /\ holder_of sn' = None /\
      (p_of sn', e_of sn') = phi sn /\
      ef (e_of sn') = ef (e_of sn) /\ elog (e_of sn') = elog (e_of sn) /\
      (exists extra, en (e_of sn') = en (e_of sn) ++ extra) /\
      (forall u, u <> h -> nth_error (thr_of sn') u = nth_error (thr_of sn) u).
  Proof.
    intros ls thr sch sn h Hthr He Hh.
    pose proof (shape_inv_exec _ _ _ He (wallet_init_sinv ls thr Hthr)) as Hs.
    assert (Hi : HInv (wallet_init ls thr)) by (intros x Hx; discriminate).
    pose proof (hinv_exec _ _ _ He Hi) as Hh'.
    destruct sn as [p e ho thr']. cbn [c_holder c_thr c_p c_e] in *. subst ho.
    destruct (Hh' h eq_refl) as [c Hn]. cbn [c_thr] in Hn.
    pose proof (Hs h c Hn) as W. unfold holds in W. cbn [c_holder] in W. rewrite Nat.eqb_refl in W.
    destruct (section_completes c thr' p e h Hn W) as [n [c' [Hex _]]].
    eexists n, _. split; [exact Hex|]. cbn [c_holder c_thr c_p c_e].
    split; [reflexivity|]. split.
    - unfold phi. cbn [c_holder c_thr c_p c_e]. rewrite Hn. destruct (complete c p e); reflexivity.
    - destruct (complete_env c p e) as [H1 [H2 H3]].
      split; [exact H1|]. split; [exact H2|]. split; [exact H3|].
      intros u Hne. apply nth_set_other. congruence.
  Qed.

  Lemma phi_free : forall s, holder_of s = None -> phi s = (p_of s, e_of s).
  Proof. intros s H. unfold phi. rewrite H. reflexivity. Qed.

  (* the outcome theorem at EVERY reachable state.  (P', E') = phi sn: what the running critical
     section (if any) will have produced at its Unlock; = (P, E) when mux is free. *)
  Theorem always_outcome : forall ls thr sch sn,
    wallet_threads addr_of thr ->
    (forall c, In c thr -> wwl false c) ->
    wexec (wallet_init ls thr) sch sn ->
    NoDup (pls (fst (phi sn))) -> NoDup ls ->
    let E := e_of sn in let P' := fst (phi sn) in
    NoDup (elog E) /\
    NoDup (elog E ++ flat_map n_remaining (en E)) /\
    (forall l a, In (l, a) (elog E ++ flat_map n_remaining (en E)) ->
       In l (pls P') /\ In a (pl P') /\ In a (file_addrs addr_of (ef E))) /\
    NoDup (pl P') /\ incl (pl P') (file_addrs addr_of (ef E)).
  Proof.
    intros ls thr sch sn Hthr Hdisc He Hnd Hls. cbv zeta.
    assert (Hx : exists sch2 sn', wexec sn sch2 sn' /\ holder_of sn' = None /\
               (p_of sn', e_of sn') = phi sn /\ ef (e_of sn') = ef (e_of sn) /\
               elog (e_of sn') = elog (e_of sn) /\ exists extra, en (e_of sn') = en (e_of sn) ++ extra).
    { destruct (holder_of sn) as [h|] eqn:Eh.
      - destruct (holder_finishes ls thr sch sn h Hthr He Eh) as (n & sn' & H1 & H2 & H3 & H4 & H5 & H6 & _).
        exists (repeat h n), sn'. auto 10.
      - exists [], sn. split; [apply E_nil|]. split; [exact Eh|]. split; [symmetry; apply phi_free; exact Eh|].
        split; [reflexivity|]. split; [reflexivity|]. exists []. rewrite app_nil_r. reflexivity. }
    destruct Hx as (sch2 & sn' & He2 & Hfin & Hphi & Hef & Hlog & [extra Hen]).
    pose proof (exec_app _ _ _ _ _ He He2) as He'.
    destruct (fine_grained_refines_notify addr_of ls thr _ sn' Hthr Hdisc He' Hfin) as [ops [Hr [_ Hv]]].
    assert (Hp : fst (phi sn) = p_of sn') by (rewrite <- Hphi; reflexivity).
    rewrite Hp in *. specialize (Hv Hnd).
    pose proof (no_duplicate_accounts addr_of ls ops Hv) as T1.
    pose proof (at_most_once addr_of ls ops Hls Hv) as [_ T2].
    pose proof (fun l a => delivered_sound addr_of ls ops l a Hv) as T3.
    pose proof (accounts_sound addr_of ls ops Hv) as T4.
    unfold pending in *. rewrite Hr in *.
    cbn [abs addrList log notifiers listeners files fst snd] in *.
    rewrite Hef, Hlog, Hen in *. rewrite flat_map_app, app_assoc in T2.
    assert (T2' : NoDup (elog (e_of sn) ++ flat_map n_remaining (en (e_of sn)))).
    { revert T2. generalize (elog (e_of sn) ++ flat_map n_remaining (en (e_of sn))).
      intros l0 H. induction l0 as [|x l0 IH]; [constructor|]. cbn [app] in H. inversion H; subst.
      constructor; [|apply IH; assumption]. intros Hin. apply H2. apply in_app_iff. left. exact Hin. }
    split.
    { revert T2'. generalize (elog (e_of sn)). intros l0 H. induction l0 as [|x l0 IH]; [constructor|].
      cbn [app] in H. inversion H; subst. constructor; [|apply IH; assumption].
      intros Hin. apply H2. apply in_app_iff. left. exact Hin. }
    split; [exact T2'|]. split.
    - intros l a Hin.
      assert (Hin' : In (l, a) (elog (e_of sn) ++ flat_map n_remaining (en (e_of sn) ++ extra))).
      { rewrite flat_map_app, app_assoc. apply in_app_iff. left. exact Hin. }
      destruct (T3 l a Hin') as [Hl Ha]. split; [exact Hl|]. split; [exact Ha|]. apply T4. exact Ha.
    - split; [exact T1|exact T4].
  Qed.
End Always.

(* with the discipline derived from the translated source *)
Theorem translated_always_outcome : forall p fuel,
  steps_atomic_ok p fuel = true -> covers_ok p fuel = true ->
  forall addr_of ls thr sch sn,
    wallet_threads addr_of thr ->
    wexec (wallet_init ls thr) sch sn ->
    NoDup (pls (fst (phi sn))) -> NoDup ls ->
    let E := e_of sn in let P' := fst (phi sn) in
    NoDup (elog E) /\
    NoDup (elog E ++ flat_map n_remaining (en E)) /\
    (forall l a, In (l, a) (elog E ++ flat_map n_remaining (en E)) ->
       In l (pls P') /\ In a (pl P') /\ In a (file_addrs addr_of (ef E))) /\
    NoDup (pl P') /\ incl (pl P') (file_addrs addr_of (ef E)).
Proof.
  intros p fuel Hok Hcov addr_of ls thr sch sn Hthr He Hnd Hls.
  apply (always_outcome addr_of ls thr sch sn Hthr); auto.
  intros c Hc. apply (discipline_from_atomic p fuel c Hok).
  - exact (tcode_conforms addr_of p fuel Hcov [] c (Hthr c Hc)).
  - apply (tcode_shape addr_of []). apply Hthr. exact Hc.
Qed.

(* non-vacuity: a reachable state INSIDE a critical section (AddListener has read listeners and not
   yet written; a file has appeared meanwhile) — outside the scope of the guarded theorems *)
Definition al_thr : list wcode := [add_code 7%N; creator 3%N].

Lemma al_example :
  exists sn, wexec (wallet_init [100%N] al_thr) [0; 0; 1] sn /\
    holder_of sn = Some 0 /\ pls (p_of sn) = [100%N] /\ ef (e_of sn) = [3%N] /\
    pls (fst (phi sn)) = [100%N; 7%N] /\ NoDup (pls (fst (phi sn))).
Proof.
  eexists. split.
  { unfold wallet_init, al_thr, add_code, creator.
    eapply E_cons. { do 5 eexists. split; [reflexivity|]. split; [constructor|reflexivity]. }
    eapply E_cons. { do 5 eexists. split; [reflexivity|]. split; [constructor|reflexivity]. }
    eapply E_cons.
    { do 5 eexists. split; [reflexivity|]. split; [|reflexivity].
      eapply TS_out with (x := ([], 0)). cbn. intros []. }
    apply E_nil. }
  split; [reflexivity|]. split; [reflexivity|]. split; [reflexivity|]. split; [reflexivity|].
  cbn. repeat constructor; cbn; intuition discriminate.
Qed.
