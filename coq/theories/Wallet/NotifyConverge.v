(* C17 (wave 6) — convergence by events for the FINE-GRAINED wallet system.

   NotifyProofs.converges_by_events is a statement about the atomic Notify model (every file present
   has had its [FsEvent] in the op sequence).  The refinement theorems of NotifyRefine.v give, for a
   fine-grained execution, an existential op sequence that does not say which discovery passes it
   contains, so the premise could not be discharged from them.  Here the serial-execution induction
   is redone with one more conjunct: a thread that STARTED as the handling of one file-system event
   ([event_code f]: os.Stat f; notifyNewFiles [f]) and is FINISHED in the final state has its
   critical section in the op sequence: ops = pre ++ mid ++ post where running [mid] from the state
   after [pre] has exactly the effect of the model's [FsEvent f] there.  (The section is identified
   by its effect, not by the syntactic op: two listings can give the same action tree.)
   Consequence [fine_grained_converges_by_events]: if, at the end of a fine-grained execution
   (mux free, listener channels distinct), every matching file present in the directory has a
   finished event thread, the account list is exactly (as a set) the addresses of the matching
   files present.  No proofs about the translated source here (NotifyConform.v style combination is
   in NotifyConvergeT.v). *)
From Coq Require Import List NArith Bool Arith Lia Permutation String.
From FFS Require Import Conc.Lockset Conc.Atomic Conc.Reduction Wallet.Notify Wallet.NotifyProofs Wallet.NotifyRefine.
Import ListNotations.
Open Scope list_scope.

Section Converge.
  Variable addr_of : fid -> option addr.

  Notation wsexec := (Reduction.sexec wcfg wstep (c_holder prot env choice (list addr) outa ina)).
  Notation wexec := (Reduction.exec wcfg wstep).
  Notation wwl := (Reduction.wl prot choice (list addr) outa ina).
  Notation thr_of := (c_thr prot env choice (list addr) outa ina).
  Notation holder_of := (c_holder prot env choice (list addr) outa ina).

  (* the thread is handling the event for f and has not entered its critical section yet *)
  Definition ev_pending (f : fid) (c : wcode) : Prop :=
    c = event_code addr_of f \/ c = discover addr_of [f].

  (* [ops], run from [s0], contains a segment with the effect of FsEvent f *)
  Definition has_event (s0 : state) (ops : list op) (f : fid) : Prop :=
    exists pre mid post, ops = pre ++ mid ++ post /\
      run addr_of (run addr_of s0 pre) mid = apply addr_of (run addr_of s0 pre) (FsEvent f).

  Lemma has_event_prepend : forall s0 ops1 ops2 f,
    has_event (run addr_of s0 ops1) ops2 f -> has_event s0 (ops1 ++ ops2) f.
  Proof.
    intros s0 ops1 ops2 f (pre & mid & post & -> & H).
    exists (ops1 ++ pre), mid, post. split; [rewrite app_assoc; reflexivity|].
    rewrite run_app. exact H.
  Qed.

  Lemma serial_refines_ev : forall s sch sn, wsexec s sch sn -> GInv addr_of s ->
    exists ops, vseq' addr_of (abs (phi s)) ops /\ run addr_of (abs (phi s)) ops = abs (phi sn) /\
      forall u f c o, nth_error (thr_of s) u = Some c -> ev_pending f c ->
        nth_error (thr_of sn) u = Some (Done o) -> has_event (abs (phi s)) ops f.
  Proof.
    induction 1 as [s|s t s1 sch sn Hc Hst Hse IH]; intros Hinv.
    - exists []. split; [exact I|]. split; [reflexivity|].
      intros u f c o Hu [->| ->] Hd; rewrite Hu in Hd; discriminate.
    - destruct (serial_step addr_of s t s1 Hinv Hc Hst) as [Hinv1 [ops1 [Hv1 Hr1]]].
      destruct (IH Hinv1) as [ops2 [Hv2 [Hr2 Hev2]]].
      exists (ops1 ++ ops2). split; [apply vseq'_app; [exact Hv1|rewrite Hr1; exact Hv2]|].
      split; [rewrite run_app, Hr1; exact Hr2|].
      intros u f c o Hu Hp Hd.
      destruct s as [p e ho thr].
      destruct Hst as (c0 & h' & p' & e' & c' & Hn & Hts & Es1). cbn [c_thr c_holder c_p c_e] in *.
      destruct (Nat.eq_dec t u) as [->|Hne].
      + (* the thread itself moves *)
        rewrite Hn in Hu. injection Hu as ->.
        destruct Hp as [->| ->].
        * (* os.Stat: becomes discover [f] *)
          unfold event_code in Hts. inversion Hts; subst.
          apply has_event_prepend. rewrite Hr1.
          apply (Hev2 u f (discover addr_of [f]) o); [|right; reflexivity|exact Hd].
          cbn [c_thr]. apply (nth_set_same _ _ _ _ Hn).
        * (* the Lock: the critical section is ops1 *)
          unfold discover in Hts. inversion Hts; subst.
          exists [], ops1, ops2. split; [reflexivity|]. cbn [run app].
          rewrite Hr1. unfold phi. cbn [c_holder c_thr c_p c_e].
          rewrite (nth_set_same _ _ _ _ Hn). cbn [apply].
          symmetry. apply nnf_abs.
      + (* another thread moves *)
        apply has_event_prepend. rewrite Hr1.
        apply (Hev2 u f c o); [|exact Hp|exact Hd].
        subst s1. cbn [c_thr]. rewrite nth_set_other by exact Hne. exact Hu.
  Qed.

  (* [fine_grained_refines_notify] with the discovery passes of the finished event threads exposed *)
  Theorem fine_grained_refines_events : forall ls thr sch sn,
    wallet_threads addr_of thr ->
    (forall c, In c thr -> wwl false c) ->
    wexec (wallet_init ls thr) sch sn -> holder_of sn = None ->
    exists ops,
      run addr_of (init ls) ops = abs (c_p _ _ _ _ _ _ sn, c_e _ _ _ _ _ _ sn) /\
      (NoDup (pls (c_p _ _ _ _ _ _ sn)) -> valid_seq addr_of (init ls) ops) /\
      forall u f o, nth_error thr u = Some (event_code addr_of f) ->
        nth_error (thr_of sn) u = Some (Done o) ->
        exists pre mid post, ops = pre ++ mid ++ post /\
          run addr_of (run addr_of (init ls) pre) mid = apply addr_of (run addr_of (init ls) pre) (FsEvent f).
  Proof.
    intros ls thr sch sn Hthr Hdisc He Hfin.
    assert (Hci : Reduction.CInv prot env choice (list addr) outa ina (wallet_init ls thr)).
    { intros t c Hn. unfold holds. cbn [wallet_init c_holder c_thr] in *. apply Hdisc. eapply nth_error_In; eauto. }
    destruct (wallet_reduction _ _ _ Hci He Hfin) as [sch' [_ Hs]].
    destruct (serial_refines_ev _ _ _ Hs (wallet_init_ginv addr_of ls thr Hthr)) as [ops [Hv [Hr Hev]]].
    unfold phi in Hv, Hr, Hev. rewrite Hfin in Hr. cbn [wallet_init c_holder c_p c_e c_thr] in *.
    assert (Hr' : run addr_of (init ls) ops = abs (c_p _ _ _ _ _ _ sn, c_e _ _ _ _ _ _ sn)) by exact Hr.
    exists ops. split; [exact Hr'|]. split.
    - intros Hnd. apply vseq'_valid; [exact Hv|]. rewrite Hr'. exact Hnd.
    - intros u f o Hu Hd. exact (Hev u f _ o Hu (or_introl eq_refl) Hd).
  Qed.

  (* convergence by events, in fine-grained terms *)
  Theorem fine_grained_converges_by_events : forall ls thr sch sn,
    wallet_threads addr_of thr ->
    (forall c, In c thr -> wwl false c) ->
    wexec (wallet_init ls thr) sch sn -> holder_of sn = None ->
    NoDup (pls (c_p _ _ _ _ _ _ sn)) ->
    let P := c_p _ _ _ _ _ _ sn in let E := c_e _ _ _ _ _ _ sn in
    (forall f a, In f (ef E) -> addr_of f = Some a ->
       exists u o, nth_error thr u = Some (event_code addr_of f) /\ nth_error (thr_of sn) u = Some (Done o)) ->
    forall a, In a (pl P) <-> In a (file_addrs addr_of (ef E)).
  Proof.
    intros ls thr sch sn Hthr Hdisc He Hfin Hnd. cbv zeta. intros Hall a.
    destruct (fine_grained_refines_events ls thr sch sn Hthr Hdisc He Hfin) as [ops [Hr [Hv Hev]]].
    specialize (Hv Hnd).
    pose proof (accounts_sound addr_of ls ops Hv) as Hsound.
    rewrite Hr in Hsound. cbn [abs addrList files fst snd] in Hsound.
    split; [apply Hsound|].
    intros Ha. apply in_file_addrs in Ha. destruct Ha as [f [Hf Hae]].
    destruct (Hall f a Hf Hae) as [u [o [Hu Hd]]].
    destruct (Hev u f o Hu Hd) as (pre & mid & post & Eo & Hmid).
    assert (Hgoal : In a (addrList (run addr_of (init ls) ops))).
    { subst ops. apply valid_seq_app in Hv. destruct Hv as [Hv0 Hv1].
      apply valid_seq_app in Hv1. destruct Hv1 as [_ Hv2].
      rewrite !run_app. apply (mono_run addr_of _ _ Hv2). rewrite Hmid.
      cbn [apply]. apply nnf_covers; [apply WF_reach; exact Hv0|].
      apply in_file_addrs. exists f. split; [left; reflexivity|exact Hae]. }
    rewrite Hr in Hgoal. exact Hgoal.
  Qed.
End Converge.
