(* C17 (wave 6) — the "listener channels are distinct" hypothesis of the fine-grained theorems moved
   from the FINAL STATE (NoDup of w.listeners at the end) to the INPUTS of the system: the initial
   listeners are distinct, no AddListener thread registers one of them, no two AddListener threads
   register the same channel ([distinct_channels]).

   [pls_step]    what one serial step does to the listeners field of [phi]: nothing, or — the Lock of
                 an [add_code l] thread — append l; and the thread that moved is not an unstarted
                 AddListener afterwards;
   [serial_pls]  along a serial execution: listeners at the end = listeners at the start ++ the labels
                 of pairwise different threads that were unstarted [add_code l] at the start;
   [listeners_distinct] hence NoDup of the listeners, at every reachable state (as [phi] sees it). *)
From Coq Require Import List NArith Bool Arith Lia Permutation String.
From FFS Require Import Conc.Lockset Conc.LocksetProofs Conc.Atomic Conc.AtomicProofs Gen.FsWalletSync Conc.FsWallet
  Conc.FsWalletAtomic Conc.Reduction Conc.PathFind Wallet.Notify Wallet.NotifyProofs Wallet.NotifyRefine
  Wallet.NotifyConform Wallet.NotifyAlways.
Import ListNotations.
Open Scope list_scope.

Definition distinct_channels (ls : list lid) (thr : list wcode) : Prop :=
  NoDup ls /\
  (forall i l, nth_error thr i = Some (add_code l) -> ~ In l ls) /\
  (forall i j l, nth_error thr i = Some (add_code l) -> nth_error thr j = Some (add_code l) -> i = j).

Lemma step_other : forall (s : wcfg) t s', wstep s t s' ->
  forall u, u <> t -> nth_error (thr_of s') u = nth_error (thr_of s) u.
Proof.
  intros s t s' (c & h' & p' & e' & c' & Hn & Hst & ->) u Hne. cbn [c_thr].
  apply nth_set_other. congruence.
Qed.

Section Distinct.
  Variable addr_of : fid -> option addr.
  Notation wsexec := (Reduction.sexec wcfg wstep (c_holder prot env choice (list addr) outa ina)).
  Notation wwl := (Reduction.wl prot choice (list addr) outa ina).

  Lemma add_not_section : forall l, ~ ends_done (add_code l).
  Proof. intros l H. exact H. Qed.

  Lemma pls_step : forall s t s',
    GInv addr_of s -> (forall h, holder_of s = Some h -> h = t) -> wstep s t s' ->
    (forall l', nth_error (thr_of s') t <> Some (add_code l')) /\
    (pls (fst (phi s')) = pls (fst (phi s)) \/
     exists l, nth_error (thr_of s) t = Some (add_code l) /\ pls (fst (phi s')) = pls (fst (phi s)) ++ [l]).
  Proof.
    intros [p e ho thr] t s' [Hh Ht] Hser (c & h' & p' & e' & c' & Hn & Hst & ->).
    cbn [c_thr c_holder c_p c_e] in *.
    destruct ho as [h|].
    - pose proof (Hser h eq_refl) as ->.
      destruct (Hh t eq_refl) as [c0 [Hn0 Hend]]. rewrite Hn in Hn0. injection Hn0 as <-.
      inversion Hst; subst; cbn [ends_done] in Hend; try contradiction.
      + destruct c' as [o| | | | | | ]; try contradiction. split.
        * intros l' Hx. rewrite (nth_set_same _ _ _ _ Hn) in Hx. discriminate.
        * left. unfold phi. cbn [c_holder c_thr c_p c_e]. rewrite Hn. reflexivity.
      + split.
        * intros l' Hx. rewrite (nth_set_same _ _ _ _ Hn) in Hx. injection Hx as Hx.
          specialize (Hend p). rewrite Hx in Hend. exact Hend.
        * left. unfold phi. cbn [c_holder c_thr c_p c_e]. rewrite Hn, (nth_set_same _ _ _ _ Hn). reflexivity.
      + split.
        * intros l' Hx. rewrite (nth_set_same _ _ _ _ Hn) in Hx. injection Hx as Hx.
          rewrite Hx in Hend. exact Hend.
        * left. unfold phi. cbn [c_holder c_thr c_p c_e]. rewrite Hn, (nth_set_same _ _ _ _ Hn). reflexivity.
      + split.
        * intros l' Hx. rewrite (nth_set_same _ _ _ _ Hn) in Hx. injection Hx as Hx.
          rewrite Hx in Hend. exact Hend.
        * left. unfold phi. cbn [c_holder c_thr c_p c_e]. rewrite Hn, (nth_set_same _ _ _ _ Hn). reflexivity.
    - clear Hh Hser.
      assert (Htc : tcode addr_of (ef e) c) by (apply (Ht t c Hn); discriminate).
      destruct Htc as [ |f|listing Hnil Hincl|l| |f|n|o].
      + unfold refresh_code in Hst. inversion Hst; subst. split.
        * intros l' Hx. rewrite (nth_set_same _ _ _ _ Hn) in Hx. injection Hx as Hx.
          destruct (fst x) as [|f0 r]; [discriminate|]. unfold discover, add_code in Hx.
          cbn [loop] in Hx. discriminate.
        * left. reflexivity.
      + unfold event_code in Hst. inversion Hst; subst. split.
        * intros l' Hx. rewrite (nth_set_same _ _ _ _ Hn) in Hx. injection Hx as Hx.
          unfold discover, add_code in Hx. cbn [loop] in Hx. discriminate.
        * left. reflexivity.
      + unfold discover in Hst. inversion Hst; subst. split.
        * intros l' Hx. rewrite (nth_set_same _ _ _ _ Hn) in Hx. injection Hx as Hx.
          destruct listing; cbn [loop] in Hx; discriminate.
        * left. unfold phi. cbn [c_holder c_thr c_p c_e]. rewrite (nth_set_same _ _ _ _ Hn).
          rewrite loop_complete. destruct (scan addr_of listing (pm p') (pl p') []) as [[m al] nw]. reflexivity.
      + unfold add_code in Hst. inversion Hst; subst. split.
        * intros l' Hx. rewrite (nth_set_same _ _ _ _ Hn) in Hx. discriminate.
        * right. exists l. split; [exact Hn|].
          unfold phi. cbn [c_holder c_thr c_p c_e]. rewrite (nth_set_same _ _ _ _ Hn). reflexivity.
      + unfold get_code in Hst. inversion Hst; subst. split.
        * intros l' Hx. rewrite (nth_set_same _ _ _ _ Hn) in Hx. discriminate.
        * left. unfold phi. cbn [c_holder c_thr c_p c_e]. rewrite (nth_set_same _ _ _ _ Hn). reflexivity.
      + unfold creator in Hst. inversion Hst; subst. split.
        * intros l' Hx. rewrite (nth_set_same _ _ _ _ Hn) in Hx. discriminate.
        * left. reflexivity.
      + destruct n as [|n]; cbn [sender] in Hst; inversion Hst; subst. split.
        * intros l' Hx. rewrite (nth_set_same _ _ _ _ Hn) in Hx. injection Hx as Hx.
          destruct n; cbn [sender] in Hx; discriminate.
        * left. reflexivity.
      + inversion Hst.
  Qed.

  Lemma serial_pls : forall s sch sn, wsexec s sch sn -> GInv addr_of s ->
    exists done : list (nat * lid),
      pls (fst (phi sn)) = pls (fst (phi s)) ++ map snd done /\
      NoDup (map fst done) /\
      forall u l, In (u, l) done -> nth_error (thr_of s) u = Some (add_code l).
  Proof.
    induction 1 as [s|s t s1 sch sn Hc Hst Hse IH]; intros Hinv.
    - exists []. rewrite app_nil_r. split; [reflexivity|]. split; [constructor|]. intros u l [].
    - destruct (serial_step addr_of s t s1 Hinv Hc Hst) as [Hinv1 _].
      destruct (pls_step s t s1 Hinv Hc Hst) as [Hnot Hcase].
      destruct (IH Hinv1) as [done2 [Hp [Hnd Hen]]].
      assert (Hback : forall u l, In (u, l) done2 -> u <> t /\ nth_error (thr_of s) u = Some (add_code l)).
      { intros u l Hin. pose proof (Hen u l Hin) as Hu.
        destruct (Nat.eq_dec u t) as [->|Hne]; [exfalso; exact (Hnot l Hu)|].
        split; [exact Hne|]. rewrite <- (step_other s t s1 Hst u Hne). exact Hu. }
      destruct Hcase as [Heq|[l [Hl Heq]]].
      + exists done2. split; [rewrite Hp, Heq; reflexivity|]. split; [exact Hnd|].
        intros u l Hin. apply (Hback u l Hin).
      + exists ((t, l) :: done2). split; [rewrite Hp, Heq, <- app_assoc; reflexivity|]. split.
        * cbn [map fst]. constructor; [|exact Hnd].
          intros Hin. apply in_map_iff in Hin. destruct Hin as [[u l'] [Hu Hin]]. cbn [fst] in Hu. subst u.
          destruct (Hback t l' Hin) as [Hne _]. congruence.
        * intros u l0 [Hin|Hin]; [injection Hin as <- <-; exact Hl|apply (Hback u l0 Hin)].
  Qed.

  Lemma labels_nodup : forall ls thr (done : list (nat * lid)),
    distinct_channels ls thr -> NoDup (map fst done) ->
    (forall u l, In (u, l) done -> nth_error thr u = Some (add_code l)) ->
    NoDup (ls ++ map snd done).
  Proof.
    intros ls thr done [Hls [Hout Hinj]] Hnd Hen.
    apply NoDup_app_intro; [exact Hls| |].
    - induction done as [|[u l] done IH]; [constructor|]. cbn [map fst snd] in *.
      inversion Hnd; subst. constructor.
      + intros Hin. apply in_map_iff in Hin. destruct Hin as [[u' l'] [El Hin]]. cbn [snd] in El. subst l'.
        assert (u' = u) by (apply (Hinj u' u l); [apply Hen; right; exact Hin|apply Hen; left; reflexivity]).
        subst u'. apply H1. apply in_map_iff. exists (u, l). split; [reflexivity|exact Hin].
      + apply IH; [assumption|]. intros u0 l0 Hin. apply Hen. right. exact Hin.
    - intros x Hx Hin. apply in_map_iff in Hin. destruct Hin as [[u l] [El Hin]]. cbn [snd] in El. subst l.
      exact (Hout u x (Hen u x Hin) Hx).
  Qed.

  (* distinct channels on the inputs => distinct listeners, at every reachable state *)
  Theorem listeners_distinct : forall ls thr sch sn,
    wallet_threads addr_of thr ->
    (forall c, In c thr -> wwl false c) ->
    wexec (wallet_init ls thr) sch sn ->
    distinct_channels ls thr ->
    NoDup (pls (fst (phi sn))).
  Proof.
    intros ls thr sch sn Hthr Hdisc He Hd.
    assert (Hx : exists sch2 sn', wexec sn sch2 sn' /\ holder_of sn' = None /\ (p_of sn', e_of sn') = phi sn).
    { destruct (holder_of sn) as [h|] eqn:Eh.
      - destruct (holder_finishes addr_of ls thr sch sn h Hthr He Eh) as (n & sn' & H1 & H2 & H3 & _).
        exists (repeat h n), sn'. auto.
      - exists [], sn. split; [apply E_nil|]. split; [exact Eh|]. symmetry. apply phi_free. exact Eh. }
    destruct Hx as (sch2 & sn' & He2 & Hfin & Hphi).
    pose proof (exec_app _ _ _ _ _ He He2) as He'.
    assert (Hci : Reduction.CInv prot env choice (list addr) outa ina (wallet_init ls thr)).
    { intros t c Hn. unfold holds. cbn [wallet_init c_holder c_thr] in *. apply Hdisc. eapply nth_error_In; eauto. }
    destruct (wallet_reduction _ _ _ Hci He' Hfin) as [sch' [_ Hs]].
    destruct (serial_pls _ _ _ Hs (wallet_init_ginv addr_of ls thr Hthr)) as [done [Hp [Hnd Hen]]].
    rewrite <- Hphi. cbn [fst].
    rewrite (phi_free sn' Hfin) in Hp. cbn [fst] in Hp. rewrite Hp.
    unfold phi. cbn [wallet_init c_holder c_p c_e fst pls].
    apply (labels_nodup ls thr done Hd Hnd). exact Hen.
  Qed.
End Distinct.

(* 11b with the hypothesis on the inputs, discipline derived from the translated source *)
Theorem translated_always_outcome_inputs : forall p fuel,
  steps_atomic_ok p fuel = true -> covers_ok p fuel = true ->
  forall addr_of ls thr sch sn,
    wallet_threads addr_of thr ->
    wexec (wallet_init ls thr) sch sn ->
    distinct_channels ls thr ->
    let E := e_of sn in let P' := fst (phi sn) in
    NoDup (pls P') /\
    NoDup (elog E) /\
    NoDup (elog E ++ flat_map n_remaining (en E)) /\
    (forall l a, In (l, a) (elog E ++ flat_map n_remaining (en E)) ->
       In l (pls P') /\ In a (pl P') /\ In a (file_addrs addr_of (ef E))) /\
    NoDup (pl P') /\ incl (pl P') (file_addrs addr_of (ef E)).
Proof.
  intros p fuel Hok Hcov addr_of ls thr sch sn Hthr He Hd. cbv zeta.
  assert (Hdisc : forall c, In c thr -> Reduction.wl prot choice (list addr) outa ina false c).
  { intros c Hc. apply (discipline_from_atomic p fuel c Hok).
    - exact (tcode_conforms addr_of p fuel Hcov [] c (Hthr c Hc)).
    - apply (tcode_shape addr_of []). apply Hthr. exact Hc. }
  pose proof (listeners_distinct addr_of ls thr sch sn Hthr Hdisc He Hd) as Hnd.
  split; [exact Hnd|].
  exact (always_outcome addr_of ls thr sch sn Hthr Hdisc He Hnd (proj1 Hd)).
Qed.

Theorem translated_listeners_distinct : forall p fuel,
  steps_atomic_ok p fuel = true -> covers_ok p fuel = true ->
  forall addr_of ls thr sch sn,
    wallet_threads addr_of thr ->
    wexec (wallet_init ls thr) sch sn ->
    distinct_channels ls thr ->
    NoDup (pls (fst (phi sn))) /\ (c_holder _ _ _ _ _ _ sn = None -> NoDup (pls (p_of sn))).
Proof.
  intros p fuel Hok Hcov addr_of ls thr sch sn Hthr He Hd.
  assert (Hdisc : forall c, In c thr -> Reduction.wl prot choice (list addr) outa ina false c).
  { intros c Hc. apply (discipline_from_atomic p fuel c Hok).
    - exact (tcode_conforms addr_of p fuel Hcov [] c (Hthr c Hc)).
    - apply (tcode_shape addr_of []). apply Hthr. exact Hc. }
  pose proof (listeners_distinct addr_of ls thr sch sn Hthr Hdisc He Hd) as Hnd.
  split; [exact Hnd|]. intros Hfin. rewrite (phi_free sn Hfin) in Hnd. exact Hnd.
Qed.

(* non-vacuity of [distinct_channels]: holds for the example threads; fails when a thread registers an
   initial listener or two threads register the same channel *)
Lemma add_code_inj : forall l l', add_code l = add_code l' -> l = l'.
Proof.
  intros l l' H. unfold add_code in H. injection H as H.
  pose proof (f_equal (fun g => g (mkP [] [] [])) H) as H1. cbn beta in H1. injection H1 as H1.
  pose proof (f_equal (fun g => pls (g (mkP [] [] []))) H1) as H2. cbn in H2. injection H2 as H2. exact H2.
Qed.

Lemma distinct_example :
  distinct_channels [100%N] al_thr /\
  ~ distinct_channels [7%N] al_thr /\
  ~ distinct_channels [100%N] [add_code 7%N; add_code 7%N].
Proof.
  split; [|split].
  - split; [repeat constructor; intros []|]. split.
    + intros i l H. unfold al_thr in H. destruct i as [|[|[|i]]]; cbn [nth_error] in H.
      * pose proof (f_equal (fun o => match o with Some c => c | None => add_code l end) H) as E.
        cbn beta iota in E. apply add_code_inj in E. subst l. intros [E|[]]. discriminate.
      * exfalso. unfold creator, add_code in H. discriminate.
      * discriminate.
      * discriminate.
    + intros i j l Hi Hj. unfold al_thr in Hi, Hj.
      destruct i as [|[|[|i]]]; cbn [nth_error] in Hi;
        destruct j as [|[|[|j]]]; cbn [nth_error] in Hj;
        first [reflexivity | exfalso; unfold creator, add_code in *; discriminate].
  - intros [_ [H _]]. apply (H 0 7%N); [reflexivity|left; reflexivity].
  - intros [_ [_ H]]. specialize (H 0 1 7%N eq_refl eq_refl). discriminate.
Qed.
