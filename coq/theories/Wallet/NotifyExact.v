(* C17 — the REVERSE inclusion between the translated source and the hand-written thread trees
   (referee issue I3).  Wallet/NotifyConform.v ([covers_ok], [conforms]) shows: every event word of a
   tree is the projection of SOME complete control-flow path of the translated method, reads the source
   makes in addition left out.  Here the converse: EVERY complete control-flow path of the translated
   body of notifyNewFiles / AddListener / GetAccounts (any branch outcomes, any number of loop
   iterations, calls expanded, deferred items run: [Atomic.bpath]) projects, onto mux and the three
   fields listeners / addressToFileMap / addressList, to a word of the SAME pattern the trees have —
   again up to additional READS only.  So the writes a step consists of are exactly those of the hand
   transcription, in the same order and under the same Lock / Unlock skeleton: a source that makes an
   extra write to one of the three fields on some path (e.g. `w.listeners = nil` under a condition
   after the snapshot), drops one, or reorders them is rejected by a theorem.

   Technique: a deterministic event automaton per method ([ndelta] for the starred pattern of
   notifyNewFiles, the greedy word automaton [wdelta] for the two fixed words), the generic monitor
   check of Conc/Monitor.v (all paths are accepted: [Mon.mon_sound]) evaluated by vm_compute on the
   translated structure, and a proof that what the automaton accepts is a pattern word with reads
   inserted ([ndelta_lang], [wdelta_lang]). *)
From Coq Require Import List String Bool Arith Lia.
From FFS Require Import Conc.Lockset Conc.LocksetProofs Conc.Atomic Conc.AtomicProofs Gen.FsWalletSync Conc.FsWallet
  Conc.FsWalletAtomic Conc.PathFind Conc.Monitor Wallet.NotifyRefine Wallet.NotifyConform.
Import ListNotations.
Open Scope list_scope.

Notation rel := (relevant discovery_mutex discovery_locs).
Notation mx := discovery_mutex.

(* ---------------------------------------------------------------------------------------------- *)
(* small facts about sub_acc / pmatch *)

Lemma sub_acc_snoc_skip : forall w t l, sub_acc w t -> sub_acc w (t ++ [EAcc l false]).
Proof.
  intros w t l H. replace w with (w ++ []) by apply app_nil_r.
  apply sub_acc_app; [exact H|]. constructor. constructor.
Qed.

Lemma sub_acc_snoc_keep : forall w t e, sub_acc w t -> sub_acc (w ++ [e]) (t ++ [e]).
Proof. intros w t e H. apply sub_acc_app; [exact H|apply sub_acc_refl]. Qed.

Lemma pmatch_app : forall c1 w1, pmatch c1 w1 -> forall c2 w2, pmatch c2 w2 -> pmatch (c1 ++ c2) (w1 ++ w2).
Proof.
  induction 1 as [|e c w H IH|alts c w H IH|alts c a w Ha H IH]; intros c2 w2 H2; cbn [app].
  - exact H2.
  - constructor. apply IH. exact H2.
  - apply PM_done. apply IH. exact H2.
  - rewrite <- app_assoc. apply (PM_iter alts (c ++ c2) a (w ++ w2) Ha). exact (IH c2 w2 H2).
Qed.

Lemma star_snoc : forall alts a, In a alts -> forall c w, pmatch c w -> c = [PStar alts] -> pmatch [PStar alts] (w ++ a).
Proof.
  intros alts a Ha c w H.
  induction H as [|e c w H IH|alts' c w H IH|alts' c a' w Ha' H IH]; intros E; try discriminate.
  - injection E as -> ->. inversion H; subst. cbn [app].
    rewrite <- (app_nil_r a). apply PM_iter; [exact Ha|]. apply PM_done. constructor.
  - injection E as -> ->. rewrite <- app_assoc. apply PM_iter; [exact Ha'|]. apply IH. reflexivity.
Qed.

(* ---------------------------------------------------------------------------------------------- *)
(* which of the events that concern mux / the three fields an event is *)

Inductive kind := KLock | KUnlock | KMr | KMw | KAr | KAw | KLr | KLw | KOther | KIrr.

Definition classify (e : ev) : kind :=
  match e with
  | ELock m' => if String.eqb m' mx then KLock else KIrr
  | EUnlock m' => if String.eqb m' mx then KUnlock else KIrr
  | EAcc l b =>
      if watched discovery_locs l then
        if meq l fM then (if b then KMw else KMr)
        else if meq l fA then (if b then KAw else KAr)
        else if meq l fL then (if b then KLw else KLr)
        else KOther
      else KIrr
  end.

Lemma classify_spec : forall e,
  match classify e with
  | KIrr => rel e = false
  | KLock => e = ELock mx
  | KUnlock => e = EUnlock mx
  | KMr => e = eMr | KMw => e = eMw
  | KAr => e = eAr | KAw => e = eAw
  | KLr => e = eLr | KLw => e = eLw
  | KOther => True
  end.
Proof.
  intros [m'|m'|l b]; cbn [classify relevant].
  - destruct (String.eqb m' mx) eqn:E; [apply String.eqb_eq in E; subst; reflexivity|reflexivity].
  - destruct (String.eqb m' mx) eqn:E; [apply String.eqb_eq in E; subst; reflexivity|reflexivity].
  - destruct (watched discovery_locs l) eqn:W; [|reflexivity].
    destruct (meq l fM) eqn:EM; [apply meq_eq in EM; subst; destruct b; reflexivity|].
    destruct (meq l fA) eqn:EA; [apply meq_eq in EA; subst; destruct b; reflexivity|].
    destruct (meq l fL) eqn:EL; [apply meq_eq in EL; subst; destruct b; reflexivity|].
    exact I.
Qed.

Definition proj1e (e : ev) : list ev := if rel e then [e] else [].

Lemma filter_snoc : forall pre e, filter rel (pre ++ [e]) = filter rel pre ++ proj1e e.
Proof. intros pre e. rewrite filter_app. cbn [filter]. unfold proj1e. destruct (rel e); reflexivity. Qed.

(* ---------------------------------------------------------------------------------------------- *)
(* 1. a fixed word (AddListener, GetAccounts): greedy deterministic matching, reads may be passed over *)

Definition is_read_ev (e : ev) : bool := match e with EAcc _ false => true | _ => false end.

Definition wdelta (rem : list ev) (e : ev) : option (list ev) :=
  if rel e then
    match rem with
    | x :: r => if ev_eq_dec e x then Some r else if is_read_ev e then Some rem else None
    | [] => if is_read_ev e then Some rem else None
    end
  else Some rem.

Definition lev_eqb (a b : list ev) : bool := if list_eq_dec ev_eq_dec a b then true else false.
Lemma lev_eqb_eq : forall a b, lev_eqb a b = true -> a = b.
Proof. intros a b H. unfold lev_eqb in H. destruct (list_eq_dec ev_eq_dec a b); [assumption|discriminate]. Qed.
Lemma lev_eqb_refl : forall a, lev_eqb a a = true.
Proof. intros a. unfold lev_eqb. destruct (list_eq_dec ev_eq_dec a a); [reflexivity|contradiction]. Qed.

Lemma wdelta_lang : forall tr rem rem', Mon.mrun (list ev) wdelta rem tr = Some rem' ->
  exists c, rem = c ++ rem' /\ sub_acc c (filter rel tr).
Proof.
  induction tr as [|e tr IH]; intros rem rem' H; cbn [Mon.mrun filter] in *.
  - inversion H; subst. exists []. split; [reflexivity|constructor].
  - unfold wdelta in H at 1. destruct (rel e) eqn:R.
    + destruct rem as [|x r].
      * destruct e as [m'|m'|l [|]]; cbn [is_read_ev] in H; try discriminate.
        destruct (IH _ _ H) as (c & E & Hs). exists c. split; [exact E|apply SA_skip; exact Hs].
      * destruct (ev_eq_dec e x) as [->|Hn].
        -- destruct (IH _ _ H) as (c & E & Hs). exists (x :: c). split; [cbn; rewrite E; reflexivity|apply SA_keep; exact Hs].
        -- destruct e as [m'|m'|l [|]]; cbn [is_read_ev] in H; try discriminate.
           destruct (IH _ _ H) as (c & E & Hs). exists c. split; [exact E|apply SA_skip; exact Hs].
    + exact (IH _ _ H).
Qed.

(* a complete path is accepted when the whole word has been consumed, or nothing of it (a path that
   takes no Lock / Unlock of mux and writes none of the three fields, e.g. an early return) *)
Definition wfin (w : list ev) (q : list ev) : bool := lev_eqb q [] || lev_eqb q w.

Lemma wdelta_fin : forall tr w q, Mon.mrun (list ev) wdelta w tr = Some q -> wfin w q = true ->
  sub_acc [] (filter rel tr) \/ sub_acc w (filter rel tr).
Proof.
  intros tr w q H Hf. destruct (wdelta_lang tr w q H) as (c & E & Hs).
  unfold wfin in Hf. apply orb_true_iff in Hf. destruct Hf as [Hf|Hf]; apply lev_eqb_eq in Hf; subst q.
  - right. rewrite app_nil_r in E. subst c. exact Hs.
  - left. symmetry in E. apply app_self_nil in E. subst c. exact Hs.
Qed.

Definition add_word : list ev := [ELock mx; eLr; eLw; EUnlock mx].
Definition get_word : list ev := [ELock mx; eAr; EUnlock mx].

(* ---------------------------------------------------------------------------------------------- *)
(* 2. notifyNewFiles:  Lock (eps | Mr | Mr Mw | Mr Mw Ar Aw)* Lr Unlock, reads may be inserted anywhere.
      State inside the critical section: [aw] = the last write was the Mw of the current iteration (an
      Aw may follow); [sm] / [sa] / [sl] = a read of addressToFileMap / addressList / listeners has
      been seen since the last write (or the Lock). *)

Inductive nq := NStart | NIn (aw sm sa sl : bool) | NFin.

Definition nq_eqb (x y : nq) : bool :=
  match x, y with
  | NStart, NStart => true
  | NFin, NFin => true
  | NIn a b c d, NIn a' b' c' d' => Bool.eqb a a' && Bool.eqb b b' && Bool.eqb c c' && Bool.eqb d d'
  | _, _ => false
  end.
Lemma nq_eqb_eq : forall x y, nq_eqb x y = true -> x = y.
Proof.
  intros [|a b c d|] [|a' b' c' d'|] H; cbn in H; try discriminate; try reflexivity.
  repeat (apply andb_true_iff in H; destruct H as [H ?]).
  repeat match goal with H : Bool.eqb _ _ = true |- _ => apply eqb_prop in H end. subst. reflexivity.
Qed.
Lemma nq_eqb_refl : forall x, nq_eqb x x = true.
Proof. intros [|a b c d|]; cbn; try reflexivity. rewrite !eqb_reflx. reflexivity. Qed.

Definition ndelta (q : nq) (e : ev) : option nq :=
  match classify e with
  | KIrr => Some q
  | k =>
    match q with
    | NStart => match k with KLock => Some (NIn false false false false) | _ => None end
    | NIn aw sm sa sl =>
        match k with
        | KMr => Some (NIn aw true sa sl)
        | KAr => Some (NIn aw sm true sl)
        | KLr => Some (NIn aw sm sa true)
        | KMw => if sm then Some (NIn true false false false) else None
        | KAw => if aw && sa then Some (NIn false false false false) else None
        | KUnlock => if sl then Some NFin else None
        | _ => None
        end
    | NFin => None
    end
  end.

Definition star : pat := [PStar itwords].

Definition NInv (q : nq) (t : list ev) : Prop :=
  match q with
  | NStart => t = []
  | NIn aw sm sa sl =>
      exists w0, pmatch star w0 /\
        sub_acc (ELock mx :: w0) t /\
        (sm = true -> sub_acc (ELock mx :: w0 ++ [eMr]) t) /\
        (sl = true -> sub_acc (ELock mx :: w0 ++ [eLr]) t) /\
        (aw = true -> exists w1, w0 = w1 ++ [eMr; eMw] /\ pmatch star w1 /\
                      (sa = true -> sub_acc (ELock mx :: w0 ++ [eAr]) t))
  | NFin => exists w, pmatch pat_nnf w /\ sub_acc w t
  end.

Lemma skipL : forall w t l, sub_acc (ELock mx :: w) t -> sub_acc (ELock mx :: w) (t ++ [EAcc l false]).
Proof. intros. apply sub_acc_snoc_skip. assumption. Qed.

Lemma keepL : forall w t e, sub_acc (ELock mx :: w) t -> sub_acc (ELock mx :: w ++ [e]) (t ++ [e]).
Proof. intros w t e H. apply (sub_acc_snoc_keep (ELock mx :: w) t e H). Qed.

Lemma in_itwords_2 : In [eMr; eMw] itwords. Proof. cbn; auto. Qed.
Lemma in_itwords_4 : In [eMr; eMw; eAr; eAw] itwords. Proof. cbn; auto 6. Qed.

Ltac carryA HA :=
  let E := fresh "E" in let w1 := fresh "w1" in let E1 := fresh "E1" in let Hs1 := fresh "Hs1" in let HAr := fresh "HAr" in
  intros E; destruct (HA E) as (w1 & E1 & Hs1 & HAr); exists w1; split; [exact E1|]; split; [exact Hs1|].

Lemma ndelta_step : forall q e q' t, NInv q t -> ndelta q e = Some q' -> NInv q' (t ++ proj1e e).
Proof.
  intros q e q' t HI Hd. unfold ndelta in Hd. pose proof (classify_spec e) as Hc.
  destruct (classify e) eqn:K.
  - (* Lock *) subst e. destruct q as [|aw sm sa sl|]; try discriminate. inversion Hd; subst. cbn [NInv] in HI. subst t.
    change (proj1e (ELock mx)) with [ELock mx]. cbn [app NInv].
    exists []. split; [apply PM_done; constructor|]. split; [apply sub_acc_refl|].
    split; [discriminate|]. split; [discriminate|discriminate].
  - (* Unlock *) subst e. destruct q as [|aw sm sa sl|]; try discriminate.
    destruct sl; [|discriminate]. inversion Hd; subst.
    destruct HI as (w0 & Hs & H0 & HM & HL & HA). change (proj1e (EUnlock mx)) with [EUnlock mx]. cbn [NInv].
    exists (ELock mx :: (w0 ++ [eLr]) ++ [EUnlock mx]). split.
    + unfold pat_nnf. apply PM_ev. rewrite <- app_assoc. cbn [app].
      change pat_tail with (star ++ [PEv eLr; PEv (EUnlock mx)]).
      apply (pmatch_app star w0 Hs [PEv eLr; PEv (EUnlock mx)] [eLr; EUnlock mx]). repeat constructor.
    + apply (keepL (w0 ++ [eLr]) t (EUnlock mx)). exact (HL eq_refl).
  - (* Mr *) subst e. destruct q as [|aw sm sa sl|]; try discriminate. inversion Hd; subst.
    destruct HI as (w0 & Hs & H0 & HM & HL & HA). change (proj1e eMr) with [eMr]. cbn [NInv].
    exists w0. split; [exact Hs|]. split; [apply skipL; exact H0|].
    split; [intros _; apply keepL; exact H0|]. split; [intros E; apply skipL; exact (HL E)|].
    carryA HA. intros E2. apply skipL. exact (HAr E2).
  - (* Mw *) subst e. destruct q as [|aw sm sa sl|]; try discriminate.
    destruct sm; [|discriminate]. inversion Hd; subst.
    destruct HI as (w0 & Hs & H0 & HM & HL & HA). change (proj1e eMw) with [eMw]. cbn [NInv].
    exists (w0 ++ [eMr; eMw]). split; [exact (star_snoc itwords [eMr; eMw] in_itwords_2 star w0 Hs eq_refl)|].
    split.
    + replace (w0 ++ [eMr; eMw]) with ((w0 ++ [eMr]) ++ [eMw]) by (rewrite <- app_assoc; reflexivity).
      apply keepL. exact (HM eq_refl).
    + split; [discriminate|]. split; [discriminate|]. intros _. exists w0. split; [reflexivity|]. split; [exact Hs|discriminate].
  - (* Ar *) subst e. destruct q as [|aw sm sa sl|]; try discriminate. inversion Hd; subst.
    destruct HI as (w0 & Hs & H0 & HM & HL & HA). change (proj1e eAr) with [eAr]. cbn [NInv].
    exists w0. split; [exact Hs|]. split; [apply skipL; exact H0|].
    split; [intros E; apply skipL; exact (HM E)|]. split; [intros E; apply skipL; exact (HL E)|].
    carryA HA. intros _. apply keepL. exact H0.
  - (* Aw *) subst e. destruct q as [|aw sm sa sl|]; try discriminate.
    destruct aw; [|discriminate]. destruct sa; [|discriminate]. inversion Hd; subst.
    destruct HI as (w0 & Hs & H0 & HM & HL & HA). change (proj1e eAw) with [eAw]. cbn [NInv].
    destruct (HA eq_refl) as (w1 & E1 & Hs1 & HAr). subst w0.
    exists (w1 ++ [eMr; eMw; eAr; eAw]).
    split; [exact (star_snoc itwords [eMr; eMw; eAr; eAw] in_itwords_4 star w1 Hs1 eq_refl)|].
    split.
    + replace (w1 ++ [eMr; eMw; eAr; eAw]) with (((w1 ++ [eMr; eMw]) ++ [eAr]) ++ [eAw])
        by (repeat rewrite <- app_assoc; reflexivity).
      apply keepL. exact (HAr eq_refl).
    + split; [discriminate|]. split; [discriminate|discriminate].
  - (* Lr *) subst e. destruct q as [|aw sm sa sl|]; try discriminate. inversion Hd; subst.
    destruct HI as (w0 & Hs & H0 & HM & HL & HA). change (proj1e eLr) with [eLr]. cbn [NInv].
    exists w0. split; [exact Hs|]. split; [apply skipL; exact H0|].
    split; [intros E; apply skipL; exact (HM E)|]. split; [intros _; apply keepL; exact H0|].
    carryA HA. intros E2. apply skipL. exact (HAr E2).
  - (* Lw: never allowed *) destruct q as [|aw sm sa sl|]; discriminate.
  - (* an access to a watched location that is none of the three fields *) destruct q as [|aw sm sa sl|]; discriminate.
  - (* not relevant *) inversion Hd; subst. unfold proj1e. rewrite Hc, app_nil_r. exact HI.
Qed.

Lemma ndelta_inv : forall tr q, Mon.mrun nq ndelta NStart tr = Some q -> NInv q (filter rel tr).
Proof.
  induction tr as [|e tr IH] using rev_ind; intros q H.
  - cbn in H. inversion H; subst. reflexivity.
  - rewrite Mon.run_app in H.
    destruct (Mon.mrun nq ndelta NStart tr) as [q0|] eqn:E0; [|discriminate]. cbn [Mon.mrun] in H.
    destruct (ndelta q0 e) as [q1|] eqn:E1; [|discriminate]. inversion H; subst.
    rewrite filter_snoc. exact (ndelta_step q0 e q (filter rel tr) (IH q0 eq_refl) E1).
Qed.

Definition nfin (q : nq) : bool := nq_eqb q NFin || nq_eqb q NStart.

Theorem ndelta_lang : forall tr q, Mon.mrun nq ndelta NStart tr = Some q -> nfin q = true ->
  filter rel tr = [] \/ exists w, pmatch pat_nnf w /\ sub_acc w (filter rel tr).
Proof.
  intros tr q H Hf. unfold nfin in Hf. apply orb_true_iff in Hf.
  destruct Hf as [Hf|Hf]; apply nq_eqb_eq in Hf; subst q.
  - right. exact (ndelta_inv tr NFin H).
  - left. exact (ndelta_inv tr NStart H).
Qed.

(* ---------------------------------------------------------------------------------------------- *)
(* the check on a translated program, and what it gives *)

Definition goq (b : list instr) : bool := go_clean (watched discovery_locs) b.

Definition exact_ok (p : prog) (fuel : nat) : bool :=
  Mon.mon_ok nq nq_eqb ndelta goq p fuel "notifyNewFiles" NStart nfin &&
  Mon.mon_ok (list ev) lev_eqb wdelta goq p fuel "AddListener" add_word (wfin add_word) &&
  Mon.mon_ok (list ev) lev_eqb wdelta goq p fuel "GetAccounts" get_word (wfin get_word).

Theorem exact_sound : forall p fuel, exact_ok p fuel = true ->
  (forall body tr, lookup_body p "notifyNewFiles" = Some body -> Atomic.bpath p body tr ->
     filter rel tr = [] \/ exists w, pmatch pat_nnf w /\ sub_acc w (filter rel tr)) /\
  (forall body tr, lookup_body p "AddListener" = Some body -> Atomic.bpath p body tr ->
     sub_acc [] (filter rel tr) \/ sub_acc add_word (filter rel tr)) /\
  (forall body tr, lookup_body p "GetAccounts" = Some body -> Atomic.bpath p body tr ->
     sub_acc [] (filter rel tr) \/ sub_acc get_word (filter rel tr)).
Proof.
  intros p fuel H. unfold exact_ok in H. apply andb_true_iff in H. destruct H as [H H3].
  apply andb_true_iff in H. destruct H as [H1 H2].
  split; [|split]; intros body tr Hl Hp.
  - destruct (Mon.mon_sound nq nq_eqb nq_eqb_eq nq_eqb_refl ndelta goq p fuel _ _ _ body tr H1 Hl Hp) as (q & Hr & Hq).
    exact (ndelta_lang tr q Hr Hq).
  - destruct (Mon.mon_sound (list ev) lev_eqb lev_eqb_eq lev_eqb_refl wdelta goq p fuel _ _ _ body tr H2 Hl Hp) as (q & Hr & Hq).
    exact (wdelta_fin tr add_word q Hr Hq).
  - destruct (Mon.mon_sound (list ev) lev_eqb lev_eqb_eq lev_eqb_refl wdelta goq p fuel _ _ _ body tr H3 Hl Hp) as (q & Hr & Hq).
    exact (wdelta_fin tr get_word q Hr Hq).
Qed.

Lemma fswallet_exact : exact_ok fswallet_prog fuel = true.
Proof. vm_compute. reflexivity. Qed.

(* ---------------------------------------------------------------------------------------------- *)
(* what "up to reads" leaves fixed: the sequence of Lock / Unlock / WRITE events *)
Definition not_read (e : ev) : bool := negb (is_read_ev e).

Lemma sub_acc_skeleton : forall w t, sub_acc w t -> filter not_read w = filter not_read t.
Proof.
  induction 1 as [|e w t H IH|l w t H IH]; cbn [filter].
  - reflexivity.
  - rewrite IH. reflexivity.
  - cbn. exact IH.
Qed.

(* BOTH directions, for a program that passes both computed checks *)
Theorem skeleton_two_way : forall p fuel, covers_ok p fuel = true -> exact_ok p fuel = true ->
  ((forall w, pmatch pat_nnf w ->
      exists body tr, lookup_body p "notifyNewFiles" = Some body /\ Atomic.bpath p body tr /\ sub_acc w (filter rel tr)) /\
   (forall body tr, lookup_body p "notifyNewFiles" = Some body -> Atomic.bpath p body tr ->
      filter rel tr = [] \/ exists w, pmatch pat_nnf w /\ sub_acc w (filter rel tr))) /\
  ((exists body tr, lookup_body p "AddListener" = Some body /\ Atomic.bpath p body tr /\ sub_acc add_word (filter rel tr)) /\
   (forall body tr, lookup_body p "AddListener" = Some body -> Atomic.bpath p body tr ->
      sub_acc [] (filter rel tr) \/ sub_acc add_word (filter rel tr))) /\
  ((exists body tr, lookup_body p "GetAccounts" = Some body /\ Atomic.bpath p body tr /\ sub_acc get_word (filter rel tr)) /\
   (forall body tr, lookup_body p "GetAccounts" = Some body -> Atomic.bpath p body tr ->
      sub_acc [] (filter rel tr) \/ sub_acc get_word (filter rel tr))).
Proof.
  intros p fuel Hc He. destruct (exact_sound p fuel He) as (R1 & R2 & R3).
  unfold covers_ok in Hc. apply andb_true_iff in Hc. destruct Hc as [Hc C3].
  apply andb_true_iff in Hc. destruct Hc as [C1 C2].
  split; [split; [|exact R1]|split; [split; [|exact R2]|split; [|exact R3]]].
  - intros w Hw. exact (covers_sound p mx discovery_locs fuel _ _ C1 w Hw).
  - exact (covers_sound p mx discovery_locs fuel _ _ C2 _ (pmatch_word add_word)).
  - exact (covers_sound p mx discovery_locs fuel _ _ C3 _ (pmatch_word get_word)).
Qed.

(* the write skeleton of every complete path of the three methods, spelled out: a path of
   notifyNewFiles that touches mux or the fields at all performs  Lock (Mw | Mw Aw)* Unlock  — the
   Lock/Unlock/write skeleton of a pattern word; AddListener: Lock Lw Unlock; GetAccounts: Lock Unlock *)
Corollary write_skeletons : forall p fuel, exact_ok p fuel = true ->
  (forall body tr, lookup_body p "notifyNewFiles" = Some body -> Atomic.bpath p body tr ->
     filter rel tr = [] \/ exists w, pmatch pat_nnf w /\ filter not_read (filter rel tr) = filter not_read w) /\
  (forall body tr, lookup_body p "AddListener" = Some body -> Atomic.bpath p body tr ->
     filter not_read (filter rel tr) = [] \/ filter not_read (filter rel tr) = [ELock mx; eLw; EUnlock mx]) /\
  (forall body tr, lookup_body p "GetAccounts" = Some body -> Atomic.bpath p body tr ->
     filter not_read (filter rel tr) = [] \/ filter not_read (filter rel tr) = [ELock mx; EUnlock mx]).
Proof.
  intros p fuel He. destruct (exact_sound p fuel He) as (R1 & R2 & R3).
  split; [|split]; intros body tr Hl Hp.
  - destruct (R1 body tr Hl Hp) as [E|(w & Hw & Hs)]; [left; exact E|right].
    exists w. split; [exact Hw|]. symmetry. exact (sub_acc_skeleton _ _ Hs).
  - destruct (R2 body tr Hl Hp) as [Hs|Hs]; apply sub_acc_skeleton in Hs; [left|right]; rewrite <- Hs; reflexivity.
  - destruct (R3 body tr Hl Hp) as [Hs|Hs]; apply sub_acc_skeleton in Hs; [left|right]; rewrite <- Hs; reflexivity.
Qed.

(* non-vacuity of the reverse check: the one-section discovery is accepted; the same body with a write
   of listeners under a condition after the snapshot (the wallet forgets its listeners) is rejected by
   [exact_ok] although the lockset, atomicity and forward-cover checks accept it; so is a body that
   appends to addressList before it writes addressToFileMap *)
Definition ex_body (extra : list instr) : list instr :=
  [ILock "mux"; IDeferUnlock "mux";
   ILoop [IRead ["addressToFileMap"]; IIf [IWrite ["addressToFileMap"]; IIf [IRead ["addressList"]; IWrite ["addressList"]] []] []];
   IRead ["listeners"]] ++ extra ++ [IGo [IChan ChSend "l"]]%string.
Definition ex_prog (extra : list instr) : prog :=
  [("notifyNewFiles", ex_body extra); ("Refresh", [IIf [ICall "notifyNewFiles"] []]);
   ("AddListener", [ILock "mux"; IDeferUnlock "mux"; IRead ["listeners"]; IWrite ["listeners"]]);
   ("GetAccounts", [ILock "mux"; IDeferUnlock "mux"; IRead ["addressList"]])]%string.
Definition ex_forget : list instr := [IIf [IWrite ["listeners"]] []]%string.

Lemma ex_exact_nonvacuous :
  exact_ok (ex_prog []) 4 = true /\ covers_ok (ex_prog []) 4 = true /\ steps_atomic_ok (ex_prog []) 4 = true /\
  exact_ok (ex_prog ex_forget) 4 = false /\ covers_ok (ex_prog ex_forget) 4 = true /\
  steps_atomic_ok (ex_prog ex_forget) 4 = true.
Proof. vm_compute. repeat split; reflexivity. Qed.
