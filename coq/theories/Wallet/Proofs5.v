(* Proofs about the wallet model (property C08), part 5 (answers to the referee's review of the statements,
   design/reviews/C08.md):

   1. the file backing an address along any history on an unchanging directory (the bridge between "the
      matching key file is present" and the model-internal map the liveness theorems speak about), and
      liveness stated on the directory, with the results of Sign / SignTypedDataV4 spelt out;
   2. the recover law of the signers under a GUARD (key, request), the key guard being discharged by a law
      of the keystore reader, and the key that signed named in the conclusion;
   3. the listener's notifyNewFiles never fails or panics (its outcome is not an observation of [step]);
      the model CAN panic where a hypothesis of C08_never_panics is dropped;
   4. the account list is NOT the specification's list once files are removed (refuted, with a witness). *)
From Coq Require Import String.
From Coq Require Import List NArith Lia Bool Arith.
From Coq Require Import Init.Byte.
From FFS Require Import Base.Res Base.Bytes Wallet.Model Wallet.Spec Wallet.Proofs Wallet.Proofs2 Wallet.Proofs3 Wallet.Proofs4.
Import ListNotations.

(* ---------- Spec.backing does not depend on what was listed before, once a file names the address ---------- *)

Lemma backing_init r files a : forall init,
  backing r files a init = match backing r files a None with Some fn => Some fn | None => init end.
Proof.
  induction files as [|f files IH]; intros init; [reflexivity|].
  rewrite !backing_cons.
  rewrite (IH (if (snd f : bool) then init else match name_address r (fst f) with
                                               | Some a' => if bytes_eqb a' a then Some (fst f) else init
                                               | None => init end)).
  rewrite (IH (if (snd f : bool) then None else match name_address r (fst f) with
                                               | Some a' => if bytes_eqb a' a then Some (fst f) else None
                                               | None => None end)).
  destruct (backing r files a None) as [fn|]; [reflexivity|].
  destruct (snd f); [reflexivity|]. destruct (name_address r (fst f)) as [a'|]; [|reflexivity].
  destruct (bytes_eqb a' a); reflexivity.
Qed.

Lemma backing_idem r files a init :
  backing r files a (backing r files a init) = backing r files a init.
Proof.
  rewrite (backing_init r files a (backing r files a init)), (backing_init r files a init).
  destruct (backing r files a None); reflexivity.
Qed.

Section Referee.
Variables key tx stx doc tsig : Type.
Variable E : ext key tx stx doc tsig.
Variable c : config.

Notation state := (state key).
Notation op := (op tx doc).
Notation addr_of := (addr_of _ _ _ _ _ E).
Notation matchFilename := (matchFilename key tx stx doc tsig E c).
Notation notify_one := (notify_one key tx stx doc tsig E c).
Notation notifyNewFiles := (notifyNewFiles key tx stx doc tsig E c).
Notation Refresh := (Refresh key tx stx doc tsig E c).
Notation loadWalletFile := (loadWalletFile key tx stx doc tsig E c).
Notation GetWalletFile := (GetWalletFile key tx stx doc tsig E c).
Notation Sign := (Sign key tx stx doc tsig E c).
Notation SignTypedDataV4 := (SignTypedDataV4 key tx stx doc tsig E c).
Notation step := (step key tx stx doc tsig E c).
Notation after := (after key tx stx doc tsig E c).
Notation cache_ok := (cache_ok key tx stx doc tsig E).
Notation regex_law := (regex_law key tx stx doc tsig E).
Notation constructed := (constructed key tx stx doc tsig E c).
Notation rule_of := (rule_of key tx stx doc tsig E c).
Notation wl_ok := (wl_ok key).
Notation static := (static tx doc).
Notation refreshed := (refreshed tx doc).

(* ================= 1. the backing file along histories on an unchanging directory ================= *)

Lemma step_static_map (s : state) (o : op) files :
  regex_law -> constructed -> wl_ok s ->
  fs_readdir (st_fs _ s) (c_path c) = Ok files -> names_ok files ->
  static [o] = true ->
  forall a, assoc_get a (st_map _ (fst (step s o))) =
    match o with
    | ORefresh _ _ => backing rule_of files a (assoc_get a (st_map _ s))
    | _ => assoc_get a (st_map _ s)
    end.
Proof.
  intros Hlaw Hc Hs Hr Hn. destruct o; simpl; try discriminate; intros _ a0; try reflexivity.
  - destruct (Refresh_exact _ _ _ _ _ E c s files Hlaw Hc Hs Hr Hn) as (s' & -> & _ & Hm & _). apply Hm.
  - unfold Model.Sign, getSignerForJSONAccount, getSignerForAddr.
    destruct (parse_from _ _ _ _ _ E from_raw) as [a|]; [|reflexivity].
    destruct (GetWalletFile s a) as [s' r] eqn:H. apply GetWalletFile_lists in H as [Hm _]. simpl. rewrite Hm. reflexivity.
  - unfold Model.SignTypedDataV4, getSignerForAddr.
    destruct (GetWalletFile s from) as [s' r] eqn:H. apply GetWalletFile_lists in H as [Hm _]. simpl. rewrite Hm. reflexivity.
  - destruct (GetWalletFile s addr) as [s' r] eqn:H. apply GetWalletFile_lists in H as [Hm _]. simpl. rewrite Hm. reflexivity.
Qed.

Lemma map_static_gen files h : forall (s : state),
  regex_law -> constructed -> wl_ok s ->
  fs_readdir (st_fs _ s) (c_path c) = Ok files -> names_ok files -> static h = true ->
  st_fs _ (after s h) = st_fs _ s /\
  forall a, assoc_get a (st_map _ (after s h)) =
    if refreshed h then backing rule_of files a (assoc_get a (st_map _ s)) else assoc_get a (st_map _ s).
Proof.
  induction h as [|o h IH]; intros s Hlaw Hc Hs Hr Hn Hst; [split; reflexivity|].
  rewrite static_cons in Hst. apply andb_prop in Hst as [Ho Hh].
  rewrite after_cons.
  pose proof (step_static_fs _ _ _ _ _ E c s o Ho) as Hfs.
  pose proof (step_static_map s o files Hlaw Hc Hs Hr Hn Ho) as Hm.
  assert (Hr' : fs_readdir (st_fs _ (fst (step s o))) (c_path c) = Ok files) by (rewrite Hfs; exact Hr).
  destruct (IH _ Hlaw Hc (step_wl_ok _ _ _ _ _ E c s o Hs) Hr' Hn Hh) as [IHfs IHm].
  split; [rewrite IHfs; exact Hfs|].
  intros a. rewrite IHm, Hm.
  destruct o; simpl in *; try discriminate; try reflexivity.
  destruct (refreshed h); [apply backing_idem|reflexivity].
Qed.

(* on a wallet directory that does not change, after ANY history of requests, GetAccounts calls, rescans
   and cache evictions: the file listed for an address is the last regular file of the listing naming it
   (nothing before the first scan), and the wallet still looks at the same file system *)
Theorem listed_backing_static fs files h a :
  regex_law -> constructed ->
  fs_readdir fs (c_path c) = Ok files -> names_ok files -> static h = true ->
  assoc_get a (st_map _ (after (init_state _ fs) h)) =
    (if refreshed h then backing rule_of files a None else None) /\
  st_fs _ (after (init_state _ fs) h) = fs.
Proof.
  intros Hlaw Hc Hr Hn Hst.
  destruct (@map_static_gen files h (init_state _ fs) Hlaw Hc (wl_ok_init _ fs) Hr Hn Hst) as [Hfs Hm].
  split; [rewrite Hm; reflexivity|exact Hfs].
Qed.

(* what a successful GetWalletFile means for the two signing entry points *)
Lemma requests_of_wallet_file (s s' : state) a k :
  GetWalletFile s a = (s', Ok k) ->
  (forall raw (t : tx), parse_from _ _ _ _ _ E raw = Some a -> Sign s raw t = (s', sign_tx _ _ _ _ _ E k t)) /\
  (forall d : doc, SignTypedDataV4 s a d = (s', sign_td _ _ _ _ _ E k d)).
Proof.
  intros Hg. split.
  - intros raw t Hp. unfold Model.Sign, getSignerForJSONAccount, getSignerForAddr. rewrite Hp, Hg. reflexivity.
  - intros d. unfold Model.SignTypedDataV4, getSignerForAddr. rewrite Hg. reflexivity.
Qed.

(* liveness stated on the DIRECTORY (no model-internal premise), no metadata: on an unchanging, scanned
   directory whose last regular file naming A holds A's key, with a usable password, every kind of request
   naming A succeeds with a key of A — after any history of requests, rescans and evictions *)
Theorem liveness_static_plain fs files h a fn content pw k :
  regex_law -> constructed ->
  fs_readdir fs (c_path c) = Ok files -> names_ok files -> static h = true -> refreshed h = true ->
  classify_format (resolved_format c) = None ->
  backing rule_of files a None = Some fn ->
  fs_readfile fs (path_join _ _ _ _ _ E (c_path c) fn) = Ok content ->
  spec_password (fs_readfile fs) (c_pw_trim c) (trim_space _ _ _ _ _ E)
                (plain_password_file _ _ _ _ _ E c a) (c_default_pw_file c) = Some pw ->
  read_wallet _ _ _ _ _ E content pw = Ok k -> addr_of k = a ->
  let s := after (init_state _ fs) h in
  exists s' k',
    GetWalletFile s a = (s', Ok k') /\ addr_of k' = a /\
    (forall raw (t : tx), parse_from _ _ _ _ _ E raw = Some a -> Sign s raw t = (s', sign_tx _ _ _ _ _ E k' t)) /\
    (forall d : doc, SignTypedDataV4 s a d = (s', sign_td _ _ _ _ _ E k' d)).
Proof.
  intros Hlaw Hc Hr Hn Hst Hrf Hf Hb Hp Hpw Hrw Hk s. subst s.
  destruct (listed_backing_static fs files h a Hlaw Hc Hr Hn Hst) as [Hm Hfs]. rewrite Hrf, Hb in Hm.
  rewrite <- Hfs in Hp, Hpw.
  destruct (liveness_plain _ _ _ _ _ E c fs h a fn content pw k Hf Hm Hp Hpw Hrw Hk) as (s' & k' & Hg & Hk').
  exists s', k'. split; [exact Hg|]. split; [exact Hk'|]. apply requests_of_wallet_file; exact Hg.
Qed.

(* the same with metadata files *)
Theorem liveness_static_metadata fs files h a fn m content kf kcontent pw k :
  regex_law -> constructed ->
  fs_readdir fs (c_path c) = Ok files -> names_ok files -> static h = true -> refreshed h = true ->
  let primary := path_join _ _ _ _ _ E (c_path c) fn in
  classify_format (resolved_format c) = Some m ->
  backing rule_of files a None = Some fn ->
  fs_readfile fs primary = Ok content ->
  meta_parse _ _ _ _ _ E m content = true ->
  goTemplateToString _ _ _ _ _ E m content (c_key_prop c) = kf -> kf <> [] ->
  (if bytes_eqb kf primary then kcontent = content else fs_readfile fs kf = Ok kcontent) ->
  spec_password (fs_readfile fs) (c_pw_trim c) (trim_space _ _ _ _ _ E)
                (goTemplateToString _ _ _ _ _ E m content (c_pw_prop c)) (c_default_pw_file c) = Some pw ->
  read_wallet _ _ _ _ _ E kcontent pw = Ok k -> addr_of k = a ->
  let s := after (init_state _ fs) h in
  exists s' k',
    GetWalletFile s a = (s', Ok k') /\ addr_of k' = a /\
    (forall raw (t : tx), parse_from _ _ _ _ _ E raw = Some a -> Sign s raw t = (s', sign_tx _ _ _ _ _ E k' t)) /\
    (forall d : doc, SignTypedDataV4 s a d = (s', sign_td _ _ _ _ _ E k' d)).
Proof.
  intros Hlaw Hc Hr Hn Hst Hrf primary Hf Hb Hp Hmp Hkf Hne Hkc Hpw Hrw Hk s. subst s primary.
  destruct (listed_backing_static fs files h a Hlaw Hc Hr Hn Hst) as [Hm Hfs]. rewrite Hrf, Hb in Hm.
  rewrite <- Hfs in Hp, Hpw, Hkc.
  destruct (liveness_metadata _ _ _ _ _ E c fs h a fn m content kf kcontent pw k Hf Hm Hp Hmp Hkf Hne Hkc Hpw Hrw Hk)
    as (s' & k' & Hg & Hk').
  exists s', k'. split; [exact Hg|]. split; [exact Hk'|]. apply requests_of_wallet_file; exact Hg.
Qed.

(* ================= 2. the recover law under a guard ================= *)

(* a key that loadWalletFile returns is one the keystore reader returned *)
Lemma loadWalletFile_from_reader fs a p k :
  loadWalletFile fs a p = Ok k -> exists content pw, read_wallet _ _ _ _ _ E content pw = Ok k.
Proof.
  unfold Model.loadWalletFile. intros H.
  apply bind_ok in H as (b & _ & H). apply bind_ok in H as ([kf pf] & _ & H).
  apply bind_ok in H as (b' & _ & H). apply bind_ok in H as (pw & _ & H).
  exists b', pw. destruct (read_wallet _ _ _ _ _ E b' pw); [exact H|discriminate|discriminate].
Qed.

Section Guarded.
  Variable good_key : key -> Prop.
  (* the keystore reader only returns good keys *)
  Hypothesis reader_good : forall content pw k, read_wallet _ _ _ _ _ E content pw = Ok k -> good_key k.

  Definition cache_good (s : state) : Prop := forall ks w, assoc_get ks (st_cache _ s) = Some w -> good_key w.

  Lemma GetWalletFile_good (s s' : state) a r :
    cache_good s -> GetWalletFile s a = (s', r) -> cache_good s' /\ (forall k, r = Ok k -> good_key k).
  Proof.
    intros Hs. unfold Model.GetWalletFile.
    destruct (assoc_get (addr_string a) (st_cache _ s)) as [w|] eqn:Hc.
    { intros H; inversion H; subst. split; [exact Hs|]. intros k Hk; injection Hk as <-. eapply Hs; eauto. }
    destruct (assoc_get a (st_map _ s)) as [fn|].
    2:{ intros H; inversion H; subst. split; [exact Hs|]. intros k Hk; discriminate. }
    destruct (loadWalletFile (st_fs _ s) a _) as [k'| |] eqn:Hl.
    - apply loadWalletFile_from_reader in Hl as (content & pw & Hrd). apply reader_good in Hrd.
      destruct (bytes_eqb (addr_of k') a); simpl; intros H; inversion H; subst.
      + split; [|intros k Hk; injection Hk as <-; exact Hrd].
        intros ks w Hg. cbn [st_cache] in Hg. rewrite assoc_get_set in Hg.
        destruct (bytes_eqb ks (addr_string a)); [injection Hg as <-; exact Hrd|eapply Hs; eauto].
      + split; [exact Hs|]. intros k Hk; discriminate.
    - intros H; inversion H; subst. split; [exact Hs|]. intros k Hk; discriminate.
    - intros H; inversion H; subst. split; [exact Hs|]. intros k Hk; discriminate.
  Qed.

  Lemma step_cache_good (s : state) (o : op) : cache_good s -> cache_good (fst (step s o)).
  Proof.
    intros Hs. destruct o; simpl.
    - destruct (Refresh s) as [s' r] eqn:H. simpl. apply Refresh_cache in H as [Hc _].
      intros ks w Hg. rewrite Hc in Hg. eapply Hs; eauto.
    - exact Hs.
    - unfold Model.Sign, getSignerForJSONAccount, getSignerForAddr.
      destruct (parse_from _ _ _ _ _ E from_raw) as [a|]; [|exact Hs].
      destruct (GetWalletFile s a) as [s' r] eqn:H. simpl. eapply GetWalletFile_good; eauto.
    - unfold Model.SignTypedDataV4, getSignerForAddr.
      destruct (GetWalletFile s from) as [s' r] eqn:H. simpl. eapply GetWalletFile_good; eauto.
    - destruct (GetWalletFile s addr) as [s' r] eqn:H. simpl. eapply GetWalletFile_good; eauto.
    - exact Hs.
    - destruct (notifyNewFiles s [(name, isdir)]) as [s1| |] eqn:Hn; simpl; try exact Hs.
      apply notifyNewFiles_cache in Hn as [Hcache _]. intros ks w Hg. rewrite Hcache in Hg. eapply Hs; eauto.
    - intros ks w Hg. simpl in Hg. rewrite assoc_get_del in Hg.
      destruct (bytes_eqb ks k); [discriminate|]. eapply Hs; eauto.
  Qed.

  Lemma after_cache_good (s : state) h : cache_good s -> cache_good (after s h).
  Proof.
    revert s. induction h as [|o h IH]; intros s Hs; [exact Hs|].
    rewrite after_cons. apply IH, step_cache_good, Hs.
  Qed.

  (* every key the wallet hands out, in any reachable state, came out of the keystore reader *)
  Theorem GetWalletFile_good_reachable fs h a s' k :
    GetWalletFile (after (init_state _ fs) h) a = (s', Ok k) -> good_key k /\ addr_of k = a.
  Proof.
    intros H. split; [|eapply GetWalletFile_binds_reachable; eauto].
    assert (Hi : cache_good (after (init_state _ fs) h)).
    { apply after_cache_good. intros ks w Hg. discriminate. }
    destruct (GetWalletFile_good _ _ _ _ Hi H) as [_ Hk]. apply Hk. reflexivity.
  Qed.

  (* the signers' recover law, required only under a guard on (key, request): the conclusion names the key
     that signed, says that it is a good key of the requested address, and gives recovery under the guard
     on the request *)
  Theorem signatures_recover_guarded
          (good_tx : key -> tx -> Prop) (good_td : key -> doc -> Prop)
          (recover_tx : tx -> stx -> option bytes) (recover_td : doc -> tsig -> option bytes) :
    (forall k t out, good_key k -> good_tx k t -> sign_tx _ _ _ _ _ E k t = Ok out -> recover_tx t out = Some (addr_of k)) ->
    (forall k d out, good_key k -> good_td k d -> sign_td _ _ _ _ _ E k d = Ok out -> recover_td d out = Some (addr_of k)) ->
    forall fs h,
      let s := after (init_state _ fs) h in
      (forall raw t s' out, Sign s raw t = (s', Ok out) ->
         exists str a k, json_string _ _ _ _ _ E raw = Some str /\ addr_of_text str = Some a /\
                         good_key k /\ addr_of k = a /\ sign_tx _ _ _ _ _ E k t = Ok out /\
                         (good_tx k t -> recover_tx t out = Some a)) /\
      (forall a d s' out, SignTypedDataV4 s a d = (s', Ok out) ->
         exists k, good_key k /\ addr_of k = a /\ sign_td _ _ _ _ _ E k d = Ok out /\
                   (good_td k d -> recover_td d out = Some a)).
  Proof.
    intros Ltx Ltd fs h s. split.
    - intros raw t s' out H. unfold Model.Sign, getSignerForJSONAccount, getSignerForAddr in H.
      destruct (parse_from _ _ _ _ _ E raw) as [a|] eqn:Hp; [|inversion H].
      destruct (GetWalletFile s a) as [s1 r] eqn:Hg. injection H as _ Hout.
      destruct r as [k| |]; simpl in Hout; try discriminate.
      destruct (GetWalletFile_good_reachable _ _ _ _ _ Hg) as [Hgood Hk].
      unfold parse_from in Hp. destruct (json_string _ _ _ _ _ E raw) as [str|]; [|discriminate].
      exists str, a, k. split; [reflexivity|]. split; [rewrite <- parse_address_is_address_text; exact Hp|].
      split; [exact Hgood|]. split; [exact Hk|]. split; [exact Hout|].
      intros Hgt. rewrite <- Hk. apply Ltx; assumption.
    - intros a d s' out H. unfold Model.SignTypedDataV4, getSignerForAddr in H.
      destruct (GetWalletFile s a) as [s1 r] eqn:Hg. injection H as _ Hout.
      destruct r as [k| |]; simpl in Hout; try discriminate.
      destruct (GetWalletFile_good_reachable _ _ _ _ _ Hg) as [Hgood Hk].
      exists k. split; [exact Hgood|]. split; [exact Hk|]. split; [exact Hout|].
      intros Hgt. rewrite <- Hk. apply Ltd; assumption.
  Qed.
End Guarded.

(* ================= 3. the listener path ================= *)

(* [step] gives a listener event no observation (a failure of notifyNewFiles there is only logged), so
   C08_never_panics does not speak about it: here is the statement for it — under the same two hypotheses
   the listener's notifyNewFiles returns a state, in EVERY state, for every os.Stat result *)
Theorem listener_event_total (s : state) (name : bytes) (isdir : bool) :
  regex_law -> constructed ->
  exists s', notifyNewFiles s [(name, isdir)] = Ok s' /\ fst (step s (OFsEvent _ _ name isdir)) = s'.
Proof.
  intros Hlaw Hc. destruct (notifyNewFiles_ok _ _ _ _ _ E c Hlaw Hc s [(name, isdir)]) as (s' & Hn & _).
  exists s'. split; [exact Hn|]. rewrite step_event, Hn. reflexivity.
Qed.

End Referee.

(* ================= 4. witnesses: what the hypotheses exclude really happens in the model ================= *)

(* a small world: keys are their own address, every file reads as its own name, the regular expression
   "engine" answers ONE group (violating regex_law) *)
Definition wE (groups : nat) (reader : res bytes) : ext bytes unit bytes unit bytes :=
  {| re_compile := fun _ => Some 2%nat;
     re_find := fun _ name => Some (repeat name groups);
     tmpl_parse_ok := fun _ => true;
     meta_parse := fun _ _ => true;
     tmpl_exec := fun _ _ t => (t, true);
     json_string := fun raw => Some raw;
     trim_space := fun s => s;
     path_join := fun a b => a ++ b;
     read_wallet := fun _ _ => reader;
     addr_of := fun k => k;
     sign_tx := fun k _ => Ok k;
     sign_td := fun k _ => Ok k |}.

Definition wc (regex : bytes) : config :=
  {| c_path := []; c_default_pw_file := ascii_bytes "pw"; c_regex := regex; c_primary_ext := [];
     c_pw_ext := []; c_pw_path := []; c_pw_trim := false; c_with0x := false;
     c_meta_format := []; c_key_prop := []; c_pw_prop := [] |}.

Definition wname : bytes := repeat "1"%byte 40.
Definition waddr : bytes := repeat x11 20.

Definition wfs (files : list (bytes * bool)) : fsys :=
  {| fs_readdir := fun _ => Ok files; fs_readfile := fun p => Ok p |}.

(* match[1] out of range: with an engine that answers fewer groups than SubexpNames() the scan panics —
   regex_law is what excludes it *)
Theorem panic_without_regex_law :
  constructed _ _ _ _ _ (wE 1 (Err 1%nat)) (wc (ascii_bytes "x")) /\
  snd (Refresh _ _ _ _ _ (wE 1 (Err 1%nat)) (wc (ascii_bytes "x")) (init_state _ (wfs [(wname, false)]))) = Panic.
Proof. split; vm_compute; reflexivity. Qed.

(* a panicking keystore reader makes the request panic — ext_nopanic is what excludes it *)
Theorem panic_with_panicking_reader :
  regex_law _ _ _ _ _ (wE 2 Panic) /\ constructed _ _ _ _ _ (wE 2 Panic) (wc []) /\
  snd (run _ _ _ _ _ (wE 2 Panic) (wc []) (init_state _ (wfs [(wname, false)]))
           [ORefresh _ _; OGetWalletFile _ _ waddr]) =
  [BRefresh _ _ _ (Ok tt); BWalletFile _ _ _ Panic].
Proof.
  split; [|split; vm_compute; reflexivity].
  intros pat n name g H1 H2. simpl in *. injection H1 as <-. injection H2 as <-. reflexivity.
Qed.

(* the account list is cumulative: after the only key file is removed and the directory rescanned, the
   address is still listed although no file of the current listing names it — "exactly the addresses of the
   matching files" fails once files disappear (and a request for the stale address is refused) *)
Theorem accounts_exact_refuted_after_removal :
  exists (E : ext bytes unit bytes unit bytes) (c : config) (fs fs' : fsys) (files' : list (bytes * bool)),
    regex_law _ _ _ _ _ E /\ constructed _ _ _ _ _ E c /\
    fs_readdir fs' (c_path c) = Ok files' /\ names_ok files' /\
    let s := after _ _ _ _ _ E c (init_state _ fs) [ORefresh _ _; OSetFs _ _ fs'; ORefresh _ _] in
    GetAccounts _ s = [waddr] /\ spec_accounts (rule_of _ _ _ _ _ E c) files' = [] /\
    snd (GetWalletFile _ _ _ _ _ E c s waddr) = Err EWalletFailed.
Proof.
  exists (wE 2 (Ok waddr)), (wc []), (wfs [(wname, false)]),
         {| fs_readdir := fun _ => Ok []; fs_readfile := fun _ => Err 1%nat |}, [].
  split. { intros pat n name g H1 H2. simpl in *. injection H1 as <-. injection H2 as <-. reflexivity. }
  split; [reflexivity|]. split; [reflexivity|]. split; [constructor|].
  split; [vm_compute; reflexivity|]. split; vm_compute; reflexivity.
Qed.

(* ISSUE 4 of the review: Spec.spec_password has the implementation's precedence (a READABLE own password
   file always wins).  Under the broader reading of "a usable password is present" — SOME configured source
   holds the password that opens the key — liveness is false of the faithful model: a readable per-key
   password file with the wrong content shadows a default password file with the right one. *)
Definition pE : ext bytes unit bytes unit bytes :=
  {| re_compile := fun _ => Some 2%nat;
     re_find := fun _ name => Some [name; name];
     tmpl_parse_ok := fun _ => true;
     meta_parse := fun _ _ => true;
     tmpl_exec := fun _ _ t => (t, true);
     json_string := fun raw => Some raw;
     trim_space := fun s => s;
     path_join := fun a b => a ++ b;
     read_wallet := fun _ pw => if bytes_eqb pw (ascii_bytes "good") then Ok waddr else Err 1%nat;
     addr_of := fun k => k;
     sign_tx := fun k _ => Ok k;
     sign_td := fun k _ => Ok k |}.

Definition pc : config :=
  {| c_path := []; c_default_pw_file := ascii_bytes "dflt"; c_regex := []; c_primary_ext := [];
     c_pw_ext := ascii_bytes ".pw"; c_pw_path := []; c_pw_trim := false; c_with0x := false;
     c_meta_format := []; c_key_prop := []; c_pw_prop := [] |}.

Definition pfs : fsys :=
  {| fs_readdir := fun _ => Ok [(wname, false)];
     fs_readfile := fun p => if bytes_eqb p (ascii_bytes "dflt") then Ok (ascii_bytes "good") else Ok (ascii_bytes "bad") |}.

Theorem liveness_broad_reading_refuted :
  exists (E : ext bytes unit bytes unit bytes) (c : config) (fs : fsys) (a fn content dpw k : bytes),
    regex_law _ _ _ _ _ E /\ constructed _ _ _ _ _ E c /\
    let s := after _ _ _ _ _ E c (init_state _ fs) [ORefresh _ _] in
    GetAccounts _ s = [a] /\ assoc_get a (st_map _ s) = Some fn /\
    fs_readfile fs (path_join _ _ _ _ _ E (c_path c) fn) = Ok content /\      (* the key file is there *)
    fs_readfile fs (c_default_pw_file c) = Ok dpw /\                          (* the default password file is there *)
    read_wallet _ _ _ _ _ E content dpw = Ok k /\ addr_of _ _ _ _ _ E k = a /\ (* and opens A's key *)
    (exists own, fs_readfile fs (plain_password_file _ _ _ _ _ E c a) = Ok own /\
                 read_wallet _ _ _ _ _ E content own = Err 1%nat) /\          (* the own password file is readable, wrong *)
    snd (GetWalletFile _ _ _ _ _ E c s a) = Err EWalletFailed.                (* the request fails *)
Proof.
  exists pE, pc, pfs, waddr, wname, (ascii_bytes "bad"), (ascii_bytes "good"), waddr.
  split. { intros pat n name g H1 H2. simpl in *. injection H1 as <-. injection H2 as <-. reflexivity. }
  split; [reflexivity|]. cbv zeta.
  split; [vm_compute; reflexivity|]. split; [vm_compute; reflexivity|]. split; [vm_compute; reflexivity|].
  split; [vm_compute; reflexivity|]. split; [vm_compute; reflexivity|]. split; [vm_compute; reflexivity|].
  split; [exists (ascii_bytes "bad"); split; vm_compute; reflexivity|]. vm_compute. reflexivity.
Qed.
