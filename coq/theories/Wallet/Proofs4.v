(* Proofs about the wallet model (property C08), part 4 (round 3): only listed accounts can sign.

   Invariant over all histories: every entry of the signer cache belongs to an address of the account
   list (an entry is only made after the look-up in addressToFileMap succeeded, and addresses are never
   removed from the map / list).  Consequences: a request naming an address that GetAccounts does not
   list fails with "not available" and leaves the state alone — whatever is cached for other addresses
   (in particular for addresses whose text differs from the requested one in a single digit); and a
   request that does not return Ok never changes the state. *)
From Coq Require Import String.
From Coq Require Import List NArith Lia Bool Arith.
From Coq Require Import Init.Byte.
From FFS Require Import Base.Res Base.Bytes Wallet.Model Wallet.Spec Wallet.Proofs Wallet.Proofs2.
Import ListNotations.

Section Listed.
Variables key tx stx doc tsig : Type.
Variable E : ext key tx stx doc tsig.
Variable c : config.

Notation state := (state key).
Notation op := (op tx doc).
Notation addr_of := (addr_of _ _ _ _ _ E).
Notation matchFilename := (matchFilename key tx stx doc tsig E c).
Notation notify_one := (notify_one key tx stx doc tsig E c).
Notation notifyNewFiles := (notifyNewFiles key tx stx doc tsig E c).
Notation Refresh := (Refresh key tx stx doc tsig E c).
Notation GetWalletFile := (GetWalletFile key tx stx doc tsig E c).
Notation Sign := (Sign key tx stx doc tsig E c).
Notation SignTypedDataV4 := (SignTypedDataV4 key tx stx doc tsig E c).
Notation step := (step key tx stx doc tsig E c).
Notation after := (after key tx stx doc tsig E c).
Notation cache_ok := (cache_ok key tx stx doc tsig E).

(* ---------- the account list only grows ---------- *)

Lemma fold_notify_mono files : forall m l,
  keys_ok m l -> NoDup l ->
  match fold_left notify_one files (Ok (m, l)) with
  | Ok (m', l') => forall x, In x l -> In x l'
  | _ => True
  end.
Proof.
  induction files as [|f files IH]; intros m l Hk Hn; [simpl; auto|].
  change (fold_left notify_one (f :: files) (Ok (m, l))) with (fold_left notify_one files (notify_one (Ok (m, l)) f)).
  pose proof (notify_one_cases _ _ _ _ _ E c m l f Hk Hn) as H.
  destruct (matchFilename (fst f) (snd f)) as [[a|]| |].
  - destruct H as (m' & l' & -> & Hk' & Hn' & Hne & He).
    specialize (IH m' l' Hk' Hn').
    destruct (fold_left notify_one files (Ok (m', l'))) as [[m2 l2]| |]; auto.
    intros x Hx. apply IH.
    destruct (fst f) as [|b0 t0] eqn:Ef.
    + rewrite (He eq_refl). exact Hx.
    + destruct Hne as [-> _]; [discriminate|]. apply add_new_In. left; exact Hx.
  - rewrite H. apply IH; assumption.
  - rewrite H, fold_notify_err. exact I.
  - rewrite H, fold_notify_panic. exact I.
Qed.

Lemma notifyNewFiles_mono (s s' : state) files :
  wl_ok _ s -> notifyNewFiles s files = Ok s' -> forall x, In x (st_list _ s) -> In x (st_list _ s').
Proof.
  intros [Hk Hn]. unfold Model.notifyNewFiles.
  pose proof (fold_notify_mono files _ _ Hk Hn) as H.
  destruct (fold_left notify_one files _) as [[m l]| |]; simpl; try discriminate.
  intros Hs; injection Hs as <-. exact H.
Qed.

(* ---------- every cached key belongs to a listed address ---------- *)

Definition cache_listed (s : state) : Prop :=
  forall ks w, assoc_get ks (st_cache _ s) = Some w -> In (addr_of w) (st_list _ s).

Definition inv (s : state) : Prop := cache_ok s /\ wl_ok _ s /\ cache_listed s.

Lemma inv_init fs : inv (init_state _ fs).
Proof.
  split; [apply cache_ok_init|]. split; [apply wl_ok_init|]. intros ks w H. discriminate.
Qed.

Lemma GetWalletFile_listed (s s' : state) a r :
  wl_ok _ s -> cache_listed s -> GetWalletFile s a = (s', r) -> cache_listed s'.
Proof.
  intros [Hk _] Hl. unfold Model.GetWalletFile.
  destruct (assoc_get (addr_string a) (st_cache _ s)) as [w|] eqn:Hc.
  { intros H; inversion H; subst; exact Hl. }
  destruct (assoc_get a (st_map _ s)) as [fn|] eqn:Hm.
  2:{ intros H; inversion H; subst; exact Hl. }
  destruct (loadWalletFile _ _ _ _ _ E c (st_fs _ s) a _) as [k'| |].
  - destruct (bytes_eqb (addr_of k') a) eqn:Eq; simpl; intros H; inversion H; subst; try exact Hl.
    intros ks w Hg. cbn [st_cache st_list] in Hg |- *. rewrite assoc_get_set in Hg.
    destruct (bytes_eqb_spec ks (addr_string a)) as [->|N].
    + injection Hg as <-. apply bytes_eqb_true in Eq. rewrite Eq. apply Hk. congruence.
    + eapply Hl; eauto.
  - intros H; inversion H; subst; exact Hl.
  - intros H; inversion H; subst; exact Hl.
Qed.

(* a request that does not return Ok leaves the wallet exactly as it was — any state *)
Lemma GetWalletFile_failed_unchanged (s s' : state) a r :
  GetWalletFile s a = (s', r) -> (forall k, r <> Ok k) -> s' = s.
Proof.
  unfold Model.GetWalletFile.
  destruct (assoc_get (addr_string a) (st_cache _ s)) as [w|].
  { intros H Hr; inversion H; subst. exfalso; eapply Hr; reflexivity. }
  destruct (assoc_get a (st_map _ s)) as [fn|].
  2:{ intros H _; inversion H; reflexivity. }
  destruct (loadWalletFile _ _ _ _ _ E c (st_fs _ s) a _) as [k'| |].
  - destruct (bytes_eqb (addr_of k') a); simpl; intros H Hr; inversion H; subst; [|reflexivity].
    exfalso; eapply Hr; reflexivity.
  - intros H _; inversion H; reflexivity.
  - intros H _; inversion H; reflexivity.
Qed.

Lemma step_inv (s : state) (o : op) : inv s -> inv (fst (step s o)).
Proof.
  intros (Hc & Hw & Hl).
  split; [apply step_cache_ok; exact Hc|]. split; [apply step_wl_ok; exact Hw|].
  destruct o; simpl.
  - (* Refresh *)
    unfold Model.Refresh. destruct (fs_readdir (st_fs _ s) (c_path c)) as [[|f files]| |]; simpl; try exact Hl.
    destruct (notifyNewFiles s (f :: files)) as [s1| |] eqn:Hn; simpl; try exact Hl.
    pose proof (notifyNewFiles_mono _ _ _ Hw Hn) as Hmono.
    apply notifyNewFiles_cache in Hn as [Hcache _].
    intros ks w Hg. rewrite Hcache in Hg. apply Hmono. eapply Hl; eauto.
  - exact Hl.
  - unfold Model.Sign, getSignerForJSONAccount, getSignerForAddr.
    destruct (parse_from _ _ _ _ _ E from_raw) as [a|]; [|exact Hl].
    destruct (GetWalletFile s a) as [s1 r] eqn:H. simpl. eapply GetWalletFile_listed; eauto.
  - unfold Model.SignTypedDataV4, getSignerForAddr.
    destruct (GetWalletFile s from) as [s1 r] eqn:H. simpl. eapply GetWalletFile_listed; eauto.
  - destruct (GetWalletFile s addr) as [s1 r] eqn:H. simpl. eapply GetWalletFile_listed; eauto.
  - exact Hl.
  - destruct (notifyNewFiles s [(name, isdir)]) as [s1| |] eqn:Hn; simpl; try exact Hl.
    pose proof (notifyNewFiles_mono _ _ _ Hw Hn) as Hmono.
    apply notifyNewFiles_cache in Hn as [Hcache _].
    intros ks w Hg. rewrite Hcache in Hg. apply Hmono. eapply Hl; eauto.
  - intros ks w Hg. simpl in Hg. rewrite assoc_get_del in Hg.
    destruct (bytes_eqb ks k); [discriminate|]. eapply Hl; eauto.
Qed.

Lemma after_inv (s : state) h : inv s -> inv (after s h).
Proof.
  revert s. induction h as [|o h IH]; intros s Hs; [exact Hs|].
  rewrite after_cons. apply IH, step_inv, Hs.
Qed.

Theorem reachable_inv fs h : inv (after (init_state _ fs) h).
Proof. apply after_inv, inv_init. Qed.

(* every key in the signer cache of a reachable state belongs to an address that GetAccounts lists,
   and is stored under that address's string *)
Theorem cached_keys_listed fs h ks w :
  assoc_get ks (st_cache _ (after (init_state _ fs) h)) = Some w ->
  ks = addr_string (addr_of w) /\ In (addr_of w) (GetAccounts _ (after (init_state _ fs) h)).
Proof.
  intros H. destruct (reachable_inv fs h) as (Hc & _ & Hl). split; [eapply Hc; eauto|eapply Hl; eauto].
Qed.

(* an address that GetAccounts does not list cannot be used: the request fails with "not available"
   and the state is untouched — in every reachable state, whatever the cache holds *)
Lemma unlisted_refused_inv (s : state) a :
  inv s -> ~ In a (st_list _ s) -> GetWalletFile s a = (s, Err ENotAvailable).
Proof.
  intros (Hc & [Hk _] & Hl) Hn. unfold Model.GetWalletFile.
  destruct (assoc_get (addr_string a) (st_cache _ s)) as [w|] eqn:Hg.
  { exfalso. apply Hn. pose proof (Hc _ _ Hg) as Hs. apply addr_string_inj in Hs. rewrite Hs. eapply Hl; eauto. }
  destruct (assoc_get a (st_map _ s)) as [fn|] eqn:Hm; [|reflexivity].
  exfalso. apply Hn, Hk. congruence.
Qed.

Theorem unlisted_refused fs h a :
  let s := after (init_state _ fs) h in
  ~ In a (GetAccounts _ s) -> GetWalletFile s a = (s, Err ENotAvailable).
Proof. intros s Hn. apply unlisted_refused_inv; [apply reachable_inv|exact Hn]. Qed.

Theorem unlisted_refused_sign fs h raw a (t : tx) :
  let s := after (init_state _ fs) h in
  parse_from _ _ _ _ _ E raw = Some a -> ~ In a (GetAccounts _ s) ->
  Sign s raw t = (s, Err ENotAvailable).
Proof.
  intros s Hp Hn. subst s. unfold Model.Sign, getSignerForJSONAccount, getSignerForAddr. rewrite Hp.
  rewrite (unlisted_refused fs h a Hn). reflexivity.
Qed.

Theorem unlisted_refused_typed_data fs h a (d : doc) :
  let s := after (init_state _ fs) h in
  ~ In a (GetAccounts _ s) -> SignTypedDataV4 s a d = (s, Err ENotAvailable).
Proof.
  intros s Hn. subst s. unfold Model.SignTypedDataV4, getSignerForAddr.
  rewrite (unlisted_refused fs h a Hn). reflexivity.
Qed.

End Listed.
